// ---- shared model of the deduplication units: extracted record types and constructors, metrics, xorb construction (from_chunks) ----
//@ extract mdb_shard/src/file_structs.rs const MDB_DEFAULT_FILE_FLAG
//@ end
//@ extract mdb_shard/src/cas_structs.rs const MDB_DEFAULT_CAS_FLAG
//@ end

//@ extract deduplication/src/chunking.rs struct Chunk
//@ end
impl Clone for Chunk {
    #[verifier::external_body]
    fn clone(&self) -> (r: Chunk) ensures r == *self { unimplemented!() }
}
//@ extract mdb_shard/src/file_structs.rs struct FileDataSequenceEntry
//@ end
impl Clone for FileDataSequenceEntry {
    #[verifier::external_body]
    fn clone(&self) -> (r: FileDataSequenceEntry) ensures r == *self { unimplemented!() }
}
impl FileDataSequenceEntry {
//@ extract mdb_shard/src/file_structs.rs in `impl FileDataSequenceEntry` fn new
//@ rules R15 R12
//@ ret r
//@ contract
        requires unpacked_segment_bytes <= u32::MAX, chunk_index_start <= u32::MAX, chunk_index_end <= u32::MAX,
        ensures r.cas_hash == cas_hash, r.cas_flags == 0, r.unpacked_segment_bytes == unpacked_segment_bytes,
            r.chunk_index_start == chunk_index_start, r.chunk_index_end == chunk_index_end,
//@ end
}
//@ extract deduplication/src/dedup_metrics.rs struct DeduplicationMetrics
//@ end
impl Clone for DeduplicationMetrics {
    #[verifier::external_body]
    fn clone(&self) -> (r: DeduplicationMetrics) ensures r == *self { unimplemented!() }
}
impl Copy for DeduplicationMetrics {}
impl DeduplicationMetrics {
    // derived Default: all counters zero (assumed: #[derive(Default)] on a struct of usize fields)
    #[verifier::external_body]
    fn default() -> (r: DeduplicationMetrics)
        ensures r.total_bytes == 0, r.deduped_bytes == 0, r.new_bytes == 0, r.deduped_bytes_by_global_dedup == 0, r.defrag_prevented_dedup_bytes == 0,
            r.total_chunks == 0, r.deduped_chunks == 0, r.new_chunks == 0, r.deduped_chunks_by_global_dedup == 0, r.defrag_prevented_dedup_chunks == 0,
            r.xorb_bytes_uploaded == 0, r.shard_bytes_uploaded == 0, r.total_bytes_uploaded == 0,
    { unimplemented!() }
//@ extract deduplication/src/dedup_metrics.rs in `impl DeduplicationMetrics` fn merge_in
//@ contract
        requires
            old(self).total_bytes + other.total_bytes <= usize::MAX, old(self).deduped_bytes + other.deduped_bytes <= usize::MAX,
            old(self).new_bytes + other.new_bytes <= usize::MAX, old(self).deduped_bytes_by_global_dedup + other.deduped_bytes_by_global_dedup <= usize::MAX,
            old(self).defrag_prevented_dedup_bytes + other.defrag_prevented_dedup_bytes <= usize::MAX,
            old(self).total_chunks + other.total_chunks <= usize::MAX, old(self).deduped_chunks + other.deduped_chunks <= usize::MAX,
            old(self).new_chunks + other.new_chunks <= usize::MAX, old(self).deduped_chunks_by_global_dedup + other.deduped_chunks_by_global_dedup <= usize::MAX,
            old(self).defrag_prevented_dedup_chunks + other.defrag_prevented_dedup_chunks <= usize::MAX,
            old(self).xorb_bytes_uploaded + other.xorb_bytes_uploaded <= usize::MAX, old(self).shard_bytes_uploaded + other.shard_bytes_uploaded <= usize::MAX,
            old(self).total_bytes_uploaded + other.total_bytes_uploaded <= usize::MAX,
        ensures /*@C14*/ metrics_sum(*old(self), *other, *final(self)),
//@ end
}
spec fn metrics_sum(a: DeduplicationMetrics, b: DeduplicationMetrics, c: DeduplicationMetrics) -> bool {
    &&& c.total_bytes == a.total_bytes + b.total_bytes &&& c.deduped_bytes == a.deduped_bytes + b.deduped_bytes
    &&& c.new_bytes == a.new_bytes + b.new_bytes &&& c.deduped_bytes_by_global_dedup == a.deduped_bytes_by_global_dedup + b.deduped_bytes_by_global_dedup
    &&& c.defrag_prevented_dedup_bytes == a.defrag_prevented_dedup_bytes + b.defrag_prevented_dedup_bytes
    &&& c.total_chunks == a.total_chunks + b.total_chunks &&& c.deduped_chunks == a.deduped_chunks + b.deduped_chunks
    &&& c.new_chunks == a.new_chunks + b.new_chunks &&& c.deduped_chunks_by_global_dedup == a.deduped_chunks_by_global_dedup + b.deduped_chunks_by_global_dedup
    &&& c.defrag_prevented_dedup_chunks == a.defrag_prevented_dedup_chunks + b.defrag_prevented_dedup_chunks
    &&& c.xorb_bytes_uploaded == a.xorb_bytes_uploaded + b.xorb_bytes_uploaded &&& c.shard_bytes_uploaded == a.shard_bytes_uploaded + b.shard_bytes_uploaded
    &&& c.total_bytes_uploaded == a.total_bytes_uploaded + b.total_bytes_uploaded
}

// ---- R11 stub: fragmentation heuristics (floating point); every method is arbitrary, so the proofs cover every decision -------------
pub struct DefragPrevention { pub x: u8 }
impl DefragPrevention {
    #[verifier::external_body] pub fn increment_last_range_in_fragmentation_estimate(&mut self, nchunks: usize) { unimplemented!() }
    #[verifier::external_body] pub fn add_range_to_fragmentation_estimate(&mut self, nchunks: usize) { unimplemented!() }
    #[verifier::external_body] pub fn allow_dedup_on_next_range(&mut self, n: usize) -> bool { unimplemented!() }
}

// ---- xorb construction ------------------------------------------------------------------------------------------------------------
//@ extract mdb_shard/src/cas_structs.rs struct CASChunkSequenceHeader
//@ end
//@ extract mdb_shard/src/cas_structs.rs struct CASChunkSequenceEntry
//@ end
//@ extract mdb_shard/src/cas_structs.rs struct MDBCASInfo
//@ end
impl CASChunkSequenceHeader {
//@ extract mdb_shard/src/cas_structs.rs in `impl CASChunkSequenceHeader` fn new
//@ rules R15 R12
//@ ret r
//@ contract
        requires num_entries <= u32::MAX, num_bytes_in_cas <= u32::MAX,
        ensures r.cas_hash == cas_hash, r.num_entries == num_entries, r.num_bytes_in_cas == num_bytes_in_cas, r.cas_flags == 0, r.num_bytes_on_disk == 0,
//@ end
}
impl CASChunkSequenceEntry {
//@ extract mdb_shard/src/cas_structs.rs in `impl CASChunkSequenceEntry` fn new
//@ rules R15 R12
//@ ret r
//@ contract
        requires unpacked_segment_bytes <= u32::MAX, chunk_byte_range_start <= u32::MAX,
        ensures r.chunk_hash == chunk_hash, r.unpacked_segment_bytes == unpacked_segment_bytes, r.chunk_byte_range_start == chunk_byte_range_start,
//@ end
}

spec fn hashes(s: Seq<Chunk>) -> Seq<MerkleHash> { Seq::new(s.len(), |i: int| s[i].hash) }
spec fn chunk_ok(c: Chunk) -> bool { c.data@.len() == len_of(c.hash) }
spec fn chunks_ok(s: Seq<Chunk>) -> bool { forall|i: int| 0 <= i < s.len() ==> chunk_ok(#[trigger] s[i]) }
spec fn hl_view(s: Seq<Chunk>) -> Seq<(MerkleHash, usize)> { Seq::new(s.len(), |i: int| (s[i].hash, s[i].data@.len() as usize)) }

// the published xorb-hash construction is proved against a recursive spec in U-MERKLE; here it is an uninterpreted function of the
// (hash, length) list.  Content addressing (assumed, per call): the hash names exactly this list and is not the zero hash.
spec fn firsts(hl: Seq<(MerkleHash, usize)>) -> Seq<MerkleHash> { Seq::new(hl.len(), |i: int| hl[i].0) }
pub uninterp spec fn cas_hash_spec(hl: Seq<(MerkleHash, usize)>) -> MerkleHash;
#[verifier::external_body]
fn cas_node_hash(hl: &[(MerkleHash, usize)]) -> (r: MerkleHash)
    ensures r == cas_hash_spec(hl@),
        // the real function returns the zero hash for an empty list; a non-empty list never hashes to zero (assumed) and
        // names exactly this chunk list (content addressing, assumed per call)
        hl@.len() == 0 ==> r == zero_hash(),
        hl@.len() > 0 ==> r != zero_hash() && xorb_chunks(r) == firsts(hl@),
{ unimplemented!() }
// R7 outline of `chunks.iter().map(|c| (c.hash, c.data.len())).collect()` (iterator chain): assumed to be the projection it spells
#[verifier::external_body]
fn vx_hash_and_len(chunks: &[Chunk]) -> (r: Vec<(MerkleHash, usize)>)
    ensures r@ == hl_view(chunks@)
{ chunks.iter().map(|c| (c.hash, c.data.len())).collect() }

//@ extract deduplication/src/raw_xorb_data.rs struct RawXorbData
//@ end
spec fn xorb_wf(x: RawXorbData, cs: Seq<Chunk>) -> bool {
    &&& x.cas_info.metadata.cas_hash == cas_hash_spec(hl_view(cs))
    &&& cs.len() > 0 ==> x.cas_info.metadata.cas_hash != zero_hash() && xorb_chunks(x.cas_info.metadata.cas_hash) == hashes(cs)
    &&& x.cas_info.metadata.num_entries == cs.len()
    &&& x.cas_info.metadata.num_bytes_in_cas == sum_len(hashes(cs))
    &&& x.cas_info.chunks@.len() == cs.len()
    &&& x.data@.len() == cs.len()
    &&& forall|i: int| 0 <= i < cs.len() ==> (#[trigger] x.cas_info.chunks@[i]).chunk_hash == cs[i].hash
            && x.cas_info.chunks@[i].unpacked_segment_bytes == cs[i].data@.len()
            && x.cas_info.chunks@[i].chunk_byte_range_start == sum_len(hashes(cs).subrange(0, i))
    &&& forall|i: int| 0 <= i < cs.len() ==> (#[trigger] x.data@[i])@ == cs[i].data@
}
// C15: what may be handed to the store
spec fn xorb_within_limits(x: RawXorbData) -> bool {
    &&& 1 <= x.cas_info.chunks@.len() <= spec_MAX_XORB_CHUNKS()
    &&& x.cas_info.metadata.num_bytes_in_cas <= spec_MAX_XORB_BYTES()
    &&& x.cas_info.metadata.cas_hash != zero_hash()
}
impl RawXorbData {
//@ extract deduplication/src/raw_xorb_data.rs in `impl RawXorbData` fn from_chunks
//@ rules R4g
//@ ret r
//@ subst `let mut chunk_seq_entries =` => `let mut chunk_seq_entries: Vec<CASChunkSequenceEntry> =` :: type annotation only (the spliced invariant mentions the variable before inference fixes its type; rustc checks it)
//@ subst `let mut data =` => `let mut data: Vec<Arc<[u8]>> =` :: type annotation only
//@ subst `chunks.iter().map(|c| (c.hash, c.data.len())).collect()` => `vx_hash_and_len(chunks)` :: R7 outline of an iterator chain (projection to (hash, len) pairs)
//@ contract
        requires xorb_config_ok(), chunks_ok(chunks@),
            /*@C15*/ chunks@.len() <= spec_MAX_XORB_CHUNKS(), sum_len(hashes(chunks@)) <= spec_MAX_XORB_BYTES(),
        ensures /*@C02,C15*/ xorb_wf(r, chunks@),
//@ loop 1
            invariant
                vx_n1 <= chunks@.len(), chunks_ok(chunks@), xorb_config_ok(),
                chunks@.len() <= spec_MAX_XORB_CHUNKS(), sum_len(hashes(chunks@)) <= spec_MAX_XORB_BYTES(),
                pos == sum_len(hashes(chunks@).subrange(0, vx_n1 as int)),
                data@.len() == vx_n1, chunk_seq_entries@.len() == vx_n1,
                forall|i: int| 0 <= i < vx_n1 ==> (#[trigger] chunk_seq_entries@[i]).chunk_hash == chunks@[i].hash
                    && chunk_seq_entries@[i].unpacked_segment_bytes == chunks@[i].data@.len()
                    && chunk_seq_entries@[i].chunk_byte_range_start == sum_len(hashes(chunks@).subrange(0, i)),
                forall|i: int| 0 <= i < vx_n1 ==> (#[trigger] data@[i])@ == chunks@[i].data@,
            decreases chunks@.len() - vx_n1,
//@ before `chunk_seq_entries.push(`
            proof {
                let hs = hashes(chunks@);
                let k = (vx_n1 - 1) as int;
                lemma_sum_len_subrange(hs, 0, k);
                lemma_sum_len_subrange(hs, 0, k + 1);
                lemma_sum_len_split(hs, 0, k, k + 1);
                lemma_sum_len_one(hs, k);
                assert(hs[k] == chunks@[k].hash);
                assert(hs.subrange(0, hs.len() as int) =~= hs);
                lemma_sum_len_subrange(hs, 0, hs.len() as int);
            }
//@ before `let num_bytes = pos;`
        proof { assert(hashes(chunks@).subrange(0, chunks@.len() as int) =~= hashes(chunks@)); assert(firsts(hl_view(chunks@)) =~= hashes(chunks@)); }
//@ end
//@ extract deduplication/src/raw_xorb_data.rs in `impl RawXorbData` fn hash
//@ ret r
//@ contract
        ensures r == self.cas_info.metadata.cas_hash,
//@ end
}

