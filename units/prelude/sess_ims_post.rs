// shared by U-IMS (proves them) and U-SESSSHARD (whose stubs assume them): the abstract view of the in-memory shard after an insert
// ---- total of a size function over a finite map (used for the shard-size accounting invariant) -----------------------------------
spec fn map_total<K, V>(m: Map<K, V>, f: spec_fn(V) -> int) -> int decreases m.dom().len() {
    if m.dom().finite() && m.dom().len() > 0 { let k = m.dom().choose(); f(m[k]) + map_total(m.remove(k), f) } else { 0 }
}
proof fn lemma_total_nonneg<K, V>(m: Map<K, V>, f: spec_fn(V) -> int)
    requires forall|v: V| #[trigger] f(v) >= 0,
    ensures map_total(m, f) >= 0,
    decreases m.dom().len(),
{
    if m.dom().finite() && m.dom().len() > 0 { lemma_total_nonneg(m.remove(m.dom().choose()), f); }
}
// independence of the order in which the keys are taken out
proof fn lemma_total_remove<K, V>(m: Map<K, V>, f: spec_fn(V) -> int, k: K)
    requires m.dom().finite(), m.contains_key(k),
    ensures map_total(m, f) == f(m[k]) + map_total(m.remove(k), f),
    decreases m.dom().len(),
{
    let c = m.dom().choose();
    assert(m.dom().len() > 0) by { if m.dom().len() == 0 { assert(m.dom() =~= Set::<K>::empty()); } }
    assert(m.dom().contains(c));
    if c != k {
        lemma_total_remove(m.remove(c), f, k);
        lemma_total_remove(m.remove(k), f, c);
        assert(m.remove(c).remove(k) =~= m.remove(k).remove(c));
    }
}
proof fn lemma_total_insert<K, V>(m: Map<K, V>, f: spec_fn(V) -> int, k: K, v: V)
    requires m.dom().finite(),
    ensures map_total(m.insert(k, v), f) == map_total(m, f) + f(v) - (if m.contains_key(k) { f(m[k]) } else { 0 }),
{
    let m1 = m.insert(k, v);
    lemma_total_remove(m1, f, k);
    assert(m1.remove(k) =~= m.remove(k));
    if m.contains_key(k) { lemma_total_remove(m, f, k); } else { assert(m.remove(k) =~= m); }
}
// serialized size of a stored block: 48-byte header + 48 per chunk (cas section), 12 (cas lookup row), 16 per chunk (chunk lookup rows)
spec fn cas_rec_size(a: Arc<MDBCASInfo>) -> int { 48 + 48 * (a.chunks@.len() as int) + 12 + 16 * (a.chunks@.len() as int) }
// serialized size of a file record + 12 (file lookup row)
spec fn file_rec_size(f: MDBFileInfo) -> int { spec_file_num_bytes(f) as int + 12 }
spec fn cas_size_fn() -> spec_fn(Arc<MDBCASInfo>) -> int { |a: Arc<MDBCASInfo>| cas_rec_size(a) }
spec fn file_size_fn() -> spec_fn(MDBFileInfo) -> int { |f: MDBFileInfo| file_rec_size(f) }
// THE ACCOUNTING INVARIANT (stated here by U-IMS; no shared text from U-SHWRITE existed when this was written):
// counter == sum over stored blocks + sum over stored file records; every stored block has a u32 chunk count
spec fn size_inv(s: MDBInMemoryShard) -> bool {
    &&& s.current_shard_file_size == map_total(s.cas_content@, cas_size_fn()) + map_total(s.file_content@, file_size_fn())
    &&& forall|h: MerkleHash| s.cas_content@.contains_key(h) ==> (#[trigger] s.cas_content@[h]).chunks@.len() <= u32::MAX
}
// idx is the LAST position below `upto` at which hash h occurs in the chunk list
spec fn last_occ(chunks: Seq<CASChunkSequenceEntry>, upto: int, h: MerkleHash, idx: int) -> bool {
    0 <= idx < upto && chunks[idx].chunk_hash == h && forall|m: int| idx < m < upto ==> (#[trigger] chunks[m]).chunk_hash != h
}
spec fn ims_add_cas_post(o: MDBInMemoryShard, n: MDBInMemoryShard, info: MDBCASInfo) -> bool {
    let hash = info.metadata.cas_hash;
    // xorb map: exactly this block under its hash (an earlier block with the same hash is replaced), nothing else touched
    &&& n.cas_content@.contains_key(hash) && *n.cas_content@[hash] == info
    &&& n.cas_content@ == o.cas_content@.insert(hash, n.cas_content@[hash])
    &&& n.file_content@ == o.file_content@
    // chunk lookup: key set = old keys + the block's chunk hashes
    &&& forall|h: MerkleHash| #[trigger] n.chunk_hash_lookup@.contains_key(h) <==>
            (o.chunk_hash_lookup@.contains_key(h) || exists|i: int| 0 <= i < info.chunks@.len() && #[trigger] info.chunks@[i].chunk_hash == h)
    // frame: hashes that do not occur in the block keep their entry
    &&& forall|h: MerkleHash| (forall|i: int| 0 <= i < info.chunks@.len() ==> #[trigger] info.chunks@[i].chunk_hash != h)
            && o.chunk_hash_lookup@.contains_key(h) ==> #[trigger] n.chunk_hash_lookup@[h] == o.chunk_hash_lookup@[h]
    // WHO WINS: the code inserts unconditionally, so every chunk hash of the block maps to THIS block whatever it mapped to before
    // (newest block wins), at the LAST index at which the hash occurs in the block
    &&& forall|i: int| 0 <= i < info.chunks@.len() ==> *(#[trigger] n.chunk_hash_lookup@[info.chunks@[i].chunk_hash]).0 == info
    &&& forall|i: int| 0 <= i < info.chunks@.len() ==> last_occ(info.chunks@, info.chunks@.len() as int, (#[trigger] info.chunks@[i]).chunk_hash,
                                                                 n.chunk_hash_lookup@[info.chunks@[i].chunk_hash].1 as int)
    // size accounting: a fresh key grows the counter by exactly 48 + 48n (cas section) + 16n (chunk lookup) + 12 (cas lookup row);
    // a replaced key by that minus the replaced block's own size; the accounting invariant is preserved
    &&& n.current_shard_file_size == o.current_shard_file_size + 48 + 48 * info.chunks@.len() + 16 * info.chunks@.len() + 12
            - (if o.cas_content@.contains_key(hash) { cas_rec_size(o.cas_content@[hash]) } else { 0 })
    &&& size_inv(n)
}
spec fn ims_add_file_post(o: MDBInMemoryShard, n: MDBInMemoryShard, f: MDBFileInfo) -> bool {
    &&& n.file_content@ == o.file_content@.insert(f.metadata.file_hash, f)
    &&& n.cas_content@ == o.cas_content@
    &&& n.chunk_hash_lookup@ == o.chunk_hash_lookup@
    // size accounting: the record's serialized size + 12 (file lookup row), minus the size of a record it replaces; invariant preserved
    &&& n.current_shard_file_size == o.current_shard_file_size + spec_file_num_bytes(f) + 12
            - (if o.file_content@.contains_key(f.metadata.file_hash) { file_rec_size(o.file_content@[f.metadata.file_hash]) } else { 0 })
    &&& size_inv(n)
}
