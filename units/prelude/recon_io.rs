// ---- shared by U-RECON and U-RECONPLAN: error type, output writer model, R8 epilogue helper -----------------------------
// ---- stubs for dependencies (network, cache, tokio, OS files are outside reach) ---------------------------------------
pub enum CasClientError { Other(String), InvalidRange, InvalidArguments, IOError, FileNotFound(MerkleHash) }
pub type Result<T> = std::result::Result<T, CasClientError>;
#[verifier::external_body] pub fn vx_abort() ensures false { panic!() }
// a writer obtained from `OutputProvider::get_writer_at(start)` (a seeked file handle / buffer cursor)
#[verifier::external_body] pub struct OutWriter { _p: () }
impl OutWriter {
    pub uninterp spec fn offset(&self) -> int;          // position it was opened at
    pub uninterp spec fn written(&self) -> Seq<u8>;     // bytes written through it so far, in order
    #[verifier::external_body]
    pub fn write_all(&mut self, buf: &[u8]) -> (r: Result<()>)
        ensures final(self).offset() == old(self).offset(),
            r is Ok ==> final(self).written() == old(self).written() + buf@,
    { unimplemented!() }
    #[verifier::external_body]
    pub fn flush(&mut self) -> (r: Result<()>)
        ensures final(self).offset() == old(self).offset(), final(self).written() == old(self).written(),
    { unimplemented!() }
}
#[verifier::external_body] pub struct OutputProvider { _p: () }
impl OutputProvider {
    #[verifier::external_body]
    pub fn get_writer_at(&self, start: u64) -> (r: Result<OutWriter>)
        ensures r matches Ok(w) ==> w.offset() == start && w.written() == Seq::<u8>::empty(),
    { unimplemented!() }
}
// R8 epilogue helper: pairs the region's own tail expression with the locals the contract must speak about (no logic)
pub trait VxWith<W> { type Out; fn vx_with(self, w: W) -> Self::Out; }
impl VxWith<OutWriter> for Result<u64> {
    type Out = Result<(u64, OutWriter)>;
    fn vx_with(self, w: OutWriter) -> (r: Result<(u64, OutWriter)>)
        ensures match self { Ok(l) => r matches Ok(p) && p.0 == l && p.1 == w, Err(e) => r is Err },
    { match self { Ok(l) => Ok((l, w)), Err(e) => Err(e) } }
}

