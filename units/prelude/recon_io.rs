// ---- shared by U-RECON and U-RECONPLAN: error type, output writer model, R8 epilogue helper -----------------------------
// ---- stubs for dependencies (network, cache, tokio, OS files are outside reach) ---------------------------------------
pub enum CasClientError { Other(String), InvalidRange, InvalidArguments, IOError, FileNotFound(MerkleHash) }
pub type Result<T> = std::result::Result<T, CasClientError>;
#[verifier::external_body] pub fn vx_abort() ensures false { panic!() }
// ---- the output model (one text, two uses) --------------------------------------------------------------------------------
// An output (file on disk / shared in-memory buffer) is a byte image `Seq<u8>`.  A writer handle carries three ghost views:
//   pre()      the image of the output at the moment the handle was obtained
//   content()  the image after the operations done THROUGH THIS HANDLE so far (other handles' effects compose by `apply_writes`)
//   pos()      the handle's cursor
// `write_at(f, o, d)` (reconplan_math.rs) is the positioned write: bytes [o, o+|d|) := d, a gap between |f| and o reads as zero
// (POSIX sparse-file semantics; `Cursor<Vec<u8>>` zero-fills likewise), an empty write changes nothing.
// The two predicates below are PROVED for the real providers (`FileProvider::get_writer_at`, `BufferProvider::get_writer_at`,
// `ThreadSafeBuffer::write`, items (iv) of U-RECONPLAN) and are the contract of the `OutWriter` / `OutputProvider` stubs that the
// writers' proofs use.
// get_writer_at(start): the existing image is left UNCHANGED and the cursor stands at `start` — for every start, 0 included
pub open spec fn writer_at_post(pre: Seq<u8>, content: Seq<u8>, pos: int, start: u64) -> bool { content == pre && pos == start }
// write_all(buf): one positioned write at the cursor, cursor advances by |buf|
pub open spec fn write_post(c0: Seq<u8>, p0: int, buf: Seq<u8>, c1: Seq<u8>, p1: int) -> bool { c1 == write_at(c0, p0, buf) && p1 == p0 + buf.len() }

// the `Box<dyn Write + Send>` that `OutputProvider::get_writer_at(start)` returns
#[verifier::external_body] pub struct OutWriter { _p: () }
impl OutWriter {
    pub uninterp spec fn pre(&self) -> Seq<u8>;
    pub uninterp spec fn content(&self) -> Seq<u8>;
    pub uninterp spec fn pos(&self) -> int;
    #[verifier::external_body]
    pub fn write_all(&mut self, buf: &[u8]) -> (r: Result<()>)
        ensures final(self).pre() == old(self).pre(),
            r is Ok ==> write_post(old(self).content(), old(self).pos(), buf@, final(self).content(), final(self).pos()),
    { unimplemented!() }
    #[verifier::external_body]
    pub fn flush(&mut self) -> (r: Result<()>)
        ensures final(self).pre() == old(self).pre(), final(self).content() == old(self).content(), final(self).pos() == old(self).pos(),
    { unimplemented!() }
}
#[verifier::external_body] pub struct OutputProvider { _p: () }
impl OutputProvider {
    #[verifier::external_body]
    pub fn get_writer_at(&self, start: u64) -> (r: Result<OutWriter>)
        ensures r matches Ok(w) ==> writer_at_post(w.pre(), w.content(), w.pos(), start),
    { unimplemented!() }
}
// R8 epilogue helper: pairs the region's own tail expression with the locals the contract must speak about (no logic)
pub trait VxWith<W> { type Out; fn vx_with(self, w: W) -> Self::Out; }
impl<T, W> VxWith<W> for Result<T> {
    type Out = Result<(T, W)>;
    fn vx_with(self, w: W) -> (r: Result<(T, W)>)
        ensures match self { Ok(l) => r matches Ok(p) && p.0 == l && p.1 == w, Err(e) => r is Err },
    { match self { Ok(l) => Ok((l, w)), Err(e) => Err(e) } }
}

