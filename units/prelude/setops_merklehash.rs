// ---- MerkleHash stub (merklehash/src/data_hash.rs `DataHash([u64;4])`) -------------------------------------------------
// ASSUMED (checked on the real crate by Kani unit K-HASHBYTES): `PartialEq::eq` is equality of the four words,
// `Ord::cmp` is `self.0.cmp(&other.0)` = lexicographic order on the four u64 words, `PartialOrd` = Some(cmp).
pub struct MerkleHash(pub [u64; 4]);
impl Clone for MerkleHash {
    #[verifier::external_body]
    fn clone(&self) -> (r: MerkleHash) ensures r == *self { unimplemented!() }
}
impl Copy for MerkleHash {}

pub open spec fn hash_words_eq(a: MerkleHash, b: MerkleHash) -> bool {
    a.0[0] == b.0[0] && a.0[1] == b.0[1] && a.0[2] == b.0[2] && a.0[3] == b.0[3]
}
// strict lexicographic order on the words, word 0 most significant
pub open spec fn hash_lt(a: MerkleHash, b: MerkleHash) -> bool {
    a.0[0] < b.0[0] || (a.0[0] == b.0[0] && (
    a.0[1] < b.0[1] || (a.0[1] == b.0[1] && (
    a.0[2] < b.0[2] || (a.0[2] == b.0[2] &&
    a.0[3] < b.0[3])))))
}
pub open spec fn hash_cmp(a: MerkleHash, b: MerkleHash) -> Ordering {
    if hash_lt(a, b) { Ordering::Less } else if hash_lt(b, a) { Ordering::Greater } else { Ordering::Equal }
}
// trichotomy: exactly one of a<b, a==b, b<a (extensional equality of the word array)
pub proof fn lemma_hash_order_total(a: MerkleHash, b: MerkleHash)
    ensures
        hash_lt(a, b) || a == b || hash_lt(b, a),
        !(hash_lt(a, b) && a == b), !(hash_lt(b, a) && a == b), !(hash_lt(a, b) && hash_lt(b, a)),
        (hash_cmp(a, b) == Ordering::Equal) <==> a == b,
{
    if hash_words_eq(a, b) { assert(a.0 =~= b.0); }
}
impl PartialEqSpecImpl for MerkleHash {
    open spec fn obeys_eq_spec() -> bool { true }
    open spec fn eq_spec(&self, other: &Self) -> bool { *self == *other }
}
impl PartialEq for MerkleHash {
    #[verifier::external_body]
    fn eq(&self, other: &Self) -> (r: bool) { unimplemented!() }
}
impl Eq for MerkleHash {}
impl PartialOrdSpecImpl for MerkleHash {
    open spec fn obeys_partial_cmp_spec() -> bool { true }
    open spec fn partial_cmp_spec(&self, other: &Self) -> Option<Ordering> { Some(hash_cmp(*self, *other)) }
}
impl PartialOrd for MerkleHash {
    #[verifier::external_body]
    fn partial_cmp(&self, other: &Self) -> (r: Option<Ordering>) { unimplemented!() }
}
impl OrdSpecImpl for MerkleHash {
    open spec fn obeys_cmp_spec() -> bool { true }
    open spec fn cmp_spec(&self, other: &Self) -> Ordering { hash_cmp(*self, *other) }
}
impl Ord for MerkleHash {
    #[verifier::external_body]
    fn cmp(&self, other: &Self) -> (r: Ordering) { unimplemented!() }
}
