// shared by U-SHQ and U-SFMQ: hmac stub, error types, reader traits
// ---- dependencies ---------------------------------------------------------------------------------------------------
pub type HMACKey = MerkleHash;
// blake3 keyed hash: opaque
pub uninterp spec fn spec_hmac(h: MerkleHash, key: MerkleHash) -> MerkleHash;
impl MerkleHash {
    #[verifier::external_body]
    pub fn hmac(&self, key: HMACKey) -> (r: MerkleHash) ensures r == spec_hmac(*self, key) { unimplemented!() }
    // `impl AsRef<DataHash> for DataHash { fn as_ref(&self) -> &DataHash { self } }`
    pub fn as_ref(&self) -> (r: &MerkleHash) ensures *r == *self { self }
}

pub struct IoError { pub x: u8 }                       // std::io::Error
pub enum MDBShardError { IOError(IoError), Other(u8) }  // mdb_shard::error::MDBShardError (`#[from] io::Error`)
impl vstd::std_specs::convert::FromSpecImpl<IoError> for MDBShardError {
    open spec fn obeys_from_spec() -> bool { true }
    open spec fn from_spec(e: IoError) -> Self { MDBShardError::IOError(e) }
}
impl From<IoError> for MDBShardError {
    fn from(e: IoError) -> (r: Self) { MDBShardError::IOError(e) }
}
pub type Result<T> = std::result::Result<T, MDBShardError>;
pub enum SeekFrom { Start(u64), End(i64), Current(i64) } // std::io::SeekFrom

// The reader: a positioned byte stream. `bytes` is the whole file, `pos` the cursor (may lie past the end).
pub trait VxStream {
    spec fn bytes(&self) -> Seq<u8>;
    spec fn pos(&self) -> int;
}
pub trait Read: VxStream { }
pub trait Seek: VxStream {
    // std::io::Seek::seek for files / cursors: absolute or relative repositioning, the content is untouched
    fn seek(&mut self, to: SeekFrom) -> (r: std::result::Result<u64, IoError>)
        ensures
            final(self).bytes() == old(self).bytes(),
            r is Ok ==> match to {
                SeekFrom::Start(n) => final(self).pos() == n,
                SeekFrom::Current(d) => final(self).pos() == old(self).pos() + d && final(self).pos() >= 0,
                SeekFrom::End(d) => final(self).pos() == old(self).bytes().len() + d && final(self).pos() >= 0,
            };
}
