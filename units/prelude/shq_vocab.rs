// shared by U-SHQ and U-SFMQ: record codec names, shard view, keyed comparison, on-disk truthfulness
// ---- the 48-byte record codec (assumed here; field order checked against `serialize` by K-ENTRYCODEC) ---------------
uninterp spec fn decode_header(rec: Seq<u8>) -> CASChunkSequenceHeader;
uninterp spec fn decode_entry(rec: Seq<u8>) -> CASChunkSequenceEntry;

// ---- shard view: the cas-info section is a flat run of 48-byte records starting at `base`; a block at flat index b is a
// header record followed by `num_entries` entry records -------------------------------------------------------------------
spec fn rec(bytes: Seq<u8>, base: int, idx: int) -> Seq<u8> { bytes.subrange(base + 48 * idx, base + 48 * idx + 48) }
spec fn blk_header(bytes: Seq<u8>, base: int, b: int) -> CASChunkSequenceHeader { decode_header(rec(bytes, base, b)) }
spec fn blk_entry(bytes: Seq<u8>, base: int, b: int, j: int) -> CASChunkSequenceEntry { decode_entry(rec(bytes, base, b + 1 + j)) }
spec fn blk_entries(bytes: Seq<u8>, base: int, b: int) -> Seq<CASChunkSequenceEntry> {
    Seq::new(blk_header(bytes, base, b).num_entries as nat, |j: int| blk_entry(bytes, base, b, j))
}
spec fn is_bookend(h: CASChunkSequenceHeader) -> bool { h.cas_hash == bookend_hash() }
pub uninterp spec fn bookend_hash() -> MerkleHash;
// flat indices of the block headers of the section, walking header -> next header until the bookend / end of file
spec fn block_starts(bytes: Seq<u8>, base: int, b: int, fuel: nat) -> Seq<int> decreases fuel {
    if fuel == 0 || b < 0 || base + 48 * b + 48 > bytes.len() || is_bookend(blk_header(bytes, base, b)) { Seq::empty() }
    else { seq![b] + block_starts(bytes, base, b + 1 + blk_header(bytes, base, b).num_entries, (fuel - 1) as nat) }
}
// the section as a sequence of (header, entries)
spec fn cas_section(bytes: Seq<u8>, base: int) -> Seq<(CASChunkSequenceHeader, Seq<CASChunkSequenceEntry>)> {
    block_starts(bytes, base, 0, bytes.len()).map(|i: int, b: int| (blk_header(bytes, base, b), blk_entries(bytes, base, b)))
}

// a candidate position the lookup table of a well-formed shard can name: the block lies inside the file, the chunk offset
// inside the block, and the block's byte total fits the header's u32 `num_bytes_in_cas`
spec fn valid_pos(bytes: Seq<u8>, base: int, b: int, off: int) -> bool {
    &&& 0 <= base && 0 <= b
    &&& bytes.len() <= i64::MAX
    &&& base + 48 * (b + 1 + blk_header(bytes, base, b).num_entries) <= bytes.len()
    &&& 0 <= off < blk_header(bytes, base, b).num_entries
    &&& sum_unpacked(blk_entries(bytes, base, b), 0, blk_header(bytes, base, b).num_entries as int) <= u32::MAX
}

// what the chunk lookup table of a well-formed shard (as written by `serialize_from`) may name: a position inside a block
// of the cas section
spec fn lookup_pos_ok(bytes: Seq<u8>, base: int, b: int, off: int) -> bool {
    valid_pos(bytes, base, b, off) && block_starts(bytes, base, 0, bytes.len()).contains(b)
}

// ---- the contract of `MDBShardInfo::chunk_hash_dedup_query_direct` as predicates, so that U-SHQ (which proves it) and
// U-SFMQ (whose stub assumes it) use literally the same text ------------------------------------------------------------
spec fn direct_pre(bytes: Seq<u8>, info: MDBShardInfo, cas_entry_index: u32, cas_chunk_offset: u32) -> bool {
    valid_pos(bytes, info.metadata.cas_info_offset as int, cas_entry_index as int, cas_chunk_offset as int)
}
spec fn direct_post(bytes: Seq<u8>, info: MDBShardInfo, q: Seq<MerkleHash>, cas_entry_index: u32, cas_chunk_offset: u32,
                    r: Result<Option<(usize, FileDataSequenceEntry)>>) -> bool {
    match r {
        Ok(Some((n, fse))) => truthful(
                blk_header(bytes, info.metadata.cas_info_offset as int, cas_entry_index as int),
                blk_entries(bytes, info.metadata.cas_info_offset as int, cas_entry_index as int),
                info.metadata.chunk_hash_hmac_key, q, n as int, fse)
            && fse.chunk_index_start == cas_chunk_offset
            && fse.cas_flags == blk_header(bytes, info.metadata.cas_info_offset as int, cas_entry_index as int).cas_flags,
        _ => true,
    }
}

// the content of the shard file at `s.path` (shard files are immutable, content-addressed)
uninterp spec fn file_bytes(s: MDBShardFile) -> Seq<u8>;
