// shared by U-IMS, U-SHQ, U-SFMQ: sum of the unpacked lengths of chunks [a, b)
spec fn sum_unpacked(s: Seq<CASChunkSequenceEntry>, a: int, b: int) -> int decreases b - a {
    if a >= b { 0 } else { sum_unpacked(s, a, b - 1) + s[b - 1].unpacked_segment_bytes as int }
}
