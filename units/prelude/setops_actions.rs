// ---- shared by U-SETOPS (which proves them for the real functions) and U-SETOPSTREAM (which uses them as callee contracts) ----
// ================= the meaning of an action pair (what set_operation's `match action[i]` does with it) ==============
// side i's current record is written to the output unchanged
spec fn copied(a: NextAction) -> bool { a is CopyToOut }
// side i's reader moves to its next record
spec fn advanced(a: NextAction) -> bool { a is CopyToOut || a is SkipOver }
// `Merge` in slot 0 (slot 1 `Nothing`): one merged record is written, both sides advance
spec fn is_merge(acts: [NextAction; 2]) -> bool { acts[0] is Merge && acts[1] is Nothing }
spec fn adv0(acts: [NextAction; 2]) -> bool { advanced(acts[0]) || is_merge(acts) }
spec fn adv1(acts: [NextAction; 2]) -> bool { advanced(acts[1]) || is_merge(acts) }
// number of records written for this step
spec fn n_written(acts: [NextAction; 2]) -> int {
    (if copied(acts[0]) { 1int } else { 0 }) + (if copied(acts[1]) { 1int } else { 0 }) + (if acts[0] is Merge { 1int } else { 0 }) + (if acts[1] is Merge { 1int } else { 0 })
}
spec fn pair(a: NextAction, b: NextAction, acts: [NextAction; 2]) -> bool { acts[0] == a && acts[1] == b }

// ---- the complete action table of C10 over keys ---------------------------------------------------------------------
// every combination of None/Some and key order has exactly one action pair
spec fn key_table(k1: Option<MerkleHash>, k2: Option<MerkleHash>, op: MDBSetOperation) -> Option<(NextAction, NextAction)> {
    match (k1, k2) {
        (None, None) => None,
        // only the first has records left: union takes it, difference (second minus first) drops it
        (Some(_), None) => Some((if op is Union { NextAction::CopyToOut } else { NextAction::SkipOver }, NextAction::Nothing)),
        // only the second has records left: both operations take it
        (None, Some(_)) => Some((NextAction::Nothing, NextAction::CopyToOut)),
        (Some(a), Some(b)) =>
            if hash_lt(a, b) {
                // a is not in the second (sorted): union takes it, difference drops it; b waits
                Some((if op is Union { NextAction::CopyToOut } else { NextAction::SkipOver }, NextAction::Nothing))
            } else if a == b {
                // same key: union writes exactly one copy, difference none; both advance
                Some((if op is Union { NextAction::CopyToOut } else { NextAction::SkipOver }, NextAction::SkipOver))
            } else {
                // b is not in the first (sorted): both operations take it; a waits
                Some((NextAction::Nothing, NextAction::CopyToOut))
            },
    }
}
spec fn deref_opt(h: Option<&MerkleHash>) -> Option<MerkleHash> { match h { Some(x) => Some(*x), None => None } }
spec fn as_pair(r: Option<[NextAction; 2]>) -> Option<(NextAction, NextAction)> { match r { Some(a) => Some((a[0], a[1])), None => None } }

// ---- C10 stated from the property text, independently of the table; the code is proved to satisfy BOTH -------------
spec fn key_meaning(k1: Option<MerkleHash>, k2: Option<MerkleHash>, op: MDBSetOperation, acts: [NextAction; 2]) -> bool {
    // progress: some side advances
    &&& adv0(acts) || adv1(acts)
    // keyed records are never merged
    &&& !(acts[0] is Merge) && !(acts[1] is Merge)
    // a side without a current record is untouched
    &&& (k1 is None ==> acts[0] is Nothing) && (k2 is None ==> acts[1] is Nothing)
    // Union: the smaller key is copied and advanced, the larger untouched; equal keys: exactly one copy, both advance
    &&& op is Union ==> (match (k1, k2) {
            (Some(a), Some(b)) => (hash_lt(a, b) ==> copied(acts[0]) && acts[1] is Nothing)
                && (hash_lt(b, a) ==> copied(acts[1]) && acts[0] is Nothing)
                && (a == b ==> n_written(acts) == 1 && adv0(acts) && adv1(acts)),
            (Some(a), None) => copied(acts[0]),
            (None, Some(b)) => copied(acts[1]),
            (None, None) => false,
        })
    // Difference (second minus first): nothing of the first is ever written; the second's record is written iff the
    // first is exhausted or its current key is larger (by sortedness the key is then not in the first); an equal key
    // drops both; a smaller first key is skipped while the second waits
    &&& op is Difference ==> !copied(acts[0]) && (match (k1, k2) {
            (Some(a), Some(b)) => (copied(acts[1]) <==> hash_lt(b, a))
                && (a == b ==> adv0(acts) && adv1(acts) && n_written(acts) == 0)
                && (hash_lt(a, b) ==> adv0(acts) && acts[1] is Nothing)
                && (hash_lt(b, a) ==> acts[0] is Nothing),
            (Some(a), None) => adv0(acts) && n_written(acts) == 0,
            (None, Some(b)) => copied(acts[1]),
            (None, None) => false,
        })
}

// every flag set in `b` is set in `a`
spec fn flag_superset(a: u32, b: u32) -> bool { b & !a == 0 }

// the complete table for file-info records: as the key table, except that under Union two records of the same file give
// the richer variant (flag superset; first on ties) and a Merge when neither is richer
spec fn file_table(f1: Option<FileDataSequenceHeader>, f2: Option<FileDataSequenceHeader>, op: MDBSetOperation) -> Option<(NextAction, NextAction)> {
    match (f1, f2) {
        (Some(a), Some(b)) if a.file_hash == b.file_hash && op is Union =>
            if flag_superset(a.file_flags, b.file_flags) { Some((NextAction::CopyToOut, NextAction::SkipOver)) }
            else if flag_superset(b.file_flags, a.file_flags) { Some((NextAction::SkipOver, NextAction::CopyToOut)) }
            else { Some((NextAction::Merge, NextAction::Nothing)) },
        _ => key_table(file_key(f1), file_key(f2), op),
    }
}
spec fn file_key(f: Option<FileDataSequenceHeader>) -> Option<MerkleHash> { match f { Some(x) => Some(x.file_hash), None => None } }
spec fn deref_hdr(h: Option<&FileDataSequenceHeader>) -> Option<FileDataSequenceHeader> { match h { Some(x) => Some(*x), None => None } }

spec fn file_meaning(f1: Option<FileDataSequenceHeader>, f2: Option<FileDataSequenceHeader>, op: MDBSetOperation, acts: [NextAction; 2]) -> bool {
    let same_file_union = op is Union && f1 is Some && f2 is Some && f1->0.file_hash == f2->0.file_hash;
    &&& adv0(acts) || adv1(acts)
    &&& !(acts[1] is Merge) && (acts[0] is Merge ==> is_merge(acts))
    &&& (f1 is None ==> acts[0] is Nothing) && (f2 is None ==> acts[1] is Nothing)
    // same file under Union: exactly one record written, both advance; it is the richer (flag-superset) side, and a
    // Merge iff neither side's flags contain the other's
    &&& same_file_union ==> {
            let a = f1->0.file_flags; let b = f2->0.file_flags;
            &&& n_written(acts) == 1 && adv0(acts) && adv1(acts)
            &&& copied(acts[0]) ==> flag_superset(a, b)
            &&& copied(acts[1]) ==> flag_superset(b, a)
            &&& is_merge(acts) <==> (!flag_superset(a, b) && !flag_superset(b, a))
        }
    // in every other case the decision is the key decision on the file hashes
    &&& !same_file_union ==> key_meaning(file_key(f1), file_key(f2), op, acts)
}

// the contracts of the two decision functions, as one predicate each
spec fn gna_post(h1: Option<&MerkleHash>, h2: Option<&MerkleHash>, op: MDBSetOperation, r: Option<[NextAction; 2]>) -> bool {
    &&& as_pair(r) == key_table(deref_opt(h1), deref_opt(h2), op)
    &&& ((h1 is None && h2 is None) <==> r is None)
    &&& (r is Some ==> key_meaning(deref_opt(h1), deref_opt(h2), op, r->0))
}
spec fn gnaf_post(h1: Option<&FileDataSequenceHeader>, h2: Option<&FileDataSequenceHeader>, op: MDBSetOperation, r: Option<[NextAction; 2]>) -> bool {
    &&& as_pair(r) == file_table(deref_hdr(h1), deref_hdr(h2), op)
    &&& ((h1 is None && h2 is None) <==> r is None)
    &&& (r is Some ==> file_meaning(deref_hdr(h1), deref_hdr(h2), op, r->0))
}
