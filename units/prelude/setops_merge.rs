// ---- shared by U-SETOPWRAP (specification of the wrappers) and U-SETOPSTREAM (proved for the streaming loop of set_operation) ----
// ---- the specification of union / difference over section views: the ordered two-way merge driven by U-SETOPS' tables --
spec fn hd<T>(s: Seq<T>) -> Option<T> { if s.len() > 0 { Some(s[0]) } else { None } }
spec fn cas_key(h: Option<CASChunkSequenceHeader>) -> Option<MerkleHash> { match h { Some(x) => Some(x.cas_hash), None => None } }
spec fn emit<T>(a: NextAction, x: Option<T>) -> Seq<T> { if a is CopyToOut && x is Some { seq![x->0] } else { Seq::empty() } }
spec fn rest<T>(a: NextAction, s: Seq<T>) -> Seq<T> { if (a is CopyToOut || a is SkipOver) && s.len() > 0 { s.drop_first() } else { s } }
#[verifier::opaque]
spec fn merge_cas(a: Seq<CASChunkSequenceHeader>, b: Seq<CASChunkSequenceHeader>, op: MDBSetOperation) -> Seq<CASChunkSequenceHeader>
    decreases a.len() + b.len()
{
    match key_table(cas_key(hd(a)), cas_key(hd(b)), op) {
        None => Seq::empty(),
        Some((x, y)) =>
            // (the guard is always true: lemma_merge_progress; it only makes the definition's termination evident)
            if rest(x, a).len() + rest(y, b).len() < a.len() + b.len() { emit(x, hd(a)) + emit(y, hd(b)) + merge_cas(rest(x, a), rest(y, b), op) } else { Seq::empty() },
    }
}
// the merged header of two records of the same file: the first one's hash and entry count, union of the defined flags
spec fn merged_header(a: FileDataSequenceHeader, b: FileDataSequenceHeader) -> FileDataSequenceHeader {
    FileDataSequenceHeader { file_flags: (a.file_flags | b.file_flags) & 0xC000_0000u32, _unused: 0, ..a }
}
#[verifier::opaque]
spec fn merge_files(a: Seq<FileDataSequenceHeader>, b: Seq<FileDataSequenceHeader>, op: MDBSetOperation) -> Seq<FileDataSequenceHeader>
    decreases a.len() + b.len()
{
    match file_table(hd(a), hd(b), op) {
        None => Seq::empty(),
        Some((x, y)) =>
            if x is Merge {
                if a.len() > 0 && b.len() > 0 { seq![merged_header(a[0], b[0])] + merge_files(a.drop_first(), b.drop_first(), op) } else { Seq::empty() }
            } else if rest(x, a).len() + rest(y, b).len() < a.len() + b.len() {
                emit(x, hd(a)) + emit(y, hd(b)) + merge_files(rest(x, a), rest(y, b), op)
            } else { Seq::empty() },
    }
}
// the guards never fire: whenever a table answers, some side that has a record advances
proof fn lemma_merge_cas_progress(a: Seq<CASChunkSequenceHeader>, b: Seq<CASChunkSequenceHeader>, op: MDBSetOperation)
    ensures key_table(cas_key(hd(a)), cas_key(hd(b)), op) matches Some((x, y)) ==> rest(x, a).len() + rest(y, b).len() < a.len() + b.len(),
{
    if a.len() > 0 && b.len() > 0 { lemma_hash_order_total(a[0].cas_hash, b[0].cas_hash); }
}
proof fn lemma_merge_files_progress(a: Seq<FileDataSequenceHeader>, b: Seq<FileDataSequenceHeader>, op: MDBSetOperation)
    ensures file_table(hd(a), hd(b), op) matches Some((x, y)) ==> (x is Merge ==> a.len() > 0 && b.len() > 0) && (!(x is Merge) ==> rest(x, a).len() + rest(y, b).len() < a.len() + b.len()),
{
    if a.len() > 0 && b.len() > 0 { lemma_hash_order_total(a[0].file_hash, b[0].file_hash); }
}
// one step of each merge, unfolded
proof fn lemma_merge_cas_step(a: Seq<CASChunkSequenceHeader>, b: Seq<CASChunkSequenceHeader>, op: MDBSetOperation)
    ensures match key_table(cas_key(hd(a)), cas_key(hd(b)), op) {
        None => merge_cas(a, b, op) == Seq::<CASChunkSequenceHeader>::empty(),
        Some((x, y)) => merge_cas(a, b, op) == emit(x, hd(a)) + emit(y, hd(b)) + merge_cas(rest(x, a), rest(y, b), op),
    },
{ reveal_with_fuel(merge_cas, 2); lemma_merge_cas_progress(a, b, op); }
proof fn lemma_merge_files_step(a: Seq<FileDataSequenceHeader>, b: Seq<FileDataSequenceHeader>, op: MDBSetOperation)
    ensures match file_table(hd(a), hd(b), op) {
        None => merge_files(a, b, op) == Seq::<FileDataSequenceHeader>::empty(),
        Some((x, y)) => if x is Merge { a.len() > 0 && b.len() > 0 && merge_files(a, b, op) == seq![merged_header(a[0], b[0])] + merge_files(a.drop_first(), b.drop_first(), op) }
            else { merge_files(a, b, op) == emit(x, hd(a)) + emit(y, hd(b)) + merge_files(rest(x, a), rest(y, b), op) },
    },
{ reveal_with_fuel(merge_files, 2); lemma_merge_files_progress(a, b, op); }

// the content contract of `set_operation`: the block headers it writes to the two sections are the merge of the two operands'
// header lists (proved in U-SETOPSTREAM for the real streaming loop, used by U-SETOPWRAP as the callee contract)
spec fn setop_content(f0: Seq<FileDataSequenceHeader>, f1: Seq<FileDataSequenceHeader>, c0: Seq<CASChunkSequenceHeader>, c1: Seq<CASChunkSequenceHeader>, op: MDBSetOperation,
    fh_old: Seq<FileDataSequenceHeader>, fh_new: Seq<FileDataSequenceHeader>, ch_old: Seq<CASChunkSequenceHeader>, ch_new: Seq<CASChunkSequenceHeader>) -> bool {
    fh_new == fh_old + merge_files(f0, f1, op) && ch_new == ch_old + merge_cas(c0, c1, op)
}
