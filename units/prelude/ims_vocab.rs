// shared by U-IMS and U-SFMQ: in-memory truthfulness, index invariant, query contract
// The property statement of C05 as a predicate: "the first n query hashes are stored in xorb X at chunks [a, a+n)" is
// true of X's recorded chunk list and the byte count is the sum of those chunks' lengths.
spec fn truthful_mem(x: MDBCASInfo, q: Seq<MerkleHash>, n: int, fse: FileDataSequenceEntry) -> bool {
    &&& 1 <= n <= q.len()
    &&& fse.cas_hash == x.metadata.cas_hash
    &&& fse.chunk_index_end == fse.chunk_index_start + n
    &&& fse.chunk_index_end <= x.chunks@.len()
    &&& forall|k: int| 0 <= k < n ==> (#[trigger] x.chunks@[fse.chunk_index_start + k]).chunk_hash == q[k]
    &&& fse.unpacked_segment_bytes == sum_unpacked(x.chunks@, fse.chunk_index_start as int, fse.chunk_index_end as int)
}

// a recorded xorb the index can answer about without arithmetic overflow: chunk indices and the byte total fit u32
// (both are u32 fields of the on-disk header: num_entries, num_bytes_in_cas)
spec fn cas_fits(x: MDBCASInfo) -> bool {
    &&& x.chunks@.len() <= u32::MAX
    &&& sum_unpacked(x.chunks@, 0, x.chunks@.len() as int) <= u32::MAX
}

// ---- invariant and query contract of the in-memory index as predicates over the lookup map, so that U-IMS (which proves
// them) and U-SFMQ (whose stub assumes them) use literally the same text ---------------------------------------------------
// wf: every lookup entry h -> (info, i) points at a chunk of `info` whose recorded hash is h
spec fn ims_wf(lookup: Map<MerkleHash, (Arc<MDBCASInfo>, u64)>) -> bool {
    forall|h: MerkleHash| lookup.contains_key(h) ==> {
        let e = #[trigger] lookup[h];
        &&& (e.1 as int) < e.0.chunks@.len()
        &&& e.0.chunks@[e.1 as int].chunk_hash == h
        &&& cas_fits(*e.0)
    }
}
// C05 verbatim: a reported match is a true statement about the recorded chunk list of the xorb it names
spec fn ims_query_post(lookup: Map<MerkleHash, (Arc<MDBCASInfo>, u64)>, q: Seq<MerkleHash>, r: Option<(usize, FileDataSequenceEntry)>) -> bool {
    match r {
        Some((n, fse)) => lookup.contains_key(q[0])
            && truthful_mem(*lookup[q[0]].0, q, n as int, fse)
            && fse.chunk_index_start == lookup[q[0]].1,
        None => q.len() == 0 || !lookup.contains_key(q[0]),
    }
}
