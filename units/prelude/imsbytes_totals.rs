// ---- U-IMSBYTES prelude: DEFINITIONS of the three byte totals of an in-memory shard (C09 "byte totals equal the in-memory accounting").
// `spec_stored_bytes_on_disk / spec_materialized_bytes / spec_stored_bytes` are the functions U-SHWRITE's `serialize_from` contract pins
// the footer fields to (uninterpreted there); U-IMSBYTES proves that the real getters of MDBInMemoryShard compute them.
// Needs in scope: MerkleHash, the extracted structs FileDataSequenceEntry / MDBFileInfo / CASChunkSequenceHeader / MDBCASInfo /
// MDBInMemoryShard, std::sync::Arc, and `msum` (sum of a function over the values of a map: prelude/imsbytes_msum.rs = U-SHWRITE's own).
// sum of `unpacked_segment_bytes` over the first k segments of a file record
spec fn seg_sum(s: Seq<FileDataSequenceEntry>, k: int) -> int decreases k {
    if k <= 0 { 0 } else { seg_sum(s, k - 1) + s[k - 1].unpacked_segment_bytes as int }
}
// bytes one file record materializes to: the sum over all its segments
spec fn file_bytes(f: MDBFileInfo) -> int { seg_sum(f.segments@, f.segments@.len() as int) }
spec fn c_mat() -> spec_fn(MDBFileInfo) -> int { |f: MDBFileInfo| file_bytes(f) }
spec fn c_disk() -> spec_fn(Arc<MDBCASInfo>) -> int { |a: Arc<MDBCASInfo>| a.metadata.num_bytes_on_disk as int }
spec fn c_cas() -> spec_fn(Arc<MDBCASInfo>) -> int { |a: Arc<MDBCASInfo>| a.metadata.num_bytes_in_cas as int }
// sum over ALL file records of the sum over their segments / sum over ALL xorb records of the header field
spec fn math_materialized_bytes(m: MDBInMemoryShard) -> int { msum(m.file_content@, c_mat()) }
spec fn math_stored_bytes_on_disk(m: MDBInMemoryShard) -> int { msum(m.cas_content@, c_disk()) }
spec fn math_stored_bytes(m: MDBInMemoryShard) -> int { msum(m.cas_content@, c_cas()) }
// THE DOMAIN: each of the three totals fits u64 (per-record / per-segment values are u32 fields; no bound on the record counts)
spec fn totals_fit(m: MDBInMemoryShard) -> bool {
    math_materialized_bytes(m) <= u64::MAX && math_stored_bytes_on_disk(m) <= u64::MAX && math_stored_bytes(m) <= u64::MAX
}
// the definitions of U-SHWRITE's three uninterpreted functions (same names and signatures): the mathematical total as u64
spec fn spec_stored_bytes_on_disk(m: MDBInMemoryShard) -> u64 { math_stored_bytes_on_disk(m) as u64 }
spec fn spec_materialized_bytes(m: MDBInMemoryShard) -> u64 { math_materialized_bytes(m) as u64 }
spec fn spec_stored_bytes(m: MDBInMemoryShard) -> u64 { math_stored_bytes(m) as u64 }
