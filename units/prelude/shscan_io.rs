// ---- U-SHSCAN prelude: a seekable reader over the bytes of a serialized shard, decoders of the 48-byte records ---------------
pub struct MDBShardError;
pub type Result<T> = std::result::Result<T, MDBShardError>;
pub enum SeekFrom { Start(u64), End(i64), Current(i64) }

// `data`: the bytes of the shard; `pos`: the stream position.  Positions are byte offsets; a successful seek / read leaves a
// position that fits u64 (std::io::Seek returns it as u64).
pub struct VxSR { pub data: Ghost<Seq<u8>>, pub pos: Ghost<int> }
impl VxSR {
    #[verifier::external_body]
    fn seek(&mut self, to: SeekFrom) -> (r: Result<u64>)
        ensures final(self).data@ == old(self).data@,
            r matches Ok(p) ==> p == final(self).pos@ && match to {
                SeekFrom::Start(x) => final(self).pos@ == x,
                SeekFrom::Current(d) => final(self).pos@ == old(self).pos@ + d,
                SeekFrom::End(d) => true,
            },
    { unimplemented!() }
    #[verifier::external_body]
    fn stream_position(&mut self) -> (r: Result<u64>)
        ensures final(self).data@ == old(self).data@, final(self).pos@ == old(self).pos@, r matches Ok(p) ==> p == old(self).pos@,
    { unimplemented!() }
}
// decoders of a 48-byte record (their field order is checked against `serialize` by Kani unit K-ENTRYCODEC); the record that
// starts at byte p of `data` is the decoding of those 48 bytes — so a decoder depends on nothing but the record's own bytes
uninterp spec fn dec_cas_hdr(b: Seq<u8>) -> CASChunkSequenceHeader;
uninterp spec fn dec_cas_entry(b: Seq<u8>) -> CASChunkSequenceEntry;
uninterp spec fn dec_file_hdr(b: Seq<u8>) -> FileDataSequenceHeader;
uninterp spec fn dec_file_entry(b: Seq<u8>) -> FileDataSequenceEntry;
uninterp spec fn dec_verif(b: Seq<u8>) -> FileVerificationEntry;
uninterp spec fn dec_ext(b: Seq<u8>) -> FileMetadataExt;
spec fn cas_hdr_at(data: Seq<u8>, p: int) -> CASChunkSequenceHeader { dec_cas_hdr(data.subrange(p, p + 48)) }
spec fn cas_entry_at(data: Seq<u8>, p: int) -> CASChunkSequenceEntry { dec_cas_entry(data.subrange(p, p + 48)) }
spec fn file_hdr_at(data: Seq<u8>, p: int) -> FileDataSequenceHeader { dec_file_hdr(data.subrange(p, p + 48)) }
spec fn file_entry_at(data: Seq<u8>, p: int) -> FileDataSequenceEntry { dec_file_entry(data.subrange(p, p + 48)) }
spec fn verif_at(data: Seq<u8>, p: int) -> FileVerificationEntry { dec_verif(data.subrange(p, p + 48)) }
spec fn ext_at(data: Seq<u8>, p: int) -> FileMetadataExt { dec_ext(data.subrange(p, p + 48)) }
// the all-ones hash that ends a section
pub uninterp spec fn bookend_hash() -> MerkleHash;

// ASSUMED for every `deserialize` below: on Ok it decoded the 48 bytes at the current position and advanced by 48
pub open spec fn read48(old_r: VxSR, new_r: VxSR) -> bool { new_r.data@ == old_r.data@ && new_r.pos@ == old_r.pos@ + 48 }
impl CASChunkSequenceHeader {
    #[verifier::external_body]
    fn deserialize(reader: &mut VxSR) -> (r: Result<Self>)
        ensures final(reader).data@ == old(reader).data@, r matches Ok(h) ==> h == cas_hdr_at(old(reader).data@, old(reader).pos@) && read48(*old(reader), *final(reader))
    { unimplemented!() }
    #[verifier::external_body]
    fn is_bookend(&self) -> (r: bool) ensures r == (self.cas_hash == bookend_hash()) { unimplemented!() }
}
impl CASChunkSequenceEntry {
    #[verifier::external_body]
    fn deserialize(reader: &mut VxSR) -> (r: Result<Self>)
        ensures final(reader).data@ == old(reader).data@, r matches Ok(h) ==> h == cas_entry_at(old(reader).data@, old(reader).pos@) && read48(*old(reader), *final(reader))
    { unimplemented!() }
}
impl FileDataSequenceHeader {
    #[verifier::external_body]
    fn deserialize(reader: &mut VxSR) -> (r: Result<Self>)
        ensures final(reader).data@ == old(reader).data@, r matches Ok(h) ==> h == file_hdr_at(old(reader).data@, old(reader).pos@) && read48(*old(reader), *final(reader))
    { unimplemented!() }
    #[verifier::external_body]
    fn is_bookend(&self) -> (r: bool) ensures r == (self.file_hash == bookend_hash()) { unimplemented!() }
}
impl FileDataSequenceEntry {
    #[verifier::external_body]
    fn deserialize(reader: &mut VxSR) -> (r: Result<Self>)
        ensures final(reader).data@ == old(reader).data@, r matches Ok(h) ==> h == file_entry_at(old(reader).data@, old(reader).pos@) && read48(*old(reader), *final(reader))
    { unimplemented!() }
}
impl FileVerificationEntry {
    #[verifier::external_body]
    fn deserialize(reader: &mut VxSR) -> (r: Result<Self>)
        ensures final(reader).data@ == old(reader).data@, r matches Ok(h) ==> h == verif_at(old(reader).data@, old(reader).pos@) && read48(*old(reader), *final(reader))
    { unimplemented!() }
}
impl FileMetadataExt {
    #[verifier::external_body]
    fn deserialize(reader: &mut VxSR) -> (r: Result<Self>)
        ensures final(reader).data@ == old(reader).data@, r matches Ok(h) ==> h == ext_at(old(reader).data@, old(reader).pos@) && read48(*old(reader), *final(reader))
    { unimplemented!() }
}
impl MDBShardFileHeader {
    // reads the 48-byte shard header (tag check: Err on mismatch)
    #[verifier::external_body]
    fn deserialize(reader: &mut VxSR) -> (r: Result<Self>)
        ensures final(reader).data@ == old(reader).data@, r is Ok ==> read48(*old(reader), *final(reader))
    { unimplemented!() }
}
