// ---- plan arithmetic shared by both writers (pure; no assumptions) -----------------------------------------------
pub open spec fn min_int(a: int, b: int) -> int { if a <= b { a } else { b } }
pub open spec fn max_int(a: int, b: int) -> int { if a >= b { a } else { b } }

// concatenation of the first `n` term payloads
pub open spec fn cat(data: Seq<Seq<u8>>, n: int) -> Seq<u8> decreases n {
    if n <= 0 { Seq::<u8>::empty() } else { cat(data, n - 1) + data[n - 1] }
}
pub open spec fn sum_len(data: Seq<Seq<u8>>, n: int) -> int decreases n {
    if n <= 0 { 0 } else { sum_len(data, n - 1) + data[n - 1].len() }
}
pub proof fn lemma_cat_len(data: Seq<Seq<u8>>, n: int)
    requires 0 <= n <= data.len(),
    ensures cat(data, n).len() == sum_len(data, n), sum_len(data, n) >= 0,
    decreases n
{ if n > 0 { lemma_cat_len(data, n - 1); } }
pub proof fn lemma_sum_mono(data: Seq<Seq<u8>>, i: int, j: int)
    requires 0 <= i <= j <= data.len(),
    ensures sum_len(data, i) <= sum_len(data, j),
    decreases j
{ if i < j { lemma_sum_mono(data, i, j - 1); } }

// what one planning step does (both writers): term `idx` contributes bytes [start, end) of its payload
pub open spec fn term_start(idx: int, off: int) -> int { if idx == 0 { off } else { 0 } }
pub open spec fn term_end(idx: int, off: int, remaining: int, ulen: int) -> int { min_int(term_start(idx, off) + remaining, ulen) }
pub open spec fn term_len(idx: int, off: int, remaining: int, ulen: int) -> int { term_end(idx, off, remaining, ulen) - term_start(idx, off) }

// running totals before term i: (bytes_written, remaining)
pub open spec fn plan_state(data: Seq<Seq<u8>>, off: int, total: int, i: int) -> (int, int) decreases i {
    if i <= 0 { (0, total) } else {
        let p = plan_state(data, off, total, i - 1);
        let l = term_len(i - 1, off, p.1, data[i - 1].len() as int);
        (p.0 + l, p.1 - l)
    }
}
pub open spec fn plan_bw(data: Seq<Seq<u8>>, off: int, total: int, i: int) -> int { plan_state(data, off, total, i).0 }
pub open spec fn plan_rem(data: Seq<Seq<u8>>, off: int, total: int, i: int) -> int { plan_state(data, off, total, i).1 }
pub open spec fn piece(data: Seq<Seq<u8>>, off: int, total: int, i: int) -> Seq<u8> {
    data[i].subrange(term_start(i, off), term_end(i, off, plan_rem(data, off, total, i), data[i].len() as int))
}
// concatenation, in term order, of the pieces of the first n terms
pub open spec fn pieces(data: Seq<Seq<u8>>, off: int, total: int, n: int) -> Seq<u8> decreases n {
    if n <= 0 { Seq::<u8>::empty() } else { pieces(data, off, total, n - 1) + piece(data, off, total, n - 1) }
}

// the plan-validity domain: the first-term offset lies inside the first term
pub open spec fn plan_ok(data: Seq<Seq<u8>>, off: int, total: int) -> bool {
    &&& 0 <= off && 0 <= total
    &&& data.len() > 0 ==> off <= data[0].len()
}
// the requested length lies inside the plan ("byte_range within the plan")
pub open spec fn range_in_plan(data: Seq<Seq<u8>>, off: int, total: int) -> bool {
    off + total <= sum_len(data, data.len() as int)
}
pub open spec fn plan_written(data: Seq<Seq<u8>>, off: int, total: int, n: int) -> int {
    if n <= 0 { 0 } else { min_int(total, sum_len(data, n) - off) }
}

pub proof fn lemma_plan_state(data: Seq<Seq<u8>>, off: int, total: int, i: int)
    requires plan_ok(data, off, total), 0 <= i <= data.len(),
    ensures
        plan_bw(data, off, total, i) + plan_rem(data, off, total, i) == total,
        plan_bw(data, off, total, i) == plan_written(data, off, total, i),
        0 <= plan_bw(data, off, total, i) <= total,
        i >= 1 ==> sum_len(data, i) - off >= 0,
        i < data.len() ==> 0 <= term_start(i, off) <= term_end(i, off, plan_rem(data, off, total, i), data[i].len() as int) <= data[i].len(),
        i < data.len() ==> term_len(i, off, plan_rem(data, off, total, i), data[i].len() as int) <= plan_rem(data, off, total, i),
    decreases i
{
    if i > 0 {
        lemma_plan_state(data, off, total, i - 1);
        lemma_cat_len(data, i - 1);
        if i >= 2 { lemma_sum_mono(data, 1, i - 1); assert(sum_len(data, 1) == sum_len(data, 0) + data[0].len()); }
        assert(sum_len(data, 1) == sum_len(data, 0) + data[0].len());
        assert(sum_len(data, 0) == 0);
    }
}
pub proof fn lemma_bw_mono(data: Seq<Seq<u8>>, off: int, total: int, i: int, j: int)
    requires plan_ok(data, off, total), 0 <= i <= j <= data.len(),
    ensures plan_bw(data, off, total, i) <= plan_bw(data, off, total, j),
    decreases j
{
    if i < j { lemma_bw_mono(data, off, total, i, j - 1); lemma_plan_state(data, off, total, j - 1); }
}
pub proof fn lemma_pieces_len(data: Seq<Seq<u8>>, off: int, total: int, n: int)
    requires plan_ok(data, off, total), 0 <= n <= data.len(),
    ensures pieces(data, off, total, n).len() == plan_bw(data, off, total, n),
    decreases n
{
    if n > 0 { lemma_pieces_len(data, off, total, n - 1); lemma_plan_state(data, off, total, n - 1); }
}
// C17 core: the pieces, in term order, are the slice [off, off + written) of the concatenated term data
pub proof fn lemma_pieces_slice(data: Seq<Seq<u8>>, off: int, total: int, n: int)
    requires plan_ok(data, off, total), 1 <= n <= data.len(),
    ensures
        off + plan_bw(data, off, total, n) <= cat(data, n).len(),
        pieces(data, off, total, n) == cat(data, n).subrange(off, off + plan_bw(data, off, total, n)),
    decreases n
{
    lemma_plan_state(data, off, total, n);
    lemma_plan_state(data, off, total, n - 1);
    lemma_cat_len(data, n);
    lemma_cat_len(data, n - 1);
    let c0 = cat(data, n - 1);
    let d = data[n - 1];
    let bw0 = plan_bw(data, off, total, n - 1);
    let bw1 = plan_bw(data, off, total, n);
    if n == 1 {
        assert(pieces(data, off, total, 0) =~= Seq::<u8>::empty());
        assert(c0 =~= Seq::<u8>::empty());
        assert(pieces(data, off, total, 1) =~= piece(data, off, total, 0));
        assert(cat(data, 1) =~= d);
        assert(piece(data, off, total, 0) =~= d.subrange(off, off + bw1));
    } else {
        lemma_pieces_slice(data, off, total, n - 1);
        if bw0 < total {
            assert(off + bw0 == c0.len());
            assert((c0 + d).subrange(off, off + bw1) =~= c0.subrange(off, off + bw0) + d.subrange(0, bw1 - bw0));
        } else {
            assert(bw1 == bw0);
            assert(piece(data, off, total, n - 1) =~= Seq::<u8>::empty());
            assert((c0 + d).subrange(off, off + bw1) =~= c0.subrange(off, off + bw0));
            assert(pieces(data, off, total, n) =~= pieces(data, off, total, n - 1));
        }
    }
}
// byte p of the output comes from the unique term i whose window [bw_i, bw_{i+1}) contains p
pub proof fn lemma_pieces_index(data: Seq<Seq<u8>>, off: int, total: int, n: int, i: int, p: int)
    requires plan_ok(data, off, total), 0 <= i < n <= data.len(),
        plan_bw(data, off, total, i) <= p < plan_bw(data, off, total, i + 1),
    ensures
        p < pieces(data, off, total, n).len(),
        0 <= p - plan_bw(data, off, total, i) < piece(data, off, total, i).len(),
        pieces(data, off, total, n)[p] == piece(data, off, total, i)[p - plan_bw(data, off, total, i)],
    decreases n
{
    lemma_pieces_len(data, off, total, n);
    lemma_pieces_len(data, off, total, n - 1);
    lemma_plan_state(data, off, total, i);
    lemma_plan_state(data, off, total, n - 1);
    if i == n - 1 {
    } else {
        lemma_pieces_index(data, off, total, n - 1, i, p);
        lemma_bw_mono(data, off, total, i + 1, n - 1);
    }
}
pub proof fn lemma_locate(data: Seq<Seq<u8>>, off: int, total: int, n: int, p: int) -> (i: int)
    requires plan_ok(data, off, total), 0 <= n <= data.len(), 0 <= p < plan_bw(data, off, total, n),
    ensures 0 <= i < n, plan_bw(data, off, total, i) <= p < plan_bw(data, off, total, i + 1),
    decreases n
{
    if n <= 0 { 0 }
    else if plan_bw(data, off, total, n - 1) <= p { n - 1 }
    else { lemma_locate(data, off, total, n - 1, p) }
}

// ---- positioned writes (the parallel writer's output model) --------------------------------------------------------
// a positioned write of d at offset o into a file image f (holes read as zero, an empty write changes nothing)
pub open spec fn write_at(f: Seq<u8>, o: int, d: Seq<u8>) -> Seq<u8> {
    if d.len() == 0 { f } else {
        Seq::new(max_int(f.len() as int, o + d.len()) as nat, |p: int| if o <= p < o + d.len() { d[p - o] } else if p < f.len() { f[p] } else { 0u8 })
    }
}
pub open spec fn apply_writes(f: Seq<u8>, ws: Seq<(int, Seq<u8>)>) -> Seq<u8> decreases ws.len() {
    if ws.len() == 0 { f } else { write_at(apply_writes(f, ws.drop_last()), ws.last().0, ws.last().1) }
}
pub open spec fn in_write(w: (int, Seq<u8>), p: int) -> bool { w.0 <= p < w.0 + w.1.len() }
pub open spec fn covered(ws: Seq<(int, Seq<u8>)>, p: int) -> bool { exists|k: int| 0 <= k < ws.len() && in_write(#[trigger] ws[k], p) }
pub open spec fn disjoint_writes(ws: Seq<(int, Seq<u8>)>) -> bool {
    &&& forall|k: int| 0 <= k < ws.len() ==> (#[trigger] ws[k]).0 >= 0
    &&& forall|j: int, k: int| 0 <= j < ws.len() && 0 <= k < ws.len() && j != k ==>
            (#[trigger] ws[j]).0 + ws[j].1.len() <= (#[trigger] ws[k]).0 || ws[k].0 + ws[k].1.len() <= ws[j].0
}
// pairwise disjoint positioned writes: whatever their order, every written byte survives, and nothing else grows the file
pub proof fn lemma_disjoint_writes(f: Seq<u8>, ws: Seq<(int, Seq<u8>)>, bound: int)
    requires disjoint_writes(ws), forall|k: int| 0 <= k < ws.len() ==> (#[trigger] ws[k]).0 + ws[k].1.len() <= bound,
    ensures
        apply_writes(f, ws).len() <= max_int(f.len() as int, bound),
        apply_writes(f, ws).len() >= f.len(),
        forall|k: int, p: int| 0 <= k < ws.len() && #[trigger] in_write(ws[k], p) ==>
            p < apply_writes(f, ws).len() && apply_writes(f, ws)[p] == ws[k].1[p - ws[k].0],
        // frame: a byte of the initial image that no write covers is still there
        forall|p: int| 0 <= p < f.len() && !#[trigger] covered(ws, p) ==> apply_writes(f, ws)[p] == f[p],
    decreases ws.len()
{
    if ws.len() > 0 {
        let w0 = ws.drop_last();
        assert forall|k: int| 0 <= k < w0.len() implies (#[trigger] w0[k]).0 >= 0 && w0[k].0 + w0[k].1.len() <= bound by { assert(w0[k] == ws[k]); }
        assert forall|j: int, k: int| 0 <= j < w0.len() && 0 <= k < w0.len() && j != k implies
            (#[trigger] w0[j]).0 + w0[j].1.len() <= (#[trigger] w0[k]).0 || w0[k].0 + w0[k].1.len() <= w0[j].0 by { assert(w0[j] == ws[j]); assert(w0[k] == ws[k]); }
        lemma_disjoint_writes(f, w0, bound);
        let g = apply_writes(f, w0);
        let last = ws.len() - 1;
        assert(ws[last] == ws.last());
        assert forall|k: int, p: int| 0 <= k < ws.len() && #[trigger] in_write(ws[k], p) implies
            p < apply_writes(f, ws).len() && apply_writes(f, ws)[p] == ws[k].1[p - ws[k].0] by {
            if k < last {
                assert(w0[k] == ws[k]);
                assert(in_write(w0[k], p));
            }
        }
        assert forall|p: int| 0 <= p < f.len() && !#[trigger] covered(ws, p) implies apply_writes(f, ws)[p] == f[p] by {
            assert(!in_write(ws[last], p));
            if covered(w0, p) {
                let k = choose|k: int| 0 <= k < w0.len() && in_write(#[trigger] w0[k], p);
                assert(w0[k] == ws[k]);
                assert(in_write(ws[k], p));
                assert(false);
            }
            assert(g[p] == f[p]);
        }
    }
}
// C17 (parallel writer, every completion order): sigma is the order in which the term writes land
pub open spec fn is_perm(sigma: Seq<int>, n: int) -> bool {
    &&& sigma.len() == n
    &&& forall|k: int| 0 <= k < n ==> 0 <= #[trigger] sigma[k] < n
    &&& forall|j: int, k: int| 0 <= j < n && 0 <= k < n && j != k ==> #[trigger] sigma[j] != #[trigger] sigma[k]
    &&& forall|i: int| 0 <= i < n ==> #[trigger] lands(sigma, i)
}
pub open spec fn lands(sigma: Seq<int>, i: int) -> bool { exists|k: int| 0 <= k < sigma.len() && #[trigger] sigma[k] == i }
pub open spec fn par_writes(data: Seq<Seq<u8>>, off: int, total: int, sigma: Seq<int>) -> Seq<(int, Seq<u8>)> {
    Seq::new(sigma.len(), |k: int| (plan_bw(data, off, total, sigma[k]), piece(data, off, total, sigma[k])))
}
pub proof fn lemma_par_disjoint(data: Seq<Seq<u8>>, off: int, total: int, a: int, b: int)
    requires plan_ok(data, off, total), 0 <= a < b < data.len(),
    ensures plan_bw(data, off, total, a) + piece(data, off, total, a).len() <= plan_bw(data, off, total, b),
        piece(data, off, total, a).len() == plan_bw(data, off, total, a + 1) - plan_bw(data, off, total, a),
{
    lemma_plan_state(data, off, total, a);
    lemma_bw_mono(data, off, total, a + 1, b);
}
pub proof fn lemma_par_output(f: Seq<u8>, data: Seq<Seq<u8>>, off: int, total: int, sigma: Seq<int>)
    requires plan_ok(data, off, total), is_perm(sigma, data.len() as int),
    ensures
        apply_writes(f, par_writes(data, off, total, sigma)) == write_at(f, 0, pieces(data, off, total, data.len() as int)),
{
    let n = data.len() as int;
    let ws = par_writes(data, off, total, sigma);
    let w = plan_bw(data, off, total, n);
    lemma_plan_state(data, off, total, n);
    assert forall|k: int| 0 <= k < ws.len() implies (#[trigger] ws[k]).0 >= 0 && ws[k].0 + ws[k].1.len() <= w by {
        let i = sigma[k];
        lemma_plan_state(data, off, total, i);
        lemma_plan_state(data, off, total, i + 1);
        lemma_bw_mono(data, off, total, i + 1, n);
    }
    assert forall|j: int, k: int| 0 <= j < ws.len() && 0 <= k < ws.len() && j != k implies
        (#[trigger] ws[j]).0 + ws[j].1.len() <= (#[trigger] ws[k]).0 || ws[k].0 + ws[k].1.len() <= ws[j].0 by {
        let a = sigma[j]; let b = sigma[k];
        if a < b { lemma_par_disjoint(data, off, total, a, b); } else { lemma_par_disjoint(data, off, total, b, a); }
    }
    lemma_disjoint_writes(f, ws, w);
    let out = apply_writes(f, ws);
    let tgt = pieces(data, off, total, n);
    lemma_pieces_len(data, off, total, n);
    assert forall|p: int| 0 <= p < w implies p < out.len() && out[p] == tgt[p] by {
        let i = lemma_locate(data, off, total, n, p);
        lemma_pieces_index(data, off, total, n, i, p);
        assert(lands(sigma, i));
        let k = choose|k: int| 0 <= k < sigma.len() && #[trigger] sigma[k] == i;
        assert(ws[k].0 == plan_bw(data, off, total, i));
        lemma_par_disjoint_len(data, off, total, i);
        assert(in_write(ws[k], p));
    }
    if w > 0 { assert(out[w - 1] == tgt[w - 1]); assert(w - 1 < out.len()); }
    assert(out.len() == max_int(f.len() as int, w));
    assert forall|p: int| w <= p < f.len() implies out[p] == f[p] by {
        if covered(ws, p) {
            let k = choose|k: int| 0 <= k < ws.len() && in_write(#[trigger] ws[k], p);
            assert(false);
        }
    }
    assert(out =~= write_at(f, 0, tgt));
}
pub proof fn lemma_par_disjoint_len(data: Seq<Seq<u8>>, off: int, total: int, a: int)
    requires plan_ok(data, off, total), 0 <= a < data.len(),
    ensures piece(data, off, total, a).len() == plan_bw(data, off, total, a + 1) - plan_bw(data, off, total, a),
{
    lemma_plan_state(data, off, total, a);
}
// C17 summary over the plan: both writers' output, for every completion order, is the requested slice
pub proof fn lemma_plan_output(data: Seq<Seq<u8>>, off: int, total: int, sigma: Seq<int>)
    requires plan_ok(data, off, total), is_perm(sigma, data.len() as int), data.len() > 0,
    ensures ({
        let n = data.len() as int;
        let w = min_int(total, sum_len(data, n) - off);
        &&& 0 <= w && off + w <= cat(data, n).len()
        &&& pieces(data, off, total, n) == cat(data, n).subrange(off, off + w)
        &&& forall|f: Seq<u8>| #[trigger] apply_writes(f, par_writes(data, off, total, sigma)) == write_at(f, 0, cat(data, n).subrange(off, off + w))
        &&& range_in_plan(data, off, total) ==> w == total
    }),
{
    let n = data.len() as int;
    lemma_plan_state(data, off, total, n);
    lemma_pieces_slice(data, off, total, n);
    assert forall|f: Seq<u8>| #[trigger] apply_writes(f, par_writes(data, off, total, sigma)) == write_at(f, 0, cat(data, n).subrange(off, off + min_int(total, sum_len(data, n) - off))) by {
        lemma_par_output(f, data, off, total, sigma);
    }
}
// consecutive writes through one writer == one write of the concatenation
pub proof fn lemma_write_at_append(f: Seq<u8>, o: int, a: Seq<u8>, b: Seq<u8>)
    requires o >= 0,
    ensures write_at(write_at(f, o, a), o + a.len(), b) == write_at(f, o, a + b),
{
    if a.len() == 0 { assert(a + b =~= b); }
    else if b.len() == 0 { assert(a + b =~= a); }
    else { assert(write_at(write_at(f, o, a), o + a.len(), b) =~= write_at(f, o, a + b)); }
}
