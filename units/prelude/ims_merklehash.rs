// ---- MerkleHash stub (R11): 256-bit value type, structural equality, zero default; hashing functions opaque -------
#[derive(Clone, Copy, Eq, Hash, PartialOrd, Ord)]
pub struct MerkleHash(pub [u64; 4]);
impl vstd::std_specs::cmp::PartialEqSpecImpl for MerkleHash {
    open spec fn obeys_eq_spec() -> bool { true }
    open spec fn eq_spec(&self, other: &Self) -> bool { *self == *other }
}
impl PartialEq for MerkleHash {
    #[verifier::external_body]
    fn eq(&self, other: &Self) -> (r: bool) { unimplemented!() }
}
pub uninterp spec fn zero_hash() -> MerkleHash;
impl Default for MerkleHash {
    #[verifier::external_body]
    fn default() -> (r: MerkleHash) ensures r == zero_hash() { unimplemented!() }
}
// std HashMap behaves as a map for this key type (Hash/Eq of DataHash are the derived structural ones)
pub mod mh_axioms {
    use vstd::prelude::*;
    use super::MerkleHash;
    #[verifier::external_body]
    pub broadcast proof fn axiom_merklehash_key_model()
        ensures #[trigger] vstd::std_specs::hash::obeys_key_model::<MerkleHash>()
    { }
}
broadcast use {mh_axioms::axiom_merklehash_key_model, vstd::std_specs::hash::group_hash_axioms};
