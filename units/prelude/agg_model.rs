// ---- shared by U-AGG and U-SESSCUT: the extracted record types, the aggregator and its abstract view ------------------------------
// ---- the file record (mdb_shard) ----------------------------------------------------------------------------------------------------
//@ extract mdb_shard/src/file_structs.rs struct FileDataSequenceHeader
//@ end
//@ extract mdb_shard/src/file_structs.rs struct FileVerificationEntry
//@ end
//@ extract mdb_shard/src/file_structs.rs struct FileMetadataExt
//@ end
//@ extract mdb_shard/src/file_structs.rs struct MDBFileInfo
//@ end

//@ extract deduplication/src/data_aggregator.rs struct DataAggregator
//@ end

type Pending = (MDBFileInfo, Vec<usize>);
// one pending file is consistent with the chunk-hash list nd of the xorb under construction
spec fn pend_ok(p: Pending, nd: Seq<MerkleHash>) -> bool {
    &&& /*C02*/ segs_ok(p.0.segments@, nd)
    &&& /*C15*/ ire_ok(p.1@, p.0.segments@)
}
// merge_in: what happens to a file of `other`
spec fn file_shifted(p: Pending, q: Pending, sh: int) -> bool {
    &&& q.1@ == p.1@ && q.0.metadata == p.0.metadata && q.0.verification == p.0.verification && q.0.metadata_ext == p.0.metadata_ext
    &&& segs_shifted(p.0.segments@, q.0.segments@, sh)
}
// finalize: what happens to a pending file (p) on its way out (f), given the xorb hash x
spec fn file_resolved(p: Pending, f: MDBFileInfo, x: MerkleHash) -> bool {
    &&& f.metadata == p.0.metadata && f.verification == p.0.verification && f.metadata_ext == p.0.metadata_ext
    &&& segs_patched(p.0.segments@, f.segments@, x)
}
spec fn xorb_le_limits(x: RawXorbData) -> bool {
    x.cas_info.chunks@.len() <= spec_MAX_XORB_CHUNKS() && x.data@.len() <= spec_MAX_XORB_CHUNKS()
    && x.cas_info.metadata.num_bytes_in_cas <= spec_MAX_XORB_BYTES()
}

spec fn segs_nonzero(fi: Seq<FileDataSequenceEntry>) -> bool { forall|i: int| 0 <= i < fi.len() ==> (#[trigger] fi[i]).cas_hash != zero_hash() }
spec fn segs_patched(s0: Seq<FileDataSequenceEntry>, s1: Seq<FileDataSequenceEntry>, x: MerkleHash) -> bool {
    s0.len() == s1.len() && forall|i: int| 0 <= i < s0.len() ==> patched(#[trigger] s0[i], s1[i], x)
}
// merge_in as a whole, over the abstract view: p0 = receiver's files, q0 = other's files before, q1 = after the shift loop
proof fn lemma_merge(p0: Seq<Pending>, q0: Seq<Pending>, q1: Seq<Pending>, nd: Seq<MerkleHash>, od: Seq<MerkleHash>)
    requires
        forall|k: int| 0 <= k < p0.len() ==> pend_ok(#[trigger] p0[k], nd),
        forall|k: int| 0 <= k < q0.len() ==> pend_ok(#[trigger] q0[k], od),
        q1.len() == q0.len(), forall|k: int| 0 <= k < q0.len() ==> file_shifted(#[trigger] q0[k], q1[k], nd.len() as int),
        sum_len(nd) + sum_len(od) <= u32::MAX,
    ensures
        forall|k: int| 0 <= k < (p0 + q1).len() ==> pend_ok(#[trigger] (p0 + q1)[k], nd + od),
        forall|k: int| 0 <= k < p0.len() ==> flatten((#[trigger] (p0 + q1)[k]).0.segments@, nd + od) == flatten(p0[k].0.segments@, nd),
        forall|k: int| 0 <= k < q0.len() ==> flatten((p0 + q1)[p0.len() + k].0.segments@, nd + od) == flatten((#[trigger] q0[k]).0.segments@, od),
{
    assert forall|k: int| 0 <= k < (p0 + q1).len() implies pend_ok(#[trigger] (p0 + q1)[k], nd + od)
        && (k < p0.len() ==> flatten((p0 + q1)[k].0.segments@, nd + od) == flatten(p0[k].0.segments@, nd))
        && (k >= p0.len() ==> flatten((p0 + q1)[k].0.segments@, nd + od) == flatten(q0[k - p0.len()].0.segments@, od)) by {
        if k < p0.len() {
            assert((p0 + q1)[k] == p0[k]); assert(pend_ok(p0[k], nd));
            lemma_append_keep(p0[k].0.segments@, nd, od);
        } else {
            let j = k - p0.len();
            assert((p0 + q1)[k] == q1[j]); assert(pend_ok(q0[j], od)); assert(file_shifted(q0[j], q1[j], nd.len() as int));
            lemma_shift(q0[j].0.segments@, q1[j].0.segments@, nd, od);
            lemma_ire_same_hashes(q0[j].1@, q0[j].0.segments@, q1[j].0.segments@);
        }
    }
    assert forall|k: int| 0 <= k < q0.len() implies flatten((p0 + q1)[p0.len() + k].0.segments@, nd + od) == flatten((#[trigger] q0[k]).0.segments@, od) by {
        assert(pend_ok((p0 + q1)[p0.len() + k], nd + od));
    }
}

impl DataAggregator {
    spec fn nd(&self) -> Seq<MerkleHash> { hashes(self.chunks@) }
    spec fn bytes_ok(&self) -> bool { chunks_ok(self.chunks@) && self.num_bytes == sum_len(self.nd()) }
    spec fn agg_wf(&self) -> bool {
        &&& self.bytes_ok()
        &&& forall|k: int| 0 <= k < self.pending_file_info@.len() ==> pend_ok(#[trigger] self.pending_file_info@[k], self.nd())
    }
    // C15: the lock invariant of the session aggregator / what FileDeduper::finalize hands over
    spec fn within_limits(&self) -> bool {
        xorb_config_ok() && self.chunks@.len() <= spec_MAX_XORB_CHUNKS() && self.num_bytes <= spec_MAX_XORB_BYTES()
    }
    // C01: the chunk-hash sequence pending file k denotes
    spec fn den(&self, k: int) -> Seq<MerkleHash> { flatten(self.pending_file_info@[k].0.segments@, self.nd()) }
}
