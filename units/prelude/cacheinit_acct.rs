// ---- accounting view shared with U-CACHEACCT (copied verbatim from U-CACHEACCT.rs: items_bytes / msum and their lemmas) ----
spec fn items_bytes(s: Seq<CacheItem>) -> int decreases s.len() {
    if s.len() == 0 { 0 } else { items_bytes(s.drop_last()) + s.last().len as int }
}
proof fn lemma_bytes_nonneg(s: Seq<CacheItem>) ensures items_bytes(s) >= 0 decreases s.len() {
    if s.len() > 0 { lemma_bytes_nonneg(s.drop_last()); }
}
proof fn lemma_bytes_push(s: Seq<CacheItem>, x: CacheItem) ensures items_bytes(s.push(x)) == items_bytes(s) + x.len {
    assert(s.push(x).drop_last() =~= s);
}
spec fn fv(v: Vec<CacheItem>, bytes: bool) -> int { if bytes { items_bytes(v@) } else { v@.len() as int } }
spec fn msum(m: Map<Key, Vec<CacheItem>>, bytes: bool) -> int
    decreases m.dom().len() via msum_dec
{
    if m.dom().len() == 0 { 0 } else { let k = m.dom().choose(); fv(m[k], bytes) + msum(m.remove(k), bytes) }
}
#[via_fn]
proof fn msum_dec(m: Map<Key, Vec<CacheItem>>, bytes: bool) {
    if m.dom().len() != 0 {
        let k = m.dom().choose();
        assert(m.dom().contains(k));
        assert(m.remove(k).dom() =~= m.dom().remove(k));
    }
}
proof fn lemma_msum_pick(m: Map<Key, Vec<CacheItem>>, k: Key, b: bool)
    requires m.contains_key(k)
    ensures msum(m, b) == fv(m[k], b) + msum(m.remove(k), b)
    decreases m.dom().len()
{
    let c = m.dom().choose();
    assert(m.dom().len() != 0) by { if m.dom().len() == 0 { assert(m.dom() =~= Set::<Key>::empty()); } }
    assert(m.dom().contains(c));
    if c != k {
        assert(m.remove(c).dom() =~= m.dom().remove(c));
        assert(m.remove(k).dom() =~= m.dom().remove(k));
        lemma_msum_pick(m.remove(c), k, b);
        lemma_msum_pick(m.remove(k), c, b);
        assert(m.remove(c).remove(k) =~= m.remove(k).remove(c));
    }
}
proof fn lemma_msum_insert(m: Map<Key, Vec<CacheItem>>, k: Key, v: Vec<CacheItem>, b: bool)
    ensures msum(m.insert(k, v), b) == msum(m, b) - (if m.contains_key(k) { fv(m[k], b) } else { 0 }) + fv(v, b)
{
    let m2 = m.insert(k, v);
    lemma_msum_pick(m2, k, b);
    assert(m2.remove(k) =~= m.remove(k));
    if m.contains_key(k) { lemma_msum_pick(m, k, b); } else { assert(m.remove(k) =~= m); }
}
proof fn lemma_msum_remove(m: Map<Key, Vec<CacheItem>>, k: Key, b: bool)
    requires m.contains_key(k)
    ensures msum(m.remove(k), b) == msum(m, b) - fv(m[k], b)
{ lemma_msum_pick(m, k, b); }
proof fn lemma_msum_nonneg(m: Map<Key, Vec<CacheItem>>, b: bool)
    ensures msum(m, b) >= 0
    decreases m.dom().len()
{
    if m.dom().len() != 0 {
        let c = m.dom().choose();
        assert(m.dom().contains(c));
        assert(m.remove(c).dom() =~= m.dom().remove(c));
        lemma_msum_nonneg(m.remove(c), b);
        lemma_bytes_nonneg(m[c]@);
    }
}
