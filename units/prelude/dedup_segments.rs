// ---- segment semantics shared by U-DEDUP and U-AGG: what a file's segment list denotes, and the lemmas about editing it ----------
// A dedup answer (n, fse) for the query hashes q is *truthful* (C05) when the first n query hashes are the chunk hashes of xorb
// fse.cas_hash at [start, start+n), the byte count is the sum of their lengths, and the xorb obeys the u32 format limit.
spec fn seg_src(e: FileDataSequenceEntry, nd: Seq<MerkleHash>) -> Seq<MerkleHash> {
    if e.cas_hash == zero_hash() { nd } else { xorb_chunks(e.cas_hash) }
}
spec fn seg_den(e: FileDataSequenceEntry, nd: Seq<MerkleHash>) -> Seq<MerkleHash> {
    seg_src(e, nd).subrange(e.chunk_index_start as int, e.chunk_index_end as int)
}
spec fn seg_ok(e: FileDataSequenceEntry, nd: Seq<MerkleHash>) -> bool {
    &&& e.chunk_index_start < e.chunk_index_end <= seg_src(e, nd).len()
    &&& e.unpacked_segment_bytes == sum_len(seg_den(e, nd))
    &&& sum_len(seg_src(e, nd)) <= u32::MAX
}
spec fn truthful(q: Seq<MerkleHash>, n: int, fse: FileDataSequenceEntry) -> bool {
    &&& 1 <= n <= q.len()
    &&& fse.cas_hash != zero_hash()
    &&& seg_ok(fse, Seq::<MerkleHash>::empty())
    &&& seg_den(fse, Seq::<MerkleHash>::empty()) == q.subrange(0, n)
}
spec fn flatten(fi: Seq<FileDataSequenceEntry>, nd: Seq<MerkleHash>) -> Seq<MerkleHash> decreases fi.len() {
    if fi.len() == 0 { Seq::<MerkleHash>::empty() } else { flatten(fi.drop_last(), nd) + seg_den(fi.last(), nd) }
}
spec fn ch_hashes(s: Seq<(MerkleHash, usize)>) -> Seq<MerkleHash> { Seq::new(s.len(), |i: int| s[i].0) }
spec fn lookup_ok(m: Map<MerkleHash, usize>, nd: Seq<MerkleHash>) -> bool {
    forall|h: MerkleHash| m.contains_key(h) ==> (#[trigger] m[h]) < nd.len() && nd[m[h] as int] == h
}
// the list of indices whose segment still refers to the xorb under construction (zero hash): exactly those
spec fn ire_ok(ire: Seq<usize>, fi: Seq<FileDataSequenceEntry>) -> bool {
    &&& forall|j: int| 0 <= j < ire.len() ==> (#[trigger] ire[j]) < fi.len() && fi[ire[j] as int].cas_hash == zero_hash()
    &&& forall|i: int| 0 <= i < fi.len() && (#[trigger] fi[i]).cas_hash == zero_hash() ==> exists|j: int| 0 <= j < ire.len() && #[trigger] ire[j] == i
    &&& forall|j1: int, j2: int| 0 <= j1 < j2 < ire.len() ==> (#[trigger] ire[j1]) < (#[trigger] ire[j2])
}
spec fn metrics_ok(m: DeduplicationMetrics, fed: Seq<MerkleHash>) -> bool {
    &&& /*C14*/ m.total_bytes == sum_len(fed) && m.total_chunks == fed.len()
    &&& m.new_bytes + m.deduped_bytes == m.total_bytes && m.new_chunks + m.deduped_chunks == m.total_chunks
    &&& m.defrag_prevented_dedup_bytes <= m.new_bytes && m.defrag_prevented_dedup_chunks <= m.new_chunks
    &&& m.deduped_bytes_by_global_dedup <= m.total_bytes && m.deduped_chunks_by_global_dedup <= m.total_chunks
}


proof fn lemma_flatten_push(fi: Seq<FileDataSequenceEntry>, nd: Seq<MerkleHash>, e: FileDataSequenceEntry)
    ensures flatten(fi.push(e), nd) == flatten(fi, nd) + seg_den(e, nd)
{ assert(fi.push(e).drop_last() =~= fi); }
spec fn merged(last: FileDataSequenceEntry, fse: FileDataSequenceEntry) -> FileDataSequenceEntry {
    FileDataSequenceEntry { cas_hash: last.cas_hash, cas_flags: last.cas_flags,
        unpacked_segment_bytes: (last.unpacked_segment_bytes + fse.unpacked_segment_bytes) as u32,
        chunk_index_start: last.chunk_index_start, chunk_index_end: fse.chunk_index_end }
}
// extending the last segment by a contiguous range of the same xorb
proof fn lemma_extend_last(fi: Seq<FileDataSequenceEntry>, nd: Seq<MerkleHash>, fse: FileDataSequenceEntry)
    requires fi.len() > 0, fi.last().cas_hash == fse.cas_hash, fi.last().chunk_index_end == fse.chunk_index_start,
        seg_ok(fi.last(), nd), seg_ok(fse, nd),
    ensures
        fi.last().unpacked_segment_bytes + fse.unpacked_segment_bytes <= u32::MAX,
        seg_ok(merged(fi.last(), fse), nd),
        seg_den(merged(fi.last(), fse), nd) == seg_den(fi.last(), nd) + seg_den(fse, nd),
        flatten(fi.drop_last().push(merged(fi.last(), fse)), nd) == flatten(fi, nd) + seg_den(fse, nd),
{
    let l = fi.last(); let m = merged(l, fse); let src = seg_src(l, nd);
    assert(seg_src(fse, nd) == src); assert(seg_src(m, nd) == src);
    lemma_sum_len_split(src, l.chunk_index_start as int, l.chunk_index_end as int, fse.chunk_index_end as int);
    lemma_sum_len_subrange(src, l.chunk_index_start as int, fse.chunk_index_end as int);
    assert(seg_den(m, nd) =~= seg_den(l, nd) + seg_den(fse, nd));
    lemma_flatten_push(fi.drop_last(), nd, m);
    assert(flatten(fi, nd) == flatten(fi.drop_last(), nd) + seg_den(l, nd));
    assert((flatten(fi.drop_last(), nd) + seg_den(l, nd)) + seg_den(fse, nd) =~= flatten(fi.drop_last(), nd) + (seg_den(l, nd) + seg_den(fse, nd)));
}
proof fn lemma_ire_update(ire: Seq<usize>, fi: Seq<FileDataSequenceEntry>, i: int, e: FileDataSequenceEntry)
    requires ire_ok(ire, fi), 0 <= i < fi.len(), e.cas_hash == fi[i].cas_hash,
    ensures ire_ok(ire, fi.update(i, e)),
{
    let fi2 = fi.update(i, e);
    assert forall|k: int| 0 <= k < fi2.len() && (#[trigger] fi2[k]).cas_hash == zero_hash() implies exists|j: int| 0 <= j < ire.len() && #[trigger] ire[j] == k by {
        assert(fi[k].cas_hash == zero_hash());
    }
}
proof fn lemma_ire_push(ire: Seq<usize>, fi: Seq<FileDataSequenceEntry>, e: FileDataSequenceEntry)
    requires ire_ok(ire, fi), fi.len() <= usize::MAX,
    ensures e.cas_hash != zero_hash() ==> ire_ok(ire, fi.push(e)),
            e.cas_hash == zero_hash() ==> ire_ok(ire.push(fi.len() as usize), fi.push(e)),
{
    let fi2 = fi.push(e);
    if e.cas_hash != zero_hash() {
        assert forall|k: int| 0 <= k < fi2.len() && (#[trigger] fi2[k]).cas_hash == zero_hash() implies exists|j: int| 0 <= j < ire.len() && #[trigger] ire[j] == k by {
            assert(k < fi.len()); assert(fi[k].cas_hash == zero_hash());
        }
    } else {
        let ire2 = ire.push(fi.len() as usize);
        assert forall|j: int| 0 <= j < ire2.len() implies (#[trigger] ire2[j]) < fi2.len() && fi2[ire2[j] as int].cas_hash == zero_hash() by {
            if j < ire.len() { assert(ire2[j] == ire[j]); }
        }
        assert forall|k: int| 0 <= k < fi2.len() && (#[trigger] fi2[k]).cas_hash == zero_hash() implies exists|j: int| 0 <= j < ire2.len() && #[trigger] ire2[j] == k by {
            if k < fi.len() {
                assert(fi[k].cas_hash == zero_hash());
                let j = choose|j: int| 0 <= j < ire.len() && #[trigger] ire[j] == k;
                assert(ire2[j] == k);
            } else {
                assert(ire2[ire.len() as int] == k);
            }
        }
    }
}


// ---- cutting a xorb: every zero-hash segment is re-pointed at the new xorb X, whose chunk list is the old new_data -------------------
spec fn patched(a: FileDataSequenceEntry, b: FileDataSequenceEntry, x: MerkleHash) -> bool {
    &&& b.cas_flags == a.cas_flags && b.unpacked_segment_bytes == a.unpacked_segment_bytes
    &&& b.chunk_index_start == a.chunk_index_start && b.chunk_index_end == a.chunk_index_end
    &&& (b.cas_hash == a.cas_hash || (a.cas_hash == zero_hash() && b.cas_hash == x))
}
proof fn lemma_cut_flatten(fi0: Seq<FileDataSequenceEntry>, fi1: Seq<FileDataSequenceEntry>, nd0: Seq<MerkleHash>, x: MerkleHash)
    requires fi0.len() == fi1.len(), x != zero_hash(), xorb_chunks(x) == nd0, sum_len(nd0) <= u32::MAX,
        forall|i: int| 0 <= i < fi0.len() ==> patched(#[trigger] fi0[i], fi1[i], x) && fi1[i].cas_hash != zero_hash() && seg_ok(fi0[i], nd0),
    ensures flatten(fi1, Seq::<MerkleHash>::empty()) == flatten(fi0, nd0),
        forall|i: int| 0 <= i < fi1.len() ==> seg_ok(#[trigger] fi1[i], Seq::<MerkleHash>::empty()),
    decreases fi0.len()
{
    let e = Seq::<MerkleHash>::empty();
    if fi0.len() > 0 {
        let n = fi0.len() - 1;
        assert forall|i: int| 0 <= i < fi0.drop_last().len() implies patched(#[trigger] fi0.drop_last()[i], fi1.drop_last()[i], x)
            && fi1.drop_last()[i].cas_hash != zero_hash() && seg_ok(fi0.drop_last()[i], nd0) by { assert(fi0.drop_last()[i] == fi0[i]); }
        lemma_cut_flatten(fi0.drop_last(), fi1.drop_last(), nd0, x);
        assert(patched(fi0[n], fi1[n], x));
        assert(seg_src(fi1[n], e) == seg_src(fi0[n], nd0));
        assert(seg_den(fi1[n], e) == seg_den(fi0[n], nd0));
        assert forall|i: int| 0 <= i < fi1.len() implies seg_ok(#[trigger] fi1[i], e) by {
            assert(patched(fi0[i], fi1[i], x));
            assert(seg_src(fi1[i], e) == seg_src(fi0[i], nd0));
            if i < n { assert(fi1.drop_last()[i] == fi1[i]); }
        }
    }
}


// ---- appending one new chunk hash h to the xorb under construction ---------------------------------------------------------------
proof fn lemma_nd_push(fi: Seq<FileDataSequenceEntry>, nd: Seq<MerkleHash>, h: MerkleHash)
    requires forall|i: int| 0 <= i < fi.len() ==> seg_ok(#[trigger] fi[i], nd), sum_len(nd) + len_of(h) <= u32::MAX,
    ensures forall|i: int| 0 <= i < fi.len() ==> seg_ok(#[trigger] fi[i], nd.push(h)) && seg_den(fi[i], nd.push(h)) == seg_den(fi[i], nd),
        flatten(fi, nd.push(h)) == flatten(fi, nd),
    decreases fi.len()
{
    lemma_sum_len_push(nd, h);
    assert forall|i: int| 0 <= i < fi.len() implies seg_ok(#[trigger] fi[i], nd.push(h)) && seg_den(fi[i], nd.push(h)) == seg_den(fi[i], nd) by {
        if fi[i].cas_hash == zero_hash() {
            assert(nd.push(h).subrange(fi[i].chunk_index_start as int, fi[i].chunk_index_end as int) =~= nd.subrange(fi[i].chunk_index_start as int, fi[i].chunk_index_end as int));
        }
    }
    if fi.len() > 0 {
        assert forall|i: int| 0 <= i < fi.drop_last().len() implies seg_ok(#[trigger] fi.drop_last()[i], nd) by { assert(fi.drop_last()[i] == fi[i]); }
        lemma_nd_push(fi.drop_last(), nd, h);
    }
}
spec fn grown(last: FileDataSequenceEntry, h: MerkleHash) -> FileDataSequenceEntry {
    FileDataSequenceEntry { cas_hash: last.cas_hash, cas_flags: last.cas_flags,
        unpacked_segment_bytes: (last.unpacked_segment_bytes + len_of(h)) as u32,
        chunk_index_start: last.chunk_index_start, chunk_index_end: (last.chunk_index_end + 1) as u32 }
}
// case A: the last segment is the open zero-hash run ending at |nd|; it grows by the new chunk
proof fn lemma_new_chunk_extend(fi: Seq<FileDataSequenceEntry>, nd: Seq<MerkleHash>, h: MerkleHash)
    requires fi.len() > 0, fi.last().cas_hash == zero_hash(), fi.last().chunk_index_end == nd.len(),
        forall|i: int| 0 <= i < fi.len() ==> seg_ok(#[trigger] fi[i], nd), sum_len(nd) + len_of(h) <= u32::MAX, nd.len() < u32::MAX,
    ensures
        fi.last().unpacked_segment_bytes + len_of(h) <= u32::MAX,
        forall|i: int| 0 <= i < fi.len() ==> seg_ok(#[trigger] fi.update(fi.len() - 1, grown(fi.last(), h))[i], nd.push(h)),
        flatten(fi.update(fi.len() - 1, grown(fi.last(), h)), nd.push(h)) == flatten(fi, nd).push(h),
{
    let l = fi.last(); let g = grown(l, h); let nd2 = nd.push(h); let fi2 = fi.update(fi.len() - 1, g);
    lemma_nd_push(fi, nd, h);
    lemma_sum_len_push(nd, h);
    lemma_sum_len_subrange(nd, l.chunk_index_start as int, l.chunk_index_end as int);
    assert(seg_den(g, nd2) =~= seg_den(l, nd).push(h));
    lemma_sum_len_push(seg_den(l, nd), h);
    assert(fi2.drop_last() =~= fi.drop_last());
    assert forall|i: int| 0 <= i < fi.drop_last().len() implies seg_ok(#[trigger] fi.drop_last()[i], nd) by { assert(fi.drop_last()[i] == fi[i]); }
    lemma_nd_push(fi.drop_last(), nd, h);
    assert(flatten(fi2, nd2) == flatten(fi2.drop_last(), nd2) + seg_den(g, nd2));
    assert(flatten(fi, nd) == flatten(fi.drop_last(), nd) + seg_den(l, nd));
    assert(flatten(fi.drop_last(), nd) + seg_den(l, nd).push(h) =~= (flatten(fi.drop_last(), nd) + seg_den(l, nd)).push(h));
    assert forall|i: int| 0 <= i < fi.len() implies seg_ok(#[trigger] fi2[i], nd2) by {
        if i < fi.len() - 1 { assert(fi2[i] == fi[i]); }
    }
}
// case B: a fresh zero-hash segment [|nd|, |nd|+1) is pushed
proof fn lemma_new_chunk_push(fi: Seq<FileDataSequenceEntry>, nd: Seq<MerkleHash>, h: MerkleHash, e: FileDataSequenceEntry)
    requires forall|i: int| 0 <= i < fi.len() ==> seg_ok(#[trigger] fi[i], nd), sum_len(nd) + len_of(h) <= u32::MAX,
        e.cas_hash == zero_hash(), e.chunk_index_start == nd.len(), e.chunk_index_end == nd.len() + 1, e.unpacked_segment_bytes == len_of(h),
    ensures
        forall|i: int| 0 <= i < fi.len() + 1 ==> seg_ok(#[trigger] fi.push(e)[i], nd.push(h)),
        flatten(fi.push(e), nd.push(h)) == flatten(fi, nd).push(h),
{
    let nd2 = nd.push(h);
    lemma_nd_push(fi, nd, h);
    lemma_sum_len_push(nd, h);
    lemma_sum_len_one(nd2, nd.len() as int);
    assert(seg_den(e, nd2) =~= seq![h]);
    lemma_flatten_push(fi, nd2, e);
    assert(flatten(fi, nd) + seq![h] =~= flatten(fi, nd).push(h));
    assert forall|i: int| 0 <= i < fi.len() + 1 implies seg_ok(#[trigger] fi.push(e)[i], nd2) by {
        if i < fi.len() { assert(fi.push(e)[i] == fi[i]); }
    }
}
proof fn lemma_lookup_insert(m: Map<MerkleHash, usize>, nd: Seq<MerkleHash>, h: MerkleHash)
    requires lookup_ok(m, nd), nd.len() < usize::MAX,
    ensures lookup_ok(m.insert(h, nd.len() as usize), nd.push(h)),
{
    let m2 = m.insert(h, nd.len() as usize); let nd2 = nd.push(h);
    assert forall|k: MerkleHash| m2.contains_key(k) implies (#[trigger] m2[k]) < nd2.len() && nd2[m2[k] as int] == k by {
        if k != h { assert(m.contains_key(k)); assert(m[k] < nd.len()); }
    }
}
spec fn answers_ok(d: Seq<Option<(usize, FileDataSequenceEntry)>>, hs: Seq<MerkleHash>) -> bool {
    forall|i: int| 0 <= i < d.len() ==> match #[trigger] d[i] { Some((n, fse)) => truthful(hs.subrange(i, hs.len() as int), n as int, fse), None => true }
}

