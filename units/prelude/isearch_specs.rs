// ---- dependencies (assumed) ----------------------------------------------------------------------------------------
pub struct VxIoError { pub code: u64 }
pub enum SeekFrom { Start(u64), End(i64), Current(i64) }

// little-endian u64 stored at byte offset `off` of the underlying bytes (decoding itself is K-ENTRYCODEC's business)
pub uninterp spec fn spec_u64_at(data: Seq<u8>, off: int) -> u64;

// `R: Read + Seek`: ghost view = immutable bytes, a byte position, and the log of (offset, length) of every read attempted
pub trait VxReadSeek: Sized {
    spec fn data(&self) -> Seq<u8>;
    spec fn pos(&self) -> int;
    spec fn log(&self) -> Seq<(int, int)>;
    // history flag: some operation on this reader has returned an error
    spec fn failed(&self) -> bool;
    fn seek(&mut self, p: SeekFrom) -> (r: std::result::Result<u64, VxIoError>)
        ensures
            final(self).data() == old(self).data(),
            final(self).log() == old(self).log(),
            old(self).failed() ==> final(self).failed(), r is Err ==> final(self).failed(),
            r is Ok ==> (p matches SeekFrom::Start(x) ==> final(self).pos() == x);
}

// `ReadValueFunction: Fn(&mut R) -> Result<Value, io::Error>`
pub trait VxReadValueFn<R: VxReadSeek, Value> {
    spec fn decode(&self, data: Seq<u8>, off: int) -> Value;
    fn call(&self, reader: &mut R) -> (r: std::result::Result<Value, VxIoError>)
        ensures
            final(reader).data() == old(reader).data(),
            final(reader).log() == old(reader).log().push((old(reader).pos(), size_of::<Value>() as int)),
            old(reader).failed() ==> final(reader).failed(), r is Err ==> final(reader).failed(),
            r matches Ok(v) ==> v == self.decode(old(reader).data(), old(reader).pos())
                && final(reader).pos() == old(reader).pos() + size_of::<Value>();
}

// utils::serialization_utils::read_u64
#[verifier::external_body]
pub fn read_u64<R: VxReadSeek>(reader: &mut R) -> (r: std::result::Result<u64, VxIoError>)
    ensures
        final(reader).data() == old(reader).data(),
        final(reader).log() == old(reader).log().push((old(reader).pos(), 8int)),
        old(reader).failed() ==> final(reader).failed(), r is Err ==> final(reader).failed(),
        r matches Ok(v) ==> v == spec_u64_at(old(reader).data(), old(reader).pos())
            && final(reader).pos() == old(reader).pos() + 8,
{ unimplemented!() }

// R7 outline of the float interpolation term.  Its value is ARBITRARY for the functional proof; the only assumed fact is
// the magnitude bound that keeps `lo + <term>` inside u64 (IEEE: a<=b => a/b <= 1.0, and c <= 2^53 is exact in f64).
#[verifier::external_body]
pub fn vx_interp(a: u64, b: u64, c: u64) -> (r: u64)
    ensures a <= b && c <= 0x20_0000_0000_0000 ==> r <= c,
{ (a as f64 / b as f64 * c as f64).floor() as u64 }

// ---- the table as seen through the reader ---------------------------------------------------------------------------
pub open spec fn off(rs: int, psz: int, i: int) -> int { rs + i * psz }
pub open spec fn tkey(data: Seq<u8>, rs: int, psz: int, i: int) -> u64 { spec_u64_at(data, off(rs, psz, i)) }
pub open spec fn tval<R: VxReadSeek, V, F: VxReadValueFn<R, V>>(f: F, data: Seq<u8>, rs: int, psz: int, i: int) -> V {
    f.decode(data, off(rs, psz, i) + 8)
}
pub open spec fn sorted(data: Seq<u8>, rs: int, psz: int, n: int) -> bool {
    forall|i: int, j: int| 0 <= i <= j < n ==> #[trigger] tkey(data, rs, psz, i) <= #[trigger] tkey(data, rs, psz, j)
}
// indices (0-based) of the entries stored under `key`
pub open spec fn matches(data: Seq<u8>, rs: int, psz: int, n: int, key: u64) -> Set<int> {
    set_int_range(0, n).filter(|i: int| tkey(data, rs, psz, i) == key)
}
pub open spec fn min_int(a: int, b: int) -> int { if a <= b { a } else { b } }

// every read logged from position `from` on lies inside [lo, hi)
pub open spec fn log_within(log: Seq<(int, int)>, from: int, lo: int, hi: int) -> bool {
    forall|k: int| from <= k < log.len() ==> lo <= (#[trigger] log[k]).0 && log[k].0 + log[k].1 <= hi && log[k].1 >= 0
}

// `wit` lists the entries whose values were stored, in the order of the result slice
pub open spec fn written_ok<R: VxReadSeek, V, F: VxReadValueFn<R, V>>(f: F, data: Seq<u8>, rs: int, psz: int, n: int, key: u64,
        wit: Seq<int>, cnt: int, res: Seq<V>) -> bool {
    &&& wit.len() == cnt
    &&& cnt <= res.len()
    &&& wit.no_duplicates()
    &&& forall|k: int| 0 <= k < cnt ==> 0 <= #[trigger] wit[k] < n && tkey(data, rs, psz, wit[k]) == key
            && res[k] == tval::<R, V, F>(f, data, rs, psz, wit[k])
    // nothing is missed when the result slice is large enough
    &&& cnt == matches(data, rs, psz, n, key).len() ==>
            forall|i: int| 0 <= i < n && #[trigger] tkey(data, rs, psz, i) == key ==> wit.contains(i)
}

// the first cnt slots of `res` hold the values of cnt distinct entries stored under `key`
pub open spec fn stored_ok<R: VxReadSeek, V, F: VxReadValueFn<R, V>>(f: F, data: Seq<u8>, rs: int, psz: int, n: int, key: u64,
        cnt: int, res: Seq<V>) -> bool {
    exists|wit: Seq<int>| #[trigger] written_ok::<R, V, F>(f, data, rs, psz, n, key, wit, cnt, res)
}

// ---- the contract of `search_on_sorted_u64s` (verified in U-ISEARCH, assumed for the callee stub in U-SHLOOKUP) ------------
pub open spec fn search_pre<V>(data: Seq<u8>, read_start: u64, num_entries: u64) -> bool {
    // a table of num_entries (key: u64, value: V) records at read_start, keys non-decreasing
    &&& num_entries < 0x20_0000_0000_0000
    &&& size_of::<V>() + 8 <= usize::MAX
    &&& read_start + num_entries * (size_of::<V>() + 8) <= u64::MAX
    &&& sorted(data, read_start as int, size_of::<V>() + 8, num_entries as int)
}
// every read attempted by the search (successful or not) lies inside the table; earlier log entries are kept
pub open spec fn search_reads_ok<V>(log0: Seq<(int, int)>, log1: Seq<(int, int)>, read_start: u64, num_entries: u64) -> bool {
    &&& log1.len() >= log0.len()
    &&& log1.subrange(0, log0.len() as int) =~= log0
    &&& log_within(log1, log0.len() as int, read_start as int, read_start + num_entries * (size_of::<V>() + 8))
}
// the number returned is min(#entries with the key, |result|)
pub open spec fn search_count_ok<V>(data: Seq<u8>, read_start: u64, num_entries: u64, key: u64, res_len: int, cnt: int) -> bool {
    cnt == min_int(matches(data, read_start as int, size_of::<V>() + 8, num_entries as int, key).len() as int, res_len)
}
pub open spec fn search_tail_ok<V>(res0: Seq<V>, res1: Seq<V>, cnt: int) -> bool {
    forall|k: int| cnt <= k < res0.len() ==> res1[k] == res0[k]
}
