// std BTreeMap behaves as a map for this key type (derived lexicographic Ord of the [u64;4] newtype is a total order consistent with ==)
pub mod mh_cmp_axioms {
    use vstd::prelude::*;
    use super::MerkleHash;
    #[verifier::external_body]
    pub broadcast proof fn axiom_merklehash_cmp_model()
        ensures #[trigger] vstd::std_specs::btree::key_obeys_cmp_spec::<MerkleHash>()
    { }
}
// (used with a function-level `broadcast use` where a BTreeMap keyed by MerkleHash is updated)
