// contract of DataAggregator::finalize - ONE text: proved for the extracted body in U-AGG, used as the callee contract in U-SESSCUT
        requires self.agg_wf(), /*@C15*/ self.within_limits(),
        ensures
            /*@C02,C15*/ xorb_wf(r.0, self.chunks@),
            /*@C15*/ xorb_le_limits(r.0),
            /*@C15*/ self.chunks@.len() >= 1 ==> xorb_within_limits(r.0),
            r.1@.len() == self.pending_file_info@.len(),
            forall|k: int| 0 <= k < r.1@.len() ==> file_resolved(#[trigger] self.pending_file_info@[k], r.1@[k], r.0.cas_info.metadata.cas_hash),
            /*@C15*/ forall|k: int, i: int| 0 <= k < r.1@.len() && 0 <= i < r.1@[k].segments@.len() ==> (#[trigger] r.1@[k].segments@[i]).cas_hash != zero_hash(),
            /*@C02*/ forall|k: int| 0 <= k < r.1@.len() ==> segs_ok((#[trigger] r.1@[k]).segments@, Seq::<MerkleHash>::empty()),
            /*@C01,C02*/ forall|k: int| 0 <= k < r.1@.len() ==> flatten((#[trigger] r.1@[k]).segments@, Seq::<MerkleHash>::empty()) == self.den(k),
