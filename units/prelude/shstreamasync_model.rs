// ---- U-SHSTREAMASYNC prelude: the section model, view predicates and minimal-shard lemmas of U-SHSTREAM, copied VERBATIM from
// units/U-SHSTREAM.rs (2026-10-04; line ranges 56-96, 111-118, 146-151, 378-395, 418-619) so that the async walkers are stated
// against the SAME spec parse functions (file_section / cas_section / file_pos / cas_pos / following / *_view_ok / *_cb_got /
// from_reader_pre / from_reader_post).  Do not edit here: regenerate with the sed command in U-SHSTREAMASYNC.notes.md.
// ---- section model: identical to U-SHSCAN (from the bytes only) -------------------------------------------------------
spec fn has_verif(h: FileDataSequenceHeader) -> bool { h.file_flags & MDB_FILE_FLAG_VERIFICATION_MASK != 0 }
spec fn has_ext(h: FileDataSequenceHeader) -> bool { h.file_flags & MDB_FILE_FLAG_METADATA_EXT_MASK != 0 }
spec fn following(h: FileDataSequenceHeader) -> int {
    (if has_verif(h) { 2 * h.num_entries } else { h.num_entries as int }) + (if has_ext(h) { 1int } else { 0 })
}
spec fn file_pos(off: int, sec: Seq<FileDataSequenceHeader>, k: int) -> int decreases k {
    if k <= 0 { off } else { file_pos(off, sec, k - 1) + 48 + 48 * following(sec[k - 1]) }
}
spec fn file_section(data: Seq<u8>, off: int, sec: Seq<FileDataSequenceHeader>) -> bool {
    &&& forall|k: int| 0 <= k < sec.len() ==> file_hdr_at(data, #[trigger] file_pos(off, sec, k)) == sec[k] && sec[k].file_hash != bookend_hash()
    &&& file_hdr_at(data, file_pos(off, sec, sec.len() as int)).file_hash == bookend_hash()
}
spec fn has_file_section(data: Seq<u8>, off: int) -> bool { exists|sec: Seq<FileDataSequenceHeader>| file_section(data, off, sec) }
spec fn the_file_section(data: Seq<u8>, off: int) -> Seq<FileDataSequenceHeader> { choose|sec: Seq<FileDataSequenceHeader>| file_section(data, off, sec) }
proof fn lemma_file_pos_step(off: int, sec: Seq<FileDataSequenceHeader>, k: int)
    requires 0 <= k < sec.len(),
    ensures file_pos(off, sec, k + 1) == file_pos(off, sec, k) + 48 + 48 * following(sec[k]),
{}
proof fn lemma_file_pos_ge(off: int, sec: Seq<FileDataSequenceHeader>, k: int)
    ensures file_pos(off, sec, k) >= off
    decreases k
{ if k > 0 { lemma_file_pos_ge(off, sec, k - 1); } }
spec fn cas_pos(off: int, sec: Seq<CASChunkSequenceHeader>, k: int) -> int decreases k {
    if k <= 0 { off } else { cas_pos(off, sec, k - 1) + 48 + 48 * sec[k - 1].num_entries }
}
spec fn cas_section(data: Seq<u8>, off: int, sec: Seq<CASChunkSequenceHeader>) -> bool {
    &&& forall|k: int| 0 <= k < sec.len() ==> cas_hdr_at(data, #[trigger] cas_pos(off, sec, k)) == sec[k] && sec[k].cas_hash != bookend_hash()
    &&& cas_hdr_at(data, cas_pos(off, sec, sec.len() as int)).cas_hash == bookend_hash()
}
spec fn has_cas_section(data: Seq<u8>, off: int) -> bool { exists|sec: Seq<CASChunkSequenceHeader>| cas_section(data, off, sec) }
spec fn the_cas_section(data: Seq<u8>, off: int) -> Seq<CASChunkSequenceHeader> { choose|sec: Seq<CASChunkSequenceHeader>| cas_section(data, off, sec) }
proof fn lemma_cas_pos_step(off: int, sec: Seq<CASChunkSequenceHeader>, k: int)
    requires 0 <= k < sec.len(),
    ensures cas_pos(off, sec, k + 1) == cas_pos(off, sec, k) + 48 + 48 * sec[k].num_entries,
{}

proof fn lemma_cas_pos_ge(off: int, sec: Seq<CASChunkSequenceHeader>, k: int)
    ensures cas_pos(off, sec, k) >= off
    decreases k
{ if k > 0 { lemma_cas_pos_ge(off, sec, k - 1); } }
// a file record handed to a callback: the header, and a private buffer holding the re-encoded header followed by the record's
// `following` 48-byte entries exactly as they stand in the stream at p+48
spec fn file_view_ok(v: MDBFileInfoView, data: Seq<u8>, p: int, h: FileDataSequenceHeader) -> bool {
    v.header == h && v.offset == 0 && v.data@ == enc_file_hdr(h) + data.subrange(p + 48, p + 48 + 48 * following(h)) && v.data@.len() == 48 * (1 + following(h))
}
spec fn cas_view_ok(v: MDBCASInfoView, data: Seq<u8>, p: int, h: CASChunkSequenceHeader) -> bool {
    v.header == h && v.offset == 0 && v.data@ == enc_cas_hdr(h) + data.subrange(p + 48, p + 48 + 48 * h.num_entries) && v.data@.len() == 48 * (1 + h.num_entries)
}
// `Write::write_all` on a Vec<u8>: appends the slice
#[verifier::external_body]
fn vx_write_all(w: &mut Vec<u8>, b: &[u8]) -> (r: Result<()>) ensures r is Ok ==> final(w)@ == old(w)@ + b@ { unimplemented!() }
// a view is well-formed when its record lies inside its buffer (what from_data_and_header checks)
spec fn fview_wf(v: MDBFileInfoView) -> bool { v.offset + 48 * (1 + following(v.header)) <= v.data@.len() <= usize::MAX }
spec fn cview_wf(v: MDBCASInfoView) -> bool { v.offset + 48 * (1 + v.header.num_entries) <= v.data@.len() <= usize::MAX }
// what a callback has seen after a section was streamed to it (the two postconditions above, as predicates)
spec fn file_cb_got(l0: Seq<MDBFileInfoView>, l1: Seq<MDBFileInfoView>, data: Seq<u8>, off: int) -> bool {
    let sec = the_file_section(data, off);
    &&& l1.len() == l0.len() + sec.len() && l1.subrange(0, l0.len() as int) == l0
    &&& forall|k: int| 0 <= k < sec.len() ==> file_view_ok(#[trigger] l1[l0.len() + k], data, file_pos(off, sec, k), sec[k])
}
spec fn cas_cb_got(l0: Seq<MDBCASInfoView>, l1: Seq<MDBCASInfoView>, data: Seq<u8>, off: int) -> bool {
    let sec = the_cas_section(data, off);
    &&& l1.len() == l0.len() + sec.len() && l1.subrange(0, l0.len() as int) == l0
    &&& forall|k: int| 0 <= k < sec.len() ==> cas_view_ok(#[trigger] l1[l0.len() + k], data, cas_pos(off, sec, k), sec[k])
}
// start of the CAS section of a shard whose file section starts at `foff`: right after the file bookend
spec fn cas_start(data: Seq<u8>, foff: int) -> int { let sec = the_file_section(data, foff); file_pos(foff, sec, sec.len() as int) + 48 }
impl VxFileCb {
    // R7 outline of the closure literal `|_| Ok(())` passed when no file callback is given: a callback that does nothing
    #[verifier::external_body]
    fn noop() -> (r: VxFileCb) { unimplemented!() }
}
// ================= MDBMinimalShard as a pair of sections (same model) ==================================================
proof fn lemma_file_pos_mono(off: int, sec: Seq<FileDataSequenceHeader>, i: int, j: int)
    requires 0 <= i <= j,
    ensures file_pos(off, sec, i) <= file_pos(off, sec, j)
    decreases j - i
{ if i < j { lemma_file_pos_mono(off, sec, i, j - 1); } }
proof fn lemma_cas_pos_mono(off: int, sec: Seq<CASChunkSequenceHeader>, i: int, j: int)
    requires 0 <= i <= j,
    ensures cas_pos(off, sec, i) <= cas_pos(off, sec, j)
    decreases j - i
{ if i < j { lemma_cas_pos_mono(off, sec, i, j - 1); } }
// positions are translation invariant
proof fn lemma_file_pos_shift(a: int, b: int, sec: Seq<FileDataSequenceHeader>, k: int)
    ensures file_pos(a, sec, k) - a == file_pos(b, sec, k) - b
    decreases k
{ if k > 0 { lemma_file_pos_shift(a, b, sec, k - 1); } }
proof fn lemma_cas_pos_shift(a: int, b: int, sec: Seq<CASChunkSequenceHeader>, k: int)
    ensures cas_pos(a, sec, k) - a == cas_pos(b, sec, k) - b
    decreases k
{ if k > 0 { lemma_cas_pos_shift(a, b, sec, k - 1); } }
// a section is determined by the bytes: two header lists that both describe the bytes at `off` are equal
proof fn lemma_file_prefix_eq(data: Seq<u8>, off: int, a: Seq<FileDataSequenceHeader>, b: Seq<FileDataSequenceHeader>, k: int)
    requires file_section(data, off, a), file_section(data, off, b), 0 <= k <= a.len(), k <= b.len(),
    ensures file_pos(off, a, k) == file_pos(off, b, k), forall|i: int| 0 <= i < k ==> a[i] == b[i],
    decreases k
{
    if k > 0 {
        lemma_file_prefix_eq(data, off, a, b, k - 1);
        assert(file_hdr_at(data, file_pos(off, a, k - 1)) == a[k - 1]);
        assert(file_hdr_at(data, file_pos(off, b, k - 1)) == b[k - 1]);
    }
}
proof fn lemma_file_section_unique(data: Seq<u8>, off: int, a: Seq<FileDataSequenceHeader>, b: Seq<FileDataSequenceHeader>)
    requires file_section(data, off, a), file_section(data, off, b),
    ensures a == b,
{
    let m = if a.len() <= b.len() { a.len() as int } else { b.len() as int };
    lemma_file_prefix_eq(data, off, a, b, m);
    if a.len() < b.len() { assert(file_hdr_at(data, file_pos(off, b, m)) == b[m]); assert(false); }
    if b.len() < a.len() { assert(file_hdr_at(data, file_pos(off, a, m)) == a[m]); assert(false); }
    assert(a =~= b);
}
proof fn lemma_cas_prefix_eq(data: Seq<u8>, off: int, a: Seq<CASChunkSequenceHeader>, b: Seq<CASChunkSequenceHeader>, k: int)
    requires cas_section(data, off, a), cas_section(data, off, b), 0 <= k <= a.len(), k <= b.len(),
    ensures cas_pos(off, a, k) == cas_pos(off, b, k), forall|i: int| 0 <= i < k ==> a[i] == b[i],
    decreases k
{
    if k > 0 {
        lemma_cas_prefix_eq(data, off, a, b, k - 1);
        assert(cas_hdr_at(data, cas_pos(off, a, k - 1)) == a[k - 1]);
        assert(cas_hdr_at(data, cas_pos(off, b, k - 1)) == b[k - 1]);
    }
}
proof fn lemma_cas_section_unique(data: Seq<u8>, off: int, a: Seq<CASChunkSequenceHeader>, b: Seq<CASChunkSequenceHeader>)
    requires cas_section(data, off, a), cas_section(data, off, b),
    ensures a == b,
{
    let m = if a.len() <= b.len() { a.len() as int } else { b.len() as int };
    lemma_cas_prefix_eq(data, off, a, b, m);
    if a.len() < b.len() { assert(cas_hdr_at(data, cas_pos(off, b, m)) == b[m]); assert(false); }
    if b.len() < a.len() { assert(cas_hdr_at(data, cas_pos(off, a, m)) == a[m]); assert(false); }
    assert(a =~= b);
}
proof fn lemma_the_file_section(data: Seq<u8>, off: int, sec: Seq<FileDataSequenceHeader>)
    requires file_section(data, off, sec),
    ensures has_file_section(data, off), the_file_section(data, off) == sec,
{ lemma_file_section_unique(data, off, the_file_section(data, off), sec); }
proof fn lemma_the_cas_section(data: Seq<u8>, off: int, sec: Seq<CASChunkSequenceHeader>)
    requires cas_section(data, off, sec),
    ensures has_cas_section(data, off), the_cas_section(data, off) == sec,
{ lemma_cas_section_unique(data, off, the_cas_section(data, off), sec); }

// the buffer after the first j file records of `sec` (taken from `input` at `ioff`) were appended to an empty buffer
spec fn built_files(d: Seq<u8>, input: Seq<u8>, ioff: int, sec: Seq<FileDataSequenceHeader>, j: int) -> bool {
    &&& d.len() == file_pos(0, sec, j)
    &&& forall|i: int| 0 <= i < j ==> file_hdr_at(d, #[trigger] file_pos(0, sec, i)) == sec[i]
    &&& forall|i: int| 0 <= i < j ==> d.subrange(#[trigger] file_pos(0, sec, i) + 48, file_pos(0, sec, i + 1)) == input.subrange(file_pos(ioff, sec, i) + 48, file_pos(ioff, sec, i + 1))
}
proof fn lemma_built_files_step(d: Seq<u8>, input: Seq<u8>, ioff: int, sec: Seq<FileDataSequenceHeader>, j: int, rec: Seq<u8>)
    requires built_files(d, input, ioff, sec, j), 0 <= j < sec.len(),
        rec == enc_file_hdr(sec[j]) + input.subrange(file_pos(ioff, sec, j) + 48, file_pos(ioff, sec, j) + 48 + 48 * following(sec[j])),
        rec.len() == 48 * (1 + following(sec[j])),
    ensures built_files(d + rec, input, ioff, sec, j + 1),
{
    let d2 = d + rec;
    axiom_codec_file_hdr(sec[j]);
    lemma_file_pos_step(0, sec, j); lemma_file_pos_step(ioff, sec, j); lemma_file_pos_ge(0, sec, j);
    let ent = input.subrange(file_pos(ioff, sec, j) + 48, file_pos(ioff, sec, j) + 48 + 48 * following(sec[j]));
    assert(d2.subrange(file_pos(0, sec, j), file_pos(0, sec, j) + 48) =~= enc_file_hdr(sec[j]));
    assert(d2.subrange(file_pos(0, sec, j) + 48, file_pos(0, sec, j + 1)) =~= ent);
    assert forall|i: int| 0 <= i < j + 1 implies file_hdr_at(d2, #[trigger] file_pos(0, sec, i)) == sec[i] by {
        if i < j {
            lemma_file_pos_mono(0, sec, i + 1, j); lemma_file_pos_step(0, sec, i); lemma_file_pos_ge(0, sec, i);
            assert(d2.subrange(file_pos(0, sec, i), file_pos(0, sec, i) + 48) =~= d.subrange(file_pos(0, sec, i), file_pos(0, sec, i) + 48));
        }
    }
    assert forall|i: int| 0 <= i < j + 1 implies d2.subrange(#[trigger] file_pos(0, sec, i) + 48, file_pos(0, sec, i + 1)) == input.subrange(file_pos(ioff, sec, i) + 48, file_pos(ioff, sec, i + 1)) by {
        if i < j {
            lemma_file_pos_mono(0, sec, i + 1, j); lemma_file_pos_step(0, sec, i); lemma_file_pos_ge(0, sec, i);
            assert(d2.subrange(file_pos(0, sec, i) + 48, file_pos(0, sec, i + 1)) =~= d.subrange(file_pos(0, sec, i) + 48, file_pos(0, sec, i + 1)));
        }
    }
}
// closing the file part with the bookend gives a file section of exactly `sec` at offset 0; appending more bytes keeps it
proof fn lemma_built_files_close(d: Seq<u8>, input: Seq<u8>, ioff: int, sec: Seq<FileDataSequenceHeader>, rest: Seq<u8>)
    requires built_files(d, input, ioff, sec, sec.len() as int), forall|i: int| 0 <= i < sec.len() ==> (#[trigger] sec[i]).file_hash != bookend_hash(),
    ensures file_section(d + enc_file_hdr(file_bookend_hdr()) + rest, 0, sec),
{
    let n = sec.len() as int; let b = enc_file_hdr(file_bookend_hdr()); let d2 = d + b + rest;
    axiom_codec_file_hdr(file_bookend_hdr()); axiom_bookends(); lemma_file_pos_ge(0, sec, n);
    assert(d2.subrange(file_pos(0, sec, n), file_pos(0, sec, n) + 48) =~= b);
    assert forall|k: int| 0 <= k < n implies file_hdr_at(d2, #[trigger] file_pos(0, sec, k)) == sec[k] && sec[k].file_hash != bookend_hash() by {
        lemma_file_pos_mono(0, sec, k + 1, n); lemma_file_pos_step(0, sec, k); lemma_file_pos_ge(0, sec, k);
        assert(d2.subrange(file_pos(0, sec, k), file_pos(0, sec, k) + 48) =~= d.subrange(file_pos(0, sec, k), file_pos(0, sec, k) + 48));
    }
}
spec fn built_cas(d: Seq<u8>, base: int, input: Seq<u8>, ioff: int, sec: Seq<CASChunkSequenceHeader>, j: int) -> bool {
    &&& d.len() == cas_pos(base, sec, j) && base >= 0
    &&& forall|i: int| 0 <= i < j ==> cas_hdr_at(d, #[trigger] cas_pos(base, sec, i)) == sec[i]
    &&& forall|i: int| 0 <= i < j ==> d.subrange(#[trigger] cas_pos(base, sec, i) + 48, cas_pos(base, sec, i + 1)) == input.subrange(cas_pos(ioff, sec, i) + 48, cas_pos(ioff, sec, i + 1))
}
proof fn lemma_built_cas_step(d: Seq<u8>, base: int, input: Seq<u8>, ioff: int, sec: Seq<CASChunkSequenceHeader>, j: int, rec: Seq<u8>)
    requires built_cas(d, base, input, ioff, sec, j), 0 <= j < sec.len(),
        rec == enc_cas_hdr(sec[j]) + input.subrange(cas_pos(ioff, sec, j) + 48, cas_pos(ioff, sec, j) + 48 + 48 * sec[j].num_entries),
        rec.len() == 48 * (1 + sec[j].num_entries),
    ensures built_cas(d + rec, base, input, ioff, sec, j + 1),
{
    let d2 = d + rec;
    axiom_codec_cas_hdr(sec[j]);
    lemma_cas_pos_step(base, sec, j); lemma_cas_pos_step(ioff, sec, j); lemma_cas_pos_ge(base, sec, j);
    let ent = input.subrange(cas_pos(ioff, sec, j) + 48, cas_pos(ioff, sec, j) + 48 + 48 * sec[j].num_entries);
    assert(d2.subrange(cas_pos(base, sec, j), cas_pos(base, sec, j) + 48) =~= enc_cas_hdr(sec[j]));
    assert(d2.subrange(cas_pos(base, sec, j) + 48, cas_pos(base, sec, j + 1)) =~= ent);
    assert forall|i: int| 0 <= i < j + 1 implies cas_hdr_at(d2, #[trigger] cas_pos(base, sec, i)) == sec[i] by {
        if i < j {
            lemma_cas_pos_mono(base, sec, i + 1, j); lemma_cas_pos_step(base, sec, i); lemma_cas_pos_ge(base, sec, i);
            assert(d2.subrange(cas_pos(base, sec, i), cas_pos(base, sec, i) + 48) =~= d.subrange(cas_pos(base, sec, i), cas_pos(base, sec, i) + 48));
        }
    }
    assert forall|i: int| 0 <= i < j + 1 implies d2.subrange(#[trigger] cas_pos(base, sec, i) + 48, cas_pos(base, sec, i + 1)) == input.subrange(cas_pos(ioff, sec, i) + 48, cas_pos(ioff, sec, i + 1)) by {
        if i < j {
            lemma_cas_pos_mono(base, sec, i + 1, j); lemma_cas_pos_step(base, sec, i); lemma_cas_pos_ge(base, sec, i);
            assert(d2.subrange(cas_pos(base, sec, i) + 48, cas_pos(base, sec, i + 1)) =~= d.subrange(cas_pos(base, sec, i) + 48, cas_pos(base, sec, i + 1)));
        }
    }
}
proof fn lemma_built_cas_close(d: Seq<u8>, base: int, input: Seq<u8>, ioff: int, sec: Seq<CASChunkSequenceHeader>)
    requires built_cas(d, base, input, ioff, sec, sec.len() as int), forall|i: int| 0 <= i < sec.len() ==> (#[trigger] sec[i]).cas_hash != bookend_hash(),
    ensures cas_section(d + enc_cas_hdr(cas_bookend_hdr()), base, sec),
{
    let n = sec.len() as int; let b = enc_cas_hdr(cas_bookend_hdr()); let d2 = d + b;
    axiom_codec_cas_hdr(cas_bookend_hdr()); axiom_bookends(); lemma_cas_pos_ge(base, sec, n);
    assert(d2.subrange(cas_pos(base, sec, n), cas_pos(base, sec, n) + 48) =~= b);
    assert forall|k: int| 0 <= k < n implies cas_hdr_at(d2, #[trigger] cas_pos(base, sec, k)) == sec[k] && sec[k].cas_hash != bookend_hash() by {
        lemma_cas_pos_mono(base, sec, k + 1, n); lemma_cas_pos_step(base, sec, k); lemma_cas_pos_ge(base, sec, k);
        assert(d2.subrange(cas_pos(base, sec, k), cas_pos(base, sec, k) + 48) =~= d.subrange(cas_pos(base, sec, k), cas_pos(base, sec, k) + 48));
    }
}

// well-formed minimal shard: `data` is a file section at 0 followed by a CAS section at cas_info_start, the offset vectors are
// the record positions, everything fits the u32 offsets
spec fn min_wf(m: MDBMinimalShard) -> bool {
    let d = m.data@; let fs = the_file_section(d, 0); let cis = m.cas_info_start as int; let cs = the_cas_section(d, cis);
    &&& file_section(d, 0, fs) && cis == file_pos(0, fs, fs.len() as int) + 48
    &&& cas_section(d, cis, cs) && d.len() == cas_pos(cis, cs, cs.len() as int) + 48 && d.len() <= u32::MAX
    &&& m.file_offsets@.len() == fs.len() && forall|k: int| 0 <= k < fs.len() ==> #[trigger] m.file_offsets@[k] == file_pos(0, fs, k)
    &&& m.cas_offsets@.len() == cs.len() && forall|k: int| 0 <= k < cs.len() ==> #[trigger] m.cas_offsets@[k] == cas_pos(cis, cs, k)
}
// what `m` holds: the two header lists (C09's "file and xorb records" of the minimal reader)
spec fn min_files(m: MDBMinimalShard) -> Seq<FileDataSequenceHeader> { the_file_section(m.data@, 0) }
spec fn min_cas(m: MDBMinimalShard) -> Seq<CASChunkSequenceHeader> { the_cas_section(m.data@, m.cas_info_start as int) }

// ---- composition check for `MDBMinimalShard::from_reader` (HAND-WRITTEN skeleton, not extracted) --------------------------
// The real function passes two closures that capture `file_offsets` / `data_vec` mutably to the streaming functions; Verus does
// not accept closures capturing `&mut`.  The skeleton runs the verified streaming function with a recording callback and then
// applies the LIFTED closure body (from_reader_file_cb / from_reader_cas_cb, extracted text) to each recorded view in order —
// the same calls in the same order, since the closures do not touch the reader.  Everything between the calls is extracted
// (from_reader_mid, from_reader_tail).  It shows that the region contracts chain to the statement below.
spec fn sections_fit(data: Seq<u8>, foff: int, include_files: bool, include_cas: bool) -> bool {
    let fs = the_file_section(data, foff); let coff = cas_start(data, foff); let cs = the_cas_section(data, coff);
    (if include_files { file_pos(foff, fs, fs.len() as int) - foff } else { 0 }) + 48 + (if include_cas { cas_pos(coff, cs, cs.len() as int) - coff } else { 0 }) + 48 <= u32::MAX
}

spec fn from_reader_pre(data: Seq<u8>, pos: int, include_files: bool, include_cas: bool) -> bool {
    &&& pos >= 0 && has_file_section(data, pos + 48)
    &&& include_cas ==> has_cas_section(data, cas_start(data, pos + 48))
    // the selected info sections fit the u32 offsets a minimal shard stores (< 4 GiB)
    &&& sections_fit(data, pos + 48, include_files, include_cas)
}
// the minimal shard lists exactly the file records / xorb records of the stream's sections (all of them, up to the bookends,
// whatever the footer says — the footer is never read), or none of a section that was not asked for; every record's entries are
// the stream's bytes
spec fn from_reader_post(data: Seq<u8>, pos: int, include_files: bool, include_cas: bool, m: MDBMinimalShard) -> bool {
    let foff = pos + 48; let coff = cas_start(data, foff);
    &&& min_wf(m)
    &&& min_files(m) == (if include_files { the_file_section(data, foff) } else { Seq::empty() })
    &&& min_cas(m) == (if include_cas { the_cas_section(data, coff) } else { Seq::empty() })
    &&& include_files ==> forall|i: int| 0 <= i < min_files(m).len() ==>
            m.data@.subrange(#[trigger] file_pos(0, min_files(m), i) + 48, file_pos(0, min_files(m), i + 1)) == data.subrange(file_pos(foff, min_files(m), i) + 48, file_pos(foff, min_files(m), i + 1))
    &&& include_cas ==> forall|i: int| 0 <= i < min_cas(m).len() ==>
            m.data@.subrange(#[trigger] cas_pos(m.cas_info_start as int, min_cas(m), i) + 48, cas_pos(m.cas_info_start as int, min_cas(m), i + 1)) == data.subrange(cas_pos(coff, min_cas(m), i) + 48, cas_pos(coff, min_cas(m), i + 1))
}
