// ---- section model of U-SHSCAN, copied VERBATIM from units/U-SHSCAN.rs (the scanners' contracts are written with these
// predicates; the writer's postconditions below use the same text so that writer and scanners meet on one definition).
// Check: every line below occurs unchanged in U-SHSCAN.rs.
// ================= the CAS section as a record list, defined from the BYTES only (no footer count field) ============
// position of block k of a section that starts at `off` and whose block headers are `sec`
spec fn cas_pos(off: int, sec: Seq<CASChunkSequenceHeader>, k: int) -> int decreases k {
    if k <= 0 { off } else { cas_pos(off, sec, k - 1) + 48 + 48 * sec[k - 1].num_entries }
}
// `sec` is the list of block headers found at `off`: each at its position, none a bookend, and a bookend right after the last
spec fn cas_section(data: Seq<u8>, off: int, sec: Seq<CASChunkSequenceHeader>) -> bool {
    &&& forall|k: int| 0 <= k < sec.len() ==> cas_hdr_at(data, #[trigger] cas_pos(off, sec, k)) == sec[k] && sec[k].cas_hash != bookend_hash()
    &&& cas_hdr_at(data, cas_pos(off, sec, sec.len() as int)).cas_hash == bookend_hash()
}
spec fn has_cas_section(data: Seq<u8>, off: int) -> bool { exists|sec: Seq<CASChunkSequenceHeader>| cas_section(data, off, sec) }
spec fn the_cas_section(data: Seq<u8>, off: int) -> Seq<CASChunkSequenceHeader> { choose|sec: Seq<CASChunkSequenceHeader>| cas_section(data, off, sec) }
proof fn lemma_cas_pos_step(off: int, sec: Seq<CASChunkSequenceHeader>, k: int)
    requires 0 <= k < sec.len(),
    ensures cas_pos(off, sec, k + 1) == cas_pos(off, sec, k) + 48 + 48 * sec[k].num_entries,
{}


// the full block k of the section: header and its chunk entries
spec fn cas_block_ok(data: Seq<u8>, p: int, b: MDBCASInfo) -> bool {
    &&& b.metadata == cas_hdr_at(data, p) && b.chunks@.len() == b.metadata.num_entries
    &&& forall|j: int| 0 <= j < b.chunks@.len() ==> #[trigger] b.chunks@[j] == cas_entry_at(data, p + 48 + 48 * j)
}
// ================= the file-info section, again from the bytes only ==================================================
spec fn has_verif(h: FileDataSequenceHeader) -> bool { h.file_flags & MDB_FILE_FLAG_VERIFICATION_MASK != 0 }
spec fn has_ext(h: FileDataSequenceHeader) -> bool { h.file_flags & MDB_FILE_FLAG_METADATA_EXT_MASK != 0 }
// number of 48-byte records after the header of a file block: entries, verification entries, metadata-ext
spec fn following(h: FileDataSequenceHeader) -> int {
    (if has_verif(h) { 2 * h.num_entries } else { h.num_entries as int }) + (if has_ext(h) { 1int } else { 0 })
}
spec fn file_pos(off: int, sec: Seq<FileDataSequenceHeader>, k: int) -> int decreases k {
    if k <= 0 { off } else { file_pos(off, sec, k - 1) + 48 + 48 * following(sec[k - 1]) }
}
spec fn file_section(data: Seq<u8>, off: int, sec: Seq<FileDataSequenceHeader>) -> bool {
    &&& forall|k: int| 0 <= k < sec.len() ==> file_hdr_at(data, #[trigger] file_pos(off, sec, k)) == sec[k] && sec[k].file_hash != bookend_hash()
    &&& file_hdr_at(data, file_pos(off, sec, sec.len() as int)).file_hash == bookend_hash()
}
spec fn has_file_section(data: Seq<u8>, off: int) -> bool { exists|sec: Seq<FileDataSequenceHeader>| file_section(data, off, sec) }
spec fn the_file_section(data: Seq<u8>, off: int) -> Seq<FileDataSequenceHeader> { choose|sec: Seq<FileDataSequenceHeader>| file_section(data, off, sec) }
proof fn lemma_file_pos_step(off: int, sec: Seq<FileDataSequenceHeader>, k: int)
    requires 0 <= k < sec.len(),
    ensures file_pos(off, sec, k + 1) == file_pos(off, sec, k) + 48 + 48 * following(sec[k]),
{}
// the full file block at p: header, data entries, verification entries (iff flagged), metadata-ext (iff flagged)
spec fn file_block_ok(data: Seq<u8>, p: int, f: MDBFileInfo) -> bool {
    let n = f.metadata.num_entries as int;
    &&& f.metadata == file_hdr_at(data, p)
    &&& f.segments@.len() == n && forall|j: int| 0 <= j < n ==> #[trigger] f.segments@[j] == file_entry_at(data, p + 48 + 48 * j)
    &&& f.verification@.len() == (if has_verif(f.metadata) { n } else { 0 })
    &&& forall|j: int| 0 <= j < f.verification@.len() ==> #[trigger] f.verification@[j] == verif_at(data, p + 48 + 48 * n + 48 * j)
    &&& f.metadata_ext == (if has_ext(f.metadata) { Some(ext_at(data, p + 48 + 48 * (following(f.metadata) - 1))) } else { None::<FileMetadataExt> })
}
