// ---- shared by U-CHUNKDEC and U-XORBRANGE (needs prelude/xorbidx_codec.rs) ----
// ---- THE shared specification of a serialized chunk at position `pos` of `bytes` (same functions for every decoder) --------------------
pub open spec fn chunk_clen(bytes: Seq<u8>, pos: nat) -> nat { le3(bytes, pos as int + 1) }
pub open spec fn chunk_ulen(bytes: Seq<u8>, pos: nat) -> nat { le3(bytes, pos as int + 5) }
pub open spec fn chunk_scheme(bytes: Seq<u8>, pos: nat) -> Option<CompressionScheme> { scheme_of_byte(bytes[pos as int + 4]) }
// payload bytes actually present (all of them for a well-formed chunk)
pub open spec fn chunk_avail(bytes: Seq<u8>, pos: nat) -> nat {
    if pos + 8 + chunk_clen(bytes, pos) <= bytes.len() { chunk_clen(bytes, pos) } else { (bytes.len() - (pos + 8)) as nat }
}
pub open spec fn chunk_payload(bytes: Seq<u8>, pos: nat) -> Seq<u8> { bytes.subrange(pos as int + 8, pos as int + 8 + chunk_avail(bytes, pos)) }
pub open spec fn chunk_data(bytes: Seq<u8>, pos: nat) -> Seq<u8> {
    match chunk_scheme(bytes, pos) { Some(s) => decode_spec(s, chunk_payload(bytes, pos)), None => Seq::empty() }
}
pub open spec fn chunk_next(bytes: Seq<u8>, pos: nat) -> nat { pos + 8 + chunk_avail(bytes, pos) }
pub open spec fn well_formed_at(bytes: Seq<u8>, pos: nat) -> bool { pos + 8 + chunk_clen(bytes, pos) <= bytes.len() }
// what every single-chunk decoder must deliver on Ok: the returned pair and the bytes appended to the writer ...
pub open spec fn single_ok_data(bytes: Seq<u8>, pos: nat, w0: Seq<u8>, w1: Seq<u8>, ret: (usize, u32)) -> bool {
    &&& pos + 8 <= bytes.len() && chunk_scheme(bytes, pos) is Some
    &&& ret.0 == 8 + chunk_clen(bytes, pos)
    &&& ret.1 == chunk_ulen(bytes, pos) && chunk_ulen(bytes, pos) == chunk_data(bytes, pos).len()
    &&& w1 == w0 + chunk_data(bytes, pos)
}
// ... and the new reader position.  `single_ok`: the reader stands behind the DECLARED payload (the async / stream decoder, which `read_exact`s the
// declared length; the sync decoder when the payload is frame-exact)
pub open spec fn single_ok(bytes: Seq<u8>, pos: nat, w0: Seq<u8>, w1: Seq<u8>, pos1: nat, ret: (usize, u32)) -> bool {
    &&& single_ok_data(bytes, pos, w0, w1, ret)
    &&& pos1 == chunk_next(bytes, pos)
}
// how much of the payload the reader-based codec consumes (see consumed_spec): all of it for scheme None, the lz4 frame otherwise
pub open spec fn chunk_consumed(bytes: Seq<u8>, pos: nat) -> nat {
    match chunk_scheme(bytes, pos) { Some(s) => consumed_spec(s, chunk_payload(bytes, pos)), None => chunk_avail(bytes, pos) }
}
pub open spec fn chunk_next_sync(bytes: Seq<u8>, pos: nat) -> nat { pos + 8 + chunk_consumed(bytes, pos) }
// no slack between the end of the encoded unit and the end of the declared payload (true of every chunk serialize_chunk writes)
pub open spec fn frame_exact_at(bytes: Seq<u8>, pos: nat) -> bool { chunk_consumed(bytes, pos) == chunk_avail(bytes, pos) }
// `single_ok_sync`: what the SYNC decoder (decompress_from_reader over `reader.take(clen)`) delivers for ARBITRARY stored bytes: same pair, same data,
// but the reader stands behind what the codec consumed -- inside the declared payload if that has slack after the lz4 frame
pub open spec fn single_ok_sync(bytes: Seq<u8>, pos: nat, w0: Seq<u8>, w1: Seq<u8>, pos1: nat, ret: (usize, u32)) -> bool {
    &&& single_ok_data(bytes, pos, w0, w1, ret)
    &&& chunk_consumed(bytes, pos) <= chunk_avail(bytes, pos)
    &&& pos1 == chunk_next_sync(bytes, pos)
}


// ---- the shared specification of a run of chunks starting at p0 ---------------------------------------------------------------------------
pub open spec fn walk_pos(bytes: Seq<u8>, p0: nat, i: nat) -> nat decreases i {
    if i == 0 { p0 } else { chunk_next(bytes, walk_pos(bytes, p0, (i - 1) as nat)) }
}
// prefix sums of the DECODED lengths
pub open spec fn total_len(bytes: Seq<u8>, p0: nat, i: nat) -> nat decreases i {
    if i == 0 { 0 } else { total_len(bytes, p0, (i - 1) as nat) + chunk_data(bytes, walk_pos(bytes, p0, (i - 1) as nat)).len() }
}
pub open spec fn concat_data(bytes: Seq<u8>, p0: nat, i: nat) -> Seq<u8> decreases i {
    if i == 0 { Seq::empty() } else { concat_data(bytes, p0, (i - 1) as nat) + chunk_data(bytes, walk_pos(bytes, p0, (i - 1) as nat)) }
}
// every chunk of the run that starts inside the input is frame-exact: the domain on which the sync multi-chunk decoders walk the same positions as
// the async ones (true of everything CasObject::serialize / serialize_chunk write)
pub open spec fn frames_exact(bytes: Seq<u8>, p0: nat) -> bool {
    forall|k: nat| walk_pos(bytes, p0, k) + 8 <= bytes.len() ==> frame_exact_at(bytes, #[trigger] walk_pos(bytes, p0, k))
}
// sum of the serialized sizes the headers claim (8 + compressed length)
pub open spec fn claimed_len(bytes: Seq<u8>, p0: nat, i: nat) -> nat decreases i {
    if i == 0 { 0 } else { claimed_len(bytes, p0, (i - 1) as nat) + 8 + chunk_clen(bytes, walk_pos(bytes, p0, (i - 1) as nat)) }
}
