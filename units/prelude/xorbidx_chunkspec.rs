// ---- shared by U-CHUNKDEC and U-XORBRANGE (needs prelude/xorbidx_codec.rs) ----
// ---- THE shared specification of a serialized chunk at position `pos` of `bytes` (same functions for every decoder) --------------------
pub open spec fn chunk_clen(bytes: Seq<u8>, pos: nat) -> nat { le3(bytes, pos as int + 1) }
pub open spec fn chunk_ulen(bytes: Seq<u8>, pos: nat) -> nat { le3(bytes, pos as int + 5) }
pub open spec fn chunk_scheme(bytes: Seq<u8>, pos: nat) -> Option<CompressionScheme> { scheme_of_byte(bytes[pos as int + 4]) }
// payload bytes actually present (all of them for a well-formed chunk)
pub open spec fn chunk_avail(bytes: Seq<u8>, pos: nat) -> nat {
    if pos + 8 + chunk_clen(bytes, pos) <= bytes.len() { chunk_clen(bytes, pos) } else { (bytes.len() - (pos + 8)) as nat }
}
pub open spec fn chunk_payload(bytes: Seq<u8>, pos: nat) -> Seq<u8> { bytes.subrange(pos as int + 8, pos as int + 8 + chunk_avail(bytes, pos)) }
pub open spec fn chunk_data(bytes: Seq<u8>, pos: nat) -> Seq<u8> {
    match chunk_scheme(bytes, pos) { Some(s) => decode_spec(s, chunk_payload(bytes, pos)), None => Seq::empty() }
}
pub open spec fn chunk_next(bytes: Seq<u8>, pos: nat) -> nat { pos + 8 + chunk_avail(bytes, pos) }
pub open spec fn well_formed_at(bytes: Seq<u8>, pos: nat) -> bool { pos + 8 + chunk_clen(bytes, pos) <= bytes.len() }
// what every single-chunk decoder must deliver on Ok: the returned pair, the bytes appended to the writer, the new reader position
pub open spec fn single_ok(bytes: Seq<u8>, pos: nat, w0: Seq<u8>, w1: Seq<u8>, pos1: nat, ret: (usize, u32)) -> bool {
    &&& pos + 8 <= bytes.len() && chunk_scheme(bytes, pos) is Some
    &&& ret.0 == 8 + chunk_clen(bytes, pos)
    &&& ret.1 == chunk_ulen(bytes, pos) && chunk_ulen(bytes, pos) == chunk_data(bytes, pos).len()
    &&& w1 == w0 + chunk_data(bytes, pos)
    &&& pos1 == chunk_next(bytes, pos)
}


// ---- the shared specification of a run of chunks starting at p0 ---------------------------------------------------------------------------
pub open spec fn walk_pos(bytes: Seq<u8>, p0: nat, i: nat) -> nat decreases i {
    if i == 0 { p0 } else { chunk_next(bytes, walk_pos(bytes, p0, (i - 1) as nat)) }
}
// prefix sums of the DECODED lengths
pub open spec fn total_len(bytes: Seq<u8>, p0: nat, i: nat) -> nat decreases i {
    if i == 0 { 0 } else { total_len(bytes, p0, (i - 1) as nat) + chunk_data(bytes, walk_pos(bytes, p0, (i - 1) as nat)).len() }
}
pub open spec fn concat_data(bytes: Seq<u8>, p0: nat, i: nat) -> Seq<u8> decreases i {
    if i == 0 { Seq::empty() } else { concat_data(bytes, p0, (i - 1) as nat) + chunk_data(bytes, walk_pos(bytes, p0, (i - 1) as nat)) }
}
// sum of the serialized sizes the headers claim (8 + compressed length)
pub open spec fn claimed_len(bytes: Seq<u8>, p0: nat, i: nat) -> nat decreases i {
    if i == 0 { 0 } else { claimed_len(bytes, p0, (i - 1) as nat) + 8 + chunk_clen(bytes, walk_pos(bytes, p0, (i - 1) as nat)) }
}
