// ---- U-CODEC: std::io stubs (R11). Same vocabulary as U-CHUNKDEC's reader / writer stubs (ghost `bytes()`/`pos()` of a reader, ghost
// `written()` of a writer); extended by what compression_scheme.rs uses: `read_to_end`, `std::io::copy`, `Cursor`, and readers / writers
// that are themselves `&mut` references (`FrameDecoder::new(reader)` with `reader: &mut R`, `FrameEncoder::new(&mut dest)`).
// Verus 0.2026.09.13 accepts `&mut T` as a generic argument; the *identity* of the referenced object (whose final value the lender gets
// back) is the prophetic `*final(r)`, carried through generic code by the two trait-level relations `same_src` / `same_sink`.
pub trait Read {
    spec fn bytes(&self) -> Seq<u8>;     // everything the source holds / will ever yield
    spec fn pos(&self) -> nat;           // how much of it has been yielded
    // transition invariant of every read operation: same source object, immutable parts unchanged
    #[verifier::prophetic] spec fn same_src(&self, before: &Self) -> bool;
    // type-specific fact established by a drain-to-end that returned Ok (for an adapter: what it then has consumed of ITS source)
    spec fn drained(&self) -> bool;
    fn read_exact(&mut self, buf: &mut [u8]) -> (r: std::result::Result<(), IoError>)
        ensures
            (*final(self)).same_src(&*old(self)),
            (*final(self)).bytes() == (*old(self)).bytes(),
            final(buf)@.len() == old(buf)@.len(),
            r is Ok ==> (*old(self)).pos() + old(buf)@.len() <= (*old(self)).bytes().len()
                && final(buf)@ == (*old(self)).bytes().subrange((*old(self)).pos() as int, ((*old(self)).pos() + old(buf)@.len()) as int)
                && (*final(self)).pos() == (*old(self)).pos() + old(buf)@.len();
    // std::io::Read::read_to_end: appends everything up to end-of-stream to `buf`; Ok(n) = number of bytes appended
    fn read_to_end(&mut self, buf: &mut Vec<u8>) -> (r: std::result::Result<usize, IoError>)
        ensures
            (*final(self)).same_src(&*old(self)),
            (*final(self)).bytes() == (*old(self)).bytes(),
            old(buf)@.is_prefix_of(final(buf)@),
            r matches Ok(n) ==> (*old(self)).pos() <= (*old(self)).bytes().len()
                && (*final(self)).pos() == (*old(self)).bytes().len()
                && (*final(self)).drained()
                && final(buf)@ == old(buf)@ + (*old(self)).bytes().subrange((*old(self)).pos() as int, (*old(self)).bytes().len() as int)
                && n == (*old(self)).bytes().len() - (*old(self)).pos();
}
// what is left to read
pub open spec fn rest_of<R: Read>(r: &R) -> Seq<u8> { r.bytes().subrange(r.pos() as int, r.bytes().len() as int) }

pub trait Write {
    spec fn written(&self) -> Seq<u8>;
    // same sink object (for an owned sink: nothing to track; for `&mut W`: the lender sees this reference's final value)
    #[verifier::prophetic] spec fn same_sink(&self, before: &Self) -> bool;
    // on Err a part of buf may have been written
    fn write_all(&mut self, buf: &[u8]) -> (r: std::result::Result<(), IoError>)
        ensures
            (*final(self)).same_sink(&*old(self)),
            (*old(self)).written().is_prefix_of((*final(self)).written()),
            r is Ok ==> (*final(self)).written() == (*old(self)).written() + buf@;
}
impl Write for Vec<u8> {
    open spec fn written(&self) -> Seq<u8> { self@ }
    #[verifier::prophetic] open spec fn same_sink(&self, before: &Self) -> bool { true }
    #[verifier::external_body]
    fn write_all(&mut self, buf: &[u8]) -> (r: std::result::Result<(), IoError>) { unimplemented!() }
}
// std: `impl<W: Write + ?Sized> Write for &mut W` (forwards to the referenced writer)
impl<'a> Write for &'a mut Vec<u8> {
    open spec fn written(&self) -> Seq<u8> { (**self)@ }
    #[verifier::prophetic] open spec fn same_sink(&self, before: &Self) -> bool { *final(*self) == *final(*before) }
    #[verifier::external_body]
    fn write_all(&mut self, buf: &[u8]) -> (r: std::result::Result<(), IoError>) { unimplemented!() }
}
// std: `impl<R: Read + ?Sized> Read for &mut R` (forwards to the referenced reader)
impl<'a, R: Read> Read for &'a mut R {
    open spec fn bytes(&self) -> Seq<u8> { (**self).bytes() }
    open spec fn pos(&self) -> nat { (**self).pos() }
    #[verifier::prophetic] open spec fn same_src(&self, before: &Self) -> bool { *final(*self) == *final(*before) && (**self).same_src(&**before) }
    open spec fn drained(&self) -> bool { (**self).drained() }
    #[verifier::external_body]
    fn read_exact(&mut self, buf: &mut [u8]) -> (r: std::result::Result<(), IoError>) { unimplemented!() }
    #[verifier::external_body]
    fn read_to_end(&mut self, buf: &mut Vec<u8>) -> (r: std::result::Result<usize, IoError>) { unimplemented!() }
}
// std::io::copy: reads `reader` to end-of-stream, writes everything to `writer`, Ok(n) = number of bytes copied
#[verifier::external_body]
pub fn copy<R: Read, W: Write>(reader: &mut R, writer: &mut W) -> (r: std::result::Result<u64, IoError>)
    ensures
        (*final(reader)).same_src(&*old(reader)),
        (*final(reader)).bytes() == (*old(reader)).bytes(),
        (*final(writer)).same_sink(&*old(writer)),
        (*old(writer)).written().is_prefix_of((*final(writer)).written()),
        r matches Ok(n) ==> (*old(reader)).pos() <= (*old(reader)).bytes().len()
            && (*final(reader)).pos() == (*old(reader)).bytes().len()
            && (*final(reader)).drained()
            && (*final(writer)).written() == (*old(writer)).written() + rest_of(&*old(reader))
            && n == rest_of(&*old(reader)).len(),
{ unimplemented!() }
// std::io::Cursor over a byte slice: a reader positioned at 0
pub struct Cursor<T> { pub inner: T, pub ghost p: nat }
impl<T> Cursor<T> {
    #[verifier::external_body]
    pub fn new(inner: T) -> (r: Self) ensures r.inner == inner, r.p == 0 { unimplemented!() }
}
impl<'a> Read for Cursor<&'a [u8]> {
    open spec fn bytes(&self) -> Seq<u8> { self.inner@ }
    open spec fn pos(&self) -> nat { self.p }
    #[verifier::prophetic] open spec fn same_src(&self, before: &Self) -> bool { self.inner@ == before.inner@ }
    open spec fn drained(&self) -> bool { self.p == self.inner@.len() }
    #[verifier::external_body]
    fn read_exact(&mut self, buf: &mut [u8]) -> (r: std::result::Result<(), IoError>) { unimplemented!() }
    #[verifier::external_body]
    fn read_to_end(&mut self, buf: &mut Vec<u8>) -> (r: std::result::Result<usize, IoError>) { unimplemented!() }
}
