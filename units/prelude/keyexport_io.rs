// ---- U-KEYEXPORT prelude: key/hmac stubs, reader/writer stubs with ghost views, record codecs -------------------------
type HMACKey = MerkleHash;
// ASSUMED (merklehash/src/data_hash.rs): `DataHash::default()` is the all-zero hash; `hmac` is a function of (key, hash)
pub uninterp spec fn zero_hash() -> MerkleHash;
pub uninterp spec fn spec_hmac(key: MerkleHash, h: MerkleHash) -> MerkleHash;
impl Default for MerkleHash {
    #[verifier::external_body]
    fn default() -> (r: MerkleHash) ensures r == zero_hash() { unimplemented!() }
}
impl MerkleHash {
    #[verifier::external_body]
    pub fn hmac(&self, key: HMACKey) -> (r: MerkleHash) ensures r == spec_hmac(key, *self) { unimplemented!() }
}

pub struct IoError;
pub type IoResult<T> = std::result::Result<T, IoError>;
// reader: ghost byte string and position; writer: ghost byte string written so far
pub struct ShardReader { pub bytes: Ghost<Seq<u8>>, pub pos: Ghost<int> }
pub struct ShardWriter { pub bytes: Ghost<Seq<u8>> }

// 48-byte record codecs (field order of serialize/deserialize is checked against each other by Kani unit K-ENTRYCODEC)
uninterp spec fn decode_chunk_entry(b: Seq<u8>) -> CASChunkSequenceEntry;
uninterp spec fn encode_chunk_entry(e: CASChunkSequenceEntry) -> Seq<u8>;
uninterp spec fn decode_cas_header(b: Seq<u8>) -> CASChunkSequenceHeader;
uninterp spec fn encode_cas_header(e: CASChunkSequenceHeader) -> Seq<u8>;

impl CASChunkSequenceEntry {
    // ASSUMED: reads exactly the 48 bytes at the reader position and decodes them; on error the reader state is arbitrary
    #[verifier::external_body]
    fn deserialize(reader: &mut ShardReader) -> (r: IoResult<CASChunkSequenceEntry>)
        ensures
            final(reader).bytes@ == old(reader).bytes@,
            r matches Ok(e) ==> e == decode_chunk_entry(old(reader).bytes@.subrange(old(reader).pos@, old(reader).pos@ + 48))
                && final(reader).pos@ == old(reader).pos@ + 48,
    { unimplemented!() }
    // ASSUMED: appends the 48-byte encoding of self and returns 48 (= size_of::<Self>())
    #[verifier::external_body]
    fn serialize(&self, writer: &mut ShardWriter) -> (r: IoResult<usize>)
        ensures r matches Ok(n) ==> n == 48 && final(writer).bytes@ == old(writer).bytes@ + encode_chunk_entry(*self),
    { unimplemented!() }
}
impl CASChunkSequenceHeader {
    #[verifier::external_body]
    fn deserialize(reader: &mut ShardReader) -> (r: IoResult<CASChunkSequenceHeader>)
        ensures
            final(reader).bytes@ == old(reader).bytes@,
            r matches Ok(e) ==> e == decode_cas_header(old(reader).bytes@.subrange(old(reader).pos@, old(reader).pos@ + 48))
                && final(reader).pos@ == old(reader).pos@ + 48,
    { unimplemented!() }
    #[verifier::external_body]
    fn serialize(&self, writer: &mut ShardWriter) -> (r: IoResult<usize>)
        ensures r matches Ok(n) ==> n == 48 && final(writer).bytes@ == old(writer).bytes@ + encode_cas_header(*self),
    { unimplemented!() }
}
