// contract of DataAggregator::merge_in - ONE text: proved for the extracted body in U-AGG, used as the callee contract in U-SESSCUT
        requires
            old(self).agg_wf(), other.agg_wf(), xorb_config_ok(),
            // proved by the caller (U-SESSCUT): the sum is within both limits
            /*@C15*/ old(self).chunks@.len() + other.chunks@.len() <= spec_MAX_XORB_CHUNKS(),
            /*@C15*/ old(self).num_bytes + other.num_bytes <= spec_MAX_XORB_BYTES(),
            // configuration: needed only for the second debug assertion, which compares a chunk COUNT with MAX_XORB_BYTES
            spec_MAX_XORB_CHUNKS() <= spec_MAX_XORB_BYTES(),
        ensures
            final(self).agg_wf(), /*@C15*/ final(self).within_limits(),
            final(self).chunks@ == old(self).chunks@ + other.chunks@,
            final(self).num_bytes == old(self).num_bytes + other.num_bytes,
            final(self).pending_file_info@.len() == old(self).pending_file_info@.len() + other.pending_file_info@.len(),
            forall|k: int| 0 <= k < old(self).pending_file_info@.len() ==> (#[trigger] final(self).pending_file_info@[k]) == old(self).pending_file_info@[k],
            forall|k: int| 0 <= k < other.pending_file_info@.len() ==>
                file_shifted(#[trigger] other.pending_file_info@[k], final(self).pending_file_info@[old(self).pending_file_info@.len() + k], old(self).chunks@.len() as int),
            /*@C01*/ forall|k: int| 0 <= k < old(self).pending_file_info@.len() ==> #[trigger] final(self).den(k) == old(self).den(k),
            /*@C01*/ forall|k: int| 0 <= k < other.pending_file_info@.len() ==> final(self).den(old(self).pending_file_info@.len() + k) == #[trigger] other.den(k),
