// ---- shared stubs for U-XORBIDX / U-XORBVAL / U-FMTERR (R11) ----------------------------------------------------------
// MerkleHash: 4 x u64, structural equality (the real type derives PartialEq/Eq on [u64;4])
#[derive(Clone, Copy, Eq)]
pub struct MerkleHash(pub [u64;4]);
impl vstd::std_specs::cmp::PartialEqSpecImpl for MerkleHash {
    open spec fn obeys_eq_spec() -> bool { true }
    open spec fn eq_spec(&self, other: &Self) -> bool { *self == *other }
}
impl PartialEq for MerkleHash {
    #[verifier::external_body]
    fn eq(&self, other: &Self) -> (r: bool) { unimplemented!() }
}
pub uninterp spec fn zero_hash() -> MerkleHash;
impl Default for MerkleHash {
    #[verifier::external_body]
    fn default() -> (r: MerkleHash) ensures r == zero_hash() { unimplemented!() }
}
// opaque error payloads
#[verifier::external_body] pub struct AnyhowError { _p: u8 }
#[verifier::external_body] pub struct IoError { _p: u8 }
#[verifier::external_body] pub struct Lz4Error { _p: u8 }
#[verifier::external_body] pub struct VxInfallible { _p: u8 }
// R15: `anyhow!(..)` builds an opaque error value
#[verifier::external_body] pub fn vx_anyhow() -> AnyhowError { unimplemented!() }
// thiserror's `#[from] std::io::Error` on `CasObjectError::InternalIOError` generates this impl (used by `?`)
impl From<IoError> for CasObjectError {
    #[verifier::external_body]
    fn from(e: IoError) -> (r: CasObjectError) { CasObjectError::InternalIOError(e) }
}
