// shared by U-SHQ, U-SFMQ, U-SHREG, U-SESSSHARD: keyed comparison and on-disk truthfulness (C05)
// keyed form of a query hash under the shard's key: hmac iff the key is not the zero key
spec fn keyed(key: MerkleHash, h: MerkleHash) -> MerkleHash { if key != zero_hash() { spec_hmac(h, key) } else { h } }

// C05 for an on-disk block: "the first n query hashes are stored in xorb X at chunks [a, a+n)" is true of the recorded
// (on-disk, possibly keyed) chunk hashes of X = (xh, xs), and the byte count is the sum of those chunks' lengths
spec fn truthful(xh: CASChunkSequenceHeader, xs: Seq<CASChunkSequenceEntry>, key: MerkleHash, q: Seq<MerkleHash>, n: int, fse: FileDataSequenceEntry) -> bool {
    &&& 1 <= n <= q.len()
    &&& fse.cas_hash == xh.cas_hash
    &&& fse.chunk_index_end == fse.chunk_index_start + n
    &&& fse.chunk_index_end <= xs.len()
    &&& forall|k: int| 0 <= k < n ==> (#[trigger] xs[fse.chunk_index_start + k]).chunk_hash == keyed(key, q[k])
    &&& fse.unpacked_segment_bytes == sum_unpacked(xs, fse.chunk_index_start as int, fse.chunk_index_end as int)
}

