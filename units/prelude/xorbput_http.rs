// ---- U-XORBPUT: the HTTP client (reqwest / reqwest_middleware) as stubs with ghost request / response state (R11) --------------
// The network is an explicit stub object `VxNet` (Verus has no global ghost state): a log of the exchanges attempted so far.
// Rule xorbput.R21 passes it to every `.send()`.  A request is (method, url text, body, which client built it); a response is
// (status, body).  `send` appends ONE exchange to the log -- with the response it got, or with `None` when the transport failed --
// and is the only operation that touches the log.  Status, body and transport outcome are ARBITRARY (the proof covers every
// server behaviour and every fault).
pub mod reqwest {
    use vstd::prelude::*;
    /// reqwest::Method (associated constants in the real crate; an enum here: only identity matters)
    #[derive(Clone, Copy)]
    pub enum Method { GET, POST, PUT, HEAD, DELETE, PATCH }
    #[verifier::external_body] pub struct Error { _p: () }
    /// url::Url: the text it was parsed from
    #[verifier::external_body] pub struct Url { _p: () }
    impl Url { pub uninterp spec fn text(&self) -> Seq<char>; }
    impl Clone for Url {
        #[verifier::external_body]
        fn clone(&self) -> (r: Url) ensures r.text() == self.text() { unimplemented!() }
    }
    pub struct Request { pub method: Method, pub url: Seq<char>, pub body: Option<Seq<u8>>, pub client: int }
    pub struct RespData { pub status: u16, pub body: Seq<u8> }
    /// one attempted exchange: the request as sent, and the response (None: no response -- connection / middleware failure)
    pub struct Exchange { pub req: Request, pub resp: Option<RespData> }
    pub struct VxNet { pub ghost log: Seq<Exchange> }
    /// reqwest::Response::error_for_status: "Turn a response into an error if the server returned an error" -- 4xx and 5xx
    pub open spec fn is_error_status(s: u16) -> bool { 400 <= s < 600 }

    /// what `Response::json::<T>()` accepts: `v` is what the body deserializes to (serde; uninterpreted per response type)
    pub trait VxJson: Sized { spec fn vx_json_of(&self, body: Seq<u8>) -> bool; }

    #[verifier::external_body] pub struct Response { _p: () }
    impl Response {
        pub uninterp spec fn req(&self) -> Request;
        pub uninterp spec fn status(&self) -> u16;
        pub uninterp spec fn body(&self) -> Seq<u8>;
        pub open spec fn data(&self) -> RespData { RespData { status: self.status(), body: self.body() } }
        #[verifier::external_body]
        pub fn error_for_status(self) -> (r: Result<Response, Error>)
            ensures match r { Ok(x) => x == self && !is_error_status(self.status()), Err(_) => is_error_status(self.status()) }
        { unimplemented!() }
        /// Err when the body cannot be read or is not the JSON of a `T`
        #[verifier::external_body]
        pub fn json<T: VxJson>(self) -> (r: Result<T, Error>)
            ensures r matches Ok(v) ==> v.vx_json_of(self.body())
        { unimplemented!() }
    }

    #[verifier::external_body] pub struct RequestBuilder { _p: () }
    impl RequestBuilder {
        pub uninterp spec fn req(&self) -> Request;
        #[verifier::external_body]
        pub fn body(self, b: Vec<u8>) -> (r: RequestBuilder)
            ensures r.req() == (Request { body: Some(b@), ..self.req() })
        { unimplemented!() }
        /// the only operation that acts on the network: exactly one exchange is appended, whatever the outcome
        #[verifier::external_body]
        pub fn send(self, vx_net: &mut VxNet) -> (r: Result<Response, super::reqwest_middleware::Error>)
            ensures
                final(vx_net).log == old(vx_net).log.push(Exchange { req: self.req(), resp: match r { Ok(x) => Some(x.data()), Err(_) => None } }),
                r matches Ok(x) ==> x.req() == self.req(),
        { unimplemented!() }
    }
}
pub mod reqwest_middleware {
    use vstd::prelude::*;
    use super::reqwest::{Method, Url, Request, RequestBuilder};
    #[verifier::external_body] pub struct Error { _p: () }
    pub type Result<T> = std::result::Result<T, Error>;
    #[verifier::external_body] pub struct ClientWithMiddleware { _p: () }
    impl ClientWithMiddleware {
        /// identity of the client (which middleware stack -- authentication, retry policy -- the request goes through)
        pub uninterp spec fn id(&self) -> int;
        #[verifier::external_body]
        pub fn post(&self, url: Url) -> (r: RequestBuilder)
            ensures r.req() == (Request { method: Method::POST, url: url.text(), body: None, client: self.id() })
        { unimplemented!() }
        #[verifier::external_body]
        pub fn request(&self, method: Method, url: Url) -> (r: RequestBuilder)
            ensures r.req() == (Request { method: method, url: url.text(), body: None, client: self.id() })
        { unimplemented!() }
    }
}
