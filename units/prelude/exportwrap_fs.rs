// ---- U-EXPORTWRAP prelude: the explicit file-system / shard-file-cache model of U-SHWRITEOUT (text copied from units/U-SHWRITEOUT.rs lines 15-163;
// that unit has no prelude file of its own).  Left out: the `MDBShardInfo` placeholder and its `load_from_reader` stub (U-EXPORTWRAP extracts the real struct).
// ================= paths, names, the ghost directory and the process-wide shard-file cache ===========================
// stands for std::path::{Path, PathBuf}
struct PathBuf { id: int }
type Path = PathBuf;
struct SystemTime { t: u64 }
struct MDBShardError { k: u8 }
type Result<T> = std::result::Result<T, MDBShardError>;

// std::path::absolute (lexical): the directory is keyed by absolute paths
uninterp spec fn abs(p: PathBuf) -> PathBuf;
uninterp spec fn spec_join(dir: PathBuf, name: Seq<char>) -> PathBuf;
// utils::shard_file_name: `format!("{}.mdb", hash.hex())`;  utils::temp_shard_file_name: `format!(".{uuid}.mdb_temp")`
uninterp spec fn shard_name(h: MerkleHash) -> Seq<char>;
uninterp spec fn is_temp_name(n: Seq<char>) -> bool;
// utils::parse_shard_filename at specification level: the hash a path's file name spells (`^[0-9a-f]{64}\.mdb$`), if any
uninterp spec fn path_hash(p: PathBuf) -> Option<MerkleHash>;
// ASSUMED (name scheme): absolute is idempotent; a path `dir/<hex(h)>.mdb` spells h; a path `dir/.<uuid>.mdb_temp` spells no hash
#[verifier::external_body]
broadcast proof fn axiom_abs_idem(p: PathBuf) ensures #[trigger] abs(abs(p)) == abs(p) {}
#[verifier::external_body]
broadcast proof fn axiom_shard_path_hash(d: PathBuf, h: MerkleHash) ensures #[trigger] path_hash(abs(spec_join(d, shard_name(h)))) == Some(h) {}
#[verifier::external_body]
broadcast proof fn axiom_temp_path_hash(d: PathBuf, n: Seq<char>) requires is_temp_name(n) ensures #[trigger] path_hash(abs(spec_join(d, n))) is None {}

// merklehash::compute_data_hash
uninterp spec fn data_hash(b: Seq<u8>) -> MerkleHash;


// the directory (absolute path -> content) and `MDB_SHARD_FILE_CACHE` (absolute path -> handle; entries are never removed)
struct VxFs { files: Ghost<Map<PathBuf, Seq<u8>>>, cache: Ghost<Map<PathBuf, Arc<MDBShardFile>>> }
// what every insertion into the cache maintains (proved below for the only place that inserts): the handle stored under a path
// carries that path, and the hash the path's name spells
spec fn cache_wf(fs: VxFs) -> bool {
    forall|p: PathBuf| #[trigger] fs.cache@.contains_key(p) ==> fs.cache@[p].path == p && path_hash(p) == Some(fs.cache@[p].shard_hash)
}
// final-name view: files whose name spells a hash (shard files); temp files are outside it
spec fn same_final_except(a: VxFs, b: VxFs, t: PathBuf) -> bool {
    forall|q: PathBuf| path_hash(q) is Some && q != t ==> (#[trigger] b.files@.contains_key(q) == a.files@.contains_key(q)) && b.files@[q] == a.files@[q]
}
// ... or the only difference is that the complete new shard file stands under its hash name (failure after the rename)
spec fn same_final_or_written(a: VxFs, b: VxFs, dir: PathBuf, data: Seq<u8>) -> bool {
    forall|q: PathBuf| path_hash(q) is Some ==> ((#[trigger] b.files@.contains_key(q) == a.files@.contains_key(q)) && b.files@[q] == a.files@[q])
        || (q == abs(spec_join(dir, shard_name(data_hash(data)))) && b.files@.contains_key(q) && b.files@[q] == data)
}

impl PathBuf {
    #[verifier::external_body]
    fn as_ref(&self) -> (r: &PathBuf) ensures *r == *self { unimplemented!() }
    #[verifier::external_body]
    fn to_path_buf(&self) -> (r: PathBuf) ensures r == *self { unimplemented!() }
    #[verifier::external_body]
    fn join(&self, name: String) -> (r: PathBuf) ensures r == spec_join(*self, name@) { unimplemented!() }
}
impl Clone for PathBuf { #[verifier::external_body] fn clone(&self) -> (r: PathBuf) ensures r == *self { unimplemented!() } }
#[verifier::external_body]
fn shard_file_name(hash: &MerkleHash) -> (r: String) ensures r@ == shard_name(*hash) { unimplemented!() }
#[verifier::external_body]
fn temp_shard_file_name() -> (r: String) ensures is_temp_name(r@) { unimplemented!() }

// std::fs::File (write side: the bytes handed to it so far; read side: the content at open time)
struct File { path: Ghost<PathBuf>, written: Ghost<Seq<u8>>, bytes: Ghost<Seq<u8>> }
struct Metadata { m: SystemTime }
// a reader (`R: Read`): the bytes it will still deliver
struct VxCursor { data: Ghost<Seq<u8>> }
// merklehash::HashedWrite<File> (its `write` is under contract in U-CRASHFS: the hasher sees exactly the bytes that go to the file)
struct HashedWrite { fed: Ghost<Seq<u8>>, file: File }

// The io::Error -> MDBShardError conversion of the `?` after each std call (thiserror `#[from]`) is absorbed in the stubs (Verus does not
// tie `?` to the From specification): they return the converted error.
// R7 outline of `std::fs::OpenOptions::new().write(true).create(true).truncate(true).open(p)`: afterwards the file exists and is empty
#[verifier::external_body]
fn vx_open_create_truncate(fs: &mut VxFs, path: &PathBuf) -> (r: Result<File>)
    ensures final(fs).cache@ == old(fs).cache@,
        r matches Ok(f) ==> f.path@ == abs(*path) && f.written@ == Seq::<u8>::empty() && final(fs).files@ == old(fs).files@.insert(abs(*path), Seq::<u8>::empty()),
        r is Err ==> final(fs).files@ == old(fs).files@,
{ unimplemented!() }
impl HashedWrite {
    #[verifier::external_body]
    fn new(writer: File) -> (r: HashedWrite) ensures r.file == writer, r.fed@ == Seq::<u8>::empty() { unimplemented!() }
    #[verifier::external_body]
    fn hash(&self) -> (r: MerkleHash) ensures r == data_hash(self.fed@) { unimplemented!() }
    // Write::flush: what was handed to the file is its content (only that file changes)
    #[verifier::external_body]
    fn flush(&mut self, fs: &mut VxFs) -> (r: Result<()>)
        ensures final(fs).cache@ == old(fs).cache@, final(self).fed@ == old(self).fed@, final(self).file.path@ == old(self).file.path@,
            final(self).file.written@ == old(self).file.written@,
            final(fs).files@ == old(fs).files@.insert(old(self).file.path@, final(fs).files@[old(self).file.path@]),
            r is Ok ==> final(fs).files@[old(self).file.path@] == old(self).file.written@,
    { unimplemented!() }
}
// std::io::copy(reader, &mut hashed_write): read + write_all until EOF; on Ok everything the reader had went through the writer
#[verifier::external_body]
fn vx_io_copy(fs: &mut VxFs, reader: &mut VxCursor, w: &mut HashedWrite) -> (r: Result<u64>)
    ensures final(fs).cache@ == old(fs).cache@, final(w).file.path@ == old(w).file.path@,
        final(fs).files@ == old(fs).files@.insert(old(w).file.path@, final(fs).files@[old(w).file.path@]),
        r is Ok ==> final(w).fed@ == old(w).fed@ + old(reader).data@ && final(w).file.written@ == old(w).file.written@ + old(reader).data@,
{ unimplemented!() }
mod fs {
    use super::*;
    // rename(2): `to` is atomically replaced by the file at `from`, the name `from` disappears
    #[verifier::external_body]
    pub(super) fn rename(fs: &mut VxFs, from: &PathBuf, to: &PathBuf) -> (r: Result<()>)
        ensures final(fs).cache@ == old(fs).cache@,
            r is Ok ==> old(fs).files@.contains_key(abs(*from))
                && final(fs).files@ == old(fs).files@.remove(abs(*from)).insert(abs(*to), old(fs).files@[abs(*from)]),
            r is Err ==> final(fs).files@ == old(fs).files@,
    { unimplemented!() }
    #[verifier::external_body]
    pub(super) fn remove_file(fs: &mut VxFs, p: &PathBuf) -> (r: Result<()>)
        ensures final(fs).cache@ == old(fs).cache@,
            r is Ok ==> final(fs).files@ == old(fs).files@.remove(abs(*p)),
            r is Err ==> final(fs).files@ == old(fs).files@,
    { unimplemented!() }
}
// std::path::absolute
#[verifier::external_body]
fn vx_absolute(p: &PathBuf) -> (r: Result<PathBuf>) ensures r matches Ok(a) ==> a == abs(*p) { unimplemented!() }
impl File {
    #[verifier::external_body]
    fn metadata(&self) -> (r: Result<Metadata>) { unimplemented!() }
}
impl Metadata {
    #[verifier::external_body]
    fn modified(&self) -> (r: Result<SystemTime>) { unimplemented!() }
}
// the cache behind its RwLock: `MDB_SHARD_FILE_CACHE.read().unwrap().get(&path)` (a clone of the stored Arc, as the code clones it
// right away) and `MDB_SHARD_FILE_CACHE.write().unwrap().insert(path, sf)`
impl VxFs {
    #[verifier::external_body]
    fn cache_get(&self, p: &PathBuf) -> (r: Option<&Arc<MDBShardFile>>)
        ensures self.cache@.contains_key(*p) ==> r == Some(&self.cache@[*p]), !self.cache@.contains_key(*p) ==> r is None
    { unimplemented!() }
    #[verifier::external_body]
    fn cache_insert(&mut self, p: PathBuf, sf: Arc<MDBShardFile>)
        ensures final(self).files@ == old(self).files@, final(self).cache@ == old(self).cache@.insert(p, sf)
    { unimplemented!() }
    // std::fs::File::open
    #[verifier::external_body]
    fn open(&self, p: &PathBuf) -> (r: Result<File>)
        ensures r matches Ok(f) ==> self.files@.contains_key(abs(*p)) && f.path@ == abs(*p) && f.bytes@ == self.files@[abs(*p)]
    { unimplemented!() }
}
