// ---- U-SHWRITE prelude: an append-only writer over the bytes of the shard being serialized -------------------------------------
// (included after prelude/shscan_io.rs: the record decoders `file_hdr_at`, `cas_hdr_at`, … and `bookend_hash` are U-SHSCAN's)
// little-endian scalars / hashes at a byte offset (same reading as `spec_u64_at` of prelude/isearch_specs.rs, see `isx`)
uninterp spec fn u32_at(data: Seq<u8>, p: int) -> u32;
uninterp spec fn hash_at(data: Seq<u8>, p: int) -> MerkleHash;

// one write call of the serializer = one token
enum Tok {
    FileHdr(FileDataSequenceHeader), FileEntry(FileDataSequenceEntry), Verif(FileVerificationEntry), Ext(FileMetadataExt),
    CasHdr(CASChunkSequenceHeader), CasEntry(CASChunkSequenceEntry),
    U64(u64), U32(u32), Hash(MerkleHash), Raw(Seq<u8>),
}
spec fn tok_size(t: Tok) -> int {
    match t {
        Tok::U64(_) => 8, Tok::U32(_) => 4, Tok::Hash(_) => 32, Tok::Raw(b) => b.len() as int,
        _ => 48,
    }
}
// the decoder of U-SHSCAN / U-ISEARCH reads back the value written at byte p
spec fn decodes(data: Seq<u8>, p: int, t: Tok) -> bool {
    match t {
        Tok::FileHdr(h) => file_hdr_at(data, p) == h,
        Tok::FileEntry(e) => file_entry_at(data, p) == e,
        Tok::Verif(v) => verif_at(data, p) == v,
        Tok::Ext(x) => ext_at(data, p) == x,
        Tok::CasHdr(h) => cas_hdr_at(data, p) == h,
        Tok::CasEntry(e) => cas_entry_at(data, p) == e,
        Tok::U64(v) => isx::spec_u64_at(data, p) == v,
        Tok::U32(v) => u32_at(data, p) == v,
        Tok::Hash(h) => hash_at(data, p) == h,
        Tok::Raw(b) => p + b.len() <= data.len() && data.subrange(p, p + b.len()) == b,
    }
}
// `bytes`: everything written so far
struct VxW { out: Ghost<Seq<u8>> }
impl VxW {
    spec fn len(&self) -> int { self.out@.len() as int }
    // std::io::Write::write_all
    #[verifier::external_body]
    fn write_all(&mut self, buf: &[u8]) -> (r: Result<()>)
        ensures r is Ok ==> appended(*old(self), *final(self), Tok::Raw(buf@)),
    { unimplemented!() }
}
// appending keeps every in-bounds token decodable where it was (decoders read only the bytes of their own record)
spec fn keeps(w0: VxW, w1: VxW) -> bool {
    &&& w0.len() <= w1.len()
    &&& forall|p: int, t: Tok| 0 <= p && p + tok_size(t) <= w0.len() && #[trigger] decodes(w0.out@, p, t) ==> decodes(w1.out@, p, t)
}
// ASSUMED contract of every write stub: one token appended at the end; it decodes there (the codecs round-trip:
// K-ENTRYCODEC's business), and nothing written before is disturbed
spec fn appended(w0: VxW, w1: VxW, t: Tok) -> bool {
    &&& w1.len() == w0.len() + tok_size(t)
    &&& decodes(w1.out@, w0.len(), t)
    &&& keeps(w0, w1)
}
// utils::serialization_utils writers
#[verifier::external_body]
fn write_u64(writer: &mut VxW, v: u64) -> (r: Result<()>)
    ensures r is Ok ==> appended(*old(writer), *final(writer), Tok::U64(v)),
{ unimplemented!() }
#[verifier::external_body]
fn write_u32(writer: &mut VxW, v: u32) -> (r: Result<()>)
    ensures r is Ok ==> appended(*old(writer), *final(writer), Tok::U32(v)),
{ unimplemented!() }
#[verifier::external_body]
fn write_hash(writer: &mut VxW, h: &MerkleHash) -> (r: Result<()>)
    ensures r is Ok ==> appended(*old(writer), *final(writer), Tok::Hash(*h)),
{ unimplemented!() }

// `for e in vs { write_u64(writer, *e)?; }`
#[verifier::external_body]
fn write_u64s(writer: &mut VxW, vs: &[u64]) -> (r: Result<()>)
    ensures r is Ok ==> final(writer).len() == old(writer).len() + 8 * vs@.len() && keeps(*old(writer), *final(writer))
        && forall|t: int| 0 <= t < vs@.len() ==> decodes(final(writer).out@, old(writer).len() + 8 * t, Tok::U64(#[trigger] vs@[t])),
{ unimplemented!() }

// the 48-byte record writers (file_structs.rs / cas_structs.rs `serialize`): each builds the record in a stack buffer and
// issues ONE write_all; returns the record size
impl FileDataSequenceHeader {
    #[verifier::external_body]
    fn serialize(&self, writer: &mut VxW) -> (r: Result<usize>)
        ensures r matches Ok(n) ==> n == 48 && appended(*old(writer), *final(writer), Tok::FileHdr(*self)),
    { unimplemented!() }
    // `Self { file_hash: [!0u64; 4].into(), ..Default::default() }`
    #[verifier::external_body]
    fn bookend() -> (r: Self) ensures r.file_hash == bookend_hash(), r.num_entries == 0, r.file_flags == 0,
    { unimplemented!() }
}
impl FileDataSequenceEntry {
    #[verifier::external_body]
    fn serialize(&self, writer: &mut VxW) -> (r: Result<usize>)
        ensures r matches Ok(n) ==> n == 48 && appended(*old(writer), *final(writer), Tok::FileEntry(*self)),
    { unimplemented!() }
}
impl FileVerificationEntry {
    #[verifier::external_body]
    fn serialize(&self, writer: &mut VxW) -> (r: Result<usize>)
        ensures r matches Ok(n) ==> n == 48 && appended(*old(writer), *final(writer), Tok::Verif(*self)),
    { unimplemented!() }
}
impl FileMetadataExt {
    #[verifier::external_body]
    fn serialize(&self, writer: &mut VxW) -> (r: Result<usize>)
        ensures r matches Ok(n) ==> n == 48 && appended(*old(writer), *final(writer), Tok::Ext(*self)),
    { unimplemented!() }
}
impl CASChunkSequenceHeader {
    #[verifier::external_body]
    fn serialize(&self, writer: &mut VxW) -> (r: Result<usize>)
        ensures r matches Ok(n) ==> n == 48 && appended(*old(writer), *final(writer), Tok::CasHdr(*self)),
    { unimplemented!() }
    #[verifier::external_body]
    fn bookend() -> (r: Self) ensures r.cas_hash == bookend_hash(), r.num_entries == 0,
    { unimplemented!() }
}
impl CASChunkSequenceEntry {
    #[verifier::external_body]
    fn serialize(&self, writer: &mut VxW) -> (r: Result<usize>)
        ensures r matches Ok(n) ==> n == 48 && appended(*old(writer), *final(writer), Tok::CasEntry(*self)),
    { unimplemented!() }
}
