//@ unit U-SETOPWRAP
//@ props C10
//@ verus-args --rlimit 100
#![allow(non_snake_case, unused)]
use vstd::prelude::*;
use vstd::std_specs::cmp::*;
use std::cmp::Ordering;
verus! {
global size_of usize == 8;

//@ include prelude/setops_merklehash.rs
type HMACKey = MerkleHash;

//@ extract mdb_shard/src/set_operations.rs enum MDBSetOperation
//@ end
//@ extract mdb_shard/src/set_operations.rs enum NextAction
//@ end
//@ extract mdb_shard/src/file_structs.rs struct FileDataSequenceHeader
//@ end
//@ extract mdb_shard/src/file_structs.rs struct FileDataSequenceEntry
//@ end
//@ extract mdb_shard/src/file_structs.rs struct FileVerificationEntry
//@ end
//@ extract mdb_shard/src/file_structs.rs struct FileMetadataExt
//@ end
//@ extract mdb_shard/src/cas_structs.rs struct CASChunkSequenceHeader
//@ end
//@ extract mdb_shard/src/cas_structs.rs struct CASChunkSequenceEntry
//@ end
//@ extract mdb_shard/src/shard_format.rs struct MDBShardFileFooter
//@ end
//@ extract mdb_shard/src/shard_format.rs struct MDBShardInfo
//@ end
//@ extract mdb_shard/src/file_structs.rs const MDB_DEFAULT_FILE_FLAG
//@ end
//@ extract mdb_shard/src/file_structs.rs const MDB_FILE_FLAG_WITH_VERIFICATION
//@ end
//@ extract mdb_shard/src/file_structs.rs const MDB_FILE_FLAG_WITH_METADATA_EXT
//@ end
//@ include prelude/setops_actions.rs
// the reader / writer stubs and the merge specification are those of U-SETOPSTREAM: a reader HOLDS the header lists of its two
// info sections (what U-SHSCAN's scanners return — a function of the section bytes, not of any footer count field), the writer
// records the block headers written
//@ include prelude/setopstream_io.rs
//@ include prelude/setops_merge.rs
impl Clone for MDBShardInfo {
    #[verifier::external_body]
    fn clone(&self) -> (r: MDBShardInfo) ensures r == *self { unimplemented!() }
}

// sanity of the specification (what the C10c seed contradicts): the union with a shard that HOLDS records is not the first operand
proof fn lemma_union_keeps_second(b: Seq<CASChunkSequenceHeader>)
    requires b.len() > 0,
    ensures merge_cas(Seq::empty(), b, MDBSetOperation::Union).len() > 0,
{
    let a = Seq::<CASChunkSequenceHeader>::empty();
    lemma_merge_cas_step(a, b, MDBSetOperation::Union);
    assert(key_table(cas_key(hd(a)), cas_key(hd(b)), MDBSetOperation::Union) == Some((NextAction::Nothing, NextAction::CopyToOut)));
    assert(emit(NextAction::CopyToOut, hd(b)).len() == 1);
}

// `set_operation`: the contract below is the one U-SETOPSTREAM PROVES for the real streaming function (same predicates
// `setop_pre` / `setop_content` from the shared preludes) — here it is the callee contract
#[verifier::external_body]
fn set_operation(s: [&MDBShardInfo; 2], r: [&mut VxReader; 2], out: &mut VxWriter, op: MDBSetOperation) -> (res: Result<MDBShardInfo>)
    requires setop_pre(*s[0], *old(r[0]), *s[1], *old(r[1])),
    ensures res is Ok ==> setop_content(old(r[0]).files@, old(r[1]).files@, old(r[0]).cas@, old(r[1]).cas@, op, old(out).fhdrs@, final(out).fhdrs@, old(out).chdrs@, final(out).chdrs@),
{ unimplemented!() }

impl MDBShardInfo {
// the footer count accessors say only what they are: sizes of the OPTIONAL lookup tables
//@ extract mdb_shard/src/shard_format.rs in `impl MDBShardInfo` fn num_cas_entries
//@ ret r
//@ contract
        ensures /*@C10*/ r == self.metadata.cas_lookup_num_entry as usize,
//@ end
//@ extract mdb_shard/src/shard_format.rs in `impl MDBShardInfo` fn num_file_entries
//@ ret r
//@ contract
        ensures /*@C10*/ r == self.metadata.file_lookup_num_entry as usize,
//@ end
}

//@ extract mdb_shard/src/set_operations.rs fn shard_set_union
//@ ret res
//@ subst `<R: Read + Seek, W: Write>` => `` :: R11 reader/writer stubs instead of the generic parameters
//@ subst `r1: &mut R` => `r1: &mut VxReader` :: R11 reader stub with ghost section views
//@ subst `r2: &mut R` => `r2: &mut VxReader` :: R11 reader stub with ghost section views
//@ subst `out: &mut W` => `out: &mut VxWriter` :: R11 writer stub with ghost view of the shard written
//@ optsubst `std::io::copy` => `vx_io_copy` :: R11 std::io::copy between the stubs
//@ contract
    requires setop_pre(*s1, *old(r1), *s2, *old(r2)),
    ensures
        // the output holds exactly the union of what the two operands HOLD (their sections), whatever their footers' count fields say
        res is Ok ==> /*@C10*/ setop_content(old(r1).files@, old(r2).files@, old(r1).cas@, old(r2).cas@, MDBSetOperation::Union, old(out).fhdrs@, final(out).fhdrs@, old(out).chdrs@, final(out).chdrs@),
//@ end
//@ extract mdb_shard/src/set_operations.rs fn shard_set_difference
//@ ret res
//@ subst `<R: Read + Seek, W: Write>` => `` :: R11 reader/writer stubs instead of the generic parameters
//@ subst `r1: &mut R` => `r1: &mut VxReader` :: R11 reader stub with ghost section views
//@ subst `r2: &mut R` => `r2: &mut VxReader` :: R11 reader stub with ghost section views
//@ subst `out: &mut W` => `out: &mut VxWriter` :: R11 writer stub with ghost view of the shard written
//@ optsubst `std::io::copy` => `vx_io_copy` :: R11 std::io::copy between the stubs
//@ contract
    requires setop_pre(*s1, *old(r1), *s2, *old(r2)),
    ensures
        res is Ok ==> /*@C10*/ setop_content(old(r1).files@, old(r2).files@, old(r1).cas@, old(r2).cas@, MDBSetOperation::Difference, old(out).fhdrs@, final(out).fhdrs@, old(out).chdrs@, final(out).chdrs@),
//@ end

// ---- the file-level wrappers: `shard_file_op` (temp file, HashedWrite, rename around the same `set_operation` call) is file-system
// code and stays a stub; the two public wrappers are shown to select the operation they are named after, on (f1, f2) in order
struct VxPathS { id: int }
uninterp spec fn spec_file_op(f1: VxPathS, f2: VxPathS, out: VxPathS, op: MDBSetOperation) -> Result<(MerkleHash, MDBShardInfo)>;
#[verifier::external_body]
fn shard_file_op(f1: &VxPathS, f2: &VxPathS, out: &VxPathS, op: MDBSetOperation) -> (r: Result<(MerkleHash, MDBShardInfo)>)
    ensures r == spec_file_op(*f1, *f2, *out, op)
{ unimplemented!() }
//@ extract mdb_shard/src/set_operations.rs fn shard_file_union
//@ ret r
//@ subst `f1: &Path, f2: &Path, out: &Path` => `f1: &VxPathS, f2: &VxPathS, out: &VxPathS` :: R11 stub type for std::path::Path
//@ contract
    ensures /*@C10*/ r == spec_file_op(*f1, *f2, *out, MDBSetOperation::Union),
//@ end
//@ extract mdb_shard/src/set_operations.rs fn shard_file_difference
//@ ret r
//@ subst `f1: &Path, f2: &Path, out: &Path` => `f1: &VxPathS, f2: &VxPathS, out: &VxPathS` :: R11 stub type for std::path::Path
//@ contract
    ensures /*@C10*/ r == spec_file_op(*f1, *f2, *out, MDBSetOperation::Difference),
//@ end

} // verus!
fn main() {}
