//@ unit U-SETOPWRAP
//@ props C10
//@ verus-args --rlimit 100
#![allow(non_snake_case, unused)]
use vstd::prelude::*;
use vstd::std_specs::cmp::*;
use std::cmp::Ordering;
verus! {
global size_of usize == 8;

//@ include prelude/setops_merklehash.rs
type HMACKey = MerkleHash;

//@ extract mdb_shard/src/set_operations.rs enum MDBSetOperation
//@ end
//@ extract mdb_shard/src/set_operations.rs enum NextAction
//@ end
//@ extract mdb_shard/src/file_structs.rs struct FileDataSequenceHeader
//@ end
//@ extract mdb_shard/src/cas_structs.rs struct CASChunkSequenceHeader
//@ end
//@ extract mdb_shard/src/shard_format.rs struct MDBShardFileHeader
//@ end
//@ extract mdb_shard/src/shard_format.rs struct MDBShardFileFooter
//@ end
//@ extract mdb_shard/src/shard_format.rs struct MDBShardInfo
//@ end
//@ include prelude/setops_actions.rs

pub struct MDBShardError;
pub type Result<T> = std::result::Result<T, MDBShardError>;
impl Clone for MDBShardInfo {
    #[verifier::external_body]
    fn clone(&self) -> (r: MDBShardInfo) ensures r == *self { unimplemented!() }
}

// ================= what a shard HOLDS: the header lists of its two info sections, each up to its bookend ============
// (this is what the scanners of U-SHSCAN return; it is a function of the section bytes, not of any footer count field)
struct ShardView { files: Seq<FileDataSequenceHeader>, cas: Seq<CASChunkSequenceHeader> }
// reader positioned on a serialized shard / writer that received a serialized shard
struct VxR { view: Ghost<ShardView>, info: Ghost<MDBShardInfo> }   // `info`: the header+footer stored in that shard (what load_from_reader returns)
struct VxW { shard: Ghost<Option<ShardView>> }
impl VxR {
    // std::io::Seek::rewind
    #[verifier::external_body]
    fn rewind(&mut self) -> (r: Result<()>) ensures final(self).view@ == old(self).view@, final(self).info@ == old(self).info@ { unimplemented!() }
}
// std::io::copy from a rewound shard reader: the writer receives that very shard
#[verifier::external_body]
fn vx_io_copy(r: &mut VxR, w: &mut VxW) -> (res: Result<u64>)
    ensures final(r).view@ == old(r).view@, res is Ok ==> final(w).shard@ == Some(old(r).view@)
{ unimplemented!() }

// ---- the specification of union / difference over section views: the ordered two-way merge driven by U-SETOPS' tables --
spec fn hd<T>(s: Seq<T>) -> Option<T> { if s.len() > 0 { Some(s[0]) } else { None } }
spec fn cas_key(h: Option<CASChunkSequenceHeader>) -> Option<MerkleHash> { match h { Some(x) => Some(x.cas_hash), None => None } }
spec fn emit<T>(a: NextAction, x: Option<T>) -> Seq<T> { if a is CopyToOut && x is Some { seq![x->0] } else { Seq::empty() } }
spec fn rest<T>(a: NextAction, s: Seq<T>) -> Seq<T> { if (a is CopyToOut || a is SkipOver) && s.len() > 0 { s.drop_first() } else { s } }
spec fn merge_cas(a: Seq<CASChunkSequenceHeader>, b: Seq<CASChunkSequenceHeader>, op: MDBSetOperation) -> Seq<CASChunkSequenceHeader>
    decreases a.len() + b.len()
{
    match key_table(cas_key(hd(a)), cas_key(hd(b)), op) {
        None => Seq::empty(),
        Some((x, y)) =>
            // (the guard is always true: lemma_merge_progress; it only makes the definition's termination evident)
            if rest(x, a).len() + rest(y, b).len() < a.len() + b.len() { emit(x, hd(a)) + emit(y, hd(b)) + merge_cas(rest(x, a), rest(y, b), op) } else { Seq::empty() },
    }
}
// the merged header of two records of the same file: the first one's hash and entry count, union of the defined flags
spec fn merged_header(a: FileDataSequenceHeader, b: FileDataSequenceHeader) -> FileDataSequenceHeader {
    FileDataSequenceHeader { file_flags: (a.file_flags | b.file_flags) & 0xC000_0000u32, _unused: 0, ..a }
}
spec fn merge_files(a: Seq<FileDataSequenceHeader>, b: Seq<FileDataSequenceHeader>, op: MDBSetOperation) -> Seq<FileDataSequenceHeader>
    decreases a.len() + b.len()
{
    match file_table(hd(a), hd(b), op) {
        None => Seq::empty(),
        Some((x, y)) =>
            if x is Merge {
                if a.len() > 0 && b.len() > 0 { seq![merged_header(a[0], b[0])] + merge_files(a.drop_first(), b.drop_first(), op) } else { Seq::empty() }
            } else if rest(x, a).len() + rest(y, b).len() < a.len() + b.len() {
                emit(x, hd(a)) + emit(y, hd(b)) + merge_files(rest(x, a), rest(y, b), op)
            } else { Seq::empty() },
    }
}
spec fn set_op_spec(v1: ShardView, v2: ShardView, op: MDBSetOperation) -> ShardView {
    ShardView { files: merge_files(v1.files, v2.files, op), cas: merge_cas(v1.cas, v2.cas, op) }
}
// the guards above never fire: whenever the table answers, some side with a record advances
proof fn lemma_merge_progress(a: Seq<CASChunkSequenceHeader>, b: Seq<CASChunkSequenceHeader>, op: MDBSetOperation)
    ensures key_table(cas_key(hd(a)), cas_key(hd(b)), op) matches Some((x, y)) ==> rest(x, a).len() + rest(y, b).len() < a.len() + b.len(),
{
    if a.len() > 0 && b.len() > 0 { lemma_hash_order_total(a[0].cas_hash, b[0].cas_hash); }
}
// sanity of the specification (what the C10c seed contradicts): the union with a shard that HOLDS records is not the first operand
proof fn lemma_union_keeps_second(b: Seq<CASChunkSequenceHeader>)
    requires b.len() > 0,
    ensures merge_cas(Seq::empty(), b, MDBSetOperation::Union).len() > 0,
{
    let a = Seq::<CASChunkSequenceHeader>::empty();
    lemma_merge_progress(a, b, MDBSetOperation::Union);
    assert(key_table(cas_key(hd(a)), cas_key(hd(b)), MDBSetOperation::Union) == Some((NextAction::Nothing, NextAction::CopyToOut)));
    assert(emit(NextAction::CopyToOut, hd(b)).len() == 1);
}

// `set_operation` (U-SETOPS: decisions, U-SETOPSTREAM: byte accounting).  ASSUMED here: the streaming loop realises the merge
// specification on the sections of both inputs (its content half is not under proof in any unit)
#[verifier::external_body]
fn set_operation(s: [&MDBShardInfo; 2], r: [&mut VxR; 2], out: &mut VxW, op: MDBSetOperation) -> (res: Result<MDBShardInfo>)
    // it seeks with the section offsets of s[i] in reader r[i]: each info must be the one of its reader's shard
    requires *s[0] == old(r[0]).info@, *s[1] == old(r[1]).info@,
    ensures res is Ok ==> final(out).shard@ == Some(set_op_spec(old(r[0]).view@, old(r[1]).view@, op))
{ unimplemented!() }

impl MDBShardInfo {
// the footer count accessors say only what they are: sizes of the OPTIONAL lookup tables
//@ extract mdb_shard/src/shard_format.rs in `impl MDBShardInfo` fn num_cas_entries
//@ ret r
//@ contract
        ensures /*@C10*/ r == self.metadata.cas_lookup_num_entry as usize,
//@ end
//@ extract mdb_shard/src/shard_format.rs in `impl MDBShardInfo` fn num_file_entries
//@ ret r
//@ contract
        ensures /*@C10*/ r == self.metadata.file_lookup_num_entry as usize,
//@ end
}

//@ extract mdb_shard/src/set_operations.rs fn shard_set_union
//@ ret res
//@ subst `<R: Read + Seek, W: Write>` => `` :: R11 reader/writer stubs instead of the generic parameters
//@ subst `r1: &mut R` => `r1: &mut VxR` :: R11 reader stub with ghost section views
//@ subst `r2: &mut R` => `r2: &mut VxR` :: R11 reader stub with ghost section views
//@ subst `out: &mut W` => `out: &mut VxW` :: R11 writer stub with ghost view of the shard written
//@ optsubst `std::io::copy` => `vx_io_copy` :: R11 std::io::copy between the stubs
//@ contract
    requires *s1 == old(r1).info@, *s2 == old(r2).info@,
    ensures
        // the output holds exactly the union of what the two operands HOLD (their sections), whatever their footers' count fields say
        res is Ok ==> /*@C10*/ final(out).shard@ == Some(set_op_spec(old(r1).view@, old(r2).view@, MDBSetOperation::Union)),
//@ end
//@ extract mdb_shard/src/set_operations.rs fn shard_set_difference
//@ ret res
//@ subst `<R: Read + Seek, W: Write>` => `` :: R11 reader/writer stubs instead of the generic parameters
//@ subst `r1: &mut R` => `r1: &mut VxR` :: R11 reader stub with ghost section views
//@ subst `r2: &mut R` => `r2: &mut VxR` :: R11 reader stub with ghost section views
//@ subst `out: &mut W` => `out: &mut VxW` :: R11 writer stub with ghost view of the shard written
//@ optsubst `std::io::copy` => `vx_io_copy` :: R11 std::io::copy between the stubs
//@ contract
    requires *s1 == old(r1).info@, *s2 == old(r2).info@,
    ensures
        res is Ok ==> /*@C10*/ final(out).shard@ == Some(set_op_spec(old(r1).view@, old(r2).view@, MDBSetOperation::Difference)),
//@ end

// ---- the file-level wrappers: `shard_file_op` (temp file, HashedWrite, rename around the same `set_operation` call) is file-system
// code and stays a stub; the two public wrappers are shown to select the operation they are named after, on (f1, f2) in order
struct VxPathS { id: int }
uninterp spec fn spec_file_op(f1: VxPathS, f2: VxPathS, out: VxPathS, op: MDBSetOperation) -> Result<(MerkleHash, MDBShardInfo)>;
#[verifier::external_body]
fn shard_file_op(f1: &VxPathS, f2: &VxPathS, out: &VxPathS, op: MDBSetOperation) -> (r: Result<(MerkleHash, MDBShardInfo)>)
    ensures r == spec_file_op(*f1, *f2, *out, op)
{ unimplemented!() }
//@ extract mdb_shard/src/set_operations.rs fn shard_file_union
//@ ret r
//@ subst `f1: &Path, f2: &Path, out: &Path` => `f1: &VxPathS, f2: &VxPathS, out: &VxPathS` :: R11 stub type for std::path::Path
//@ contract
    ensures /*@C10*/ r == spec_file_op(*f1, *f2, *out, MDBSetOperation::Union),
//@ end
//@ extract mdb_shard/src/set_operations.rs fn shard_file_difference
//@ ret r
//@ subst `f1: &Path, f2: &Path, out: &Path` => `f1: &VxPathS, f2: &VxPathS, out: &VxPathS` :: R11 stub type for std::path::Path
//@ contract
    ensures /*@C10*/ r == spec_file_op(*f1, *f2, *out, MDBSetOperation::Difference),
//@ end

} // verus!
fn main() {}
