//@ unit U-AGG
//@ props C01 C02 C15
//@ verus-args --rlimit 200
//@ config MAX_XORB_BYTES MAX_XORB_CHUNKS
//@ rules-from agg
#![feature(allocator_api)]
#![allow(non_snake_case, unused)]
use vstd::prelude::*;
use std::collections::HashMap;
use std::sync::Arc;
verus! {
//@ include prelude/dedup_types.rs

//@ include prelude/dedup_model.rs

//@ include prelude/dedup_segments.rs

//@ include prelude/agg_lemmas.rs

//@ include prelude/agg_model.rs

// R7 outlines of iterator chains: assumed to be the sum / projection they spell
#[verifier::external_body]
fn vx_sum_data_len(chunks: &Vec<Chunk>) -> (r: usize)
    requires sum_data_len(chunks@) <= usize::MAX,     // `Sum for usize` panics (debug) / wraps (release) beyond that
    ensures r == sum_data_len(chunks@)
{ chunks.iter().map(|c| c.data.len()).sum() }
#[verifier::external_body]
fn vx_file_infos(p: Vec<(MDBFileInfo, Vec<usize>)>) -> (r: Vec<MDBFileInfo>)
    ensures r@.len() == p@.len(), forall|k: int| 0 <= k < p@.len() ==> (#[trigger] r@[k]) == p@[k].0,
{ p.into_iter().map(|(fi, _)| fi).collect() }

impl DataAggregator {
    // spec forms of the two getters (when_used_as_spec: the debug assertions call the getters)
    spec fn spec_num_bytes(&self) -> usize { self.num_bytes }
    spec fn spec_num_chunks(&self) -> usize { self.chunks@.len() as usize }

//@ extract deduplication/src/data_aggregator.rs in `impl DataAggregator` fn new
//@ ret r
//@ subst `chunks.iter().map(|c| c.data.len()).sum()` => `vx_sum_data_len(&chunks)` :: R7 outline of an iterator chain (sum of the chunk data lengths; the outline's precondition is the absence of usize overflow)
//@ contract
//@ include prelude/c_agg_new.rs
//@ body-start
        proof { lemma_sum_data_len(chunks@); }
//@ end

//@ extract deduplication/src/data_aggregator.rs in `impl DataAggregator` fn is_empty
//@ ret r
//@ contract
        ensures r == (self.chunks@.len() == 0 && self.pending_file_info@.len() == 0),
//@ end

#[verifier::when_used_as_spec(spec_num_chunks)]
//@ extract deduplication/src/data_aggregator.rs in `impl DataAggregator` fn num_chunks
//@ ret r
//@ contract
        ensures r == self.chunks@.len(), r == self.spec_num_chunks(),
//@ end

#[verifier::when_used_as_spec(spec_num_bytes)]
//@ extract deduplication/src/data_aggregator.rs in `impl DataAggregator` fn num_bytes
//@ ret r
//@ subst `self.chunks.iter().map(|c| c.data.len()).sum::<usize>()` => `sum_data_len(self.chunks@)` :: R7 outline (spec form) of an iterator chain inside a debug assertion: the sum of the chunk data lengths
//@ contract
        requires self.bytes_ok(),      // the debug assertion below
        ensures r == self.num_bytes, r == self.spec_num_bytes(),
//@ body-start
        proof { lemma_sum_data_len(self.chunks@); }
//@ end

//@ extract deduplication/src/data_aggregator.rs in `impl DataAggregator` fn finalize
//@ ret r
//@ rules R14 R4m R4f
//@ subst `MerkleHash::default()` => `zero_hash()` :: spec form of Default::default() — all occurrences are inside debug assertions turned into proof obligations by R2
//@ subst `assert((fi.segments[i].cas_hash)` => `assert((fi.segments[i as int].cas_hash)` :: spec form of Vec indexing inside a debug assertion turned proof obligation (spec index takes `int`); same element
//@ subst `vx_self.pending_file_info.into_iter().map(|(fi, _)| fi).collect()` => `vx_file_infos(vx_self.pending_file_info)` :: R7 outline of an iterator chain (projection to the file records, dropping the emptied ref lists)
//@ contract
//@ include prelude/c_agg_finalize.rs
//@ body-start
        let ghost p0 = self.pending_file_info@; let ghost nd = hashes(self.chunks@);
//@ loop 1
            invariant
                vx_n1 <= p0.len(), vx_self.pending_file_info@.len() == p0.len(),
                self.agg_wf(), self.within_limits(), p0 == self.pending_file_info@, nd == hashes(self.chunks@),
                nd.len() > 0 ==> xorb_hash != zero_hash() && xorb_chunks(xorb_hash) == nd,
                forall|k: int| vx_n1 <= k < p0.len() ==> vx_self.pending_file_info@[k] == p0[k],
                /*@C01,C02*/ forall|k: int| 0 <= k < vx_n1 ==> file_resolved(#[trigger] p0[k], vx_self.pending_file_info@[k].0, xorb_hash),
                /*@C15*/ forall|k: int| 0 <= k < vx_n1 ==> segs_nonzero((#[trigger] vx_self.pending_file_info@[k]).0.segments@),
                xorb_wf(xorb_data, self.chunks@), xorb_hash == xorb_data.cas_info.metadata.cas_hash,
            decreases p0.len() - vx_n1,
//@ before `{ let mut vx_n2`
            let ghost s0 = fi.segments@; let ghost r0 = chunk_hash_indices_ref@;
            let ghost md0 = fi.metadata; let ghost vf0 = fi.verification; let ghost mx0 = fi.metadata_ext;
            proof {
                assert(pend_ok(p0[vx_n1 - 1], nd));
                // an empty chunk list has no zero-hash segment: nothing to patch with the (then zero) xorb hash
                if nd.len() == 0 && r0.len() > 0 { assert(seg_ok(s0[r0[0] as int], nd)); }
            }
//@ loop 2
                invariant
                    vx_n2 <= r0.len(), chunk_hash_indices_ref@ == r0, ire_ok(r0, s0), segs_ok(s0, nd),
                    fi.metadata == md0, fi.verification == vf0, fi.metadata_ext == mx0,
                    nd.len() > 0 ==> xorb_hash != zero_hash(), nd.len() == 0 ==> r0.len() == 0,
                    /*@C01,C02*/ segs_patched(s0, fi.segments@, xorb_hash),
                    /*@C15*/ forall|j: int| 0 <= j < vx_n2 ==> fi.segments@[(#[trigger] r0[j]) as int].cas_hash == xorb_hash,
                    /*@C15*/ forall|j: int| vx_n2 <= j < r0.len() ==> fi.segments@[(#[trigger] r0[j]) as int].cas_hash == zero_hash(),
                decreases r0.len() - vx_n2,
//@ before `{ let mut vx_n3`
                proof { lemma_all_patched(r0, s0, fi.segments@, nd, xorb_hash); }
//@ loop 3
                    invariant
                        vx_n3 <= fi.segments@.len(),
                        /*@C15*/ segs_nonzero(fi.segments@),
                        fi.metadata == md0, fi.verification == vf0, fi.metadata_ext == mx0,
                        /*@C01,C02*/ segs_patched(s0, fi.segments@, xorb_hash),
                        // the ref list has been emptied: no unresolved-reference bookkeeping survives (not observable in the result,
                        // the final projection drops the ref lists)
                        /*@C15*/ chunk_hash_indices_ref@.len() == 0,
                    decreases fi.segments@.len() - vx_n3,
//@ before `(xorb_data, vx_file_infos`
        proof {
            assert forall|k: int| 0 <= k < p0.len() implies segs_ok((#[trigger] vx_self.pending_file_info@[k]).0.segments@, Seq::<MerkleHash>::empty())
                && flatten(vx_self.pending_file_info@[k].0.segments@, Seq::<MerkleHash>::empty()) == flatten(p0[k].0.segments@, nd) by {
                assert(pend_ok(p0[k], nd)); assert(file_resolved(p0[k], vx_self.pending_file_info@[k].0, xorb_hash));
                lemma_finalize_flatten(p0[k].0.segments@, vx_self.pending_file_info@[k].0.segments@, nd, xorb_hash);
            }
        }
//@ end

//@ extract deduplication/src/data_aggregator.rs in `impl DataAggregator` fn merge_in
//@ rules R4m
//@ contract
//@ include prelude/c_agg_merge_in.rs
//@ body-start
        let ghost c0 = self.chunks@; let ghost oc = other.chunks@; let ghost nd = hashes(c0); let ghost od = hashes(oc);
        let ghost p0 = self.pending_file_info@; let ghost q0 = other.pending_file_info@;
        let ghost nb0 = self.num_bytes; let ghost onb = other.num_bytes;
//@ loop 1
            invariant
                vx_n1 <= q0.len(), other.pending_file_info@.len() == q0.len(),
                /*@C01,C02*/ self.chunks@ == c0 + oc,
                /*@C02,C15*/ self.num_bytes == nb0 + onb,
                self.pending_file_info@ == p0,
                /*@C01*/ shift == c0.len(),
                c0.len() + oc.len() <= u32::MAX, od == hashes(oc),
                forall|k: int| 0 <= k < q0.len() ==> pend_ok(#[trigger] q0[k], od),
                forall|k: int| vx_n1 <= k < q0.len() ==> other.pending_file_info@[k] == q0[k],
                /*@C01*/ forall|k: int| 0 <= k < vx_n1 ==> file_shifted(#[trigger] q0[k], other.pending_file_info@[k], shift as int),
            decreases q0.len() - vx_n1,
//@ before `{ let mut vx_n2`
            let ghost s0 = file_info.0.segments@; let ghost r0 = file_info.1@;
            let ghost md0 = file_info.0.metadata; let ghost vf0 = file_info.0.verification; let ghost mx0 = file_info.0.metadata_ext;
            proof { assert(pend_ok(q0[vx_n1 - 1], od)); }
//@ loop 2
                invariant
                    vx_n2 <= s0.len(), file_info.0.segments@.len() == s0.len(), segs_ok(s0, od), od.len() + shift <= u32::MAX,
                    file_info.1@ == r0, file_info.0.metadata == md0, file_info.0.verification == vf0, file_info.0.metadata_ext == mx0,
                    /*@C01*/ forall|i: int| 0 <= i < vx_n2 ==> shifted(#[trigger] s0[i], file_info.0.segments@[i], shift as int),
                    /*@C01*/ forall|i: int| vx_n2 <= i < s0.len() ==> file_info.0.segments@[i] == #[trigger] s0[i],
                decreases s0.len() - vx_n2,
//@ before `if fi.cas_hash == MerkleHash::default()`
                proof { assert(seg_ok(s0[vx_n2 - 1], od)); }
//@ before `self.pending_file_info.append`
        let ghost q1 = other.pending_file_info@;
        proof {
            lemma_hashes_append(c0, oc);
            lemma_merge(p0, q0, q1, nd, od);
        }
//@ end
}

} // verus!
fn main() {}
