//@ unit U-SHSTREAMASYNC
//@ props C09
//@ verus-args --rlimit 100
#![feature(allocator_api)]
#![allow(non_snake_case, unused)]
use vstd::prelude::*;
use vstd::std_specs::cmp::*;
use std::cmp::Ordering;
use std::mem::size_of;
use std::sync::Arc;
verus! {
global size_of usize == 8;

//@ include prelude/setops_merklehash.rs
type HMACKey = MerkleHash;

//@ extract mdb_shard/src/file_structs.rs struct FileDataSequenceHeader
//@ end
//@ extract mdb_shard/src/file_structs.rs struct FileDataSequenceEntry
//@ end
//@ extract mdb_shard/src/file_structs.rs struct FileVerificationEntry
//@ end
//@ extract mdb_shard/src/file_structs.rs struct FileMetadataExt
//@ end
//@ extract mdb_shard/src/file_structs.rs struct MDBFileInfoView
//@ end
//@ extract mdb_shard/src/cas_structs.rs struct CASChunkSequenceHeader
//@ end
//@ extract mdb_shard/src/cas_structs.rs struct CASChunkSequenceEntry
//@ end
//@ extract mdb_shard/src/cas_structs.rs struct MDBCASInfoView
//@ end
//@ extract mdb_shard/src/streaming_shard.rs struct MDBMinimalShard
//@ end
//@ extract mdb_shard/src/shard_format.rs struct MDBShardFileHeader
//@ end
//@ extract mdb_shard/src/shard_format.rs struct MDBShardFileFooter
//@ end
//@ extract mdb_shard/src/file_structs.rs const MDB_FILE_FLAG_VERIFICATION_MASK
//@ end
//@ extract mdb_shard/src/file_structs.rs const MDB_FILE_FLAG_METADATA_EXT_MASK
//@ end
// shard_format.rs:23 (= 48, const_assert!ed there); Verus consts cannot call size_of
const MDB_FILE_INFO_ENTRY_SIZE: usize = 48;
global size_of FileDataSequenceHeader == 48;
global size_of MDBShardFileHeader == 48;
global size_of CASChunkSequenceHeader == 48;
global size_of CASChunkSequenceEntry == 48;
pub assume_specification<T, A: std::alloc::Allocator + Clone> [<Arc<[T], A> as From<Vec<T, A>>>::from] (v: Vec<T, A>) -> (r: Arc<[T], A>)
    ensures r@ == v@;

//@ include prelude/shscan_io.rs
//@ include prelude/shstream_io.rs
//@ include prelude/shstreamasync_model.rs

// ---- the async reader after R1 (`.await` erased: sequential reading): the same ghost bytes + position stub as the sync reader ----
// "the transport failed" (an io::Error other than running out of bytes): one uninterpreted fact, so that the totality clauses
// below can say "a complete, well-formed stream is accepted unless the transport itself fails"
uninterp spec fn vx_io_fault() -> bool;
impl VxSR {
    // futures_util::AsyncReadExt::read_exact: fills the WHOLE buffer from the current position or fails (UnexpectedEof when the
    // stream is too short, or a transport fault); on Err the buffer contents and the position are unspecified
    #[verifier::external_body]
    fn read_exact(&mut self, buf: &mut [u8]) -> (r: Result<()>)
        ensures
            final(self).data@ == old(self).data@, final(buf)@.len() == old(buf)@.len(),
            r is Err ==> old(self).pos@ + old(buf)@.len() > old(self).data@.len() || vx_io_fault(),
            r is Ok ==> old(self).pos@ + old(buf)@.len() <= old(self).data@.len()
                && final(buf)@ == old(self).data@.subrange(old(self).pos@, old(self).pos@ + old(buf)@.len())
                && final(self).pos@ == old(self).pos@ + old(buf)@.len(),
    { unimplemented!() }
}
// R7 outline of `reader.read_exact(&mut v[start..])` (Verus has no usable spec for a mutable range index of a Vec): the slice
// expression panics when start > len (precondition); read_exact then fills v[start..] from the stream, v[..start] is untouched
#[verifier::external_body]
fn vx_read_exact_tail(reader: &mut VxSR, v: &mut Vec<u8>, start: usize) -> (r: Result<()>)
    requires start <= old(v)@.len(),
    ensures
        final(reader).data@ == old(reader).data@, final(v)@.len() == old(v)@.len(),
        final(v)@.subrange(0, start as int) == old(v)@.subrange(0, start as int),
        r is Err ==> old(reader).pos@ + (old(v)@.len() - start) > old(reader).data@.len() || vx_io_fault(),
        r is Ok ==> old(reader).pos@ + (old(v)@.len() - start) <= old(reader).data@.len()
            && final(v)@.subrange(start as int, old(v)@.len() as int) == old(reader).data@.subrange(old(reader).pos@, old(reader).pos@ + (old(v)@.len() - start))
            && final(reader).pos@ == old(reader).pos@ + (old(v)@.len() - start),
{ unimplemented!() }
// `MDBShardFileHeader::deserialize(&mut Cursor::new(&buf))`: tag / version check of the 48-byte shard header held in memory
uninterp spec fn shard_hdr_ok(b: Seq<u8>) -> bool;
#[verifier::external_body]
fn vx_shard_hdr_from_slice(b: &[u8]) -> (r: Result<MDBShardFileHeader>)
    ensures r is Ok <==> b@.len() >= 48 && shard_hdr_ok(b@.subrange(0, 48))
{ unimplemented!() }
// the recording callbacks of U-SHSTREAM (prelude/shstream_io.rs), with the additional PROVED fact that they never fail — so an Err of
// a walker can only come from the walker itself or from the reader
impl VxFileCb {
    fn call_ok(&mut self, v: MDBFileInfoView) -> (r: Result<()>)
        ensures r is Ok, final(self).log@ == old(self).log@.push(v)
    { self.log.push(v); Ok(()) }
}
impl VxCasCb {
    fn call_ok(&mut self, v: MDBCASInfoView) -> (r: Result<()>)
        ensures r is Ok, final(self).log@ == old(self).log@.push(v)
    { self.log.push(v); Ok(()) }
}

// ASSUMED (K-ENTRYCODEC, harnesses deserialize_any_bytes_file_records / deserialize_any_bytes_cas_records: for EVERY 48-byte b,
// serialize(deserialize(b)) == b): the header codecs are bijections on 48-byte images.  Used ONLY to restate the async walkers'
// result (views hold the stream bytes verbatim) in the sync walkers' predicate (views hold the re-encoded header).
#[verifier::external_body]
proof fn axiom_codec_file_hdr_inv(b: Seq<u8>) requires b.len() == 48 ensures enc_file_hdr(dec_file_hdr(b)) == b {}
#[verifier::external_body]
proof fn axiom_codec_cas_hdr_inv(b: Seq<u8>) requires b.len() == 48 ensures enc_cas_hdr(dec_cas_hdr(b)) == b {}

// what the async walkers hand to a callback: the header, and a private buffer that is the record's bytes exactly as they stand in
// the stream — header image at p, then the record's `following` 48-byte entries
spec fn file_view_raw(v: MDBFileInfoView, data: Seq<u8>, p: int, h: FileDataSequenceHeader) -> bool {
    v.header == h && v.offset == 0 && v.data@ == data.subrange(p, p + 48 * (1 + following(h)))
}
spec fn cas_view_raw(v: MDBCASInfoView, data: Seq<u8>, p: int, h: CASChunkSequenceHeader) -> bool {
    v.header == h && v.offset == 0 && v.data@ == data.subrange(p, p + 48 * (1 + h.num_entries))
}
spec fn file_cb_got_raw(l0: Seq<MDBFileInfoView>, l1: Seq<MDBFileInfoView>, data: Seq<u8>, off: int) -> bool {
    let sec = the_file_section(data, off);
    &&& l1.len() == l0.len() + sec.len() && l1.subrange(0, l0.len() as int) == l0
    &&& forall|k: int| 0 <= k < sec.len() ==> file_view_raw(#[trigger] l1[l0.len() + k], data, file_pos(off, sec, k), sec[k])
}
spec fn cas_cb_got_raw(l0: Seq<MDBCASInfoView>, l1: Seq<MDBCASInfoView>, data: Seq<u8>, off: int) -> bool {
    let sec = the_cas_section(data, off);
    &&& l1.len() == l0.len() + sec.len() && l1.subrange(0, l0.len() as int) == l0
    &&& forall|k: int| 0 <= k < sec.len() ==> cas_view_raw(#[trigger] l1[l0.len() + k], data, cas_pos(off, sec, k), sec[k])
}
// a raw view of a record that lies inside the stream IS a view in the sense of the sync walker (U-SHSTREAM `file_view_ok`)
proof fn lemma_file_raw_is_ok(v: MDBFileInfoView, data: Seq<u8>, p: int, h: FileDataSequenceHeader)
    requires file_view_raw(v, data, p, h), h == file_hdr_at(data, p), 0 <= p, p + 48 * (1 + following(h)) <= data.len(),
    ensures file_view_ok(v, data, p, h),
{
    axiom_codec_file_hdr_inv(data.subrange(p, p + 48));
    assert(v.data@ =~= data.subrange(p, p + 48) + data.subrange(p + 48, p + 48 + 48 * following(h)));
}
proof fn lemma_cas_raw_is_ok(v: MDBCASInfoView, data: Seq<u8>, p: int, h: CASChunkSequenceHeader)
    requires cas_view_raw(v, data, p, h), h == cas_hdr_at(data, p), 0 <= p, p + 48 * (1 + h.num_entries) <= data.len(),
    ensures cas_view_ok(v, data, p, h),
{
    axiom_codec_cas_hdr_inv(data.subrange(p, p + 48));
    assert(v.data@ =~= data.subrange(p, p + 48) + data.subrange(p + 48, p + 48 + 48 * h.num_entries));
}
// every record of a section that was read to its bookend lies inside the stream
spec fn file_section_inside(data: Seq<u8>, off: int) -> bool { let sec = the_file_section(data, off); file_pos(off, sec, sec.len() as int) + 48 <= data.len() }
spec fn cas_section_inside(data: Seq<u8>, off: int) -> bool { let sec = the_cas_section(data, off); cas_pos(off, sec, sec.len() as int) + 48 <= data.len() }
proof fn lemma_file_cb_raw_to_got(l0: Seq<MDBFileInfoView>, l1: Seq<MDBFileInfoView>, data: Seq<u8>, off: int)
    requires file_cb_got_raw(l0, l1, data, off), has_file_section(data, off), off >= 0, file_section_inside(data, off),
    ensures file_cb_got(l0, l1, data, off),
{
    let sec = the_file_section(data, off);
    assert(file_section(data, off, sec));
    assert forall|k: int| 0 <= k < sec.len() implies file_view_ok(#[trigger] l1[l0.len() + k], data, file_pos(off, sec, k), sec[k]) by {
        lemma_file_pos_ge(off, sec, k); lemma_file_pos_step(off, sec, k); lemma_file_pos_mono(off, sec, k + 1, sec.len() as int);
        assert(file_hdr_at(data, file_pos(off, sec, k)) == sec[k]);
        lemma_file_raw_is_ok(l1[l0.len() + k], data, file_pos(off, sec, k), sec[k]);
    }
}
proof fn lemma_cas_cb_raw_to_got(l0: Seq<MDBCASInfoView>, l1: Seq<MDBCASInfoView>, data: Seq<u8>, off: int)
    requires cas_cb_got_raw(l0, l1, data, off), has_cas_section(data, off), off >= 0, cas_section_inside(data, off),
    ensures cas_cb_got(l0, l1, data, off),
{
    let sec = the_cas_section(data, off);
    assert(cas_section(data, off, sec));
    assert forall|k: int| 0 <= k < sec.len() implies cas_view_ok(#[trigger] l1[l0.len() + k], data, cas_pos(off, sec, k), sec[k]) by {
        lemma_cas_pos_ge(off, sec, k); lemma_cas_pos_step(off, sec, k); lemma_cas_pos_mono(off, sec, k + 1, sec.len() as int);
        assert(cas_hdr_at(data, cas_pos(off, sec, k)) == sec[k]);
        lemma_cas_raw_is_ok(l1[l0.len() + k], data, cas_pos(off, sec, k), sec[k]);
    }
}

impl FileDataSequenceHeader {
//@ extract mdb_shard/src/file_structs.rs in `impl FileDataSequenceHeader` fn contains_metadata_ext
//@ ret r
//@ contract
    ensures r == has_ext(*self),
//@ end
//@ extract mdb_shard/src/file_structs.rs in `impl FileDataSequenceHeader` fn contains_verification
//@ ret r
//@ contract
    ensures r == has_verif(*self),
//@ end
}
impl MDBFileInfoView {
//@ extract mdb_shard/src/file_structs.rs in `impl MDBFileInfoView` fn from_data_and_header
//@ ret r
//@ subst `std::io::Result<Self>` => `Result<Self>` :: R11 one error type for all stubs
//@ subst `return Err(io::Error::new( io::ErrorKind::UnexpectedEof, "Provided slice too small to read MDBFileInfoView", ));` => `return Err(MDBShardError);` :: R11 error value of the stub error type
//@ contract
        requires offset + 48 * (1 + following(header)) <= usize::MAX,
        ensures
            r is Ok <==> data@.len() >= offset + 48 * (1 + following(header)),
            r matches Ok(v) ==> v.header == header && v.data == data && v.offset == offset,
//@ end
}
impl MDBCASInfoView {
//@ extract mdb_shard/src/cas_structs.rs in `impl MDBCASInfoView` fn from_data_and_header
//@ ret r
//@ subst `io::Result<Self>` => `Result<Self>` :: R11 one error type for all stubs
//@ subst `return Err(io::Error::new(io::ErrorKind::UnexpectedEof, "Provided slice too small to read Cas Info"));` => `return Err(MDBShardError);` :: R11 error value of the stub error type
//@ contract
        requires offset + 48 * (1 + header.num_entries) <= usize::MAX,
        ensures
            r is Ok <==> data@.len() >= offset + 48 * (1 + header.num_entries),
            r matches Ok(v) ==> v.header == header && v.data == data && v.offset == offset,
//@ end
}

// ================= the async section walkers ==============================================================================
//@ extract mdb_shard/src/streaming_shard.rs fn process_shard_file_info_section_async
//@ ret res
//@ subst `<R: AsyncRead + Unpin, FileFunc>` => `` :: R11 stubs instead of the generic parameters
//@ subst `reader: &mut R` => `reader: &mut VxSR` :: R11 reader stub with ghost bytes and position
//@ subst `mut file_callback: FileFunc` => `file_callback: &mut VxFileCb` :: the instance FileFunc = &mut VxFileCb (a `&mut F` is itself an FnMut), so the calls can be observed
//@ subst `where FileFunc: FnMut(MDBFileInfoView) -> Result<()>,` => `` :: instance, see above
//@ optsubst `file_callback(` => `file_callback.call_ok(` :: call of the callback stub
//@ optsubst `FileDataSequenceHeader::deserialize(&mut Cursor::new(&header_buf[..]))` => `vx_file_hdr_from_slice(&header_buf[..])` :: R11 decode from an in-memory slice (Cursor)
//@ optsubst `reader.read_exact(&mut file_data[size_of::<FileDataSequenceHeader>()..])` => `vx_read_exact_tail(reader, &mut file_data, size_of::<FileDataSequenceHeader>())` :: R7 outline of read_exact into the tail of the buffer (mutable range index; contract assumed from std/futures)
//@ contract
    requires has_file_section(old(reader).data@, old(reader).pos@), old(reader).pos@ >= 0,
    ensures
        /*@AUX*/ final(reader).data@ == old(reader).data@,
        // the callback is invoked exactly once per file record of the section, in order, each time with that record (the record's
        // bytes verbatim: header image + verification entries iff flagged + metadata-ext entry iff flagged); the reader has consumed
        // exactly the section's serialized size (it ends right after the bookend), all of it inside the stream
        res is Ok ==> /*@C09*/ file_cb_got_raw(old(file_callback).log@, final(file_callback).log@, old(reader).data@, old(reader).pos@),
        res is Ok ==> /*@C09*/ ({
            let data = old(reader).data@; let off = old(reader).pos@; let sec = the_file_section(data, off);
            final(reader).pos@ == file_pos(off, sec, sec.len() as int) + 48 && final(reader).pos@ <= data.len()
        }),
        // totality ("identically through the readers" includes accepting the same streams): a section that lies completely inside the
        // stream is walked to its end — the walker produces no error of its own (no short buffer, no miscounted entry)
        /*@C09*/ file_section_inside(old(reader).data@, old(reader).pos@) && !vx_io_fault() ==> res is Ok,
//@ body-start
    let ghost data0 = reader.data@; let ghost off = reader.pos@; let ghost sec = the_file_section(data0, off); let ghost l0 = file_callback.log@;
    proof { assert(file_section(data0, off, sec)); assert(l0.subrange(0, l0.len() as int) =~= l0); }
//@ after `loop`
        invariant_except_break
            /*@C09*/ reader.pos@ == file_pos(off, sec, file_callback.log@.len() - l0.len()),
        invariant
            reader.data@ == data0, data0 == old(reader).data@, file_section(data0, off, sec), off >= 0, off == old(reader).pos@, sec == the_file_section(data0, off),
            l0 == old(file_callback).log@,
            l0.len() <= file_callback.log@.len() <= l0.len() + sec.len(), file_callback.log@.subrange(0, l0.len() as int) == l0,
            /*@C09*/ forall|k: int| 0 <= k < file_callback.log@.len() - l0.len() ==> file_view_raw(#[trigger] file_callback.log@[l0.len() + k], data0, file_pos(off, sec, k), sec[k]),
        ensures
            /*@C09*/ file_callback.log@.len() == l0.len() + sec.len(), /*@C09*/ reader.pos@ == file_pos(off, sec, sec.len() as int) + 48, reader.pos@ <= data0.len(),
        decreases l0.len() + sec.len() - file_callback.log@.len(),
//@ before `let mut header_buf`
        let ghost k = file_callback.log@.len() - l0.len(); let ghost lg = file_callback.log@; let ghost p = file_pos(off, sec, k);
        proof { lemma_file_pos_ge(off, sec, k); lemma_file_pos_mono(off, sec, k, sec.len() as int); }
//@ before `break;`
            proof { assert(header_buf@.subrange(0, 48) =~= header_buf@); if k < sec.len() { assert(file_hdr_at(data0, file_pos(off, sec, k)) == sec[k]); } }
//@ after `break; }`
        // (tagged: a header that is not the bookend is a record of the section — the loop cannot run past the bookend)
        proof {
            assert(header_buf@.subrange(0, 48) =~= header_buf@);
            if k >= sec.len() { /*@C09*/ assert(false); }
            lemma_file_pos_step(off, sec, k); lemma_file_pos_mono(off, sec, k + 1, sec.len() as int);
        }
//@ before `file_callback.call_ok(MDBFileInfoView::from_data_and_header(header, Arc::from(file_data), 0)?)?;`
        let ghost fd = file_data@; let ghost pc = reader.pos@;
        proof {
            // (tagged: tie the values computed by the code to the values the contract speaks about — not proof conveniences)
            /*@C09*/ assert(n_bytes == 48 * following(header));              // verification entries iff flagged, ext entry iff flagged
            /*@C09*/ assert(pc == p + 48 + 48 * following(header));          // the reader consumed exactly the record
            /*@C09*/ assert(fd.len() == 48 * (1 + following(header)));
            assert(fd =~= fd.subrange(0, 48) + fd.subrange(48, fd.len() as int));
            assert(data0.subrange(p, p + 48 * (1 + following(header))) =~= data0.subrange(p, p + 48) + data0.subrange(p + 48, p + 48 + 48 * following(header)));
            /*@C09*/ assert(fd == data0.subrange(p, p + 48 * (1 + following(header))));   // the buffer is the record's bytes
        }
//@ after `file_callback.call_ok(MDBFileInfoView::from_data_and_header(header, Arc::from(file_data), 0)?)?;`
        proof {
            /*@C09*/ assert(file_view_raw(file_callback.log@[l0.len() + k], data0, p, sec[k]));   // tagged: the view handed to the callback is the record
            assert(file_callback.log@.subrange(0, l0.len() as int) =~= lg.subrange(0, l0.len() as int));
            assert forall|j: int| 0 <= j < file_callback.log@.len() - l0.len() implies file_view_raw(#[trigger] file_callback.log@[l0.len() + j], data0, file_pos(off, sec, j), sec[j]) by {
                if j < k { assert(file_callback.log@[l0.len() + j] == lg[l0.len() + j]); }
            }
        }
//@ end

//@ extract mdb_shard/src/streaming_shard.rs fn process_shard_cas_info_section_async
//@ ret res
//@ subst `<R: AsyncRead + Unpin, CasFunc>` => `` :: R11 stubs instead of the generic parameters
//@ subst `reader: &mut R` => `reader: &mut VxSR` :: R11 reader stub with ghost bytes and position
//@ subst `mut cas_callback: CasFunc` => `cas_callback: &mut VxCasCb` :: the instance CasFunc = &mut VxCasCb
//@ subst `where CasFunc: FnMut(MDBCASInfoView) -> Result<()>,` => `` :: instance, see above
//@ optsubst `cas_callback(` => `cas_callback.call_ok(` :: call of the callback stub
//@ optsubst `CASChunkSequenceHeader::deserialize(&mut Cursor::new(&header_buf[..]))` => `vx_cas_hdr_from_slice(&header_buf[..])` :: R11 decode from an in-memory slice (Cursor)
//@ optsubst `reader.read_exact(&mut cas_data[size_of::<CASChunkSequenceHeader>()..])` => `vx_read_exact_tail(reader, &mut cas_data, size_of::<CASChunkSequenceHeader>())` :: R7 outline of read_exact into the tail of the buffer (mutable range index; contract assumed from std/futures)
//@ contract
    requires has_cas_section(old(reader).data@, old(reader).pos@), old(reader).pos@ >= 0,
    ensures
        /*@AUX*/ final(reader).data@ == old(reader).data@,
        // once per xorb record of the section, in order, each time with the record's bytes verbatim; the reader ends right after the
        // bookend (= consumed the section's serialized size)
        res is Ok ==> /*@C09*/ cas_cb_got_raw(old(cas_callback).log@, final(cas_callback).log@, old(reader).data@, old(reader).pos@),
        res is Ok ==> /*@C09*/ ({
            let data = old(reader).data@; let off = old(reader).pos@; let sec = the_cas_section(data, off);
            final(reader).pos@ == cas_pos(off, sec, sec.len() as int) + 48 && final(reader).pos@ <= data.len()
        }),
        /*@C09*/ cas_section_inside(old(reader).data@, old(reader).pos@) && !vx_io_fault() ==> res is Ok,
//@ body-start
    let ghost data0 = reader.data@; let ghost off = reader.pos@; let ghost sec = the_cas_section(data0, off); let ghost l0 = cas_callback.log@;
    proof { assert(cas_section(data0, off, sec)); assert(l0.subrange(0, l0.len() as int) =~= l0); }
//@ after `loop`
        invariant_except_break
            /*@C09*/ reader.pos@ == cas_pos(off, sec, cas_callback.log@.len() - l0.len()),
        invariant
            reader.data@ == data0, data0 == old(reader).data@, cas_section(data0, off, sec), off >= 0, off == old(reader).pos@, sec == the_cas_section(data0, off),
            l0 == old(cas_callback).log@,
            l0.len() <= cas_callback.log@.len() <= l0.len() + sec.len(), cas_callback.log@.subrange(0, l0.len() as int) == l0,
            /*@C09*/ forall|k: int| 0 <= k < cas_callback.log@.len() - l0.len() ==> cas_view_raw(#[trigger] cas_callback.log@[l0.len() + k], data0, cas_pos(off, sec, k), sec[k]),
        ensures
            /*@C09*/ cas_callback.log@.len() == l0.len() + sec.len(), /*@C09*/ reader.pos@ == cas_pos(off, sec, sec.len() as int) + 48, reader.pos@ <= data0.len(),
        decreases l0.len() + sec.len() - cas_callback.log@.len(),
//@ before `let mut header_buf`
        let ghost k = cas_callback.log@.len() - l0.len(); let ghost lg = cas_callback.log@; let ghost p = cas_pos(off, sec, k);
        proof { lemma_cas_pos_ge(off, sec, k); lemma_cas_pos_mono(off, sec, k, sec.len() as int); }
//@ before `break;`
            proof { assert(header_buf@.subrange(0, 48) =~= header_buf@); if k < sec.len() { assert(cas_hdr_at(data0, cas_pos(off, sec, k)) == sec[k]); } }
//@ after `break; }`
        // (tagged: a header that is not the bookend is a record of the section)
        proof {
            assert(header_buf@.subrange(0, 48) =~= header_buf@);
            if k >= sec.len() { /*@C09*/ assert(false); }
            lemma_cas_pos_step(off, sec, k); lemma_cas_pos_mono(off, sec, k + 1, sec.len() as int);
        }
//@ before `cas_callback.call_ok(MDBCASInfoView::from_data_and_header(header, Arc::from(cas_data), 0)?)?;`
        let ghost fd = cas_data@; let ghost pc = reader.pos@;
        proof {
            // (tagged: tie the values computed by the code to the values the contract speaks about — not proof conveniences)
            /*@C09*/ assert(n_bytes == 48 * header.num_entries);
            /*@C09*/ assert(pc == p + 48 + 48 * header.num_entries);         // the reader consumed exactly the record
            /*@C09*/ assert(fd.len() == 48 * (1 + header.num_entries));
            assert(fd =~= fd.subrange(0, 48) + fd.subrange(48, fd.len() as int));
            assert(data0.subrange(p, p + 48 * (1 + header.num_entries)) =~= data0.subrange(p, p + 48) + data0.subrange(p + 48, p + 48 + 48 * header.num_entries));
            /*@C09*/ assert(fd == data0.subrange(p, p + 48 * (1 + header.num_entries)));   // the buffer is the record's bytes
        }
//@ after `cas_callback.call_ok(MDBCASInfoView::from_data_and_header(header, Arc::from(cas_data), 0)?)?;`
        proof {
            /*@C09*/ assert(cas_view_raw(cas_callback.log@[l0.len() + k], data0, p, sec[k]));   // tagged: the view handed to the callback is the record
            assert(cas_callback.log@.subrange(0, l0.len() as int) =~= lg.subrange(0, l0.len() as int));
            assert forall|j: int| 0 <= j < cas_callback.log@.len() - l0.len() implies cas_view_raw(#[trigger] cas_callback.log@[l0.len() + j], data0, cas_pos(off, sec, j), sec[j]) by {
                if j < k { assert(cas_callback.log@[l0.len() + j] == lg[l0.len() + j]); }
            }
        }
//@ end

// ================= the async stream walker ================================================================================
// where the reader stands after a successful walk of a shard whose header starts at `pos`: right after the file bookend when no
// CAS callback is given, right after the CAS bookend otherwise
spec fn stream_end(data: Seq<u8>, pos: int, with_cas: bool) -> int {
    let coff = cas_start(data, pos + 48);
    if with_cas { let cs = the_cas_section(data, coff); cas_pos(coff, cs, cs.len() as int) + 48 } else { coff }
}
spec fn stream_complete(data: Seq<u8>, pos: int, with_cas: bool) -> bool {
    &&& pos + 48 <= data.len() && shard_hdr_ok(data.subrange(pos, pos + 48))
    &&& file_section_inside(data, pos + 48)
    &&& with_cas ==> cas_section_inside(data, cas_start(data, pos + 48))
}
//@ extract mdb_shard/src/streaming_shard.rs fn process_shard_stream_async
//@ ret res
//@ subst `<R: AsyncRead + Unpin, FileFunc, CasFunc>` => `` :: R11 stubs instead of the generic parameters
//@ subst `reader: &mut R` => `reader: &mut VxSR` :: R11 reader stub with ghost bytes and position
//@ subst `file_callback: Option<FileFunc>` => `file_callback: Option<&mut VxFileCb>` :: the instance FileFunc = &mut VxFileCb
//@ subst `cas_callback: Option<CasFunc>` => `cas_callback: Option<&mut VxCasCb>` :: the instance CasFunc = &mut VxCasCb
//@ subst `where FileFunc: FnMut(MDBFileInfoView) -> Result<()>, CasFunc: FnMut(MDBCASInfoView) -> Result<()>,` => `` :: instances, see above
//@ optsubst `|_| Ok(())` => `&mut VxFileCb::noop()` :: R7 outline of the no-op closure literal
//@ optsubst `MDBShardFileHeader::deserialize(&mut Cursor::new(&buf))` => `vx_shard_hdr_from_slice(&buf)` :: R11 decode (tag / version check) from an in-memory slice (Cursor)
//@ contract
    requires
        old(reader).pos@ >= 0, has_file_section(old(reader).data@, old(reader).pos@ + 48),
        cas_callback is Some ==> has_cas_section(old(reader).data@, cas_start(old(reader).data@, old(reader).pos@ + 48)),
    ensures
        /*@AUX*/ final(reader).data@ == old(reader).data@,
        // shard header (48 bytes), then the file section (streamed to the file callback if there is one, skipped record by record
        // otherwise), then the CAS section (streamed only if a CAS callback is given) — each callback sees every record of its section
        // once, in order: verbatim bytes (`*_raw`), which is the SAME predicate the sync walker establishes (`*_cb_got` of U-SHSTREAM)
        res is Ok ==> /*@C09*/ (file_callback matches Some(fcb) ==> file_cb_got_raw(fcb.log@, final(fcb).log@, old(reader).data@, old(reader).pos@ + 48)),
        res is Ok ==> /*@C09*/ (file_callback matches Some(fcb) ==> file_cb_got(fcb.log@, final(fcb).log@, old(reader).data@, old(reader).pos@ + 48)),
        res is Ok ==> /*@C09*/ (cas_callback matches Some(ccb) ==> cas_cb_got_raw(ccb.log@, final(ccb).log@, old(reader).data@, cas_start(old(reader).data@, old(reader).pos@ + 48))),
        res is Ok ==> /*@C09*/ (cas_callback matches Some(ccb) ==> cas_cb_got(ccb.log@, final(ccb).log@, old(reader).data@, cas_start(old(reader).data@, old(reader).pos@ + 48))),
        // bytes consumed = header + the serialized size of the section(s) walked: the next reader starts aligned
        res is Ok ==> /*@C09*/ final(reader).pos@ == stream_end(old(reader).data@, old(reader).pos@, cas_callback is Some) && final(reader).pos@ <= old(reader).data@.len(),
        // totality: a stream that holds a valid shard header and the complete section(s) is accepted
        /*@C09*/ stream_complete(old(reader).data@, old(reader).pos@, cas_callback is Some) && !vx_io_fault() ==> res is Ok,
//@ body-start
    let ghost data0 = reader.data@; let ghost foff = reader.pos@ + 48; let ghost coff = cas_start(data0, foff);
    proof { lemma_file_pos_ge(foff, the_file_section(data0, foff), the_file_section(data0, foff).len() as int); }
//@ before `let _ =`
    proof { assert(buf@.subrange(0, 48) =~= buf@); }
//@ before `process_shard_file_info_section_async(reader, callback)?;`
        let ghost l0f = callback.log@;
        /*@C09*/ assert(reader.pos@ == foff);    // tagged: the file section is walked from right after the 48-byte shard header
//@ after `process_shard_file_info_section_async(reader, callback)?;`
        proof { lemma_file_cb_raw_to_got(l0f, callback.log@, data0, foff); }
//@ before `process_shard_cas_info_section_async(reader, callback)?;`
        let ghost l0c = callback.log@;
        /*@C09*/ assert(reader.pos@ == coff);    // tagged: the CAS section is walked from right after the file bookend
//@ after `process_shard_cas_info_section_async(reader, callback)?;`
        proof { lemma_cas_cb_raw_to_got(l0c, callback.log@, data0, coff); }
//@ end

// ================= no panic on ANY input bytes ============================================================================
// The contracts above assume a stream that holds a section (`has_*_section`); the record headers are untrusted u32s, so the machine
// obligations (arithmetic overflow of the entry count / byte count / buffer length, the slice index of the body read, the
// constructor's size precondition) are checked a second time WITHOUT any precondition on the bytes and without loop invariants: a
// second extraction of the SAME bodies (R8 region = the whole block of the fn), no `requires`, no postcondition.
// (64-bit target: `global size_of usize == 8`; on a 32-bit target `n_entries * 48` can overflow.)
//@ extract mdb_shard/src/streaming_shard.rs region process_shard_file_info_section_async
//@ block `FileFunc: FnMut(MDBFileInfoView) -> Result<()>, {`
//@ sig `fn file_section_async_anybytes(reader: &mut VxSR, file_callback: &mut VxFileCb) -> (res: Result<()>)`
//@ optsubst `file_callback(` => `file_callback.call_ok(` :: call of the callback stub
//@ optsubst `FileDataSequenceHeader::deserialize(&mut Cursor::new(&header_buf[..]))` => `vx_file_hdr_from_slice(&header_buf[..])` :: R11 decode from an in-memory slice (Cursor)
//@ optsubst `reader.read_exact(&mut file_data[size_of::<FileDataSequenceHeader>()..])` => `vx_read_exact_tail(reader, &mut file_data, size_of::<FileDataSequenceHeader>())` :: R7 outline of read_exact into the tail of the buffer
//@ prefix
#[verifier::exec_allows_no_decreases_clause]
//@ end
//@ extract mdb_shard/src/streaming_shard.rs region process_shard_cas_info_section_async
//@ block `CasFunc: FnMut(MDBCASInfoView) -> Result<()>, {`
//@ sig `fn cas_section_async_anybytes(reader: &mut VxSR, cas_callback: &mut VxCasCb) -> (res: Result<()>)`
//@ optsubst `cas_callback(` => `cas_callback.call_ok(` :: call of the callback stub
//@ optsubst `CASChunkSequenceHeader::deserialize(&mut Cursor::new(&header_buf[..]))` => `vx_cas_hdr_from_slice(&header_buf[..])` :: R11 decode from an in-memory slice (Cursor)
//@ optsubst `reader.read_exact(&mut cas_data[size_of::<CASChunkSequenceHeader>()..])` => `vx_read_exact_tail(reader, &mut cas_data, size_of::<CASChunkSequenceHeader>())` :: R7 outline of read_exact into the tail of the buffer
//@ prefix
#[verifier::exec_allows_no_decreases_clause]
//@ end
//@ extract mdb_shard/src/streaming_shard.rs region process_shard_stream_async
//@ block `CasFunc: FnMut(MDBCASInfoView) -> Result<()>, {`
//@ sig `fn stream_async_anybytes(reader: &mut VxSR, file_callback: Option<&mut VxFileCb>, cas_callback: Option<&mut VxCasCb>) -> (res: Result<()>)`
//@ optsubst `|_| Ok(())` => `&mut VxFileCb::noop()` :: R7 outline of the no-op closure literal
//@ optsubst `MDBShardFileHeader::deserialize(&mut Cursor::new(&buf))` => `vx_shard_hdr_from_slice(&buf)` :: R11 decode from an in-memory slice (Cursor)
//@ optsubst `process_shard_file_info_section_async(` => `file_section_async_anybytes(` :: the callee's precondition-free extraction (same body, see above)
//@ optsubst `process_shard_cas_info_section_async(` => `cas_section_async_anybytes(` :: the callee's precondition-free extraction (same body, see above)
//@ end

// ================= MDBMinimalShard::from_reader_async ======================================================================
// Same treatment as `from_reader` in U-SHSTREAM: the two callback closures are lifted (R8) with their captured variables as
// parameters, the statements between the walker calls are lifted as regions, and the composition is a hand-written skeleton
// (Verus does not accept closures capturing `&mut`).
impl MDBFileInfoView {
//@ extract mdb_shard/src/file_structs.rs in `impl MDBFileInfoView` fn byte_size
//@ ret r
//@ contract
        ensures r == 48 * (1 + following(self.header)),
//@ end
//@ extract mdb_shard/src/file_structs.rs in `impl MDBFileInfoView` fn contains_metadata_ext
//@ ret r
//@ contract
        ensures r == has_ext(self.header),
//@ end
//@ extract mdb_shard/src/file_structs.rs in `impl MDBFileInfoView` fn contains_verification
//@ ret r
//@ contract
        ensures r == has_verif(self.header),
//@ end
//@ extract mdb_shard/src/file_structs.rs in `impl MDBFileInfoView` fn num_entries
//@ ret r
//@ contract
        ensures r == self.header.num_entries,
//@ end
//@ extract mdb_shard/src/file_structs.rs in `impl MDBFileInfoView` fn serialize
//@ ret r
//@ subst `<W: Write>` => `` :: R11 the instance W = Vec<u8>
//@ subst `writer: &mut W` => `writer: &mut Vec<u8>` :: R11 the instance W = Vec<u8>
//@ subst `io::Result<usize>` => `Result<usize>` :: R11 one error type for all stubs
//@ subst `writer.write_all(` => `vx_write_all(writer, ` :: R11 Write::write_all on Vec<u8>
//@ contract
        requires fview_wf(*self),
        ensures r matches Ok(n) ==> n == 48 * (1 + following(self.header)) && final(writer)@ == old(writer)@ + self.data@.subrange(self.offset as int, self.offset + n),
//@ end
}
impl MDBCASInfoView {
//@ extract mdb_shard/src/cas_structs.rs in `impl MDBCASInfoView` fn num_entries
//@ ret r
//@ contract
        ensures r == self.header.num_entries,
//@ end
//@ extract mdb_shard/src/cas_structs.rs in `impl MDBCASInfoView` fn byte_size
//@ ret r
//@ contract
        ensures r == 48 * (1 + self.header.num_entries),
//@ end
//@ extract mdb_shard/src/cas_structs.rs in `impl MDBCASInfoView` fn serialize
//@ ret r
//@ subst `<W: Write>` => `` :: R11 the instance W = Vec<u8>
//@ subst `writer: &mut W` => `writer: &mut Vec<u8>` :: R11 the instance W = Vec<u8>
//@ subst `io::Result<usize>` => `Result<usize>` :: R11 one error type for all stubs
//@ subst `writer.write_all(` => `vx_write_all(writer, ` :: R11 Write::write_all on Vec<u8>
//@ contract
        requires cview_wf(*self),
        ensures r matches Ok(n) ==> n == 48 * (1 + self.header.num_entries) && final(writer)@ == old(writer)@ + self.data@.subrange(self.offset as int, self.offset + n),
//@ end
}
// Vec::shrink_to_fit only releases capacity
pub assume_specification<T, A: std::alloc::Allocator> [Vec::<T, A>::shrink_to_fit] (v: &mut Vec<T, A>)
    ensures final(v)@ == old(v)@;

//@ extract mdb_shard/src/streaming_shard.rs in `impl MDBMinimalShard` region from_reader_async
//@ from `let mut buf = [0u8; size_of::<MDBShardFileHeader>()];`
//@ to `let _ = MDBShardFileHeader::deserialize(&mut Cursor::new(&buf))?;`
//@ sig `fn from_reader_async_head(reader: &mut VxSR) -> (res: Result<()>)`
//@ epilogue `Ok(())`
//@ optsubst `MDBShardFileHeader::deserialize(&mut Cursor::new(&buf))` => `vx_shard_hdr_from_slice(&buf)` :: R11 decode (tag / version check) from an in-memory slice (Cursor)
//@ contract
    requires old(reader).pos@ >= 0,
    ensures
        /*@AUX*/ final(reader).data@ == old(reader).data@,
        // exactly the 48-byte shard header is consumed: the file section is walked from the right place
        res is Ok ==> /*@C09*/ final(reader).pos@ == old(reader).pos@ + 48,
        /*@C09*/ old(reader).pos@ + 48 <= old(reader).data@.len() && shard_hdr_ok(old(reader).data@.subrange(old(reader).pos@, old(reader).pos@ + 48)) && !vx_io_fault() ==> res is Ok,
//@ before `let _ =`
    proof { assert(buf@.subrange(0, 48) =~= buf@); }
//@ end
//@ extract mdb_shard/src/streaming_shard.rs in `impl MDBMinimalShard` region from_reader_async
//@ block `|fiv: MDBFileInfoView| {`
//@ sig `fn from_reader_async_file_cb(include_files: bool, file_offsets: &mut Vec<u32>, mut data_vec: &mut Vec<u8>, fiv: &MDBFileInfoView) -> (res: Result<()>)`
//@ contract
    requires fview_wf(*fiv),
    ensures
        res is Ok && include_files ==> final(file_offsets)@ == old(file_offsets)@.push(old(data_vec)@.len() as u32)
            && final(data_vec)@ == old(data_vec)@ + fiv.data@.subrange(fiv.offset as int, fiv.offset + 48 * (1 + following(fiv.header))),
        res is Ok && !include_files ==> final(file_offsets)@ == old(file_offsets)@ && final(data_vec)@ == old(data_vec)@,
//@ end
//@ extract mdb_shard/src/streaming_shard.rs in `impl MDBMinimalShard` region from_reader_async
//@ block `|civ: MDBCASInfoView| {`
//@ sig `fn from_reader_async_cas_cb(cas_offsets: &mut Vec<u32>, mut data_vec: &mut Vec<u8>, civ: &MDBCASInfoView) -> (res: Result<()>)`
//@ contract
    requires cview_wf(*civ),
    ensures
        res is Ok ==> final(cas_offsets)@ == old(cas_offsets)@.push(old(data_vec)@.len() as u32)
            && final(data_vec)@ == old(data_vec)@ + civ.data@.subrange(civ.offset as int, civ.offset + 48 * (1 + civ.header.num_entries)),
//@ end
//@ extract mdb_shard/src/streaming_shard.rs in `impl MDBMinimalShard` region from_reader_async
//@ from-after `Ok(()) }) .await?;` #1
//@ to-before `if include_cas {`
//@ sig `fn from_reader_async_mid(mut data_vec: &mut Vec<u8>) -> (res: Result<(u32, Vec<u32>)>)`
//@ epilogue `Ok((cas_info_start, cas_offsets))`
//@ contract
    ensures
        // the file bookend always goes in; the CAS part starts right after it
        res matches Ok((start, offs)) ==> final(data_vec)@ == old(data_vec)@ + enc_file_hdr(file_bookend_hdr()) && start == final(data_vec)@.len() as u32 && offs@.len() == 0,
//@ end
impl MDBMinimalShard {
//@ extract mdb_shard/src/streaming_shard.rs in `impl MDBMinimalShard` region from_reader_async
//@ from `CASChunkSequenceHeader::bookend().serialize(&mut data_vec)?;`
//@ to `cas_info_start, })`
//@ sig `fn from_reader_async_tail(mut data_vec: Vec<u8>, mut file_offsets: Vec<u32>, mut cas_offsets: Vec<u32>, cas_info_start: u32) -> (res: Result<Self>)`
//@ contract
        ensures
            res matches Ok(m) ==> m.data@ == data_vec@ + enc_cas_hdr(cas_bookend_hdr()) && m.file_offsets@ == file_offsets@ && m.cas_offsets@ == cas_offsets@ && m.cas_info_start == cas_info_start,
//@ end
}

// ---- composition check for `MDBMinimalShard::from_reader_async` (HAND-WRITTEN skeleton, not extracted; the text is U-SHSTREAM's
// `vx_glue_from_reader` with the async items substituted) -------------------------------------------------------------------
// The real function passes two closures that capture `file_offsets` / `data_vec` mutably to the async walkers; Verus does not accept
// closures capturing `&mut`.  The skeleton runs the verified async walker with a recording callback and then applies the LIFTED
// closure body (from_reader_async_file_cb / _cas_cb, extracted text) to each recorded view in order — the same calls in the same order,
// since the closures do not touch the reader.  Everything between the calls is extracted (from_reader_async_head / _mid / _tail).
// Pre- and postcondition are U-SHSTREAM's `from_reader_pre` / `from_reader_post` — the SAME statement as for the sync constructor.
fn vx_glue_from_reader_async(reader: &mut VxSR, include_files: bool, include_cas: bool) -> (res: Result<MDBMinimalShard>)
    requires from_reader_pre(old(reader).data@, old(reader).pos@, include_files, include_cas),
    ensures res matches Ok(m) ==> /*@C09*/ from_reader_post(old(reader).data@, old(reader).pos@, include_files, include_cas, m),
{
    let ghost data = reader.data@; let ghost foff = reader.pos@ + 48; let ghost fsec = the_file_section(data, foff);
    let ghost coff = cas_start(data, foff); let ghost csec = the_cas_section(data, coff);
    let ghost fe: Seq<FileDataSequenceHeader> = if include_files { fsec } else { Seq::empty() };
    let ghost ce: Seq<CASChunkSequenceHeader> = if include_cas { csec } else { Seq::empty() };
    proof { assert(file_section(data, foff, fsec)); lemma_file_pos_ge(foff, fsec, fsec.len() as int); lemma_file_pos_shift(0, foff, fsec, fsec.len() as int); }
    let mut data_vec = Vec::<u8>::new();
    from_reader_async_head(reader)?;
    let mut file_offsets = Vec::<u32>::new();
    let mut fcb = VxFileCb { log: Vec::new() };
    process_shard_file_info_section_async(reader, &mut fcb)?;
    proof {
        lemma_file_cb_raw_to_got(Seq::empty(), fcb.log@, data, foff);   // the verbatim views are views in the sense of U-SHSTREAM
        assert forall|i: int| 0 <= i < fsec.len() implies file_view_ok(#[trigger] fcb.log@[i], data, file_pos(foff, fsec, i), fsec[i]) by { assert(fcb.log@[0 + i] == fcb.log@[i]); }
        if include_cas { lemma_cas_pos_ge(coff, csec, csec.len() as int); }
    }
    let mut k: usize = 0;
    while k < fcb.log.len()
        invariant
            k <= fcb.log@.len(), fcb.log@.len() == fsec.len(), file_section(data, foff, fsec), foff >= 48,
            forall|i: int| 0 <= i < fsec.len() ==> file_view_ok(#[trigger] fcb.log@[i], data, file_pos(foff, fsec, i), fsec[i]),
            /*@C09*/ include_files ==> built_files(data_vec@, data, foff, fsec, k as int) && file_offsets@.len() == k
                && forall|i: int| 0 <= i < k ==> #[trigger] file_offsets@[i] == file_pos(0, fsec, i),
            !include_files ==> data_vec@.len() == 0 && file_offsets@.len() == 0,
            include_files ==> file_pos(0, fsec, fsec.len() as int) <= u32::MAX,
        decreases fcb.log@.len() - k,
    {
        let ghost d0 = data_vec@;
        let v = &fcb.log[k];
        proof {
            assert(file_view_ok(fcb.log@[k as int], data, file_pos(foff, fsec, k as int), fsec[k as int]));
            lemma_file_pos_mono(0, fsec, k as int, fsec.len() as int);
        }
        from_reader_async_file_cb(include_files, &mut file_offsets, &mut data_vec, v)?;
        proof {
            if include_files {
                let rec = v.data@.subrange(0, 48 * (1 + following(v.header)));
                assert(rec =~= v.data@);
                lemma_built_files_step(d0, data, foff, fsec, k as int, rec);
            }
        }
        k += 1;
    }
    proof {
        if !include_files { assert(built_files(data_vec@, data, foff, fe, 0)); }
        assert(built_files(data_vec@, data, foff, fe, fe.len() as int));
    }
    let ghost dv_files = data_vec@;
    let (cas_info_start, mut cas_offsets) = from_reader_async_mid(&mut data_vec)?;
    let ghost dv_mid = data_vec@; let ghost cis = dv_mid.len() as int;
    let ghost mut rest: Seq<u8> = Seq::empty();
    proof { assert(dv_mid + rest =~= dv_mid); axiom_codec_file_hdr(file_bookend_hdr()); lemma_file_pos_ge(0, fe, fe.len() as int); }
    if include_cas {
        proof { assert(cas_section(data, coff, csec)); lemma_cas_pos_ge(coff, csec, csec.len() as int); lemma_cas_pos_shift(cis, coff, csec, csec.len() as int); }
        let mut ccb = VxCasCb { log: Vec::new() };
        process_shard_cas_info_section_async(reader, &mut ccb)?;
        proof { lemma_cas_cb_raw_to_got(Seq::empty(), ccb.log@, data, coff); assert forall|i: int| 0 <= i < csec.len() implies cas_view_ok(#[trigger] ccb.log@[i], data, cas_pos(coff, csec, i), csec[i]) by { assert(ccb.log@[0 + i] == ccb.log@[i]); } }
        let mut j: usize = 0;
        while j < ccb.log.len()
            invariant
                j <= ccb.log@.len(), ccb.log@.len() == csec.len(), cas_section(data, coff, csec), coff >= 0, cis == dv_mid.len(), cis >= 0,
                forall|i: int| 0 <= i < csec.len() ==> cas_view_ok(#[trigger] ccb.log@[i], data, cas_pos(coff, csec, i), csec[i]),
                /*@C09*/ built_cas(data_vec@, cis, data, coff, csec, j as int), cas_offsets@.len() == j, data_vec@ == dv_mid + rest,
                /*@C09*/ forall|i: int| 0 <= i < j ==> #[trigger] cas_offsets@[i] == cas_pos(cis, csec, i),
                cas_pos(cis, csec, csec.len() as int) + 48 <= u32::MAX,
            decreases ccb.log@.len() - j,
        {
            let ghost d0 = data_vec@;
            let v = &ccb.log[j];
            proof {
                assert(cas_view_ok(ccb.log@[j as int], data, cas_pos(coff, csec, j as int), csec[j as int]));
                lemma_cas_pos_mono(cis, csec, j as int, csec.len() as int);
            }
            from_reader_async_cas_cb(&mut cas_offsets, &mut data_vec, v)?;
            proof {
                let rec = v.data@.subrange(0, 48 * (1 + v.header.num_entries));
                assert(rec =~= v.data@);
                lemma_built_cas_step(d0, cis, data, coff, csec, j as int, rec);
                assert(dv_mid + (rest + rec) =~= (dv_mid + rest) + rec);
                rest = rest + rec;
            }
            j += 1;
        }
    }
    proof { if !include_cas { assert(built_cas(data_vec@, cis, data, coff, ce, 0)); } }
    let ghost dv_cas = data_vec@;
    let res = MDBMinimalShard::from_reader_async_tail(data_vec, file_offsets, cas_offsets, cas_info_start)?;
    proof {
        let cb = enc_cas_hdr(cas_bookend_hdr());
        assert(forall|i: int| 0 <= i < ce.len() ==> (#[trigger] ce[i]).cas_hash != bookend_hash()) by {
            if include_cas { assert forall|i: int| 0 <= i < csec.len() implies (#[trigger] csec[i]).cas_hash != bookend_hash() by { assert(cas_hdr_at(data, cas_pos(coff, csec, i)) == csec[i]); } }
        }
        assert(forall|i: int| 0 <= i < fe.len() ==> (#[trigger] fe[i]).file_hash != bookend_hash()) by {
            if include_files { assert forall|i: int| 0 <= i < fsec.len() implies (#[trigger] fsec[i]).file_hash != bookend_hash() by { assert(file_hdr_at(data, file_pos(foff, fsec, i)) == fsec[i]); } }
        }
        lemma_built_cas_close(dv_cas, cis, data, coff, ce);
        lemma_built_files_close(dv_files, data, foff, fe, rest + cb);
        assert(res.data@ =~= dv_files + enc_file_hdr(file_bookend_hdr()) + (rest + cb));
        lemma_the_file_section(res.data@, 0, fe);
        lemma_the_cas_section(res.data@, cis, ce);
        axiom_codec_cas_hdr(cas_bookend_hdr());
        // entries: the file part of the buffer is a prefix of the final buffer
        assert forall|i: int| 0 <= i < fe.len() implies res.data@.subrange(#[trigger] file_pos(0, fe, i) + 48, file_pos(0, fe, i + 1)) == data.subrange(file_pos(foff, fe, i) + 48, file_pos(foff, fe, i + 1)) by {
            lemma_file_pos_mono(0, fe, i + 1, fe.len() as int); lemma_file_pos_step(0, fe, i); lemma_file_pos_ge(0, fe, i);
            assert(res.data@.subrange(file_pos(0, fe, i) + 48, file_pos(0, fe, i + 1)) =~= dv_files.subrange(file_pos(0, fe, i) + 48, file_pos(0, fe, i + 1)));
        }
        assert forall|i: int| 0 <= i < ce.len() implies res.data@.subrange(#[trigger] cas_pos(cis, ce, i) + 48, cas_pos(cis, ce, i + 1)) == data.subrange(cas_pos(coff, ce, i) + 48, cas_pos(coff, ce, i + 1)) by {
            lemma_cas_pos_mono(cis, ce, i + 1, ce.len() as int); lemma_cas_pos_step(cis, ce, i); lemma_cas_pos_ge(cis, ce, i);
            assert(res.data@.subrange(cas_pos(cis, ce, i) + 48, cas_pos(cis, ce, i + 1)) =~= dv_cas.subrange(cas_pos(cis, ce, i) + 48, cas_pos(cis, ce, i + 1)));
        }
    }
    Ok(res)
}

// the sync and the async constructor answer identically: both are specified by `from_reader_post` over the same bytes, which fixes the
// record lists of the result
proof fn lemma_async_sync_agree(data: Seq<u8>, pos: int, include_files: bool, include_cas: bool, m_sync: MDBMinimalShard, m_async: MDBMinimalShard)
    requires from_reader_post(data, pos, include_files, include_cas, m_sync), from_reader_post(data, pos, include_files, include_cas, m_async),
    ensures /*@C09*/ min_files(m_sync) == min_files(m_async) && min_cas(m_sync) == min_cas(m_async),
{}

} // verus!
fn main() {}
