//@ unit U-CHUNKSER
//@ props C07
//@ verus-args --rlimit 100
//@ rules-from xorbidx
//@ gsubst `anyhow::Error` => `AnyhowError` :: R11 stub type for the anyhow dependency (opaque error value)
//@ gsubst `std::io::Error` => `IoError` :: R11 stub type (opaque error value)
//@ gsubst `lz4_flex::frame::Error` => `Lz4Error` :: R11 stub type (opaque error value)
//@ gsubst `Infallible` => `VxInfallible` :: R11 stub type (opaque error value)
//@ gsubst `std::io::Result<()>` => `Result<(), IoError>` :: expansion of the std alias with the stub error type
#![allow(non_snake_case, unused)]
use vstd::prelude::*;
use std::mem::size_of;
verus! {
global size_of usize == 8;

//@ include prelude/xorbidx_types.rs

//@ extract cas_object/src/error.rs enum CasObjectError
//@ end
//@ extract cas_object/src/cas_chunk_format.rs const CURRENT_VERSION
//@ end
// the real header struct (8 x u8; `#[repr(C, packed)]` and the derives are dropped by R10; layout re-checked by rustc)
//@ extract cas_object/src/cas_chunk_format.rs struct CASChunkHeader
//@ end
global layout CASChunkHeader is size == 8, align == 1;
// derived `Default` of the header: all bytes zero
impl Default for CASChunkHeader {
    #[verifier::external_body]
    fn default() -> (r: Self) ensures header_is_zero(r) { unimplemented!() }
}
pub closed spec fn header_is_zero(r: CASChunkHeader) -> bool {
    r.version == 0 && r.compression_scheme == 0 && r.compressed_length@ =~= seq![0u8, 0u8, 0u8] && r.uncompressed_length@ =~= seq![0u8, 0u8, 0u8]
}

// ---- writer stub (R11): the bytes written so far --------------------------------------------------------------------------------
pub trait Write {
    spec fn written(&self) -> Seq<u8>;
    fn write_all(&mut self, buf: &[u8]) -> (r: Result<(), IoError>)
        ensures
            // (on Err a prefix of buf may have been written: unspecified)
            r is Ok ==> final(self).written() == old(self).written() + buf@;
}

//@ include prelude/xorbidx_codec.rs

impl CompressionScheme {
    // compress_from_slice (lz4 / bg4+lz4 / identity): result is a function of (scheme, data), the decoder inverts it, and a reader-based decoder
    // consumes all of it (frame-exact).  These are, literally, the three postconditions U-CODEC PROVES for the real function (down to the lz4_flex /
    // bg4 inverse laws).  (the real function returns Cow<[u8]>; serialize_chunk only takes `.len()`, `&x` and `chunk.into()` of that type)
    #[verifier::external_body]
    fn compress_from_slice(&self, data: &[u8]) -> (r: Result<Vec<u8>, CasObjectError>)
        ensures r matches Ok(c) ==> c@ == compress_spec(*self, data@) && decode_spec(*self, c@) == data@ && consumed_spec(*self, c@) == c@.len()
    { unimplemented!() }
}
// R7 outline: `compression_scheme.unwrap_or_else(|| CompressionScheme::choose_from_data(chunk))` (closure)
#[verifier::external_body]
fn vx_scheme_or_choose(compression_scheme: Option<CompressionScheme>, chunk: &[u8]) -> (r: CompressionScheme)
    ensures r == (match compression_scheme { Some(s) => s, None => spec_choose(chunk@) })
{ unimplemented!() }
// `chunk.into()`: From<&[u8]> for Vec<u8> copies the slice (with the real Cow<[u8]> it borrows it)
pub assume_specification<'a, T: Clone> [<Vec<T> as From<&'a [T]>>::from] (s: &[T]) -> (r: Vec<T>)
    ensures r@ == s@;

// copy_three_byte_num (cas_chunk_format.rs:98-102; to_le_bytes + copy_from_slice, K-HDR's subject): its `debug_assert!(num < 2^24)` is the
// precondition, so every call site carries the obligation
#[verifier::external_body]
fn copy_three_byte_num(buf: &mut [u8; 3], num: u32)
    requires num < 16_777_216
    ensures le3(final(buf)@, 0) == num
{ unimplemented!() }

impl CASChunkHeader {
    spec fn clen(&self) -> nat { le3(self.compressed_length@, 0) }
    spec fn ulen(&self) -> nat { le3(self.uncompressed_length@, 0) }
    // the 8 bytes `write_chunk_header` emits
    spec fn bytes(&self) -> Seq<u8> { seq![self.version] + self.compressed_length@ + seq![self.compression_scheme] + self.uncompressed_length@ }

//@ extract cas_object/src/cas_chunk_format.rs in `impl CASChunkHeader` fn set_compression_scheme
//@ contract
        ensures final(self).compression_scheme == scheme_byte(compression_scheme),
            final(self).version == old(self).version, final(self).compressed_length == old(self).compressed_length, final(self).uncompressed_length == old(self).uncompressed_length,
//@ end
//@ extract cas_object/src/cas_chunk_format.rs in `impl CASChunkHeader` fn set_compressed_length
//@ contract
        requires length < 16_777_216,
        ensures final(self).clen() == length,
            final(self).version == old(self).version, final(self).compression_scheme == old(self).compression_scheme, final(self).uncompressed_length == old(self).uncompressed_length,
//@ end
//@ extract cas_object/src/cas_chunk_format.rs in `impl CASChunkHeader` fn set_uncompressed_length
//@ contract
        requires length < 16_777_216,
        ensures final(self).ulen() == length,
            final(self).version == old(self).version, final(self).compression_scheme == old(self).compression_scheme, final(self).compressed_length == old(self).compressed_length,
//@ end
//@ extract cas_object/src/cas_chunk_format.rs in `impl CASChunkHeader` fn new
//@ ret r
//@ contract
        requires compressed_length < 16_777_216, uncompressed_length < 16_777_216,
        ensures r.version == CURRENT_VERSION, r.compression_scheme == scheme_byte(compression_scheme), r.clen() == compressed_length, r.ulen() == uncompressed_length,
//@ end
}

// sequence bookkeeping for the postcondition of serialize_chunk: w0 + header bytes + payload
proof fn lemma_appended(w0: Seq<u8>, h: CASChunkHeader, w1: Seq<u8>, wf: Seq<u8>)
    requires w1 == w0 + h.bytes(), w0.len() + 8 <= wf.len(), wf.subrange(0, w1.len() as int) == w1,
    ensures ({
        let out = wf.subrange(w0.len() as int, wf.len() as int);
        let pl = wf.subrange(w1.len() as int, wf.len() as int);
        &&& wf == w0 + out && out.len() == 8 + pl.len() && out.subrange(8, out.len() as int) == pl
        &&& out[0] == h.version && le3(out, 1) == h.clen() && out[4] == h.compression_scheme && le3(out, 5) == h.ulen()
    }),
{
    let hb = h.bytes();
    assert(hb.len() == 8);
    assert(w1.len() == w0.len() + 8);
    let out = wf.subrange(w0.len() as int, wf.len() as int);
    let pl = wf.subrange(w1.len() as int, wf.len() as int);
    assert(wf =~= w0 + out) by { assert(wf.subrange(0, w1.len() as int).subrange(0, w0.len() as int) =~= w0); }
    assert(out.subrange(8, out.len() as int) =~= pl);
    assert forall|i: int| 0 <= i < 8 implies out[i] == hb[i] by { assert(wf.subrange(0, w1.len() as int)[w0.len() + i] == w1[w0.len() + i]); }
    assert(hb[0] == h.version && hb[4] == h.compression_scheme);
    assert(hb[1] == h.compressed_length@[0] && hb[2] == h.compressed_length@[1] && hb[3] == h.compressed_length@[2]);
    assert(hb[5] == h.uncompressed_length@[0] && hb[6] == h.uncompressed_length@[1] && hb[7] == h.uncompressed_length@[2]);
}

//@ extract cas_object/src/cas_chunk_format.rs fn write_chunk_header
//@ ret r
//@ contract
    ensures r is Ok ==> final(w).written() == old(w).written() + chunk_header.bytes(),
//@ end

//@ extract cas_object/src/cas_chunk_format.rs fn serialize_chunk
//@ ret r
//@ subst `compression_scheme.unwrap_or_else(|| CompressionScheme::choose_from_data(chunk))` => `vx_scheme_or_choose(compression_scheme, chunk)` :: R7 outline (closure): the requested scheme, or the automatic choice (any scheme)
//@ contract
    requires
        // the header stores both lengths in 3 bytes (`debug_assert!(num < 16_777_216)` in copy_three_byte_num); payload <= chunk
        chunk@.len() < 16_777_216,
    ensures
        r matches Ok(n) ==> ({
            let out = final(w).written().subrange(old(w).written().len() as int, final(w).written().len() as int);
            let p = out.subrange(8, out.len() as int);
            // what was appended: 8-byte header + payload, and the returned length is exactly that
            &&& /*@C07*/ final(w).written() == old(w).written() + out && out.len() >= 8 && n == out.len() && n == 8 + p.len()
            // header: version 0, compressed length = |payload|, uncompressed length = |chunk|
            &&& /*@C07*/ out[0] == CURRENT_VERSION && le3(out, 1) == p.len() && le3(out, 5) == chunk@.len()
            // the payload never exceeds the chunk (incompressible fallback)
            &&& /*@C07*/ p.len() <= chunk@.len()
            // round trip: the header's scheme is a valid scheme and decoding the payload under THAT scheme gives back the chunk
            &&& /*@C07*/ scheme_of_byte(out[4]) matches Some(hs) && decode_spec(hs, p) == chunk@
            // ... and the payload is frame-exact under that scheme (nothing behind what a reader-based decoder consumes): the condition under which
            // the sync decoder stands behind the payload afterwards, like the async one (U-CHUNKDEC: frame_exact_at / lemma_sync_async_agree)
            &&& /*@C07*/ scheme_of_byte(out[4]) matches Some(hs) && frame_exact(hs, p)
        }),
//@ after `write_chunk_header(w, &header)?;`
    let ghost w1 = w.written();
//@ before `Ok(size_of::<CASChunkHeader>()`
    proof {
        assert(w.written().subrange(0, w1.len() as int) =~= w1);
        lemma_appended(old(w).written(), header, w1, w.written());
        // whatever buffer x the last write_all appended, the payload part of the output is x
        assert forall|x: Seq<u8>| #[trigger] (w1 + x) == w.written() implies w.written().subrange(w1.len() as int, w.written().len() as int) == x by {
            assert((w1 + x).subrange(w1.len() as int, (w1 + x).len() as int) =~= x);
        }
    }
//@ end

} // verus!
fn main() {}
