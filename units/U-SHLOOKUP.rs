//@ unit U-SHLOOKUP
//@ props C09
//@ verus-args --rlimit 100
//@ gsubst `Read + Seek` => `VxReadSeek` :: R11 reader stub trait with ghost byte view, position and read log (same as U-ISEARCH)
//@ gsubst `read_u32::<R>` => `VxReadU32` :: R11 the fn item `read_u32::<R>` passed as value reader becomes a unit struct implementing the spec'd trait VxReadValueFn<R, u32>
#![allow(non_snake_case, unused)]
use vstd::prelude::*;
use vstd::set_lib::set_int_range;
use std::cmp::Ordering;
verus! {
global size_of usize == 8;

//@ include prelude/isearch_specs.rs

// ---- dependencies (assumed) ----------------------------------------------------------------------------------------
// MerkleHash (R11): 256-bit value type with structural equality
#[derive(Clone, Copy)]
pub struct MerkleHash(pub [u64; 4]);
impl vstd::std_specs::cmp::PartialEqSpecImpl for MerkleHash {
    open spec fn obeys_eq_spec() -> bool { true }
    open spec fn eq_spec(&self, other: &Self) -> bool { *self == *other }
}
impl MerkleHash {
    // R11 stub of the derived Ord::cmp of the [u64;4] newtype (only so that code comparing hashes by order still type-checks here):
    // Equal exactly for equal hashes, otherwise an arbitrary strict order
    #[verifier::external_body]
    fn cmp(&self, other: &MerkleHash) -> (r: Ordering) ensures (r == Ordering::Equal) == (*self == *other) { unimplemented!() }
}
impl PartialEq for MerkleHash {
    #[verifier::external_body]
    fn eq(&self, other: &Self) -> (r: bool) { unimplemented!() }
}
pub type HMACKey = MerkleHash;

// mdb_shard::utils::truncate_hash: `hash.deref()[0]`
pub open spec fn spec_truncate(h: MerkleHash) -> u64 { h.0[0] }
#[verifier::external_body]
pub fn truncate_hash(hash: &MerkleHash) -> (r: u64) ensures r == spec_truncate(*hash) { unimplemented!() }

// mdb_shard::error::{MDBShardError, Result}; only the variants these functions can produce are modelled separately
pub enum MDBShardError {
    IOError(VxIoError),
    TruncatedHashCollisionError(u64),
    InternalError,
    Other,
}
impl vstd::std_specs::convert::FromSpecImpl<VxIoError> for MDBShardError {
    open spec fn obeys_from_spec() -> bool { true }
    open spec fn from_spec(e: VxIoError) -> MDBShardError { MDBShardError::IOError(e) }
}
impl From<VxIoError> for MDBShardError {
    fn from(e: VxIoError) -> (r: MDBShardError) { MDBShardError::IOError(e) }
}
pub type Result<T> = std::result::Result<T, MDBShardError>;

// utils::serialization_utils::read_u32 used as the value reader of the lookup tables
pub uninterp spec fn spec_u32_at(data: Seq<u8>, off: int) -> u32;
pub struct VxReadU32;
impl<R: VxReadSeek> VxReadValueFn<R, u32> for VxReadU32 {
    open spec fn decode(&self, data: Seq<u8>, off: int) -> u32 { spec_u32_at(data, off) }
    #[verifier::external_body]
    fn call(&self, reader: &mut R) -> (r: std::result::Result<u32, VxIoError>) { unimplemented!() }
}

// the callee: interpolation_search::search_on_sorted_u64s with the contract verified in U-ISEARCH (same predicates, same
// clause list; `result` is taken as the array the callers pass, its view is the slice view)
#[verifier::external_body]
pub fn search_on_sorted_u64s<Value: Copy, R: VxReadSeek, ReadValueFunction: VxReadValueFn<R, Value>, const N: usize>(
    reader: &mut R,
    read_start: u64,
    num_entries: u64,
    key: u64,
    read_value_function: ReadValueFunction,
    result: &mut [Value; N],
) -> (ret: std::result::Result<usize, VxIoError>)
    requires
        search_pre::<Value>(old(reader).data(), read_start, num_entries),
    ensures
        final(reader).data() == old(reader).data(),
        final(result)@.len() == old(result)@.len(),
        ret is Err ==> final(reader).failed(),
        old(reader).failed() ==> final(reader).failed(),
        search_reads_ok::<Value>(old(reader).log(), final(reader).log(), read_start, num_entries),
        ret matches Ok(cnt) ==> search_count_ok::<Value>(old(reader).data(), read_start, num_entries, key, old(result)@.len() as int, cnt as int),
        ret matches Ok(cnt) ==> stored_ok::<R, Value, ReadValueFunction>(read_value_function,
            old(reader).data(), read_start as int, size_of::<Value>() + 8, num_entries as int, key, cnt as int, final(result)@),
        ret matches Ok(cnt) ==> search_tail_ok::<Value>(old(result)@, final(result)@, cnt as int),
{ unimplemented!() }

//@ extract mdb_shard/src/shard_format.rs struct MDBShardFileHeader
//@ end
//@ extract mdb_shard/src/shard_format.rs struct MDBShardFileFooter
//@ end
//@ extract mdb_shard/src/shard_format.rs struct MDBShardInfo
//@ end
//@ extract mdb_shard/src/file_structs.rs struct FileDataSequenceHeader
//@ end
//@ extract mdb_shard/src/file_structs.rs struct FileDataSequenceEntry
//@ end
//@ extract mdb_shard/src/file_structs.rs struct FileVerificationEntry
//@ end
//@ extract mdb_shard/src/file_structs.rs struct FileMetadataExt
//@ end
//@ extract mdb_shard/src/file_structs.rs struct MDBFileInfo
//@ end

// the record `read_file_info` decodes for entry index `idx` (a function of the shard bytes and the footer only)
uninterp spec fn spec_file_info(sh: MDBShardInfo, data: Seq<u8>, idx: u32) -> MDBFileInfo;
// entry index `idx` denotes a decodable record (read_file_info reports InternalError for a bookend / invalid index)
uninterp spec fn spec_file_info_valid(sh: MDBShardInfo, data: Seq<u8>, idx: u32) -> bool;

// the file lookup table of a shard, as U-ISEARCH sees it
spec fn fl_rs(sh: MDBShardInfo) -> int { sh.metadata.file_lookup_offset as int }
spec fn fl_n(sh: MDBShardInfo) -> int { sh.metadata.file_lookup_num_entry as int }
spec fn fl_psz() -> int { size_of::<u32>() + 8 }
spec fn fl_key(sh: MDBShardInfo, data: Seq<u8>, i: int) -> u64 { tkey(data, fl_rs(sh), fl_psz(), i) }
spec fn fl_idx<R: VxReadSeek>(sh: MDBShardInfo, data: Seq<u8>, i: int) -> u32 {
    tval::<R, u32, VxReadU32>(VxReadU32, data, fl_rs(sh), fl_psz(), i)
}
// number of lookup entries stored under the truncated hash
spec fn fl_count(sh: MDBShardInfo, data: Seq<u8>, h: MerkleHash) -> nat {
    matches(data, fl_rs(sh), fl_psz(), fl_n(sh), spec_truncate(h)).len()
}

// the cas (xorb) lookup table
spec fn cl_rs(sh: MDBShardInfo) -> int { sh.metadata.cas_lookup_offset as int }
spec fn cl_n(sh: MDBShardInfo) -> int { sh.metadata.cas_lookup_num_entry as int }
spec fn cl_count(sh: MDBShardInfo, data: Seq<u8>, h: MerkleHash) -> nat {
    matches(data, cl_rs(sh), fl_psz(), cl_n(sh), spec_truncate(h)).len()
}

// every lookup entry under the truncated hash has its entry index among the first cnt candidates ...
spec fn all_listed<R: VxReadSeek>(sh: MDBShardInfo, data: Seq<u8>, h: MerkleHash, cnt: int, dest: Seq<u32>) -> bool {
    forall|i: int| 0 <= i < fl_n(sh) && #[trigger] fl_key(sh, data, i) == spec_truncate(h)
        ==> exists|k: int| 0 <= k < cnt && #[trigger] dest[k] == fl_idx::<R>(sh, data, i)
}
// ... and every candidate is the entry index of a lookup entry under the truncated hash
spec fn cand_ok<R: VxReadSeek>(sh: MDBShardInfo, data: Seq<u8>, h: MerkleHash, v: u32) -> bool {
    exists|i: int| 0 <= i < fl_n(sh) && #[trigger] fl_key(sh, data, i) == spec_truncate(h) && v == fl_idx::<R>(sh, data, i)
}
spec fn all_from_table<R: VxReadSeek>(sh: MDBShardInfo, data: Seq<u8>, h: MerkleHash, cnt: int, dest: Seq<u32>) -> bool {
    forall|k: int| 0 <= k < cnt ==> cand_ok::<R>(sh, data, h, #[trigger] dest[k])
}
proof fn lemma_candidates<R: VxReadSeek>(sh: MDBShardInfo, data: Seq<u8>, h: MerkleHash, cnt: int, dest: Seq<u32>)
    requires
        /*@C09*/ cnt == fl_count(sh, data, h),
        /*@C09*/ stored_ok::<R, u32, VxReadU32>(VxReadU32, data, fl_rs(sh), fl_psz(), fl_n(sh), spec_truncate(h), cnt, dest),
    ensures all_listed::<R>(sh, data, h, cnt, dest), all_from_table::<R>(sh, data, h, cnt, dest),
{
    let wit = choose|wit: Seq<int>| #[trigger] written_ok::<R, u32, VxReadU32>(VxReadU32, data, fl_rs(sh), fl_psz(), fl_n(sh), spec_truncate(h), wit, cnt, dest);
    assert forall|i: int| 0 <= i < fl_n(sh) && #[trigger] fl_key(sh, data, i) == spec_truncate(h)
        implies exists|k: int| 0 <= k < cnt && #[trigger] dest[k] == fl_idx::<R>(sh, data, i) by {
        assert(wit.contains(i));
        let k = choose|k: int| 0 <= k < wit.len() && wit[k] == i;
        assert(dest[k] == fl_idx::<R>(sh, data, wit[k]));
    }
    assert forall|k: int| 0 <= k < cnt implies cand_ok::<R>(sh, data, h, #[trigger] dest[k]) by {
        let i = wit[k];
        assert(fl_key(sh, data, i) == spec_truncate(h) && dest[k] == fl_idx::<R>(sh, data, i));
    }
}

impl MDBShardInfo {
    // dependency of get_file_reconstruction_info (seek + MDBFileInfo::deserialize): deterministic in the bytes
    #[verifier::external_body]
    fn read_file_info<R: VxReadSeek>(&self, reader: &mut R, file_entry_index: u32) -> (r: Result<MDBFileInfo>)
        ensures
            /*@AUX*/ final(reader).data() == old(reader).data(),
            /*@AUX*/ old(reader).failed() ==> final(reader).failed(),
            r matches Ok(info) ==> info == spec_file_info(*self, old(reader).data(), file_entry_index),
            r is Err ==> final(reader).failed() || !spec_file_info_valid(*self, old(reader).data(), file_entry_index),
    { unimplemented!() }

//@ extract mdb_shard/src/shard_format.rs in `impl MDBShardInfo` fn get_file_info_index_by_hash
//@ ret ret
//@ contract
        requires
            search_pre::<u32>(old(reader).data(), self.metadata.file_lookup_offset, self.metadata.file_lookup_num_entry),
        ensures
            /*@AUX*/ final(reader).data() == old(reader).data(),
            // Ok(cnt): fewer than 8 candidates, cnt is the exact number of lookup entries under the truncated hash, and
            // dest_indices[..cnt] holds the entry indices of all of them (distinct entries)
            /*@C09*/ ret matches Ok(cnt) ==> cnt < 8 && cnt == fl_count(*self, old(reader).data(), *file_hash)
                && stored_ok::<R, u32, VxReadU32>(VxReadU32, old(reader).data(), fl_rs(*self), fl_psz(), fl_n(*self),
                                                   spec_truncate(*file_hash), cnt as int, final(dest_indices)@),
            // 8 or more candidates: an error, never a (truncated) candidate list
            /*@C09*/ fl_count(*self, old(reader).data(), *file_hash) >= 8 ==> ret is Err,
            // and an error only then or after a failed reader operation
            /*@C09*/ ret is Err ==> final(reader).failed() || fl_count(*self, old(reader).data(), *file_hash) >= 8,
            /*@AUX*/ old(reader).failed() ==> final(reader).failed(),
//@ end

//@ extract mdb_shard/src/shard_format.rs in `impl MDBShardInfo` fn get_cas_info_index_by_hash
//@ ret ret
//@ contract
        requires
            search_pre::<u32>(old(reader).data(), self.metadata.cas_lookup_offset, self.metadata.cas_lookup_num_entry),
        ensures
            /*@AUX*/ final(reader).data() == old(reader).data(),
            // Ok(cnt): fewer than 8 candidates, cnt is the exact number of cas lookup entries under the truncated hash, and
            // dest_indices[..cnt] holds the entry indices of all of them (distinct entries)
            /*@C09*/ ret matches Ok(cnt) ==> cnt < 8 && cnt == cl_count(*self, old(reader).data(), *cas_hash)
                && stored_ok::<R, u32, VxReadU32>(VxReadU32, old(reader).data(), cl_rs(*self), fl_psz(), cl_n(*self),
                                                   spec_truncate(*cas_hash), cnt as int, final(dest_indices)@),
            /*@C09*/ cl_count(*self, old(reader).data(), *cas_hash) >= 8 ==> ret is Err,
            /*@C09*/ ret is Err ==> final(reader).failed() || cl_count(*self, old(reader).data(), *cas_hash) >= 8,
            /*@AUX*/ old(reader).failed() ==> final(reader).failed(),
//@ end

//@ extract mdb_shard/src/shard_format.rs in `impl MDBShardInfo` fn get_file_reconstruction_info
//@ ret ret
//@ rules R4w
//@ contract
        requires
            search_pre::<u32>(old(reader).data(), self.metadata.file_lookup_offset, self.metadata.file_lookup_num_entry),
        ensures
            /*@AUX*/ final(reader).data() == old(reader).data(),
            // Some(info): the full hash matches and info is the record of one of the lookup entries under the truncated hash
            /*@C09*/ ret matches Ok(Some(info)) ==> info.metadata.file_hash == *file_hash
                && exists|i: int| 0 <= i < fl_n(*self) && #[trigger] fl_key(*self, old(reader).data(), i) == spec_truncate(*file_hash)
                    && info == spec_file_info(*self, old(reader).data(), fl_idx::<R>(*self, old(reader).data(), i)),
            // None: every lookup entry under the truncated hash was examined and none of the records has the full hash
            /*@C09*/ ret matches Ok(None) ==> forall|i: int| 0 <= i < fl_n(*self) && #[trigger] fl_key(*self, old(reader).data(), i) == spec_truncate(*file_hash)
                    ==> spec_file_info(*self, old(reader).data(), fl_idx::<R>(*self, old(reader).data(), i)).metadata.file_hash != *file_hash,
            // 8 or more entries share the truncated hash: an error, never a record and never not-found
            /*@C09*/ fl_count(*self, old(reader).data(), *file_hash) >= 8 ==> ret is Err,
            // an error only then, or after a failed reader operation, or when a candidate's entry index has no decodable record
            /*@C09*/ ret is Err ==> final(reader).failed() || fl_count(*self, old(reader).data(), *file_hash) >= 8
                || exists|i: int| 0 <= i < fl_n(*self) && #[trigger] fl_key(*self, old(reader).data(), i) == spec_truncate(*file_hash)
                    && !spec_file_info_valid(*self, old(reader).data(), fl_idx::<R>(*self, old(reader).data(), i)),
//@ after `let mut dest_indices = [0u32; 8];`
        let ghost d0 = reader.data();
//@ after `let num_indices = self.get_file_info_index_by_hash(reader, file_hash, &mut dest_indices)?;`
        proof { lemma_candidates::<R>(*self, d0, *file_hash, num_indices as int, dest_indices@); }
//@ loop 1
            invariant
                vx_tk1 <= vx_lim1,
                /*@C09*/ vx_lim1 == num_indices,   // every candidate returned by the lookup is examined
                reader.data() == d0, d0 == old(reader).data(),
                /*@C09*/ num_indices < 8, num_indices == fl_count(*self, d0, *file_hash),
                dest_indices@.len() == 8,
                /*@C09*/ all_listed::<R>(*self, d0, *file_hash, num_indices as int, dest_indices@),
                /*@C09*/ all_from_table::<R>(*self, d0, *file_hash, num_indices as int, dest_indices@),
                /*@C09*/ forall|k: int| 0 <= k < vx_tk1 ==> spec_file_info(*self, d0, #[trigger] dest_indices@[k]).metadata.file_hash != *file_hash,
            decreases vx_lim1 - vx_tk1,
//@ end
}

} // verus!
fn main() {}
