//@ unit U-METRICS
//@ props C03 C14 C01
//@ verus-args --rlimit 100
//@ config MAX_XORB_BYTES MAX_XORB_CHUNKS INGESTION_BLOCK_SIZE
#![feature(allocator_api)]
#![allow(non_snake_case, unused)]
use vstd::prelude::*;
use std::collections::HashMap;
use std::sync::Arc;
verus! {
//@ include prelude/dedup_types.rs
//@ include prelude/dedup_model.rs
//@ include prelude/dedup_segments.rs

// ===== SingleFileCleaner (data/src/file_cleaner.rs): the feeding loop and the pointer file ==========================================
// The chunker and the deduper are stubs carrying the contracts PROVED for the real code in U-CHUNK (next_block, finish) and U-DEDUP
// (process_chunks, finalize).  What is verified here is that add_data feeds exactly `data`, in order, whatever the ingestion block
// size, and that the pointer file carries file_hash_spec(chunk list, salt) and size = number of bytes fed.

pub uninterp spec fn spec_INGESTION_BLOCK_SIZE() -> usize;
#[verifier::external_body] pub fn INGESTION_BLOCK_SIZE() -> (r: usize) ensures r == spec_INGESTION_BLOCK_SIZE() { unimplemented!() }

pub assume_specification<T, A: std::alloc::Allocator + Clone> [<Arc<[T], A> as From<Vec<T, A>>>::from] (v: Vec<T, A>) -> (r: Arc<[T], A>)
    ensures r@ == v@;

spec fn concat_chunks(s: Seq<Chunk>) -> Seq<u8> decreases s.len() {
    if s.len() == 0 { Seq::<u8>::empty() } else { concat_chunks(s.drop_last()) + s.last().data@ }
}
proof fn lemma_concat_append(a: Seq<Chunk>, b: Seq<Chunk>)
    ensures concat_chunks(a + b) == concat_chunks(a) + concat_chunks(b)
    decreases b.len()
{
    if b.len() == 0 { assert(a + b =~= a); assert(concat_chunks(a) + Seq::<u8>::empty() =~= concat_chunks(a)); }
    else {
        lemma_concat_append(a, b.drop_last());
        assert((a + b).drop_last() =~= a + b.drop_last());
        assert((a + b).last() == b.last());
        assert((concat_chunks(a) + concat_chunks(b.drop_last())) + b.last().data@ =~= concat_chunks(a) + (concat_chunks(b.drop_last()) + b.last().data@));
    }
}
spec fn data_len_sum(s: Seq<Chunk>) -> nat decreases s.len() {
    if s.len() == 0 { 0 } else { data_len_sum(s.drop_last()) + s.last().data@.len() }
}
proof fn lemma_concat_len(s: Seq<Chunk>)
    ensures concat_chunks(s).len() == data_len_sum(s)
    decreases s.len()
{ if s.len() > 0 { lemma_concat_len(s.drop_last()); } }
proof fn lemma_data_len_sum_is_sum_len(s: Seq<Chunk>)
    requires chunks_ok(s),
    ensures data_len_sum(s) == sum_len(hashes(s))
    decreases s.len()
{
    if s.len() > 0 {
        assert(chunks_ok(s.drop_last())) by { assert forall|i: int| 0 <= i < s.drop_last().len() implies chunk_ok(#[trigger] s.drop_last()[i]) by { assert(s.drop_last()[i] == s[i]); } }
        lemma_data_len_sum_is_sum_len(s.drop_last());
        assert(hashes(s).drop_last() =~= hashes(s.drop_last()));
        assert(chunk_ok(s.last()));
    } else { assert(hashes(s) =~= Seq::<MerkleHash>::empty()); }
}

// ---- R11 stub: deduplication::Chunker, contract = what U-CHUNK proves for next_block / finish (the parts used here) ----------------
#[verifier::external_body] pub struct Chunker { _p: u8 }
pub uninterp spec fn chunker_buf(c: &Chunker) -> Seq<u8>;      // bytes fed but not yet emitted as a chunk
pub uninterp spec fn chunker_max(c: &Chunker) -> int;          // maximum chunk size of this chunker
impl Chunker {
    #[verifier::external_body]
    fn next_block(&mut self, data: &[u8], is_final: bool) -> (ret: Vec<Chunk>)
        requires data@.len() <= isize::MAX,
        ensures
            chunker_buf(old(self)) + data@ == concat_chunks(ret@) + chunker_buf(final(self)),
            chunker_max(final(self)) == chunker_max(old(self)),
            forall|i: int| 0 <= i < ret@.len() ==> 0 < (#[trigger] ret@[i]).data@.len() <= chunker_max(old(self)),
            // content addressing, assumed per produced chunk: its hash determines its length (hash = H(data))
            chunks_ok(ret@),
    { unimplemented!() }
    #[verifier::external_body]
    fn finish(self) -> (ret: Option<Chunk>)
        ensures match ret {
            Some(c) => c.data@ == chunker_buf(&self) && c.data@.len() > 0 && c.data@.len() <= chunker_max(&self) && chunk_ok(c),
            None => chunker_buf(&self).len() == 0,
        },
    { unimplemented!() }
}

// ---- R11 stub: FileDeduper<UploadSessionDataManager>, contract = what U-DEDUP proves for process_chunks / finalize --------------------
#[verifier::external_body] pub struct FileDeduper { _p: u8 }
pub uninterp spec fn dd_wf(d: &FileDeduper) -> bool;
pub uninterp spec fn dd_fed(d: &FileDeduper) -> Seq<Chunk>;                 // every chunk processed so far, in order
pub uninterp spec fn dd_metrics(d: &FileDeduper) -> DeduplicationMetrics;
pub uninterp spec fn file_hash_spec(hl: Seq<(MerkleHash, usize)>, salt: [u8; 32]) -> MerkleHash;
pub struct DataError { pub x: u8 }
// data::errors::Result
pub type Result<T> = std::result::Result<T, DataError>;
impl FileDeduper {
    #[verifier::external_body]
    fn process_chunks(&mut self, chunks: &[Chunk]) -> (r: Result<DeduplicationMetrics>)
        requires dd_wf(old(self)), chunks_ok(chunks@),
            forall|i: int| 0 <= i < chunks@.len() ==> (#[trigger] chunks@[i]).data@.len() <= spec_MAX_XORB_BYTES(),
            data_len_sum(dd_fed(old(self))) + data_len_sum(chunks@) <= usize::MAX,
        ensures match r {
            Ok(m) => dd_wf(final(self)) && dd_fed(final(self)) == dd_fed(old(self)) + chunks@
                && dd_metrics(final(self)).total_bytes == data_len_sum(dd_fed(final(self)))
                && m.total_bytes == data_len_sum(chunks@),
            Err(_) => true,
        },
    { unimplemented!() }
    #[verifier::external_body]
    fn finalize(self, file_hash_salt: [u8; 32], metadata_ext: Option<FileMetadataExt>) -> (r: (MerkleHash, DataAggregator, DeduplicationMetrics, Vec<MerkleHash>))
        requires dd_wf(&self), dd_metrics(&self).total_bytes == data_len_sum(dd_fed(&self)),
        ensures
            r.0 == file_hash_spec(hl_view(dd_fed(&self)), file_hash_salt),
            r.2 == dd_metrics(&self),
            r.1.pending_file_info@.len() == 1,
            seg_bytes_sum(r.1.pending_file_info@[0].0.segments@) == r.2.total_bytes,
    { unimplemented!() }
}
spec fn seg_bytes_sum(fi: Seq<FileDataSequenceEntry>) -> nat decreases fi.len() {
    if fi.len() == 0 { 0 } else { seg_bytes_sum(fi.drop_last()) + fi.last().unpacked_segment_bytes as nat }
}

//@ extract mdb_shard/src/file_structs.rs struct FileDataSequenceHeader
//@ end
//@ extract mdb_shard/src/file_structs.rs struct FileVerificationEntry
//@ end
//@ extract mdb_shard/src/file_structs.rs struct FileMetadataExt
//@ end
//@ extract mdb_shard/src/file_structs.rs struct MDBFileInfo
//@ end
//@ extract deduplication/src/data_aggregator.rs struct DataAggregator
//@ end
impl FileMetadataExt {
    #[verifier::external_body] fn new(sha256: MerkleHash) -> (r: Self) ensures r.sha256 == sha256 { unimplemented!() }
}
impl MDBFileInfo {
    // spec form of MDBFileInfo::file_size (sum of the segments' byte counts); only used inside the kept debug assertion of finish
    spec fn file_size(&self) -> usize { seg_bytes_sum(self.segments@) as usize }
}

// ---- the rest of the cleaner's environment: opaque stubs ---------------------------------------------------------------------------
#[verifier::external_body] pub struct ShaGenerator { _p: u8 }
pub struct JoinError { pub x: u8 }
impl ShaGenerator {
    #[verifier::external_body] fn update(&mut self, new_chunks: Arc<[Chunk]>) -> Result<()> { unimplemented!() }
    #[verifier::external_body] fn finalize(self) -> Result<MerkleHash> { unimplemented!() }
}
#[verifier::external_body] pub struct ProgressUpdater { _p: u8 }
impl ProgressUpdater { #[verifier::external_body] fn update(&self, n: u64) { unimplemented!() } }
pub struct ShardConfig { pub repo_salt: [u8; 32] }
pub struct TranslatorConfig { pub shard_config: ShardConfig }
pub struct FileUploadSession { pub upload_progress_updater: Option<Arc<ProgressUpdater>>, pub config: TranslatorConfig }
impl FileUploadSession {
    #[verifier::external_body]
    fn register_single_file_clean_completion(&self, file_name: String, file_data: DataAggregator, dedup_metrics: &DeduplicationMetrics, xorbs_dependencies: Vec<MerkleHash>) -> Result<()>
    { unimplemented!() }
}
#[verifier::external_body] pub struct VxTime { _p: u8 }
pub uninterp spec fn hex_spec(h: MerkleHash) -> Seq<char>;
impl MerkleHash {
    #[verifier::external_body] fn hex(&self) -> (r: String) ensures r@ == hex_spec(*self) { unimplemented!() }
}
pub struct PointerFile { pub hash: String, pub filesize_: u64 }
impl PointerFile {
    // R11 stub of PointerFile::init_from_info (string copies): the record carries the hash text and the size it is given
    #[verifier::external_body]
    fn init_from_info(path: &String, hash: &String, filesize: u64) -> (r: Self) ensures r.hash@ == hash@, r.filesize_ == filesize { unimplemented!() }
    spec fn filesize(&self) -> u64 { self.filesize_ }
}
#[verifier::external_body] fn vx_clone_string(s: &String) -> (r: String) ensures r@ == s@ { s.clone() }

//@ extract data/src/file_cleaner.rs struct SingleFileCleaner
//@ subst `FileDeduper<UploadSessionDataManager>` => `FileDeduper` :: R11 stub type (the deduper instantiated with the session's data manager)
//@ subst `DateTime<Utc>` => `VxTime` :: R11 stub type
//@ end

impl SingleFileCleaner {
    // all bytes fed so far = the chunks handed to the deduper, in order, followed by what the chunker still buffers
    spec fn stream(&self) -> Seq<u8> { concat_chunks(dd_fed(&self.dedup_manager)) + chunker_buf(&self.chunker) }
    spec fn wf(&self) -> bool {
        &&& dd_wf(&self.dedup_manager)
        &&& dd_metrics(&self.dedup_manager).total_bytes == data_len_sum(dd_fed(&self.dedup_manager))
        &&& chunks_ok(dd_fed(&self.dedup_manager))
        // configuration: the chunker's maximum chunk fits a xorb; a positive ingestion block size
        &&& chunker_max(&self.chunker) <= spec_MAX_XORB_BYTES()
        &&& spec_INGESTION_BLOCK_SIZE() >= 1
    }

//@ extract data/src/file_cleaner.rs in `impl SingleFileCleaner` fn add_data_impl
//@ ret r
//@ contract
        requires old(self).wf(), data@.len() <= isize::MAX, old(self).stream().len() + data@.len() <= usize::MAX,
        ensures match r {
            Ok(()) => final(self).wf() && /*@C01,C03,C14*/ final(self).stream() == old(self).stream() + data@
                      && chunker_max(&final(self).chunker) == chunker_max(&old(self).chunker),
            Err(_) => true,
        },
//@ body-start
        let ghost fed0 = dd_fed(&self.dedup_manager); let ghost buf0 = chunker_buf(&self.chunker);
//@ before `if chunks.is_empty()`
        proof {
            lemma_concat_len(fed0); lemma_concat_len(chunks@); lemma_concat_append(fed0, chunks@);
            assert((concat_chunks(fed0) + buf0) + data@ =~= concat_chunks(fed0) + (buf0 + data@));
            assert(concat_chunks(fed0) + (concat_chunks(chunks@) + chunker_buf(&self.chunker)) =~= (concat_chunks(fed0) + concat_chunks(chunks@)) + chunker_buf(&self.chunker));
            if chunks@.len() == 0 { assert(concat_chunks(chunks@) =~= Seq::<u8>::empty()); assert(fed0 + chunks@ =~= fed0); }
            assert(chunks_ok(fed0 + chunks@));
        }
//@ end

//@ extract data/src/file_cleaner.rs in `impl SingleFileCleaner` fn add_data
//@ ret r
//@ contract
        requires old(self).wf(), data@.len() <= isize::MAX, old(self).stream().len() + data@.len() <= usize::MAX,
        ensures match r {
            // C03: the state reached does not depend on the ingestion block size - exactly `data` was fed, in order
            Ok(()) => final(self).wf() && /*@C01,C03,C14*/ final(self).stream() == old(self).stream() + data@,
            Err(_) => true,
        },
//@ body-start
        let ghost s0 = self.stream(); let ghost mx = chunker_max(&self.chunker);
//@ loop 1
                invariant
                    pos <= data@.len(), data@.len() <= isize::MAX, self.wf(), chunker_max(&self.chunker) == mx,
                    spec_INGESTION_BLOCK_SIZE() < data@.len(),
                    s0 == old(self).stream(), s0.len() + data@.len() <= usize::MAX,
                    self.stream() == s0 + data@.subrange(0, pos as int),
                decreases data@.len() - pos,
//@ before `let mut pos = 0;`
            proof { assert(s0 + data@.subrange(0, 0) =~= s0); }
//@ after `self.add_data_impl(&data[pos..next_pos])?;`
                proof {
                    assert((s0 + data@.subrange(0, pos as int)) + data@.subrange(pos as int, next_pos as int) =~= s0 + data@.subrange(0, next_pos as int));
                }
//@ before `Ok(())` #1
        proof { assert(data@.subrange(0, data@.len() as int) =~= data@); }
//@ end

//@ extract data/src/file_cleaner.rs in `impl SingleFileCleaner` fn finish
//@ ret r
//@ rules R14
//@ subst `Arc::new([chunk.clone()])` => `vx_arc_one(chunk.clone())` :: R11: Arc<[Chunk; 1]> -> Arc<[Chunk]> unsizing coercion outlined (feeds only the SHA generator, not covered)
//@ subst `vx_self.file_name.clone()` => `vx_clone_string(&vx_self.file_name)` :: String::clone outlined (no vstd spec)
//@ contract
        requires self.wf(), self.stream().len() <= usize::MAX,
        ensures match r {
            Ok((pointer_file, metrics)) =>
                // C14 / C03 size clause: the pointer's size and the total-bytes metric equal the number of bytes fed
                /*@C14,C03*/ pointer_file.filesize_ == self.stream().len() && metrics.total_bytes == self.stream().len()
                // C03: the pointer's hash text is the hex form of file_hash_spec(chunk list of the stream, salt)
                && /*@C03*/ exists|fed: Seq<Chunk>| concat_chunks(fed) == self.stream() && pointer_file.hash@ == hex_spec(file_hash_spec(hl_view(fed), self.session.config.shard_config.repo_salt)),
            Err(_) => true,
        },
//@ body-start
        let ghost fed0 = dd_fed(&self.dedup_manager); let ghost buf0 = chunker_buf(&self.chunker); let ghost st = self.stream();
        let ghost mut last: Seq<Chunk> = Seq::<Chunk>::empty();
        proof { lemma_concat_len(fed0); assert(st.len() == concat_chunks(fed0).len() + buf0.len()); }
//@ before `vx_self.sha_generator.update(`
            proof {
                let one = seq![chunk];
                last = one;
                assert(one.drop_last() =~= Seq::<Chunk>::empty());
                assert(concat_chunks(Seq::<Chunk>::empty()) =~= Seq::<u8>::empty());
                assert(concat_chunks(one) =~= chunk.data@) by { assert(Seq::<u8>::empty() + chunk.data@ =~= chunk.data@); }
                assert(data_len_sum(Seq::<Chunk>::empty()) == 0);
                assert(data_len_sum(one) == chunk.data@.len());
                lemma_concat_append(fed0, one);
                assert(chunks_ok(one));
            }
//@ before `vx_self.dedup_manager.process_chunks(&[chunk])`
            proof {
                assert(data_len_sum(fed0) + chunk.data@.len() <= usize::MAX);
                let arr = [chunk];
                assert(arr@ =~= last);
            }
//@ before `let sha256: MerkleHash`
        let ghost fed1 = dd_fed(&vx_self.dedup_manager);
        proof {
            assert(fed1 == fed0 + last);
            if last.len() == 0 { assert(fed0 + last =~= fed0); assert(concat_chunks(fed0) + buf0 =~= concat_chunks(fed0)); }
            assert(concat_chunks(fed1) =~= st);
            lemma_concat_len(fed1);
            assert(chunks_ok(fed1));
        }
//@ end
}
#[verifier::external_body] fn vx_arc_one(c: Chunk) -> (r: Arc<[Chunk]>) ensures r@ == seq![c] { Arc::new([c]) }

} // verus!
fn main() {}
