//@ unit U-SESSCUT
//@ props C15 C14 C11
//@ verus-args --rlimit 200
//@ config MAX_XORB_BYTES MAX_XORB_CHUNKS
//@ rules-from cacheacct
//@ gsubst `dyn Client + Send + Sync` => `VxClient` :: R11 stub type for the cas_client trait object (not called by the functions under proof)
//@ gsubst `dyn ProgressUpdater` => `VxProgressUpdater` :: R11 stub type for the progress trait object (not called by the functions under proof)
#![feature(allocator_api)]
#![allow(non_snake_case, unused)]
use vstd::prelude::*;
use std::collections::HashMap;
use std::sync::Arc;
use std::mem::swap;
verus! {
//@ include prelude/dedup_types.rs

//@ include prelude/dedup_model.rs

//@ include prelude/dedup_segments.rs

//@ include prelude/agg_lemmas.rs

//@ include prelude/agg_model.rs

// ---- R11 stubs of the session's dependencies (no contract unless stated) ------------------------------------------------------------
#[verifier::external_body] #[verifier::accept_recursive_types(T)] pub struct Mutex<T> { _p: std::marker::PhantomData<T> }
#[verifier::external_body] #[verifier::accept_recursive_types(T)] pub struct JoinSet<T> { _p: std::marker::PhantomData<T> }
#[verifier::external_body] pub struct DataProcessingError { _p: () }
pub type Result<T> = std::result::Result<T, DataProcessingError>;
pub struct VxClient { _p: () }
pub struct VxProgressUpdater { _p: () }
pub struct ThreadPool { _p: () }
pub struct TranslatorConfig { _p: () }
pub struct SessionShardInterface { _p: () }
impl SessionShardInterface {
    // the shard side of the hand-over: what a file record must satisfy when it is registered (C15: no unresolved xorb reference;
    // C02: every segment in range of the xorb it names, with the right byte count)
    #[verifier::external_body]
    fn add_file_reconstruction_info(&self, file_info: MDBFileInfo) -> Result<()>
        requires /*@C15*/ segs_nonzero(file_info.segments@), segs_ok(file_info.segments@, Seq::<MerkleHash>::empty()),
    { unimplemented!() }
    // C11: recording a xorb's chunk list in the session shard.  `vx_cas_recorded` is an uninterpreted predicate used as a
    // capability: this stub's postcondition is the ONLY way to obtain it, and handing a non-empty xorb to the uploader requires it.
    #[verifier::external_body]
    fn add_cas_block(&self, cas_block_contents: MDBCASInfo) -> (r: Result<()>)
        ensures /*@C11*/ r is Ok ==> vx_cas_recorded(cas_block_contents.metadata.cas_hash),
    { unimplemented!() }
}
pub uninterp spec fn vx_cas_recorded(xorb_hash: MerkleHash) -> bool;
impl Clone for MDBCASInfo {
    #[verifier::external_body]
    fn clone(&self) -> (r: MDBCASInfo) ensures r == *self { unimplemented!() }
}
impl MDBCASInfo {
    #[verifier::external_body]
    fn chunks_and_boundaries(&self) -> Vec<(MerkleHash, u32)> { unimplemented!() }
}

// `std::mem::swap` is specified by vstd (std_specs/core.rs: the two values are exchanged); no assumption of ours is needed.

// The session mutex.  `self.current_session_data.lock().await` yields a guard; in the region under proof the guard is the
// `&mut DataAggregator` parameter, ARBITRARY up to the lock invariant (other tasks may have changed the value between two
// critical sections).  Releasing the guard -- explicitly by `drop(guard)` (this stub shadows std's `drop` for the guard) or at the
// end of the region -- obliges the lock invariant again.
spec fn lock_inv(a: DataAggregator) -> bool { a.agg_wf() && a.within_limits() }
#[verifier::external_body]
fn drop(guard: &mut DataAggregator)
    requires /*@C15*/ lock_inv(*old(guard)),
    ensures *final(guard) == *old(guard),
{ }

// the 13 counter sums of DeduplicationMetrics::merge_in fit usize (its precondition, verbatim)
spec fn metrics_add_fits(a: DeduplicationMetrics, b: DeduplicationMetrics) -> bool {
    &&& a.total_bytes + b.total_bytes <= usize::MAX &&& a.deduped_bytes + b.deduped_bytes <= usize::MAX
    &&& a.new_bytes + b.new_bytes <= usize::MAX &&& a.deduped_bytes_by_global_dedup + b.deduped_bytes_by_global_dedup <= usize::MAX
    &&& a.defrag_prevented_dedup_bytes + b.defrag_prevented_dedup_bytes <= usize::MAX
    &&& a.total_chunks + b.total_chunks <= usize::MAX &&& a.deduped_chunks + b.deduped_chunks <= usize::MAX
    &&& a.new_chunks + b.new_chunks <= usize::MAX &&& a.deduped_chunks_by_global_dedup + b.deduped_chunks_by_global_dedup <= usize::MAX
    &&& a.defrag_prevented_dedup_chunks + b.defrag_prevented_dedup_chunks <= usize::MAX
    &&& a.xorb_bytes_uploaded + b.xorb_bytes_uploaded <= usize::MAX &&& a.shard_bytes_uploaded + b.shard_bytes_uploaded <= usize::MAX
    &&& a.total_bytes_uploaded + b.total_bytes_uploaded <= usize::MAX
}

// ---- the xorb's byte count -----------------------------------------------------------------------------------------------------------
spec fn sum_arc_len(d: Seq<Arc<[u8]>>) -> nat decreases d.len() {
    if d.len() == 0 { 0 } else { sum_arc_len(d.drop_last()) + d.last()@.len() }
}
spec fn xorb_bytes_consistent(x: RawXorbData) -> bool { x.cas_info.metadata.num_bytes_in_cas == sum_arc_len(x.data@) }
proof fn lemma_arc_sum(d: Seq<Arc<[u8]>>, cs: Seq<Chunk>)
    requires d.len() == cs.len(), forall|i: int| 0 <= i < cs.len() ==> (#[trigger] d[i])@ == cs[i].data@,
    ensures sum_arc_len(d) == sum_data_len(cs),
    decreases d.len()
{
    if d.len() > 0 {
        assert forall|i: int| 0 <= i < cs.drop_last().len() implies (#[trigger] d.drop_last()[i])@ == cs.drop_last()[i].data@ by {
            assert(d.drop_last()[i] == d[i]);
        }
        lemma_arc_sum(d.drop_last(), cs.drop_last());
        assert(d[d.len() - 1]@ == cs[d.len() - 1].data@);
    }
}
proof fn lemma_xorb_bytes(x: RawXorbData, cs: Seq<Chunk>)
    requires xorb_wf(x, cs), chunks_ok(cs),
    ensures xorb_bytes_consistent(x),
{
    lemma_arc_sum(x.data@, cs);
    lemma_sum_data_len(cs);
}
impl RawXorbData {
    spec fn spec_num_bytes(&self) -> usize { self.cas_info.metadata.num_bytes_in_cas as usize }
#[verifier::when_used_as_spec(spec_num_bytes)]
//@ extract deduplication/src/raw_xorb_data.rs in `impl RawXorbData` fn num_bytes
//@ ret r
//@ subst `self.data.iter().map(|c| c.len()).sum::<usize>()` => `sum_arc_len(self.data@)` :: R7 outline (spec form) of an iterator chain inside a debug assertion: the sum of the chunk buffer lengths
//@ contract
        requires xorb_bytes_consistent(*self),      // the debug assertion below
        ensures r == self.cas_info.metadata.num_bytes_in_cas, r == self.spec_num_bytes(),
//@ end
    // concatenation of the chunk buffers (assumed; construction of the xorb payload belongs to U-XORBNAME)
    #[verifier::external_body]
    fn to_vec(&self) -> (r: Vec<u8>)
        ensures r@.len() == sum_arc_len(self.data@),
    { unimplemented!() }
}

// ---- DataAggregator: STUBS carrying exactly the contracts proved in U-AGG (copied from units/U-AGG.rs) ------------------------------
impl DataAggregator {
    spec fn spec_num_bytes(&self) -> usize { self.num_bytes }
    spec fn spec_num_chunks(&self) -> usize { self.chunks@.len() as usize }

    #[verifier::when_used_as_spec(spec_num_chunks)]
    #[verifier::external_body]
    fn num_chunks(&self) -> (r: usize)
        ensures r == self.chunks@.len(), r == self.spec_num_chunks(),
    { unimplemented!() }

    #[verifier::when_used_as_spec(spec_num_bytes)]
    #[verifier::external_body]
    fn num_bytes(&self) -> (r: usize)
        requires self.bytes_ok(),
        ensures r == self.num_bytes, r == self.spec_num_bytes(),
    { unimplemented!() }

    #[verifier::external_body]
    fn finalize(self) -> (r: (RawXorbData, Vec<MDBFileInfo>))
//@ include prelude/c_agg_finalize.rs
    { unimplemented!() }

    #[verifier::external_body]
    fn merge_in(&mut self, other: DataAggregator)
//@ include prelude/c_agg_merge_in.rs
    { unimplemented!() }
}

//@ extract data/src/file_upload_session.rs struct FileUploadSession
//@ end

impl FileUploadSession {
    // the rest of register_new_xorb_for_upload (task-set drain: U-JOIN; spawn of the upload task) as seen by its caller; the
    // precondition is the one of the guard region below plus the limits (C15: what may be handed towards the store)
    #[verifier::external_body]
    fn register_new_xorb_for_upload(&self, xorb: RawXorbData) -> Result<()>
        requires /*@C15*/ xorb_le_limits(xorb), xorb_bytes_consistent(xorb),
            // C11: every chunk stored in a new xorb is recorded in the session's shards - a non-empty xorb may be handed to the
            // uploader only after its chunk list was recorded with add_cas_block
            /*@C11*/ xorb.cas_info.metadata.num_bytes_in_cas > 0 ==> vx_cas_recorded(xorb.cas_info.metadata.cas_hash),
    { unimplemented!() }

// the empty-xorb guard up to the point where the payload is moved into the upload task
//@ extract data/src/file_upload_session.rs in `impl FileUploadSession` region register_new_xorb_for_upload
//@ from-after `result??; } }`
//@ to-before `drop(xorb);`
//@ sig `fn register_new_xorb_for_upload__guard(xorb: RawXorbData) -> (ret: Result<()>)`
//@ epilogue `Ok(())`
//@ contract
        requires xorb_bytes_consistent(xorb),
//@ after `let xorb_data = xorb.to_vec();`
        // this is the payload `client.put` receives in the spawned task: never zero bytes
        assert(/*@C15*/ xorb_data@.len() > 0);
//@ end

// the WHOLE body of register_single_file_clean_completion.  The two tokio mutexes are modelled as exclusive `&mut` parameters for
// the duration of the call: each `self.<field>.lock().await` becomes a reborrow of the corresponding parameter (R11 stub of the
// mutex + guard).  The session aggregator is locked twice (critical section; `#[cfg(debug_assertions)]` block, kept as obligations).
//@ extract data/src/file_upload_session.rs in `impl FileUploadSession` region register_single_file_clean_completion
//@ block `) -> Result<()> {`
//@ sig `fn register_single_file_clean_completion__body(self: &Arc<Self>, mut file_data: DataAggregator, dedup_metrics: &DeduplicationMetrics, vx_session_data: &mut DataAggregator, vx_session_metrics: &mut DeduplicationMetrics) -> (ret: Result<()>)`
//@ subst `self.current_session_data.lock()` => `(&mut *vx_session_data)` :: R11 mutex stub: the guard of `current_session_data` is a reborrow of the exclusive `&mut DataAggregator` parameter (both lock sites)
//@ optsubst `self.deduplication_metrics.lock()` => `(&mut *vx_session_metrics)` :: R11 mutex stub: the guard of `deduplication_metrics` is a reborrow of the exclusive `&mut DeduplicationMetrics` parameter
//@ contract
        requires
            // the lock invariant of the session aggregator, assumed when its guard is obtained
            lock_inv(*old(vx_session_data)),
            // what the file's deduper hands over (U-DEDUP istruct, U-AGG new)
            file_data.agg_wf(), file_data.within_limits(),
            // configuration, needed only by a debug assertion in merge_in (see U-AGG notes)
            spec_MAX_XORB_CHUNKS() <= spec_MAX_XORB_BYTES(),
            // the overflow preconditions of DeduplicationMetrics::merge_in (usize counters; 13 sums)
            metrics_add_fits(*old(vx_session_metrics), *dedup_metrics),
        ensures
            // every release of the guard (explicit drop, end of either block, early Err return) leaves the lock invariant
            /*@C15*/ lock_inv(*final(vx_session_data)),
            // C14 "session metrics are the sums over its files": a successful completion adds exactly this file's metrics
            /*@C14*/ ret is Ok ==> metrics_sum(*old(vx_session_metrics), *dedup_metrics, *final(vx_session_metrics)),
            // the decision is exact: merged iff the sum fits both limits, otherwise the larger one (in bytes) is cut
            /*@C15*/ ({
                let s = *old(vx_session_data); let f = file_data; let t = *final(vx_session_data);
                if s.num_bytes + f.num_bytes <= spec_MAX_XORB_BYTES() && s.chunks@.len() + f.chunks@.len() <= spec_MAX_XORB_CHUNKS() {
                    ret is Ok && t.chunks@ == s.chunks@ + f.chunks@ && t.num_bytes == s.num_bytes + f.num_bytes
                    && t.pending_file_info@.len() == s.pending_file_info@.len() + f.pending_file_info@.len()
                } else {
                    (t == s || t == f) && t.num_bytes <= s.num_bytes && t.num_bytes <= f.num_bytes
                }
            }),
//@ end

//@ extract data/src/file_upload_session.rs in `impl FileUploadSession` fn process_aggregated_data_as_xorb
//@ ret ret
//@ rules R18
//@ contract
        requires data_agg.agg_wf(), /*@C15*/ data_agg.within_limits(),
//@ after `let (xorb, new_files) = data_agg.finalize();`
        let ghost nf = new_files@;
        proof { lemma_xorb_bytes(xorb, data_agg.chunks@); }
//@ loop 1
            invariant
                vx_it1.seq() == nf,
                /*@C15*/ forall|k: int| 0 <= k < nf.len() ==> segs_nonzero((#[trigger] nf[k]).segments@),
                forall|k: int| 0 <= k < nf.len() ==> segs_ok((#[trigger] nf[k]).segments@, Seq::<MerkleHash>::empty()),
//@ end
}

// ---- C11, the other hand-over site: xorbs cut while a file is processed (data/src/deduplication_interface.rs) ----------------------
// R11 stub of the struct (its second field, a JoinSet of global-dedup queries, plays no role here)
pub struct UploadSessionDataManager { pub session: Arc<FileUploadSession> }
impl UploadSessionDataManager {
//@ extract data/src/deduplication_interface.rs in `impl DeduplicationDataInterface for UploadSessionDataManager` fn register_new_xorb
//@ ret ret
//@ contract
        // what the deduper guarantees about a xorb it registers (U-DEDUP: xorb_within_limits, xorb_wf)
        requires /*@C15*/ xorb_le_limits(xorb), xorb_bytes_consistent(xorb),
//@ end
}

} // verus!
fn main() {}
