//@ unit U-RECON
//@ props C01
//@ verus-args --rlimit 100
#![allow(non_snake_case, unused)]
use vstd::prelude::*;
verus! {
global size_of usize == 8;

//@ include prelude/reconplan_math.rs
//@ include prelude/recon_io.rs

#[derive(Clone, Copy)]
pub struct MerkleHash(pub [u64; 4]);

//@ extract cas_types/src/lib.rs struct Range
//@ end
//@ extract cas_types/src/lib.rs type FileRange
//@ end
//@ extract mdb_shard/src/file_structs.rs struct FileDataSequenceHeader
//@ end
//@ extract mdb_shard/src/file_structs.rs struct FileDataSequenceEntry
//@ end
//@ extract mdb_shard/src/file_structs.rs struct FileVerificationEntry
//@ end
//@ extract mdb_shard/src/file_structs.rs struct FileMetadataExt
//@ end
//@ extract mdb_shard/src/file_structs.rs struct MDBFileInfo
//@ end

spec fn req_start(byte_range: Option<FileRange>) -> int { match byte_range { Some(rg) => rg.start as int, None => 0 } }
spec fn req_end(byte_range: Option<FileRange>, len: int) -> int { match byte_range { Some(rg) => min_int(rg.end as int, len), None => len } }

// the local xorb store: `get_object_range` opens the xorb file `hash` and returns, per requested chunk range, the
// unpacked bytes of those chunks (file I/O + CasObject decoding: outside reach, contract ASSUMED)
#[verifier::external_body] struct LocalClient { _p: () }
impl LocalClient {
    // bytes of chunks [s, e) of the xorb stored under `hash`
    uninterp spec fn xorb_range_bytes(&self, hash: MerkleHash, s: u32, e: u32) -> Seq<u8>;

    #[verifier::external_body]
    fn get_object_range(&self, hash: &MerkleHash, chunk_ranges: Vec<(u32, u32)>) -> (r: Result<Vec<Vec<u8>>>)
        ensures r matches Ok(v) ==> chunk_ranges@.len() > 0 ==> v@.len() == chunk_ranges@.len()
            && forall|i: int| 0 <= i < v@.len() ==> (#[trigger] v@[i])@ == self.xorb_range_bytes(*hash, chunk_ranges@[i].0, chunk_ranges@[i].1),
    { unimplemented!() }

    // the file record the shard manager holds for `hash` (shard lookup: async I/O, outside reach)
    uninterp spec fn file_record(&self, hash: MerkleHash) -> Seq<FileDataSequenceEntry>;
    #[verifier::external_body]
    fn vx_file_reconstruction_info(&self, hash: &MerkleHash) -> (r: Result<Option<(MDBFileInfo, Option<MerkleHash>)>>)
        ensures r matches Ok(Some(p)) ==> p.0.segments@ == self.file_record(*hash),
    { unimplemented!() }

    // segment i of a file record denotes these bytes
    spec fn seg_bytes(&self, segs: Seq<FileDataSequenceEntry>) -> Seq<Seq<u8>> {
        Seq::new(segs.len(), |i: int| self.xorb_range_bytes(segs[i].cas_hash, segs[i].chunk_index_start, segs[i].chunk_index_end))
    }
    // the file a record denotes: its segments' bytes back to back
    spec fn file_bytes(&self, segs: Seq<FileDataSequenceEntry>) -> Seq<u8> {
        cat(self.seg_bytes(segs), segs.len() as int)
    }

//@ extract cas_client/src/local_client.rs in `impl ReconstructionClient for LocalClient` region get_file
//@ block `_progress_updater: Option<Arc<dyn ProgressUpdater>>, ) -> Result<u64> {`
//@ sig `fn get_file_body(&self, hash: &MerkleHash, byte_range: Option<FileRange>, output_provider: &OutputProvider) -> (r: Result<(u64, OutWriter)>)`
//@ epilogue `.vx_with(writer)`
//@ subst `self.shard_manager.get_file_reconstruction_info(hash).map_err(|e| anyhow!("{e}"))?` => `self.vx_file_reconstruction_info(hash)?` :: R11 stub for the shard manager lookup (async I/O) with its error-conversion closure
//@ rules R4n R7m
//@ contract
    requires
        // domain: the range starts inside the file and is not reversed; otherwise `&file_vec[start..end]` panics
        // (start > end), before the `end - start` that would underflow
        byte_range matches Some(rg) ==> rg.start <= rg.end && rg.start <= self.file_bytes(self.file_record(*hash)).len(),
    ensures
        // output image == the previous image with concat(segment bytes)[start .. min(end, len)] written at offset 0; returned length == bytes written
        /*@C01*/ r matches Ok(p) ==> 0 <= req_start(byte_range) <= req_end(byte_range, self.file_bytes(self.file_record(*hash)).len() as int) <= self.file_bytes(self.file_record(*hash)).len(),
        /*@C01*/ r matches Ok(p) ==> p.1.content() == write_at(p.1.pre(), 0, self.file_bytes(self.file_record(*hash)).subrange(req_start(byte_range), req_end(byte_range, self.file_bytes(self.file_record(*hash)).len() as int))),
        /*@C01*/ r matches Ok(p) ==> p.0 == req_end(byte_range, self.file_bytes(self.file_record(*hash)).len() as int) - req_start(byte_range),
//@ before `let mut writer`
    let ghost segs = file_info.segments@;
    let ghost sb = self.seg_bytes(segs);
//@ loop 1
        invariant
            segs == file_info.segments@,
            sb == self.seg_bytes(segs),
            segs == self.file_record(*hash),
            0 <= vx_it1.index@ <= segs.len(),
            // bytes assembled so far == concatenation of the first k segments' bytes
            /*@C01*/ file_vec@ == cat(sb, vx_it1.index@),
//@ after `file_vec.append(&mut entry_bytes);`
            proof {
                let k = vx_it1.index@;
                assert(*entry == segs[k]);
                assert(sb[k] == self.xorb_range_bytes(segs[k].cas_hash, segs[k].chunk_index_start, segs[k].chunk_index_end));
                assert(cat(sb, k + 1) == cat(sb, k) + sb[k]);
            }
//@ end
}

} // verus!
fn main() {}
