//@ unit U-RECON
//@ props C01
//@ verus-args --rlimit 100
#![allow(non_snake_case, unused)]
use vstd::prelude::*;
verus! {
global size_of usize == 8;

//@ include prelude/reconplan_math.rs
//@ include prelude/recon_io.rs

pub struct MerkleHash(pub [u64; 4]);

//@ extract cas_types/src/lib.rs struct Range
//@ end
//@ extract cas_types/src/lib.rs type FileRange
//@ end
//@ extract mdb_shard/src/file_structs.rs struct FileDataSequenceHeader
//@ end
//@ extract mdb_shard/src/file_structs.rs struct FileDataSequenceEntry
//@ end
//@ extract mdb_shard/src/file_structs.rs struct FileVerificationEntry
//@ end
//@ extract mdb_shard/src/file_structs.rs struct FileMetadataExt
//@ end
//@ extract mdb_shard/src/file_structs.rs struct MDBFileInfo
//@ end

// the local xorb store: `get_object_range` opens the xorb file `hash` and returns, per requested chunk range, the
// unpacked bytes of those chunks (file I/O + CasObject decoding: outside reach, contract ASSUMED)
#[verifier::external_body] struct LocalClient { _p: () }
impl LocalClient {
    // bytes of chunks [s, e) of the xorb stored under `hash`
    uninterp spec fn xorb_range_bytes(&self, hash: MerkleHash, s: u32, e: u32) -> Seq<u8>;

    #[verifier::external_body]
    fn get_object_range(&self, hash: &MerkleHash, chunk_ranges: Vec<(u32, u32)>) -> (r: Result<Vec<Vec<u8>>>)
        ensures r matches Ok(v) ==> chunk_ranges@.len() > 0 ==> v@.len() == chunk_ranges@.len()
            && forall|i: int| 0 <= i < v@.len() ==> (#[trigger] v@[i])@ == self.xorb_range_bytes(*hash, chunk_ranges@[i].0, chunk_ranges@[i].1),
    { unimplemented!() }

    // segment i of a file record denotes these bytes
    spec fn seg_bytes(&self, segs: Seq<FileDataSequenceEntry>) -> Seq<Seq<u8>> {
        Seq::new(segs.len(), |i: int| self.xorb_range_bytes(segs[i].cas_hash, segs[i].chunk_index_start, segs[i].chunk_index_end))
    }
    // the file a record denotes: its segments' bytes back to back
    spec fn file_bytes(&self, segs: Seq<FileDataSequenceEntry>) -> Seq<u8> {
        cat(self.seg_bytes(segs), segs.len() as int)
    }

//@ extract cas_client/src/local_client.rs in `impl ReconstructionClient for LocalClient` region get_file
//@ from-after `return Err(CasClientError::FileNotFound(*hash)); };`
//@ to `Ok((end - start) as u64)`
//@ sig `fn get_file_tail(&self, file_info: MDBFileInfo, byte_range: Option<FileRange>, output_provider: &OutputProvider) -> (r: Result<(u64, OutWriter)>)`
//@ epilogue `.vx_with(writer)`
//@ rules R4n R7m
//@ contract
    requires
        // domain: the range starts inside the file and is not reversed; otherwise `&file_vec[start..end]` panics
        // (start > end), before the `end - start` that would underflow
        byte_range matches Some(rg) ==> rg.start <= rg.end && rg.start <= self.file_bytes(file_info.segments@).len(),
    ensures
        r matches Ok(p) ==> ({
            let file = self.file_bytes(file_info.segments@);
            let start: int = match byte_range { Some(rg) => rg.start as int, None => 0 };
            let end: int = match byte_range { Some(rg) => min_int(rg.end as int, file.len() as int), None => file.len() as int };
            // output == concat(segment bytes)[start .. min(end, len)], written from offset 0; returned length == bytes written
            &&& /*@C01*/ p.1.offset() == 0
            &&& /*@C01*/ 0 <= start <= end <= file.len()
            &&& /*@C01*/ p.1.written() == file.subrange(start, end)
            &&& /*@C01*/ p.0 == p.1.written().len()
        }),
//@ body-start
    let ghost segs = file_info.segments@;
    let ghost sb = self.seg_bytes(segs);
//@ loop 1
        invariant
            segs == file_info.segments@, sb == self.seg_bytes(segs),
            0 <= vx_it1.index@ <= segs.len(),
            file_vec@ == cat(sb, vx_it1.index@),
//@ after `file_vec.append(&mut entry_bytes);`
            proof {
                let k = vx_it1.index@;
                assert(*entry == segs[k]);
                assert(sb[k] == self.xorb_range_bytes(segs[k].cas_hash, segs[k].chunk_index_start, segs[k].chunk_index_end));
                assert(cat(sb, k + 1) == cat(sb, k) + sb[k]);
            }
//@ end
}

} // verus!
fn main() {}
