//@ unit U-IMSETOPS
//@ props C10
//@ verus-args --rlimit 150
//@ rules-from imsetops shwrite
#![feature(allocator_api)]
#![allow(non_snake_case, unused)]
use vstd::prelude::*;
use vstd::std_specs::cmp::*;
use std::cmp::Ordering;
use std::collections::{BTreeMap, HashMap};
use vstd::std_specs::btree::{increasing_seq, axiom_increasing_seq_meaning};
use std::sync::Arc;
verus! {
global size_of usize == 8;

//@ include prelude/setops_merklehash.rs
impl std::hash::Hash for MerkleHash {
    #[verifier::external_body]
    fn hash<H: std::hash::Hasher>(&self, state: &mut H) { unimplemented!() }
}
// ASSUMED (K-HASHBYTES): `Hash`/`Eq` of DataHash are consistent (HashMap key model); `Ord` is a total order (BTreeMap key)
#[verifier::external_body]
proof fn axiom_merklehash_key_model() ensures vstd::std_specs::hash::obeys_key_model::<MerkleHash>() {}
#[verifier::external_body]
proof fn axiom_merklehash_total_order() ensures vstd::laws_cmp::obeys_cmp::<MerkleHash>() {}

//@ extract mdb_shard/src/file_structs.rs struct FileDataSequenceHeader
//@ end
//@ extract mdb_shard/src/file_structs.rs struct FileDataSequenceEntry
//@ end
//@ extract mdb_shard/src/file_structs.rs struct FileVerificationEntry
//@ end
//@ extract mdb_shard/src/file_structs.rs struct FileMetadataExt
//@ end
//@ extract mdb_shard/src/file_structs.rs struct MDBFileInfo
//@ end
//@ extract mdb_shard/src/cas_structs.rs struct CASChunkSequenceHeader
//@ end
//@ extract mdb_shard/src/cas_structs.rs struct CASChunkSequenceEntry
//@ end
//@ extract mdb_shard/src/cas_structs.rs struct MDBCASInfo
//@ end
//@ extract mdb_shard/src/shard_in_memory.rs struct MDBInMemoryShard
//@ end
//@ extract mdb_shard/src/file_structs.rs const MDB_FILE_FLAG_WITH_VERIFICATION
//@ end
//@ extract mdb_shard/src/file_structs.rs const MDB_FILE_FLAG_VERIFICATION_MASK
//@ end
//@ extract mdb_shard/src/file_structs.rs const MDB_FILE_FLAG_WITH_METADATA_EXT
//@ end
//@ extract mdb_shard/src/file_structs.rs const MDB_FILE_FLAG_METADATA_EXT_MASK
//@ end

pub struct MDBShardError;
pub type Result<T> = std::result::Result<T, MDBShardError>;
impl Clone for MDBFileInfo {
    // derive(Clone): an equal value
    #[verifier::external_body]
    fn clone(&self) -> (r: MDBFileInfo) ensures r == *self { unimplemented!() }
}

// `c.insert(k, v);` behind a trait (rule imsetops.R19b: the collection type of a `collect()` is fixed by the context only later)
pub trait VxMapLike<K, V>: Sized {
    spec fn vmap(&self) -> Map<K, V>;
    spec fn key_ok() -> bool;
    fn vx_ins(&mut self, k: K, v: V)
        requires Self::key_ok(),
        ensures final(self).vmap() == old(self).vmap().insert(k, v);
}
impl<V> VxMapLike<MerkleHash, V> for BTreeMap<MerkleHash, V> {
    open spec fn vmap(&self) -> Map<MerkleHash, V> { self@ }
    open spec fn key_ok() -> bool { vstd::laws_cmp::obeys_cmp::<MerkleHash>() }
    fn vx_ins(&mut self, k: MerkleHash, v: V) { self.insert(k, v); }
}
impl<V> VxMapLike<MerkleHash, V> for HashMap<MerkleHash, V> {
    open spec fn vmap(&self) -> Map<MerkleHash, V> { self@ }
    open spec fn key_ok() -> bool { vstd::std_specs::hash::obeys_key_model::<MerkleHash>() }
    fn vx_ins(&mut self, k: MerkleHash, v: V) { self.insert(k, v); }
}
fn vx_map_insert<C: VxMapLike<K, V>, K, V>(c: &mut C, k: K, v: V)
    requires C::key_ok(),
    ensures final(c).vmap() == old(c).vmap().insert(k, v),
{ c.vx_ins(k, v) }
spec fn mv<C: VxMapLike<K, V>, K, V>(c: C) -> Map<K, V> { c.vmap() }
// R7 outlines: `Clone` of the HashMap (vstd has no usable spec) and of the built-in tuple `(Arc<MDBCASInfo>, u64)`
#[verifier::external_body]
fn vx_clone_lookup(m: &HashMap<MerkleHash, (Arc<MDBCASInfo>, u64)>) -> (r: HashMap<MerkleHash, (Arc<MDBCASInfo>, u64)>) ensures r@ == m@ { unimplemented!() }
#[verifier::external_body]
fn vx_clone_pair(v: &(Arc<MDBCASInfo>, u64)) -> (r: (Arc<MDBCASInfo>, u64)) ensures r == *v { unimplemented!() }

// `recalculate_shard_size` is under contract in U-SHWRITE (it establishes the counter invariant `counter_inv`); here: it leaves the
// three maps alone, and the fact that the size was recomputed is recorded
uninterp spec fn size_recomputed(s: MDBInMemoryShard) -> bool;
impl MDBInMemoryShard {
    #[verifier::external_body]
    fn recalculate_shard_size(&mut self)
        ensures final(self).cas_content@ == old(self).cas_content@, final(self).file_content@ == old(self).file_content@,
            final(self).chunk_hash_lookup@ == old(self).chunk_hash_lookup@, size_recomputed(*final(self)),
    { unimplemented!() }
}

// ---- a map's entries as the iterator yields them (what vstd's specifications of BTreeMap::iter / HashMap::iter give) -------
spec fn iter_items<V>(r: Seq<(&MerkleHash, &V)>, m: Map<MerkleHash, V>) -> bool {
    &&& forall|i: int| 0 <= i < r.len() ==> m.contains_key(*(#[trigger] r[i]).0) && m[*r[i].0] == *r[i].1
    &&& forall|k: MerkleHash| m.contains_key(k) ==> exists|i: int| 0 <= i < r.len() && *(#[trigger] r[i]).0 == k
}
// key k is among the first i items
spec fn in_done<V>(r: Seq<(&MerkleHash, &V)>, i: int, k: MerkleHash) -> bool { exists|j: int| 0 <= j < i && *(#[trigger] r[j]).0 == k }
proof fn lemma_done_step<V>(r: Seq<(&MerkleHash, &V)>, i: int)
    requires 0 <= i < r.len(),
    ensures forall|k: MerkleHash| in_done(r, i + 1, k) <==> (in_done(r, i, k) || k == *r[i].0),
{
    assert forall|k: MerkleHash| in_done(r, i + 1, k) implies (in_done(r, i, k) || k == *r[i].0) by {
        let j = choose|j: int| 0 <= j < i + 1 && *(#[trigger] r[j]).0 == k;
        if j < i { assert(*r[j].0 == k); }
    }
    assert forall|k: MerkleHash| (in_done(r, i, k) || k == *r[i].0) implies in_done(r, i + 1, k) by {
        if k == *r[i].0 { assert(*r[i].0 == k); } else { let j = choose|j: int| 0 <= j < i && *(#[trigger] r[j]).0 == k; assert(*r[j].0 == k); }
    }
}
proof fn lemma_done_all<V>(r: Seq<(&MerkleHash, &V)>, m: Map<MerkleHash, V>)
    requires iter_items(r, m),
    ensures all_done(r, m),
{
    assert forall|k: MerkleHash| m.contains_key(k) implies in_done(r, r.len() as int, k) by {
        let i = choose|i: int| 0 <= i < r.len() && *(#[trigger] r[i]).0 == k; assert(*r[i].0 == k);
    }
    assert forall|k: MerkleHash| in_done(r, r.len() as int, k) implies m.contains_key(k) by {
        let j = choose|j: int| 0 <= j < r.len() && *(#[trigger] r[j]).0 == k; assert(m.contains_key(*r[j].0));
    }
}
spec fn all_done<V>(r: Seq<(&MerkleHash, &V)>, m: Map<MerkleHash, V>) -> bool { forall|k: MerkleHash| in_done(r, r.len() as int, k) <==> m.contains_key(k) }
// BTreeMap iteration is in strictly increasing key order, so an item's key is not among the earlier ones
proof fn lemma_btree_fresh<V>(r: Seq<(&MerkleHash, &V)>, i: int)
    requires 0 <= i < r.len(), increasing_seq(r.map_values(|kv: (&MerkleHash, &V)| *kv.0)),
    ensures !in_done(r, i, *r[i].0),
{
    let ks = r.map_values(|kv: (&MerkleHash, &V)| *kv.0);
    axiom_merklehash_total_order();
    axiom_increasing_seq_meaning::<MerkleHash>(ks);
    if in_done(r, i, *r[i].0) {
        let j = choose|j: int| 0 <= j < i && *(#[trigger] r[j]).0 == *r[i].0;
        assert(ks[j] == *r[j].0 && ks[i] == *r[i].0);
        assert(vstd::std_specs::cmp::OrdSpec::cmp_spec(&ks[j], &ks[i]) == Ordering::Less);
        lemma_hash_order_total(ks[j], ks[i]);
    }
}

// ================= the set operations on maps (C10 for the in-memory shard) ===========================================
// union where the SECOND operand's value wins on a common key (xorb records, chunk lookup)
spec fn union_right<V>(a: Map<MerkleHash, V>, b: Map<MerkleHash, V>) -> Map<MerkleHash, V> { a.union_prefer_right(b) }
// difference: what the SECOND holds under keys the FIRST does not have
spec fn diff_right<V>(a: Map<MerkleHash, V>, b: Map<MerkleHash, V>) -> Map<MerkleHash, V> { b.remove_keys(a.dom()) }
// file records of the same file: the FIRST operand's record, completed with the verification entries / the metadata-ext of the
// second where the first lacks them ("the richer variant")
spec fn has_verif(f: MDBFileInfo) -> bool { f.metadata.file_flags & MDB_FILE_FLAG_VERIFICATION_MASK != 0 }
spec fn has_ext(f: MDBFileInfo) -> bool { f.metadata.file_flags & MDB_FILE_FLAG_METADATA_EXT_MASK != 0 }
spec fn merged_file(a: MDBFileInfo, b: MDBFileInfo) -> MDBFileInfo {
    let take_v = !has_verif(a) && has_verif(b); let take_e = !has_ext(a) && has_ext(b);
    let f1: u32 = if take_v { a.metadata.file_flags | MDB_FILE_FLAG_WITH_VERIFICATION } else { a.metadata.file_flags };
    let f2: u32 = if take_e { f1 | MDB_FILE_FLAG_WITH_METADATA_EXT } else { f1 };
    MDBFileInfo {
        metadata: FileDataSequenceHeader { file_flags: f2, ..a.metadata },
        segments: a.segments,
        verification: if take_v { b.verification } else { a.verification },
        metadata_ext: if take_e { b.metadata_ext } else { a.metadata_ext },
    }
}
spec fn file_union_value(a: Map<MerkleHash, MDBFileInfo>, b: Map<MerkleHash, MDBFileInfo>, k: MerkleHash) -> MDBFileInfo {
    if a.contains_key(k) && b.contains_key(k) { merged_file(a[k], b[k]) } else if b.contains_key(k) { b[k] } else { a[k] }
}
spec fn is_union_files(m: Map<MerkleHash, MDBFileInfo>, a: Map<MerkleHash, MDBFileInfo>, b: Map<MerkleHash, MDBFileInfo>) -> bool {
    &&& forall|k: MerkleHash| #[trigger] m.contains_key(k) <==> (a.contains_key(k) || b.contains_key(k))
    &&& forall|k: MerkleHash| #[trigger] m.contains_key(k) ==> m[k] == file_union_value(a, b, k)
}
// loop states: the first i items of the second operand have been folded in
spec fn part_union<V>(m: Map<MerkleHash, V>, a: Map<MerkleHash, V>, b: Map<MerkleHash, V>, r: Seq<(&MerkleHash, &V)>, i: int) -> bool {
    &&& forall|k: MerkleHash| #[trigger] m.contains_key(k) <==> (a.contains_key(k) || in_done(r, i, k))
    &&& forall|k: MerkleHash| #[trigger] m.contains_key(k) ==> m[k] == (if in_done(r, i, k) { b[k] } else { a[k] })
}
spec fn part_diff<V>(m: Map<MerkleHash, V>, a_dom: Set<MerkleHash>, b: Map<MerkleHash, V>, r: Seq<(&MerkleHash, &V)>, i: int) -> bool {
    &&& forall|k: MerkleHash| #[trigger] m.contains_key(k) <==> (in_done(r, i, k) && !a_dom.contains(k))
    &&& forall|k: MerkleHash| #[trigger] m.contains_key(k) ==> m[k] == b[k]
}
spec fn part_union_files(m: Map<MerkleHash, MDBFileInfo>, a: Map<MerkleHash, MDBFileInfo>, b: Map<MerkleHash, MDBFileInfo>, r: Seq<(&MerkleHash, &MDBFileInfo)>, i: int) -> bool {
    &&& forall|k: MerkleHash| #[trigger] m.contains_key(k) <==> (a.contains_key(k) || in_done(r, i, k))
    &&& forall|k: MerkleHash| #[trigger] m.contains_key(k) ==> m[k] == (if in_done(r, i, k) { if a.contains_key(k) { merged_file(a[k], b[k]) } else { b[k] } } else { a[k] })
}

// setting the verification flag does not change the metadata-ext test (the two flags are different bits)
proof fn lemma_flag_independent(f: u32)
    ensures (f | MDB_FILE_FLAG_WITH_VERIFICATION) & MDB_FILE_FLAG_METADATA_EXT_MASK == f & MDB_FILE_FLAG_METADATA_EXT_MASK,
{
    assert(1u32 << 31 == 0x8000_0000u32) by (bit_vector);
    assert(1u32 << 30 == 0x4000_0000u32) by (bit_vector);
    assert((f | 0x8000_0000u32) & 0x4000_0000u32 == f & 0x4000_0000u32) by (bit_vector);
}
// R7 outlines of `Clone::clone_from` on the two containers of a file record (contract assumed: afterwards equal to the source)
#[verifier::external_body]
fn vx_clone_from_vec(dst: &mut Vec<FileVerificationEntry>, src: &Vec<FileVerificationEntry>) ensures *final(dst) == *src { unimplemented!() }
#[verifier::external_body]
fn vx_clone_from_opt(dst: &mut Option<FileMetadataExt>, src: &Option<FileMetadataExt>) ensures *final(dst) == *src { unimplemented!() }
impl FileDataSequenceHeader {
//@ extract mdb_shard/src/file_structs.rs in `impl FileDataSequenceHeader` fn contains_metadata_ext
//@ ret r
//@ contract
    ensures r == (self.file_flags & MDB_FILE_FLAG_METADATA_EXT_MASK != 0),
//@ end
//@ extract mdb_shard/src/file_structs.rs in `impl FileDataSequenceHeader` fn contains_verification
//@ ret r
//@ contract
    ensures r == (self.file_flags & MDB_FILE_FLAG_VERIFICATION_MASK != 0),
//@ end
    // debug assertions only (same hash, same number of entries)
    #[verifier::external_body]
    fn verify_same_file(header1: &Self, header2: &Self) { unimplemented!() }
}
impl MDBFileInfo {
//@ extract mdb_shard/src/file_structs.rs in `impl MDBFileInfo` fn contains_verification
//@ ret r
//@ contract
        ensures r == has_verif(*self),
//@ end
//@ extract mdb_shard/src/file_structs.rs in `impl MDBFileInfo` fn contains_metadata_ext
//@ ret r
//@ contract
        ensures r == has_ext(*self),
//@ end
//@ extract mdb_shard/src/file_structs.rs in `impl MDBFileInfo` fn merge_from
//@ ret r
//@ subst `Result<(), MDBShardError>` => `Result<()>` :: R11 one error type
//@ subst `self.verification.clone_from(&other.verification)` => `vx_clone_from_vec(&mut self.verification, &other.verification)` :: R7 outline of Vec::clone_from
//@ subst `self.metadata_ext.clone_from(&other.metadata_ext)` => `vx_clone_from_opt(&mut self.metadata_ext, &other.metadata_ext)` :: R7 outline of Option::clone_from
//@ contract
        ensures /*@C10*/ r is Ok ==> *final(self) == merged_file(*old(self), *other),
//@ body-start
        proof { lemma_flag_independent(self.metadata.file_flags); }
//@ end
}

impl MDBInMemoryShard {
//@ extract mdb_shard/src/shard_in_memory.rs in `impl MDBInMemoryShard` fn union
//@ ret res
//@ rules R19a R19c R4n
//@ subst `self.chunk_hash_lookup.clone()` => `vx_clone_lookup(&self.chunk_hash_lookup)` :: R7 outline: Clone of the HashMap (contract assumed: equal map)
//@ subst `chunk_hash_lookup.insert(*k, v.clone())` => `chunk_hash_lookup.insert(*k, vx_clone_pair(v))` :: R7 outline: built-in Clone of a tuple (Verus: unsupported built-in instance)
//@ contract
        ensures
            res matches Ok(s) ==> {
                // xorb records and the chunk lookup: union of the two maps, the SECOND operand's value on a common key
                &&& /*@C10*/ s.cas_content@ =~= union_right(self.cas_content@, other.cas_content@)
                &&& /*@C10*/ s.chunk_hash_lookup@ =~= union_right(self.chunk_hash_lookup@, other.chunk_hash_lookup@)
                // file records: union of the keys; a file held by both keeps the FIRST operand's record completed from the second
                // (`merge_from`: verification entries / metadata-ext taken over where missing) — the richer variant
                &&& /*@C10*/ is_union_files(s.file_content@, self.file_content@, other.file_content@)
                // and the size counter is recomputed from the result (U-SHWRITE: establishes counter_inv)
                &&& /*@C10*/ size_recomputed(s)
            },
//@ body-start
        let ghost ca = self.cas_content@; let ghost cb = other.cas_content@; let ghost fa = self.file_content@; let ghost fb = other.file_content@;
        let ghost la = self.chunk_hash_lookup@; let ghost lb = other.chunk_hash_lookup@;
        proof {
            axiom_merklehash_total_order(); axiom_merklehash_key_model();
            assert forall|r: Seq<(&MerkleHash, &Arc<MDBCASInfo>)>| #[trigger] iter_items(r, cb) implies all_done(r, cb) by { lemma_done_all(r, cb); }
            assert forall|r: Seq<(&MerkleHash, &MDBFileInfo)>| #[trigger] iter_items(r, fb) implies all_done(r, fb) by { lemma_done_all(r, fb); }
            assert forall|r: Seq<(&MerkleHash, &(Arc<MDBCASInfo>, u64))>| #[trigger] iter_items(r, lb) implies all_done(r, lb) by { lemma_done_all(r, lb); }
        }
//@ loop 1
            invariant
                vstd::laws_cmp::obeys_cmp::<MerkleHash>(), cb == other.cas_content@, iter_items(vx_it1.seq(), cb), all_done(vx_it1.seq(), cb),
                /*@C10*/ part_union(cas_content@, ca, cb, vx_it1.seq(), vx_it1.index@ as int),
            ensures cas_content@ =~= union_right(ca, cb),
//@ before `cas_content.insert(*k, v.clone());`
            proof { lemma_done_step(vx_it1.seq(), vx_it1.index@ as int); assert(cb.contains_key(*vx_it1.seq()[vx_it1.index@ as int].0)); }
//@ loop 2
            invariant
                vstd::laws_cmp::obeys_cmp::<MerkleHash>(), fb == other.file_content@, iter_items(vx_it2.seq(), fb), all_done(vx_it2.seq(), fb),
                increasing_seq(vx_it2.seq().map_values(|kv: (&MerkleHash, &MDBFileInfo)| *kv.0)),
                cas_content@ =~= union_right(ca, cb),
                /*@C10*/ part_union_files(file_content@, fa, fb, vx_it2.seq(), vx_it2.index@ as int),
            ensures is_union_files(file_content@, fa, fb),
//@ before `if let Some(mut old_v) = file_content.insert(*k, v.clone()) {`
            proof {
                lemma_done_step(vx_it2.seq(), vx_it2.index@ as int); lemma_btree_fresh(vx_it2.seq(), vx_it2.index@ as int);
                assert(fb.contains_key(*vx_it2.seq()[vx_it2.index@ as int].0));
            }
//@ after `in vx_it3: other.chunk_hash_lookup.iter()`
            invariant
                vstd::std_specs::hash::obeys_key_model::<MerkleHash>(), lb == other.chunk_hash_lookup@, iter_items(vx_it3.seq(), lb), all_done(vx_it3.seq(), lb),
                cas_content@ =~= union_right(ca, cb), is_union_files(file_content@, fa, fb),
                /*@C10*/ part_union(chunk_hash_lookup@, la, lb, vx_it3.seq(), vx_it3.index@ as int),
            ensures chunk_hash_lookup@ =~= union_right(la, lb),
//@ before `chunk_hash_lookup.insert(*k, vx_clone_pair(v));`
            proof { lemma_done_step(vx_it3.seq(), vx_it3.index@ as int); assert(lb.contains_key(*vx_it3.seq()[vx_it3.index@ as int].0)); }
//@ end
//@ extract mdb_shard/src/shard_in_memory.rs in `impl MDBInMemoryShard` fn difference
//@ ret res
//@ rules R19b R4n
//@ subst `vx_map_insert(&mut vx_col3, *k, v.clone())` => `vx_map_insert(&mut vx_col3, *k, vx_clone_pair(v))` :: R7 outline: built-in Clone of a tuple
//@ contract
        ensures
            res matches Ok(s) ==> {
                // exactly what the SECOND operand holds under keys the FIRST does not have — in all three maps
                &&& /*@C10*/ s.cas_content@ =~= diff_right(self.cas_content@, other.cas_content@)
                &&& /*@C10*/ s.file_content@ =~= diff_right(self.file_content@, other.file_content@)
                &&& /*@C10*/ s.chunk_hash_lookup@ =~= diff_right(self.chunk_hash_lookup@, other.chunk_hash_lookup@)
                &&& /*@C10*/ size_recomputed(s)
            },
//@ body-start
        let ghost ca = self.cas_content@; let ghost cb = other.cas_content@; let ghost fa = self.file_content@; let ghost fb = other.file_content@;
        let ghost la = self.chunk_hash_lookup@; let ghost lb = other.chunk_hash_lookup@;
        proof {
            axiom_merklehash_total_order(); axiom_merklehash_key_model();
            assert forall|r: Seq<(&MerkleHash, &Arc<MDBCASInfo>)>| #[trigger] iter_items(r, cb) implies all_done(r, cb) by { lemma_done_all(r, cb); }
            assert forall|r: Seq<(&MerkleHash, &MDBFileInfo)>| #[trigger] iter_items(r, fb) implies all_done(r, fb) by { lemma_done_all(r, fb); }
            assert forall|r: Seq<(&MerkleHash, &(Arc<MDBCASInfo>, u64))>| #[trigger] iter_items(r, lb) implies all_done(r, lb) by { lemma_done_all(r, lb); }
        }
//@ loop 1
            invariant
                vstd::laws_cmp::obeys_cmp::<MerkleHash>(), cb == other.cas_content@, ca == self.cas_content@, iter_items(vx_it1.seq(), cb), all_done(vx_it1.seq(), cb),
                /*@C10*/ part_diff(mv::<_, MerkleHash, Arc<MDBCASInfo>>(vx_col1), ca.dom(), cb, vx_it1.seq(), vx_it1.index@ as int),
            ensures mv::<_, MerkleHash, Arc<MDBCASInfo>>(vx_col1) =~= diff_right(ca, cb),
//@ before `if !self.cas_content.contains_key(k)` #1
            proof { lemma_done_step(vx_it1.seq(), vx_it1.index@ as int); assert(cb.contains_key(*vx_it1.seq()[vx_it1.index@ as int].0)); }
//@ loop 2
            invariant
                vstd::laws_cmp::obeys_cmp::<MerkleHash>(), fb == other.file_content@, fa == self.file_content@, iter_items(vx_it2.seq(), fb), all_done(vx_it2.seq(), fb),
                /*@C10*/ part_diff(mv::<_, MerkleHash, MDBFileInfo>(vx_col2), fa.dom(), fb, vx_it2.seq(), vx_it2.index@ as int),
            ensures mv::<_, MerkleHash, MDBFileInfo>(vx_col2) =~= diff_right(fa, fb),
//@ before `if !self.file_content.contains_key(k)`
            proof { lemma_done_step(vx_it2.seq(), vx_it2.index@ as int); assert(fb.contains_key(*vx_it2.seq()[vx_it2.index@ as int].0)); }
//@ loop 3
            invariant
                vstd::std_specs::hash::obeys_key_model::<MerkleHash>(), lb == other.chunk_hash_lookup@, la == self.chunk_hash_lookup@, iter_items(vx_it3.seq(), lb), all_done(vx_it3.seq(), lb),
                /*@C10*/ part_diff(mv::<_, MerkleHash, (Arc<MDBCASInfo>, u64)>(vx_col3), la.dom(), lb, vx_it3.seq(), vx_it3.index@ as int),
            ensures mv::<_, MerkleHash, (Arc<MDBCASInfo>, u64)>(vx_col3) =~= diff_right(la, lb),
//@ before `if !self.chunk_hash_lookup.contains_key(k)`
            proof { lemma_done_step(vx_it3.seq(), vx_it3.index@ as int); assert(lb.contains_key(*vx_it3.seq()[vx_it3.index@ as int].0)); }
//@ end
}

} // verus!
fn main() {}
