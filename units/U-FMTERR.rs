//@ unit U-FMTERR
//@ props C08
//@ verus-args --rlimit 100
//@ gsubst `anyhow::Error` => `AnyhowError` :: R11 stub type for the anyhow dependency (opaque error value)
//@ gsubst `std::io::Error` => `IoError` :: R11 stub type (opaque error value)
//@ gsubst `lz4_flex::frame::Error` => `Lz4Error` :: R11 stub type (opaque error value)
//@ gsubst `Infallible` => `VxInfallible` :: R11 stub type (opaque error value)
#![allow(non_snake_case, unused)]
use vstd::prelude::*;
verus! {
global size_of usize == 8;

//@ include prelude/xorbidx_types.rs

//@ extract cas_object/src/error.rs enum CasObjectError
//@ end

// ---- format errors become rejections (error.rs) ------------------------------------------------------------------------
//@ extract cas_object/src/error.rs trait Validate
//@ subst `Result<Option<T>>` => `Result<Option<T>, CasObjectError>` :: expansion of the crate-local alias `type Result<T> = std::result::Result<T, CasObjectError>` (error.rs:35)
//@ end

impl<T> Validate<T> for Result<T, CasObjectError> {
//@ extract cas_object/src/error.rs in `impl<T> Validate<T> for Result<T>` fn ok_for_format_error
//@ ret r
//@ subst `Result<Option<T>>` => `Result<Option<T>, CasObjectError>` :: expansion of the crate-local alias `type Result<T>` (error.rs:35)
//@ contract
        ensures
            /*@C08*/ match self {
                // a value is passed through
                Ok(v) => r == Ok::<Option<T>, CasObjectError>(Some(v)),
                // a format error is a rejection, not an error
                Err(CasObjectError::FormatError(_)) => r == Ok::<Option<T>, CasObjectError>(None),
                // every other error is propagated unchanged
                Err(e) => r == Err::<Option<T>, CasObjectError>(e),
            },
//@ end
}

// ---- bounded preallocation (cas_object_format.rs:35-43) -------------------------------------------------------------------
//@ extract merkledb/src/constants.rs const TARGET_CDC_CHUNK_SIZE
//@ end
//@ extract merkledb/src/constants.rs const IDEAL_CAS_BLOCK_SIZE
//@ end
//@ extract cas_object/src/cas_object_format.rs const AVERAGE_NUM_CHUNKS_PER_XORB
//@ end

//@ extract cas_object/src/cas_object_format.rs fn prealloc_num_chunks
//@ ret r
//@ contract
    ensures
        // never more than the declared count, never more than the stated cap (9/8 of the average chunk count of a xorb), whatever is declared
        /*@C08*/ r <= declared_size,
        /*@C08*/ r <= AVERAGE_NUM_CHUNKS_PER_XORB * 9 / 8,
        /*@C08*/ r <= 1152,
        /*@C08*/ r == declared_size || r == AVERAGE_NUM_CHUNKS_PER_XORB * 9 / 8,
//@ end

} // verus!
fn main() {}
