//@ unit U-CACHEACCT
//@ props C13
//@ verus-args --rlimit 100
//@ gsubst `VerificationCell<CacheItem>` => `CacheItem` :: R11 stub: the wrapper `VerificationCell<T>` derefs to its `T` (Deref/AsRef/PartialEq all forward to `inner`); its only other content is an interior-mutable `Arc<AtomicBool>` flag that no accounting statement reads. Verus has no user `Deref`, so the wrapper is erased to its payload
//@ gsubst `MutexGuard<'_, CacheState>` => `CacheState` :: R11 guard erasure: every access to the state goes through the guard's `DerefMut`; `&mut MutexGuard<CacheState>` is used exactly as `&mut CacheState`
#![feature(allocator_api)]
#![allow(non_snake_case, unused)]
use vstd::prelude::*;
use vstd::std_specs::hash::*;
use vstd::std_specs::cmp::PartialEqSpec;
use vstd::std_specs::btree::{borrowed_key_mutated, lemma_borrowed_key_mutated_deref};
use std::collections::{HashMap, HashSet};
use std::hash::{Hash, BuildHasher};
use std::borrow::Borrow;
verus! {
global size_of usize == 8;

// ---- stub types of dependencies (R11) ------------------------------------------------------------------------------
#[derive(Eq, Hash)]
pub struct Key { pub prefix: String, pub hash: [u64; 4] }
impl PartialEq for Key {
    #[verifier::external_body]
    fn eq(&self, other: &Self) -> (r: bool) { unimplemented!() }
}
impl Clone for Key {
    #[verifier::external_body]
    fn clone(&self) -> (r: Key) ensures r == *self { unimplemented!() }
}
broadcast proof fn axiom_key_model()
    ensures #[trigger] obeys_key_model::<Key>()
{ admit(); }

#[derive(Eq, Hash)]
pub struct PathBuf { pub id: u64 }
impl PartialEq for PathBuf {
    #[verifier::external_body]
    fn eq(&self, other: &Self) -> (r: bool) { unimplemented!() }
}
pub struct StateHandle { pub id: u64 }
pub enum ChunkCacheError { General, IO, Parse, BadRange, CacheEmpty, Infallible, LockPoison, InvalidArguments }

//@ extract cas_types/src/lib.rs struct Range
//@ end
impl<Idx: Copy> Copy for Range<Idx> {}
impl<Idx: Copy> Clone for Range<Idx> {
    #[verifier::external_body]
    fn clone(&self) -> (r: Self) ensures r == *self { unimplemented!() }
}
//@ extract cas_types/src/lib.rs type ChunkRange
//@ end
//@ extract chunk_cache/src/disk/cache_item.rs struct CacheItem
//@ end
// derived `PartialEq` on CacheItem / Range compares every field
impl vstd::std_specs::cmp::PartialEqSpecImpl for CacheItem {
    open spec fn obeys_eq_spec() -> bool { true }
    open spec fn eq_spec(&self, other: &Self) -> bool { *self == *other }
}
impl PartialEq for CacheItem {
    #[verifier::external_body]
    fn eq(&self, other: &Self) -> (r: bool) { unimplemented!() }
}
pub struct VerificationCell { pub x: u8 }
impl VerificationCell {
    fn new_verified(inner: CacheItem) -> (r: CacheItem) ensures r == inner { inner }
    fn new_unverified(inner: CacheItem) -> (r: CacheItem) ensures r == inner { inner }
}
//@ extract chunk_cache/src/disk.rs struct CacheState
//@ end
//@ extract chunk_cache/src/disk.rs struct DiskCache
//@ subst `Arc<Mutex<CacheState>>` => `StateHandle` :: R11 stub: the mutex handle is never touched inside a critical section
//@ end

// ---- assumed specifications of std functions that return `&mut` ----------------------------------------------------
pub assume_specification<'a, K, V, S, A, Q> [std::collections::HashMap::<K, V, S, A>::get_mut] (m: &'a mut HashMap<K, V, S, A>, k: &Q) -> (r: Option<&'a mut V>)
    where
        A: std::alloc::Allocator,
        K: Eq + Hash + Borrow<Q>,
        Q: std::marker::MetaSized + Hash + Eq + ?Sized,
        S: BuildHasher,
    ensures
        obeys_key_model::<K>() && builds_valid_hashers::<S>() ==> match r {
            Some(v) => contains_borrowed_key(old(m)@, k)
                && maps_borrowed_key_to_value(old(m)@, k, *v)
                && borrowed_key_mutated(old(m)@, final(m)@, k, *v, *final(v)),
            None => !contains_borrowed_key(old(m)@, k) && final(m)@ == old(m)@,
        },
;
// R7 outline of `state.inner.entry(key.clone()).or_default()` (the body is that expression)
#[verifier::external_body]
fn vx_entry_or_default<'a>(m: &'a mut HashMap<Key, Vec<CacheItem>>, k: Key) -> (r: &'a mut Vec<CacheItem>)
    ensures
        r@ == (if old(m)@.contains_key(k) { old(m)@[k]@ } else { Seq::<CacheItem>::empty() }),
        final(m)@ == old(m)@.insert(k, *final(r)),
{ m.entry(k).or_default() }
// R7 outline of `rand::random::<usize>()`: an arbitrary value
#[verifier::external_body]
fn vx_random_usize() -> usize { unimplemented!() }

// ---- abstract view and the lock invariant --------------------------------------------------------------------------
spec fn items_bytes(s: Seq<CacheItem>) -> int decreases s.len() {
    if s.len() == 0 { 0 } else { items_bytes(s.drop_last()) + s.last().len as int }
}
proof fn lemma_bytes_nonneg(s: Seq<CacheItem>) ensures items_bytes(s) >= 0 decreases s.len() {
    if s.len() > 0 { lemma_bytes_nonneg(s.drop_last()); }
}
proof fn lemma_bytes_push(s: Seq<CacheItem>, x: CacheItem) ensures items_bytes(s.push(x)) == items_bytes(s) + x.len {
    assert(s.push(x).drop_last() =~= s);
}
proof fn lemma_bytes_update(s: Seq<CacheItem>, i: int, x: CacheItem)
    requires 0 <= i < s.len()
    ensures items_bytes(s.update(i, x)) == items_bytes(s) - s[i].len + x.len
    decreases s.len()
{
    if i == s.len() - 1 {
        assert(s.update(i, x).drop_last() =~= s.drop_last());
    } else {
        lemma_bytes_update(s.drop_last(), i, x);
        assert(s.update(i, x).drop_last() =~= s.drop_last().update(i, x));
    }
}
proof fn lemma_bytes_remove(s: Seq<CacheItem>, i: int)
    requires 0 <= i < s.len()
    ensures items_bytes(s.remove(i)) == items_bytes(s) - s[i].len
    decreases s.len()
{
    if i == s.len() - 1 {
        assert(s.remove(i) =~= s.drop_last());
    } else {
        lemma_bytes_remove(s.drop_last(), i);
        assert(s.remove(i).drop_last() =~= s.drop_last().remove(i));
        assert(s.remove(i).last() == s.last());
    }
}
proof fn lemma_item_le_bytes(s: Seq<CacheItem>, i: int)
    requires 0 <= i < s.len()
    ensures s[i].len <= items_bytes(s)
{ lemma_bytes_remove(s, i); lemma_bytes_nonneg(s.remove(i)); }
proof fn lemma_incr_bound(tr: Seq<usize>, n: int, j: int)
    requires
        forall|a: int, b: int| 0 <= a < b < tr.len() ==> tr[a] < tr[b],
        forall|a: int| 0 <= a < tr.len() ==> tr[a] < n,
        0 <= j < tr.len(),
    ensures tr[j] + (tr.len() - 1 - j) < n
    decreases tr.len() - j
{ if j < tr.len() - 1 { lemma_incr_bound(tr, n, j + 1); } }
spec fn swap_removed(s: Seq<CacheItem>, i: int) -> Seq<CacheItem> { s.update(i, s.last()).drop_last() }
proof fn lemma_bytes_swap_remove(s: Seq<CacheItem>, i: int)
    requires 0 <= i < s.len()
    ensures items_bytes(swap_removed(s, i)) == items_bytes(s) - s[i].len
{
    lemma_bytes_update(s, i, s.last());
}

spec fn fv(v: Vec<CacheItem>, bytes: bool) -> int { if bytes { items_bytes(v@) } else { v@.len() as int } }
spec fn msum(m: Map<Key, Vec<CacheItem>>, bytes: bool) -> int
    decreases m.dom().len() via msum_dec
{
    if m.dom().len() == 0 { 0 } else { let k = m.dom().choose(); fv(m[k], bytes) + msum(m.remove(k), bytes) }
}
#[via_fn]
proof fn msum_dec(m: Map<Key, Vec<CacheItem>>, bytes: bool) {
    if m.dom().len() != 0 {
        let k = m.dom().choose();
        assert(m.dom().contains(k));
        assert(m.remove(k).dom() =~= m.dom().remove(k));
    }
}
proof fn lemma_msum_pick(m: Map<Key, Vec<CacheItem>>, k: Key, b: bool)
    requires m.contains_key(k)
    ensures msum(m, b) == fv(m[k], b) + msum(m.remove(k), b)
    decreases m.dom().len()
{
    let c = m.dom().choose();
    assert(m.dom().len() != 0) by { if m.dom().len() == 0 { assert(m.dom() =~= Set::<Key>::empty()); } }
    assert(m.dom().contains(c));
    if c != k {
        assert(m.remove(c).dom() =~= m.dom().remove(c));
        assert(m.remove(k).dom() =~= m.dom().remove(k));
        lemma_msum_pick(m.remove(c), k, b);
        lemma_msum_pick(m.remove(k), c, b);
        assert(m.remove(c).remove(k) =~= m.remove(k).remove(c));
    }
}
proof fn lemma_msum_insert(m: Map<Key, Vec<CacheItem>>, k: Key, v: Vec<CacheItem>, b: bool)
    ensures msum(m.insert(k, v), b) == msum(m, b) - (if m.contains_key(k) { fv(m[k], b) } else { 0 }) + fv(v, b)
{
    let m2 = m.insert(k, v);
    lemma_msum_pick(m2, k, b);
    assert(m2.remove(k) =~= m.remove(k));
    if m.contains_key(k) { lemma_msum_pick(m, k, b); } else { assert(m.remove(k) =~= m); }
}
proof fn lemma_msum_remove(m: Map<Key, Vec<CacheItem>>, k: Key, b: bool)
    requires m.contains_key(k)
    ensures msum(m.remove(k), b) == msum(m, b) - fv(m[k], b)
{ lemma_msum_pick(m, k, b); }
proof fn lemma_msum_nonneg(m: Map<Key, Vec<CacheItem>>, b: bool)
    ensures msum(m, b) >= 0
    decreases m.dom().len()
{
    if m.dom().len() != 0 {
        let c = m.dom().choose();
        assert(m.dom().contains(c));
        assert(m.remove(c).dom() =~= m.dom().remove(c));
        lemma_msum_nonneg(m.remove(c), b);
        lemma_bytes_nonneg(m[c]@);
    }
}
// a state that tracks no item tracks no byte
proof fn lemma_no_items_no_bytes(m: Map<Key, Vec<CacheItem>>)
    requires msum(m, false) == 0
    ensures msum(m, true) == 0
    decreases m.dom().len()
{
    if m.dom().len() != 0 {
        let c = m.dom().choose();
        assert(m.dom().contains(c));
        assert(m.remove(c).dom() =~= m.dom().remove(c));
        lemma_msum_nonneg(m.remove(c), false);
        lemma_no_items_no_bytes(m.remove(c));
        assert(m[c]@.len() == 0);
    }
}
// one list never holds more than the whole state
proof fn lemma_msum_ge_one(m: Map<Key, Vec<CacheItem>>, k: Key, b: bool)
    requires m.contains_key(k)
    ensures msum(m, b) >= fv(m[k], b)
{
    lemma_msum_pick(m, k, b);
    assert(m.remove(k).dom() =~= m.dom().remove(k));
    lemma_msum_nonneg(m.remove(k), b);
}

// the iteration order of `HashMap::iter`: a duplicate-free enumeration of the map's pairs
spec fn pairs_count<'a>(s: Seq<(&'a Key, &'a Vec<CacheItem>)>) -> int decreases s.len() {
    if s.len() == 0 { 0 } else { pairs_count(s.drop_last()) + s.last().1@.len() }
}
spec fn pairs_of<'a>(s: Seq<(&'a Key, &'a Vec<CacheItem>)>, m: Map<Key, Vec<CacheItem>>) -> bool {
    &&& s.len() == m.dom().len()
    &&& s.no_duplicates()
    &&& forall|i: int| 0 <= i < s.len() ==> m.contains_key(*(#[trigger] s[i]).0) && m[*s[i].0] == *s[i].1
}
proof fn lemma_pairs_total<'a>(s: Seq<(&'a Key, &'a Vec<CacheItem>)>, m: Map<Key, Vec<CacheItem>>)
    requires pairs_of(s, m)
    ensures pairs_count(s) == msum(m, false)
    decreases s.len()
{
    if s.len() == 0 {
    } else {
        let k = *s.last().0;
        let s1 = s.drop_last();
        let m1 = m.remove(k);
        lemma_msum_pick(m, k, false);
        assert(m1.dom() =~= m.dom().remove(k));
        assert forall|i: int| 0 <= i < s1.len() implies m1.contains_key(*(#[trigger] s1[i]).0) && m1[*s1[i].0] == *s1[i].1 by {
            assert(s1[i] == s[i]);
            if *s[i].0 == k {
                assert(s[i] == s[s.len() - 1]);
            }
        }
        assert(s1.no_duplicates());
        lemma_pairs_total(s1, m1);
    }
}
proof fn lemma_pairs_prefix<'a>(s: Seq<(&'a Key, &'a Vec<CacheItem>)>, i: int)
    requires 0 <= i <= s.len()
    ensures 0 <= pairs_count(s.subrange(0, i)) <= pairs_count(s)
    decreases s.len() - i
{
    if i == s.len() {
        assert(s.subrange(0, i) =~= s);
        lemma_pairs_nonneg(s);
    } else {
        lemma_pairs_prefix(s, i + 1);
        assert(s.subrange(0, i + 1).drop_last() =~= s.subrange(0, i));
        lemma_pairs_nonneg(s.subrange(0, i));
    }
}
proof fn lemma_pairs_nonneg<'a>(s: Seq<(&'a Key, &'a Vec<CacheItem>)>)
    ensures pairs_count(s) >= 0
    decreases s.len()
{ if s.len() > 0 { lemma_pairs_nonneg(s.drop_last()); } }

// configuration predicate: capacities up to 1 EiB (the default is 10 GiB); keeps the `i64` arithmetic of `maybe_evict` exact
spec fn cap_ok(capacity: u64) -> bool { 0 < capacity <= 0x1000_0000_0000_0000 }

// THE LOCK INVARIANT (C13): the counters equal the count and the summed lengths of the tracked items
spec fn acct_ok(st: CacheState) -> bool {
    &&& st.num_items as int == msum(st.inner@, false)
    &&& st.total_bytes as int == msum(st.inner@, true)
}
// arithmetic frame carried with it: what initialisation can load (stops at 2*capacity, every item <= capacity)
spec fn inv(st: CacheState, capacity: u64) -> bool {
    &&& acct_ok(st)
    &&& st.total_bytes <= 3 * capacity
}

impl DiskCache {
    // stub (R11): `item_path` = cache_root.join(key_dir(key)).join(cache_item.file_name()?) — `file_name` writes exactly
    // CACHE_ITEM_FILE_NAME_BUF_SIZE = 4+4+8+4 bytes into a buffer of that size, so it never fails
    #[verifier::external_body]
    fn item_path(&self, key: &Key, cache_item: &CacheItem) -> (r: Result<PathBuf, ChunkCacheError>)
        ensures r is Ok
    { unimplemented!() }

//@ extract chunk_cache/src/disk.rs in `impl DiskCache` fn random_item
//@ ret r
//@ rules cacheacct.R18
//@ subst `rand::random::<usize>()` => `vx_random_usize()` :: R7 outline: the random draw is an arbitrary usize
//@ contract
        requires state.num_items as int == msum(state.inner@, false),
        ensures
            /*@C13,C12*/ match r {
                Some((k, i)) => state.inner@.contains_key(k) && i < state.inner@[k]@.len(),
                None => state.num_items == 0,
            },
//@ after `let mut count = 0;`
        proof { broadcast use axiom_key_model; }
//@ loop 1
            invariant
                random_item < num_items, num_items as int == msum(state.inner@, false),
                pairs_of(vx_it1.seq(), state.inner@),
                count as int == pairs_count(vx_it1.seq().subrange(0, vx_it1.index@)),
                count <= random_item,
                vx_it1.index@ < vx_it1.seq().len(),
//@ before `if random_item < count + items.len()`
            proof {
                let s = vx_it1.seq(); let i = vx_it1.index@;
                lemma_pairs_total(s, state.inner@);
                lemma_pairs_prefix(s, i + 1);
                assert(s.subrange(0, i + 1).drop_last() =~= s.subrange(0, i));
                assert(s.subrange(0, i + 1).last() == s[i]);
            }
//@ after `count += items.len();`
            proof {
                let s = vx_it1.seq(); let i = vx_it1.index@;
                assert(i + 1 == s.len() ==> s.subrange(0, i + 1) =~= s);
            }
//@ before `None` #2
        proof {
            assert(false);
        }
//@ end

//@ extract chunk_cache/src/disk.rs in `impl DiskCache` fn maybe_evict
//@ ret r
//@ contract
        requires cap_ok(self.capacity), inv(*old(state), self.capacity), expected_add <= self.capacity,
        ensures
            /*@C13,C12*/ inv(*final(state), self.capacity),
            /*@C13,C12*/ r is Ok ==> final(state).total_bytes + expected_add <= self.capacity,
            r is Ok,
            final(state).total_bytes <= old(state).total_bytes, final(state).num_items <= old(state).num_items,
//@ loop 1
            invariant
                state.num_items <= old(state).num_items,
                cap_ok(self.capacity), inv(*state, self.capacity), expected_add <= self.capacity,
                total_bytes == old(state).total_bytes,
                to_remove as int == total_bytes as int - self.capacity as int + expected_add as int,
                bytes_removed as int == total_bytes as int - state.total_bytes as int,
                state.total_bytes <= total_bytes, total_bytes <= 3 * self.capacity,
            ensures to_remove <= bytes_removed || state.num_items == 0,
            decreases state.num_items,
//@ before `let items = state.inner.get_mut(&key)`
                let ghost m0 = state.inner@;
                proof { broadcast use axiom_key_model; broadcast use lemma_borrowed_key_mutated_deref; }
//@ after `.ok_or(ChunkCacheError::Infallible)?;`
                let ghost v0 = *items; let ghost mut v1 = *items;
                proof { lemma_item_le_bytes(v0@, idx as int); lemma_msum_ge_one(m0, key, true); lemma_msum_ge_one(m0, key, false); }
//@ after `items.remove(idx);`
                proof { v1 = *items; }
//@ before `state.total_bytes -= len;`
                proof {
                    // the map is now m0 with `key` bound to the shortened list, or that binding removed
                    let mi = m0.insert(key, v1);
                    lemma_msum_insert(m0, key, v1, true); lemma_msum_insert(m0, key, v1, false);
                    lemma_bytes_remove(v0@, idx as int);
                    lemma_msum_remove(mi, key, true); lemma_msum_remove(mi, key, false);
                }
//@ before `Ok(paths)`
        proof { if state.num_items == 0 { lemma_no_items_no_bytes(state.inner@); } }
//@ end


//@ extract chunk_cache/src/disk.rs in `impl DiskCache` region put_impl
//@ from-after `let mut state = self.state.lock()?;`
//@ to-before `drop(state);`
//@ sig `fn put_cs(&self, state: &mut CacheState, key: &Key, cache_item: CacheItem) -> (r: Result<(HashSet<PathBuf>, Vec<PathBuf>), ChunkCacheError>)`
//@ epilogue `Ok((overlapping_item_paths, evicted_paths))`
//@ rules R4a cacheacct.R18
//@ subst `self.maybe_evict(&mut state,` => `self.maybe_evict(state,` :: R11 guard erasure: `&mut MutexGuard<CacheState>` is passed where `&mut CacheState` is meant
//@ subst `state.inner.entry(key.clone()).or_default()` => `vx_entry_or_default(&mut state.inner, key.clone())` :: R7 outline: `Entry` API; the outlined fn's body is this expression, its contract (view of the returned list; map = old map with the key bound to the final list) is assumed
//@ contract
        requires
            cap_ok(self.capacity), inv(*old(state), self.capacity),
            cache_item.len <= self.capacity,          // C13: "provided no single item is larger than the capacity"
            old(state).num_items < usize::MAX,        // address space: every tracked item occupies memory
        ensures
            /*@C13,C12*/ inv(*final(state), self.capacity),
            /*@C13,C12*/ r is Ok ==> final(state).total_bytes <= self.capacity,
            r is Ok,
            final(state).inner@.contains_key(*key) && final(state).inner@[*key]@.len() > 0 && final(state).inner@[*key]@.last() == cache_item,
//@ body-start
        let ghost m0 = state.inner@; let ghost ci = cache_item;
        proof { broadcast use axiom_key_model; }
//@ before `let mut to_remove: Vec<usize> = Vec::new();`
        let ghost v0 = *items;
//@ loop 1
            invariant
                *items == v0,
                forall|j: int| 0 <= j < to_remove@.len() ==> to_remove@[j] < i,
                forall|a: int, b: int| 0 <= a < b < to_remove@.len() ==> to_remove@[a] < to_remove@[b],
//@ after `let num_items_rm = to_remove.len();`
        let ghost tr = to_remove@;
        proof {
            if m0.contains_key(*key) { lemma_msum_ge_one(m0, *key, true); lemma_msum_ge_one(m0, *key, false); }
            lemma_bytes_nonneg(v0@);
        }
//@ loop 2
            invariant
                vx_it2.seq() == tr.reverse(),
                forall|j: int| 0 <= j < tr.len() ==> tr[j] < v0@.len(),
                forall|a: int, b: int| 0 <= a < b < tr.len() ==> tr[a] < tr[b],
                items@.len() == v0@.len() - vx_it2.index@,
                items_bytes(v0@) <= u64::MAX,
                // every byte taken out of the list is accounted for in total_bytes_rm
                /*@C13,C12*/ items_bytes(items@) + total_bytes_rm == items_bytes(v0@),
//@ before `let item = items.swap_remove(item_idx);`
            proof { lemma_incr_bound(tr, v0@.len() as int, tr.len() - 1 - vx_it2.index@); }
            let ghost w0 = items@;
//@ after `let item = items.swap_remove(item_idx);`
            proof {
                // property-carrying: what `swap_remove` did to the list, in the terms the byte accounting is stated in
                /*@C13,C12*/ assert(items@ =~= swap_removed(w0, item_idx as int));
                lemma_bytes_swap_remove(w0, item_idx as int);
                lemma_bytes_nonneg(items@);
            }
//@ before `state.num_items -= num_items_rm;`
        let ghost v1 = *items;
        proof {
            // property-carrying: ties the guarded map after the removals to the spec map the counters are compared with
            /*@C13,C12*/ assert(state.inner@ == m0.insert(*key, v1));
            lemma_msum_insert(m0, *key, v1, true); lemma_msum_insert(m0, *key, v1, false);
            lemma_bytes_nonneg(v1@);
        }
//@ before `let item_set =`
        let ghost m2 = state.inner@;
//@ before `Ok((overlapping_item_paths, evicted_paths))`
        let ghost v3 = *item_set;
        proof {
            // property-carrying: the map after the registration is the spec map with the new item appended
            /*@C13,C12*/ assert(state.inner@ == m2.insert(*key, v3));
            lemma_msum_insert(m2, *key, v3, true); lemma_msum_insert(m2, *key, v3, false);
            let base = if m2.contains_key(*key) { m2[*key]@ } else { Seq::<CacheItem>::empty() };
            assert(v3@.drop_last() =~= base);
            assert(items_bytes(Seq::<CacheItem>::empty()) == 0);
            lemma_bytes_push(v3@.drop_last(), ci);
            assert(v3@.drop_last().push(ci) =~= v3@);
        }
//@ end

//@ extract chunk_cache/src/disk.rs in `impl DiskCache` region remove_item
//@ from `if let Some(items) = state.inner.get_mut(key)`
//@ to `state.num_items -= 1; }`
//@ sig `fn remove_item_cs(&self, state: &mut CacheState, key: &Key, cache_item: &CacheItem) -> (r: Result<(), ChunkCacheError>)`
//@ epilogue `Ok(())`
//@ contract
        requires cap_ok(self.capacity), inv(*old(state), self.capacity),
        ensures
            /*@C13,C12*/ inv(*final(state), self.capacity),
            final(state).total_bytes <= old(state).total_bytes,
//@ body-start
        let ghost m0 = state.inner@;
        proof {
            broadcast use axiom_key_model; broadcast use lemma_borrowed_key_mutated_deref;
            assert(m0.contains_key(*key) ==> m0.insert(*key, m0[*key]) =~= m0);
        }
//@ before `let idx = match index_of(items, cache_item)`
                let ghost v0 = *items; let ghost mut v1 = *items;
//@ after `items.swap_remove(idx);`
                proof { v1 = *items; }
//@ before `state.total_bytes -= cache_item.len;`
                proof {
                    let mi = m0.insert(*key, v1);
                    lemma_msum_insert(m0, *key, v1, true); lemma_msum_insert(m0, *key, v1, false);
                    if v1@ =~= swap_removed(v0@, idx as int) { lemma_bytes_swap_remove(v0@, idx as int); }
                    lemma_item_le_bytes(v0@, idx as int); lemma_msum_ge_one(m0, *key, true); lemma_msum_ge_one(m0, *key, false);
                    lemma_msum_remove(mi, *key, true); lemma_msum_remove(mi, *key, false);
                }
//@ end

// the two read-only critical sections: what `num_items()` / `total_bytes()` report is the guarded state's counters, i.e. (by the
// lock invariant) the number and the summed lengths of the tracked items
//@ extract chunk_cache/src/disk.rs in `impl DiskCache` region num_items
//@ block `pub fn num_items(&self) -> Result<usize, ChunkCacheError> {`
//@ optsubst `let state = self.state.lock()?;` => `` :: R11 guard erasure: the guarded state is the parameter
//@ sig `fn num_items_locked(state: &CacheState) -> (r: Result<usize, ChunkCacheError>)`
//@ contract
        requires acct_ok(*state),
        ensures /*@C13,C12*/ r matches Ok(n) && n as int == msum(state.inner@, false),
//@ end
//@ extract chunk_cache/src/disk.rs in `impl DiskCache` region total_bytes
//@ block `pub fn total_bytes(&self) -> Result<u64, ChunkCacheError> {`
//@ optsubst `let state = self.state.lock()?;` => `` :: R11 guard erasure: the guarded state is the parameter
//@ sig `fn total_bytes_locked(state: &CacheState) -> (r: Result<u64, ChunkCacheError>)`
//@ contract
        requires acct_ok(*state),
        ensures /*@C13,C12*/ r matches Ok(n) && n as int == msum(state.inner@, true),
//@ end

//@ extract chunk_cache/src/disk.rs in `impl DiskCache` region initialize_state
//@ from `total_bytes += cache_item.len;`
//@ to `items.push(VerificationCell::new_unverified(cache_item));`
//@ sig `fn init_count_step(mut total_bytes: u64, mut num_items: usize, mut items: Vec<CacheItem>, cache_item: CacheItem, capacity: u64, max_num_bytes: u64) -> (r: (u64, usize, Vec<CacheItem>))`
//@ epilogue `(total_bytes, num_items, items)`
//@ contract
        requires
            cap_ok(capacity), max_num_bytes == 2 * capacity,
            total_bytes < max_num_bytes,          // the scan returns as soon as total_bytes >= max_num_bytes
            cache_item.len <= capacity,           // try_parse_cache_file drops files longer than the capacity
            num_items < usize::MAX,
        ensures
            // counters and the pending list advance in lock step
            /*@C13,C12*/ r.2@ == items@.push(cache_item),
            /*@C13,C12*/ r.1 - num_items == r.2@.len() - items@.len(),
            /*@C13,C12*/ r.0 - total_bytes == items_bytes(r.2@) - items_bytes(items@),
            r.0 <= 3 * capacity,
//@ body-start
        proof { lemma_bytes_push(items@, cache_item); }
//@ end

} // impl DiskCache

// ---- directory scan on re-open: which directory entries become tracked items (C13: "every cache file on disk belongs to a
// tracked entry … across re-opening the directory with the same capacity, provided no single item is larger than the capacity")
#[derive(PartialEq, Eq, Structural)]
pub enum ErrorKind { NotFound, PermissionDenied, Other }
pub struct IoError { pub k: u64 }
impl IoError {
    #[verifier::external_body]
    fn kind(&self) -> ErrorKind { unimplemented!() }
}
impl From<IoError> for ChunkCacheError {
    #[verifier::external_body]
    fn from(e: IoError) -> (r: ChunkCacheError) ensures r is IO { ChunkCacheError::IO }
}
impl ChunkCacheError {
    #[verifier::external_body]
    fn general(value: String) -> (r: ChunkCacheError) ensures r is General { unimplemented!() }
}
pub mod io { pub type Result<T> = core::result::Result<T, super::IoError>; }
// R7f outline of `format!` (vxlib/rules_extra/crashfs.py): the message text is irrelevant here
#[verifier::external_body]
fn vx_format(lead: &str, trail: &str) -> String { unimplemented!() }
// a directory entry as the scan sees it: ghost name, and what `stat` says about it (if it still exists when asked)
pub struct DirEntry { pub name: Ghost<Seq<u8>>, pub stat_ok: Ghost<bool>, pub is_file: Ghost<bool>, pub len: Ghost<u64> }
pub struct Metadata { pub is_file: bool, pub len: u64 }
pub struct OsString { pub bytes: Ghost<Seq<u8>> }
impl OsString {
    #[verifier::external_body]
    fn as_encoded_bytes(&self) -> (r: &[u8]) ensures r@ == self.bytes@ { unimplemented!() }
}
impl Metadata {
    fn is_file(&self) -> (r: bool) ensures r == self.is_file { self.is_file }
    fn len(&self) -> (r: u64) ensures r == self.len { self.len }
}
impl DirEntry {
    // stat: fails iff the entry is gone / unreadable (`stat_ok`), otherwise reports the entry's kind and length
    #[verifier::external_body]
    fn metadata(&self) -> (r: io::Result<Metadata>)
        ensures r is Ok <==> self.stat_ok@, r matches Ok(md) ==> md.is_file == self.is_file@ && md.len == self.len@
    { unimplemented!() }
    #[verifier::external_body]
    fn file_name(&self) -> (r: OsString) ensures r.bytes@ == self.name@ { unimplemented!() }
    #[verifier::external_body]
    fn path(&self) -> PathBuf { unimplemented!() }
}
#[verifier::external_body]
fn remove_file(path: PathBuf) -> (r: Result<(), ChunkCacheError>) { unimplemented!() }
// what an item file name decodes to (base64 of range start/end, len, crc), if it is one
uninterp spec fn parse_name(name: Seq<u8>) -> Option<CacheItem>;
impl CacheItem {
    // stub of `CacheItem::parse` (cache_item.rs:143-162: base64 decode + four little-endian fields + start < end)
    #[verifier::external_body]
    fn parse(file_name: &[u8]) -> (r: Result<CacheItem, ChunkCacheError>)
        ensures match r { Ok(ci) => parse_name(file_name@) == Some(ci), Err(_) => parse_name(file_name@) is None }
    { unimplemented!() }
}
//@ extract chunk_cache/src/disk.rs const DEFAULT_CHUNK_CACHE_CAPACITY
//@ end
type OptionResult<T, E> = Result<Option<T>, E>;
// a directory entry that is a complete cache item file as far as the scan can tell without reading it
spec fn is_item_file(e: DirEntry, ci: CacheItem) -> bool {
    e.stat_ok@ && e.is_file@ && parse_name(e.name@) == Some(ci) && ci.len == e.len@
}

//@ extract chunk_cache/src/disk.rs fn try_parse_cache_file
//@ ret r
//@ rules crashfs.R7f
//@ contract
    ensures
        // soundness: whatever gets tracked is an item file no longer than the capacity, counted with its real length
        // (this is what `init_count_step` needs: `cache_item.len <= capacity`)
        /*@C13,C12*/ r matches Ok(Some(ci)) ==> file_result is Ok && is_item_file(file_result->Ok_0, ci) && ci.len <= capacity,
        // completeness: an item file that fits the capacity IS tracked — `Ok(None)` never swallows one
        /*@C13,C12*/ ({ let e = file_result->Ok_0; let ci = parse_name(e.name@).unwrap();
            (file_result is Ok && parse_name(e.name@) is Some && is_item_file(e, ci) && ci.len <= capacity && ci.len <= DEFAULT_CHUNK_CACHE_CAPACITY)
                ==> r == Ok::<Option<CacheItem>, ChunkCacheError>(Some(ci)) }),
//@ end

// ---- the scan of ONE key directory (inner loop of initialize_state), with the counters and the per-key list as parameters ----
// `std::fs::ReadDir` stub: an iterator with no Verus specification (R4i desugars the `for`); `left` bounds what it can still yield
pub struct ReadDir { pub left: Ghost<int> }
impl ReadDir {
    #[verifier::external_body]
    fn into_iter(self) -> (r: ReadDir) ensures r.left@ == self.left@ { unimplemented!() }
    #[verifier::external_body]
    fn next(&mut self) -> (r: Option<io::Result<DirEntry>>)
        ensures r is Some ==> old(self).left@ > 0 && final(self).left@ == old(self).left@ - 1, r is None ==> final(self).left@ == old(self).left@
    { unimplemented!() }
}
impl CacheState {
//@ extract chunk_cache/src/disk.rs in `impl CacheState` fn new
//@ ret r
//@ contract
        ensures r.inner == state, r.num_items == num_items, r.total_bytes == total_bytes,
//@ end
}
impl DiskCache {
// The region is the loop over one key directory plus the statement that hands the per-key list to the state.  Its normal exit is
// packed as the state the scan would return if it ended here (R8 epilogue), so EVERY way out of the region — the early return when
// 2*capacity is reached, falling out of the loop, and (R8c) a `continue` of an enclosing loop — must leave counters that agree with
// what is tracked.  Errors leave no state.
//@ extract chunk_cache/src/disk.rs in `impl DiskCache` region initialize_state
//@ from `for item in key_readdir {`
//@ to `if !items.is_empty() { state.insert(key, items); }`
//@ sig `fn init_scan_key_dir(key_readdir: ReadDir, capacity: u64, max_num_bytes: u64, mut total_bytes: u64, mut num_items: usize, mut items: Vec<CacheItem>, mut state: HashMap<Key, Vec<CacheItem>>, key: Key) -> (r: Result<CacheState, ChunkCacheError>)`
//@ epilogue `Ok(CacheState::new(state, num_items, total_bytes))`
//@ rules cacheacct.R4i cacheacct.R8c
//@ prefix
    #[verifier::exec_allows_no_decreases_clause]
//@ contract
        requires
            cap_ok(capacity), max_num_bytes == 2 * capacity,
            items@.len() == 0, !state@.contains_key(key),          // every key directory is visited once (distinct names, distinct keys)
            num_items as int == msum(state@, false), total_bytes as int == msum(state@, true), total_bytes < max_num_bytes,
            num_items + key_readdir.left@ <= usize::MAX,           // a directory is finite
        ensures
            /*@C13,C12*/ r matches Ok(st) ==> inv(st, capacity),
//@ body-start
        let ghost st0 = state@;
        proof { broadcast use axiom_key_model; assert(items_bytes(items@) == 0); }
//@ loop 1
            invariant
                cap_ok(capacity), max_num_bytes == 2 * capacity, state@ == st0, !st0.contains_key(key),
                /*@C13,C12*/ num_items as int == msum(st0, false) + items@.len(),
                /*@C13,C12*/ total_bytes as int == msum(st0, true) + items_bytes(items@),
                total_bytes < max_num_bytes,
                num_items + vx_it1.left@ <= usize::MAX,
//@ before `items.push(VerificationCell::new_unverified(cache_item));`
            proof { lemma_bytes_push(items@, cache_item); }
//@ before `state.insert(key, items); return`
                let ghost k0 = key; let ghost it0 = items;
                proof { broadcast use axiom_key_model; }
                proof { lemma_msum_insert(st0, key, items, true); lemma_msum_insert(st0, key, items, false); }
//@ before `return Ok(CacheState::new(state, num_items, total_bytes)); }`
                proof { /*@C13,C12*/ assert(state@ == st0.insert(k0, it0)); }   // property-carrying: the state now tracks exactly the pending list under this key
//@ before `if !items.is_empty() {`
            let ghost k0 = key; let ghost it0 = items;
            proof { lemma_msum_insert(st0, key, items, true); lemma_msum_insert(st0, key, items, false); }
//@ after `if !items.is_empty() { state.insert(key, items);`
            proof { /*@C13,C12*/ assert(state@ == st0.insert(k0, it0)); }
//@ end
}

//@ extract chunk_cache/src/disk.rs fn index_of
//@ ret r
//@ rules R4a
//@ contract
    ensures
        match r {
            Some(i) => i < list@.len() && (T::obeys_eq_spec() ==> list@[i as int].eq_spec(value)),
            None => true,
        },
//@ end

} // verus!
fn main() {}
