//@ unit U-SESSREC
//@ props C01 C16 C11
//@ verus-args --rlimit 200
//@ config MAX_XORB_BYTES MAX_XORB_CHUNKS
//@ rules-from cacheacct
//@ gsubst `dyn Client + Send + Sync` => `VxClient` :: R11 stub type for the cas_client trait object (not called by the functions under proof)
//@ gsubst `dyn ProgressUpdater` => `VxProgressUpdater` :: R11 stub type for the progress trait object (not called by the functions under proof)
#![feature(allocator_api)]
#![allow(non_snake_case, unused)]
use vstd::prelude::*;
use std::collections::HashMap;
use std::sync::Arc;
use std::mem::swap;
verus! {
//@ include prelude/dedup_types.rs

//@ include prelude/dedup_model.rs

//@ include prelude/dedup_segments.rs

//@ include prelude/agg_lemmas.rs

//@ include prelude/agg_model.rs

// This unit re-extracts FileUploadSession::process_aggregated_data_as_xorb (also in U-SESSCUT, where it only has a precondition)
// and states WHAT IT HANDS OVER, through an explicit ghost ledger of the three hand-over calls.

// ---- R11 stubs of the session's dependencies (same as U-SESSCUT; no contract unless stated) -----------------------------------------
#[verifier::external_body] #[verifier::accept_recursive_types(T)] pub struct Mutex<T> { _p: std::marker::PhantomData<T> }
#[verifier::external_body] #[verifier::accept_recursive_types(T)] pub struct JoinSet<T> { _p: std::marker::PhantomData<T> }
#[verifier::external_body] pub struct DataProcessingError { _p: () }
pub type Result<T> = std::result::Result<T, DataProcessingError>;
pub struct VxClient { _p: () }
pub struct VxProgressUpdater { _p: () }
pub struct ThreadPool { _p: () }
pub struct TranslatorConfig { _p: () }
pub struct SessionShardInterface { _p: () }
impl Clone for MDBCASInfo {
    #[verifier::external_body]
    fn clone(&self) -> (r: MDBCASInfo) ensures r == *self { unimplemented!() }
}

// ---- the ghost LEDGER of the hand-over ------------------------------------------------------------------------------------------------
// `self` is shared (`&Arc<Self>`), so what the three callees are given is booked in an explicit ledger that the extracted body
// receives as an extra `&mut` parameter; the three call sites are redirected to the ledger's methods by substitutions (the callee
// object is passed along unchanged).  Each stub books its argument ONLY when it returns Ok; on Err nothing is said about the
// ledger (the body under proof returns Err then, and its contract claims nothing on Err).
struct VxLedger {
    added_files: Ghost<Seq<MDBFileInfo>>,   // arguments of successful SessionShardInterface::add_file_reconstruction_info calls, in order
    added_cas: Ghost<Seq<MDBCASInfo>>,      // arguments of successful SessionShardInterface::add_cas_block calls, in order
    registered: Ghost<Seq<RawXorbData>>,    // arguments of successful FileUploadSession::register_new_xorb_for_upload calls, in order
}
// the xorb's chunk list is the latest thing recorded in the session shard
spec fn cas_recorded_last(l: VxLedger, info: MDBCASInfo) -> bool { l.added_cas@.len() > 0 && l.added_cas@.last() == info }
impl VxLedger {
    // stands for SessionShardInterface::add_file_reconstruction_info(&self, file_info)
    #[verifier::external_body]
    fn add_file_reconstruction_info(&mut self, shard: &SessionShardInterface, file_info: MDBFileInfo) -> (r: Result<()>)
        // same precondition as in U-SESSCUT (C15/C02: no unresolved reference in a registered record)
        requires segs_nonzero(file_info.segments@), segs_ok(file_info.segments@, Seq::<MerkleHash>::empty()),
        ensures r is Ok ==> final(self).added_files@ == old(self).added_files@.push(file_info)
                    && final(self).added_cas@ == old(self).added_cas@ && final(self).registered@ == old(self).registered@,
    { unimplemented!() }
    // stands for SessionShardInterface::add_cas_block(&self, cas_block_contents)
    #[verifier::external_body]
    fn add_cas_block(&mut self, shard: &SessionShardInterface, cas_block_contents: MDBCASInfo) -> (r: Result<()>)
        ensures r is Ok ==> final(self).added_cas@ == old(self).added_cas@.push(cas_block_contents)
                    && final(self).added_files@ == old(self).added_files@ && final(self).registered@ == old(self).registered@,
    { unimplemented!() }
    // stands for FileUploadSession::register_new_xorb_for_upload(&self, xorb)
    #[verifier::external_body]
    fn register_new_xorb_for_upload(&mut self, session: &Arc<FileUploadSession>, xorb: RawXorbData) -> (r: Result<()>)
        requires xorb_le_limits(xorb), xorb_bytes_consistent(xorb),
            // C11 ORDER: a non-empty xorb may be handed to the uploader only AFTER its chunk list was recorded with add_cas_block
            /*@C11*/ xorb.cas_info.metadata.num_bytes_in_cas > 0 ==> cas_recorded_last(*old(self), xorb.cas_info),
        ensures r is Ok ==> final(self).registered@ == old(self).registered@.push(xorb)
                    && final(self).added_files@ == old(self).added_files@ && final(self).added_cas@ == old(self).added_cas@,
    { unimplemented!() }
}

// ---- the xorb's byte count -----------------------------------------------------------------------------------------------------------
spec fn sum_arc_len(d: Seq<Arc<[u8]>>) -> nat decreases d.len() {
    if d.len() == 0 { 0 } else { sum_arc_len(d.drop_last()) + d.last()@.len() }
}
spec fn xorb_bytes_consistent(x: RawXorbData) -> bool { x.cas_info.metadata.num_bytes_in_cas == sum_arc_len(x.data@) }
proof fn lemma_arc_sum(d: Seq<Arc<[u8]>>, cs: Seq<Chunk>)
    requires d.len() == cs.len(), forall|i: int| 0 <= i < cs.len() ==> (#[trigger] d[i])@ == cs[i].data@,
    ensures sum_arc_len(d) == sum_data_len(cs),
    decreases d.len()
{
    if d.len() > 0 {
        assert forall|i: int| 0 <= i < cs.drop_last().len() implies (#[trigger] d.drop_last()[i])@ == cs.drop_last()[i].data@ by {
            assert(d.drop_last()[i] == d[i]);
        }
        lemma_arc_sum(d.drop_last(), cs.drop_last());
        assert(d[d.len() - 1]@ == cs[d.len() - 1].data@);
    }
}
proof fn lemma_xorb_bytes(x: RawXorbData, cs: Seq<Chunk>)
    requires xorb_wf(x, cs), chunks_ok(cs),
    ensures xorb_bytes_consistent(x),
{
    lemma_arc_sum(x.data@, cs);
    lemma_sum_data_len(cs);
}
impl RawXorbData {
    spec fn spec_num_bytes(&self) -> usize { self.cas_info.metadata.num_bytes_in_cas as usize }
#[verifier::when_used_as_spec(spec_num_bytes)]
//@ extract deduplication/src/raw_xorb_data.rs in `impl RawXorbData` fn num_bytes
//@ ret r
//@ subst `self.data.iter().map(|c| c.len()).sum::<usize>()` => `sum_arc_len(self.data@)` :: R7 outline (spec form) of an iterator chain inside a debug assertion: the sum of the chunk buffer lengths
//@ contract
        requires xorb_bytes_consistent(*self),      // the debug assertion below
        ensures r == self.cas_info.metadata.num_bytes_in_cas, r == self.spec_num_bytes(),
//@ end
    // concatenation of the chunk buffers (assumed; construction of the xorb payload belongs to U-XORBNAME)
    #[verifier::external_body]
    fn to_vec(&self) -> (r: Vec<u8>)
        ensures r@.len() == sum_arc_len(self.data@),
    { unimplemented!() }
}

// ---- DataAggregator::finalize: the contract proved in U-AGG, plus a spec-level name for its (deterministic) result -------------------
impl DataAggregator {
    // assumed: finalize is a function of the aggregator's value (it is pure computation on `self`); this only NAMES the result so
    // that the caller's postcondition can talk about "the second component of data_agg.finalize()"
    uninterp spec fn spec_finalize(self) -> (RawXorbData, Seq<MDBFileInfo>);
    #[verifier::external_body]
    fn finalize(self) -> (r: (RawXorbData, Vec<MDBFileInfo>))
//@ include prelude/c_agg_finalize.rs
            r.0 == self.spec_finalize().0, r.1@ == self.spec_finalize().1,
    { unimplemented!() }
}

//@ extract data/src/file_upload_session.rs struct FileUploadSession
//@ end

impl FileUploadSession {
// the WHOLE body of process_aggregated_data_as_xorb, lifted (R8 block) so that the ledger can be an extra parameter
//@ extract data/src/file_upload_session.rs in `impl FileUploadSession` region process_aggregated_data_as_xorb
//@ block `data_agg: DataAggregator) -> Result<()> {`
//@ sig `fn process_aggregated_data_as_xorb__body(self: &Arc<Self>, data_agg: DataAggregator, vx_ledger: &mut VxLedger) -> (ret: Result<()>)`
//@ rules R18
//@ subst `self.shard_interface.add_cas_block(` => `vx_ledger.add_cas_block(&self.shard_interface,` :: explicit ghost ledger: the call is booked (callee object passed along)
//@ subst `self.register_new_xorb_for_upload(` => `vx_ledger.register_new_xorb_for_upload(self,` :: explicit ghost ledger: the call is booked (callee object passed along)
//@ subst `self.shard_interface.add_file_reconstruction_info(` => `vx_ledger.add_file_reconstruction_info(&self.shard_interface,` :: explicit ghost ledger: the call is booked (callee object passed along)
//@ contract
        requires data_agg.agg_wf(), data_agg.within_limits(),
        ensures
            // (a) EVERY file record of the aggregate is added to the session shard, in order, whatever the xorb's size
            /*@C01,C16*/ ret is Ok ==> final(vx_ledger).added_files@ =~= old(vx_ledger).added_files@ + data_agg.spec_finalize().1,
            // (b) the aggregate's xorb is registered for upload exactly once (and nothing else is)
            /*@C01,C16,C11*/ ret is Ok ==> final(vx_ledger).registered@ == old(vx_ledger).registered@.push(data_agg.spec_finalize().0),
            // (c) a non-empty xorb's chunk list is recorded in the session shard (before the registration: precondition of the
            //     register stub above)
            /*@C11,C16*/ ret is Ok && data_agg.spec_finalize().0.cas_info.metadata.num_bytes_in_cas > 0 ==>
                final(vx_ledger).added_cas@ == old(vx_ledger).added_cas@.push(data_agg.spec_finalize().0.cas_info),
//@ after `let (xorb, new_files) = data_agg.finalize();`
        let ghost nf = new_files@;
        let ghost l0 = *vx_ledger;
        proof { lemma_xorb_bytes(xorb, data_agg.chunks@); }
//@ loop 1
            invariant
                vx_it1.seq() == nf,
                forall|k: int| 0 <= k < nf.len() ==> segs_nonzero((#[trigger] nf[k]).segments@),
                forall|k: int| 0 <= k < nf.len() ==> segs_ok((#[trigger] nf[k]).segments@, Seq::<MerkleHash>::empty()),
                // the records fed so far are exactly the prefix of the aggregate's file list; the two clauses below carry (b) and (c) through the loop
                // (tagged, not AUX: they are where "registered once" / "chunk list recorded" would break if the loop body touched them)
                /*@C01,C16*/ vx_ledger.added_files@ =~= l0.added_files@ + nf.take(vx_it1.index@),
                /*@C01,C16,C11*/ vx_ledger.registered@ == l0.registered@.push(xorb),
                /*@C11,C16*/ xorb.cas_info.metadata.num_bytes_in_cas > 0 ==> vx_ledger.added_cas@ == l0.added_cas@.push(xorb.cas_info),
//@ end
}

} // verus!
fn main() {}
