//@ unit U-RECONPLAN
//@ props C17
//@ verus-args --rlimit 100
//@ config NUM_CONCURRENT_RANGE_GETS
#![allow(non_snake_case, unused)]
use vstd::prelude::*;
verus! {
global size_of usize == 8;

//@ include prelude/reconplan_math.rs

//@ include prelude/recon_io.rs
// std::cmp::{min,max} have no Verus spec: verified stand-ins.  `min` is generic over the unsigned integer types (u64 is what the
// file uses; an edit that does its term-local arithmetic in u32 / usize must still type-check, so that the /*@C17*/ clauses judge
// it - seeds C17d, C17e); every body below is verified, nothing is assumed.  For u64 the contract reads exactly as before.
pub trait VxInt: Copy { spec fn vx_int(self) -> int; fn vx_le(self, o: Self) -> (r: bool) ensures r == (self.vx_int() <= o.vx_int()); }
impl VxInt for u64 { open spec fn vx_int(self) -> int { self as int } fn vx_le(self, o: Self) -> (r: bool) { self <= o } }
impl VxInt for u32 { open spec fn vx_int(self) -> int { self as int } fn vx_le(self, o: Self) -> (r: bool) { self <= o } }
impl VxInt for usize { open spec fn vx_int(self) -> int { self as int } fn vx_le(self, o: Self) -> (r: bool) { self <= o } }
pub fn min<T: VxInt>(a: T, b: T) -> (r: T) ensures r == if a.vx_int() <= b.vx_int() { a } else { b } { if a.vx_le(b) { a } else { b } }
pub fn max(a: usize, b: usize) -> (r: usize) ensures r == if a >= b { a } else { b } { if a >= b { a } else { b } }

#[derive(Clone, Copy)]
pub struct MerkleHash(pub [u64; 4]);
#[derive(Clone, Copy)]
pub struct HexMerkleHash(pub MerkleHash);

//@ extract cas_types/src/lib.rs struct Range
//@ end
//@ extract cas_types/src/lib.rs type ChunkRange
//@ end
//@ extract cas_types/src/lib.rs type FileRange
//@ end
//@ extract cas_types/src/lib.rs type HttpRange
//@ end
//@ extract cas_types/src/lib.rs struct CASReconstructionTerm
//@ end
//@ extract cas_types/src/lib.rs struct CASReconstructionFetchInfo
//@ end
// `#[derive(PartialEq)]` on `Range` (attributes are dropped by R10): field-wise equality, verified body
impl vstd::std_specs::cmp::PartialEqSpecImpl for Range<u32> {
    open spec fn obeys_eq_spec() -> bool { true }
    closed spec fn eq_spec(&self, other: &Self) -> bool { self.start == other.start && self.end == other.end }
}
impl PartialEq for Range<u32> {
    fn eq(&self, other: &Self) -> (r: bool) { self.start == other.start && self.end == other.end }
}

// progress reporting: `Option<Arc<dyn ProgressUpdater>>`; the update call is outlined (closure over a trait object)
#[verifier::external_body] pub struct ProgressStub { _p: () }
#[verifier::external_body] pub fn vx_progress(p: &ProgressStub, len: u64) { unimplemented!() }

// an enumerated stream of term results: `next()` yields (k, k-th item of `items()`); WHAT order `items()` is in is decided by the
// combinators the code calls (FutStream::buffered / buffer_unordered below)
#[verifier::external_body] pub struct TermStream { _p: () }
impl TermStream {
    pub uninterp spec fn items(&self) -> Seq<Seq<u8>>;
    pub uninterp spec fn pos(&self) -> int;
    #[verifier::external_body]
    pub fn next(&mut self) -> (r: Option<(usize, Result<Vec<u8>>)>)
        ensures
            final(self).items() == old(self).items(),
            old(self).pos() >= old(self).items().len() ==> r is None && final(self).pos() == old(self).pos(),
            old(self).pos() < old(self).items().len() ==> (r matches Some(p) && p.0 == old(self).pos()
                && final(self).pos() == old(self).pos() + 1
                && (p.1 matches Ok(v) ==> v@ == old(self).items()[old(self).pos()])),
    { unimplemented!() }
}

// the parallel writer's task: what `write_term(term, range, file_offset)` was asked to do (the future is run by tokio)
struct TermWriteCall { term: CASReconstructionTerm, term_range: std::ops::Range<usize>, file_offset: u64 }
impl TermWriteCall {
    fn vx_with(self, bytes_written: u64, remaining: u64) -> (r: (TermWriteCall, u64, u64))
        ensures r.0 == self, r.1 == bytes_written, r.2 == remaining,
    { (self, bytes_written, remaining) }
}
#[verifier::external_body] pub struct HttpStub { _p: () }          // Arc<ClientWithMiddleware>
#[verifier::external_body] pub struct CacheStub { _p: () }         // Option<Arc<dyn ChunkCache>>
#[verifier::external_body] pub struct SingleFlightStub { _p: () }  // RangeDownloadSingleFlight
#[verifier::external_body] pub struct SemaphoreStub { _p: () }     // Arc<Semaphore>
#[verifier::external_body] pub struct PermitStub { _p: () }
#[verifier::external_body] pub struct FetchInfoStub { _p: () }     // Arc<HashMap<HexMerkleHash, Vec<CASReconstructionFetchInfo>>>
pub struct TermWriteTask { pub http_client: HttpStub, pub chunk_cache: Option<CacheStub>, pub range_download_single_flight: SingleFlightStub,
    pub fetch_info: FetchInfoStub, pub semaphore: SemaphoreStub, pub output: OutputProvider }
#[verifier::external_body] pub fn vx_acquire(s: &SemaphoreStub) -> (r: Result<PermitStub>) { unimplemented!() }
impl TermWriteTask {
    #[verifier::external_body]
    pub fn clone(&self) -> (r: TermWriteTask) { unimplemented!() }
    #[verifier::external_body]
    fn write_term(self, term: CASReconstructionTerm, term_range: std::ops::Range<usize>, file_offset: u64) -> (r: TermWriteCall)
        ensures r.term == term, r.term_range == term_range, r.file_offset == file_offset,
    { unimplemented!() }
}
// `FuturesUnordered<JoinHandle<Result<u64>>>`: yields every spawned task's result exactly once, in ANY order
pub struct JoinError { pub _p: () }
#[verifier::external_body] pub struct TaskHandles { _p: () }
impl TaskHandles {
    pub uninterp spec fn pending(&self) -> Seq<u64>;    // lengths that the not-yet-joined tasks return
    #[verifier::external_body]
    pub fn next(&mut self) -> (r: Option<std::result::Result<Result<u64>, JoinError>>)
        ensures
            r is None <==> old(self).pending().len() == 0,
            r is None ==> final(self).pending() == old(self).pending(),
            r matches Some(Ok(Ok(l))) ==> exists|k: int| 0 <= k < old(self).pending().len() && l == #[trigger] old(self).pending()[k]
                && final(self).pending() == old(self).pending().remove(k),
    { unimplemented!() }
}
// R7e: the text of an error message (`CasClientError::Other(format!(..))`), unconstrained
#[verifier::external_body] pub fn vx_error_text() -> (r: String) { unimplemented!() }
// R7 outline of `terms.iter().fold(0, |acc, x| acc + x.unpacked_length as u64)` (iterator chain): ASSUMED to be the sum
spec fn sum_unpacked(terms: Seq<CASReconstructionTerm>, n: int) -> int decreases n {
    if n <= 0 { 0 } else { sum_unpacked(terms, n - 1) + terms[n - 1].unpacked_length }
}
#[verifier::external_body]
fn vx_sum_unpacked(terms: &Vec<CASReconstructionTerm>) -> (r: u64)
    requires sum_unpacked(terms@, terms@.len() as int) <= u64::MAX,
    ensures r == sum_unpacked(terms@, terms@.len() as int),
{ terms.iter().fold(0, |acc, x| acc + x.unpacked_length as u64) }

pub open spec fn sum_u64(s: Seq<u64>) -> int decreases s.len() {
    if s.len() == 0 { 0 } else { sum_u64(s.drop_last()) + s.last() }
}
pub proof fn lemma_sum_u64_remove(s: Seq<u64>, k: int)
    requires 0 <= k < s.len(),
    ensures sum_u64(s.remove(k)) == sum_u64(s) - s[k], sum_u64(s) >= s[k], sum_u64(s.remove(k)) >= 0,
    decreases s.len()
{
    if k == s.len() - 1 {
        assert(s.remove(k) =~= s.drop_last());
        lemma_sum_u64_nonneg(s.drop_last());
    } else {
        lemma_sum_u64_remove(s.drop_last(), k);
        assert(s.remove(k).drop_last() =~= s.drop_last().remove(k));
        assert(s.remove(k).last() == s.last());
    }
}
pub proof fn lemma_sum_u64_nonneg(s: Seq<u64>) ensures sum_u64(s) >= 0 decreases s.len()
{ if s.len() > 0 { lemma_sum_u64_nonneg(s.drop_last()); } }

// one planning step as a function of the running totals (the fold `plan_state` iterates exactly this)
pub proof fn lemma_plan_unfold(data: Seq<Seq<u8>>, off: int, total: int, i: int)
    requires i >= 0,
    ensures plan_state(data, off, total, i + 1) == ({
        let p = plan_state(data, off, total, i);
        let l = term_len(i, off, p.1, data[i].len() as int);
        (p.0 + l, p.1 - l) }),
        pieces(data, off, total, i + 1) == pieces(data, off, total, i) + piece(data, off, total, i),
{}

// ======================================================================================================================
// (0) total_len of the parallel writer (the sequential writer's is inside its whole-body region below)
//@ extract cas_client/src/remote_client.rs in `impl RemoteClient` region reconstruct_file_to_writer_parallel
//@ from-after `) -> Result<u64> {`
//@ to-before `let task_info = TermWriteTask`
//@ sig `fn par_total_len(terms: Vec<CASReconstructionTerm>, byte_range: Option<FileRange>) -> (total_len: u64)`
//@ epilogue `total_len`
//@ subst `terms.iter().fold(0, |acc, x| acc + x.unpacked_length as u64)` => `vx_sum_unpacked(&terms)` :: R7 outline of an iterator fold; contract assumed (sum of unpacked_length, no overflow)
//@ contract
    requires
        byte_range matches Some(rg) ==> rg.start <= rg.end,
        sum_unpacked(terms@, terms@.len() as int) <= u64::MAX,
    ensures
        /*@C17*/ total_len == (match byte_range { Some(rg) => rg.end - rg.start, None => sum_unpacked(terms@, terms@.len() as int) }),
//@ end

// ======================================================================================================================
// (i) parallel writer: the body of the `.map(|(idx, term)| { .. })` closure — one planning step.
// The block anchor pins the whole iterator chain `terms.into_iter().enumerate().map(..)` (std: plan order, idx = plan index): an edit
// of the chain (`.rev()`, `.enumerate()` moved) loses the anchor -> undecided, never silently green.
//@ extract cas_client/src/remote_client.rs in `impl RemoteClient` region reconstruct_file_to_writer_parallel
//@ block `let term_tasks = terms.into_iter().enumerate().map(|(idx, term)| {`
//@ optsubst `Range<u32>` => `std::ops::Range<u32>` :: R11 name resolution: remote_client.rs imports std::ops::Range as `Range`, this unit's `Range` is cas_types::Range (only fires on an edited source that names the type, e.g. an inlined helper's return type)
//@ sig `fn par_plan_term(idx: usize, term: CASReconstructionTerm, offset_into_first_range: u64, mut bytes_written: u64, mut remaining: u64, task_info: &TermWriteTask) -> (r: (TermWriteCall, u64, u64))`
//@ epilogue `.vx_with(bytes_written, remaining)`
//@ contract
    requires
        // plan-validity domain: the first-term offset lies inside the first term (else `end - start` underflows)
        idx == 0 ==> offset_into_first_range <= term.unpacked_length,
        // machine arithmetic: `start as u64 + remaining` and `bytes_written += len` (hold when bytes_written + remaining == total_len
        // and offset + total_len fits in u64)
        idx == 0 ==> offset_into_first_range + remaining <= u64::MAX,
        bytes_written + remaining <= u64::MAX,
    ensures
        /*@C17*/ r.0.term == term,
        /*@C17*/ r.0.term_range.start == term_start(idx as int, offset_into_first_range as int),
        /*@C17*/ r.0.term_range.end == term_end(idx as int, offset_into_first_range as int, remaining as int, term.unpacked_length as int),
        /*@C17*/ r.0.term_range.start <= r.0.term_range.end <= term.unpacked_length,
        /*@C17*/ r.0.file_offset == bytes_written,
        /*@C17*/ r.1 == bytes_written + term_len(idx as int, offset_into_first_range as int, remaining as int, term.unpacked_length as int),
        /*@C17*/ r.2 == remaining - term_len(idx as int, offset_into_first_range as int, remaining as int, term.unpacked_length as int),
//@ end

// the closure applied to the terms in plan order IS the fold `plan_state`: task i gets (file_offset, range) = (bw_i, [s_i, e_i))
spec fn par_step_post(idx: int, ulen: int, off: int, bw: int, rem: int, c: TermWriteCall, bw2: int, rem2: int) -> bool {
    &&& c.term_range.start == term_start(idx, off)
    &&& c.term_range.end == term_end(idx, off, rem, ulen)
    &&& c.file_offset == bw
    &&& bw2 == bw + term_len(idx, off, rem, ulen)
    &&& rem2 == rem - term_len(idx, off, rem, ulen)
}
// loop-level statement for (i): any run of the closure over the plan (calls[i], st[i] linked by the step postcondition)
// is inside the step's precondition domain at every term, and task i is told to write piece i at offset bw_i
proof fn lemma_par_run(data: Seq<Seq<u8>>, off: int, total: int, calls: Seq<TermWriteCall>, st: Seq<(int, int)>, n: int)
    requires
        plan_ok(data, off, total), 0 <= n <= data.len(), calls.len() >= n, st.len() >= n + 1,
        off + total <= u64::MAX,
        st[0] == (0int, total),
        forall|i: int| 0 <= i < n ==> par_step_post(i, data[i].len() as int, off, (#[trigger] st[i]).0, st[i].1, calls[i], st[i + 1].0, st[i + 1].1),
    ensures
        /*@C17*/ forall|i: int| 0 <= i <= n ==> #[trigger] st[i] == plan_state(data, off, total, i),
        // the step's preconditions hold at every term of a valid plan
        /*@C17*/ forall|i: int| 0 <= i < n ==> (#[trigger] st[i]).0 + st[i].1 == total && (i == 0 ==> off <= data[0].len() && off + st[i].1 <= u64::MAX),
        /*@C17*/ forall|i: int| 0 <= i < n ==> (#[trigger] calls[i]).file_offset == plan_bw(data, off, total, i)
            && data[i].subrange(calls[i].term_range.start as int, calls[i].term_range.end as int) == piece(data, off, total, i),
    decreases n
{
    if n > 0 {
        lemma_par_run(data, off, total, calls, st, n - 1);
        lemma_plan_unfold(data, off, total, n - 1);
        lemma_plan_state(data, off, total, n - 1);
        assert(st[n - 1] == plan_state(data, off, total, n - 1));
        assert(par_step_post(n - 1, data[n - 1].len() as int, off, st[n - 1].0, st[n - 1].1, calls[n - 1], st[n].0, st[n].1));
        assert(st[n] == plan_state(data, off, total, n));
    }
}

// what the term tasks report, in plan order (each `write_term` returns end - start == bytes it wrote: write_term_tail)
pub open spec fn par_lens(data: Seq<Seq<u8>>, off: int, total: int, n: int) -> Seq<u64> {
    Seq::new(n as nat, |i: int| term_len(i, off, plan_rem(data, off, total, i), data[i].len() as int) as u64)
}
// parallel writer: the joined sum (par_join's result and precondition) == bytes written == min(total_len, sum(unpacked) - off)
pub proof fn lemma_par_reported(data: Seq<Seq<u8>>, off: int, total: int, n: int)
    requires plan_ok(data, off, total), 0 <= n <= data.len(), total <= u64::MAX,
    ensures
        /*@C17*/ sum_u64(par_lens(data, off, total, n)) == plan_bw(data, off, total, n),
        /*@C17*/ sum_u64(par_lens(data, off, total, n)) == pieces(data, off, total, n).len(),
        /*@C17*/ sum_u64(par_lens(data, off, total, n)) <= u64::MAX,
    decreases n
{
    lemma_plan_state(data, off, total, n);
    lemma_pieces_len(data, off, total, n);
    if n > 0 {
        lemma_par_reported(data, off, total, n - 1);
        lemma_plan_state(data, off, total, n - 1);
        lemma_plan_unfold(data, off, total, n - 1);
        assert(par_lens(data, off, total, n).drop_last() =~= par_lens(data, off, total, n - 1));
    } else {
        assert(par_lens(data, off, total, 0).len() == 0);
    }
}

// C17, plan level: for a valid plan both writers — the parallel one under EVERY completion order sigma of its positioned
// writes — leave the same bytes in the output: concat(term data)[off .. off + w], w = min(total_len, sum(unpacked) - off)
pub proof fn lemma_c17_writers_agree(data: Seq<Seq<u8>>, off: int, total: int, sigma: Seq<int>)
    requires plan_ok(data, off, total), is_perm(sigma, data.len() as int), data.len() > 0,
    ensures
        /*@C17*/ forall|f: Seq<u8>| #[trigger] apply_writes(f, par_writes(data, off, total, sigma)) == write_at(f, 0, pieces(data, off, total, data.len() as int)),
        /*@C17*/ off + plan_written(data, off, total, data.len() as int) <= cat(data, data.len() as int).len(),
        /*@C17*/ pieces(data, off, total, data.len() as int)
                    == cat(data, data.len() as int).subrange(off, off + plan_written(data, off, total, data.len() as int)),
        /*@C17*/ range_in_plan(data, off, total) ==> plan_written(data, off, total, data.len() as int) == total,
{
    lemma_plan_output(data, off, total, sigma);
    assert forall|f: Seq<u8>| #[trigger] apply_writes(f, par_writes(data, off, total, sigma)) == write_at(f, 0, pieces(data, off, total, data.len() as int)) by {
        lemma_par_output(f, data, off, total, sigma);
    }
}

// (i-b) parallel writer: joining the tasks in completion order and adding up what each reports
//@ extract cas_client/src/remote_client.rs in `impl RemoteClient` region reconstruct_file_to_writer_parallel
//@ from-after `handles.push(handle); });`
//@ to-before `}` #11
//@ sig `fn par_join(mut handles: TaskHandles, progress_updater: ProgressStub) -> (r: Result<u64>)`
//@ subst `progress_updater.as_ref().inspect(|updater| updater.update(len_written));` => `vx_progress(&progress_updater, len_written);` :: R7 outline: closure over Option<Arc<dyn ProgressUpdater>>; no effect on the output
//@ rules R7e
//@ contract
    requires sum_u64(handles.pending()) <= u64::MAX,
    ensures
        // reported length == sum of the lengths the term tasks report, whatever the completion order
        /*@C17*/ r matches Ok(t) ==> t == sum_u64(handles.pending()),
//@ body-start
    let ghost all = handles.pending();
    let ghost mut prev = handles.pending();
//@ loop 1
        invariant
            prev == handles.pending(),
            // reported so far + what the unjoined tasks will report == sum over all tasks
            /*@C17*/ total_written + sum_u64(handles.pending()) == sum_u64(all),
            /*@AUX*/ sum_u64(all) <= u64::MAX,
        // every task has been joined when the loop is left
        ensures /*@C17*/ handles.pending().len() == 0,
        decreases handles.pending().len(),
//@ before `vx_progress`
                    proof {
                        let k = choose|k: int| 0 <= k < prev.len() && len_written == #[trigger] prev[k] && handles.pending() == prev.remove(k);
                        lemma_sum_u64_remove(prev, k);
                    }
//@ after `total_written += len_written;`
                    proof { prev = handles.pending(); }
//@ end

// ======================================================================================================================
// (ii) sequential writer: the WHOLE body of `reconstruct_file_to_writer` (total_len, fetch-and-write loop, returned length)
#[verifier::external_body] struct TermFutures { _p: () }        // the lazy iterator of `get_one_term` futures, one per term
impl TermFutures { uninterp spec fn items(&self) -> Seq<Seq<u8>>; }
// `futures::stream` combinators as the code calls them.  The contracts are the documented semantics of the futures crate:
//   stream::iter(it)            a stream yielding the iterator's items (here: futures) in iterator order
//   .buffered(n)                runs up to n futures concurrently, yields their outputs IN THE ORDER OF THE UNDERLYING STREAM
//   .buffer_unordered(n)        same, but yields outputs in COMPLETION order: some permutation, nothing more is known
//   .enumerate()                pairs the k-th yielded item with k   (TermStream::next)
// so the order property is a consequence of WHICH combinator the extracted text calls, not an assumption about the loop.
#[verifier::external_body] struct FutStream { _p: () }          // stream::Iter<Map<IntoIter<Term>, closure>>
impl FutStream {
    uninterp spec fn items(&self) -> Seq<Seq<u8>>;              // output of the k-th submitted future
    #[verifier::external_body]
    fn buffered(self, n: usize) -> (r: OutStream)
        ensures r.yields() == self.items(),
    { unimplemented!() }
    #[verifier::external_body]
    fn buffer_unordered(self, n: usize) -> (r: OutStream)
        ensures exists|sigma: Seq<int>| is_perm(sigma, self.items().len() as int) && r.yields() == #[trigger] permuted(self.items(), sigma),
    { unimplemented!() }
}
spec fn permuted(items: Seq<Seq<u8>>, sigma: Seq<int>) -> Seq<Seq<u8>> { Seq::new(sigma.len(), |k: int| items[sigma[k]]) }
#[verifier::external_body] struct OutStream { _p: () }          // Buffered<..> / BufferUnordered<..>
impl OutStream {
    uninterp spec fn yields(&self) -> Seq<Seq<u8>>;             // the k-th item the stream will yield
    #[verifier::external_body]
    fn enumerate(self) -> (r: TermStream)
        ensures r.items() == self.yields(), r.pos() == 0,
    { unimplemented!() }
}
#[verifier::external_body]
fn vx_stream_iter(futs_iter: TermFutures) -> (r: FutStream)
    ensures r.items() == futs_iter.items(),
{ unimplemented!() }
uninterp spec fn spec_NUM_CONCURRENT_RANGE_GETS() -> usize;
#[verifier::external_body] fn NUM_CONCURRENT_RANGE_GETS() -> (r: usize) ensures r == spec_NUM_CONCURRENT_RANGE_GETS() { unimplemented!() }
#[verifier::external_body] struct RemoteClient { _p: () }
impl RemoteClient {
    spec fn plan_data(&self, terms: Seq<CASReconstructionTerm>) -> Seq<Seq<u8>> {
        Seq::new(terms.len(), |i: int| term_payload(terms[i]))
    }
    // R7 outline of `terms.into_iter().map(|term| get_one_term(..))`: ASSUMED to fetch each term's payload, whose length is
    // the term's unpacked_length (cold path: checked by get_one_term, see trim_to_term; warm path: cache contract)
    #[verifier::external_body]
    fn vx_term_futures(&self, terms: Vec<CASReconstructionTerm>, fetch_info: &FetchInfoStub) -> (r: TermFutures)
        ensures r.items() == self.plan_data(terms@),
            forall|i: int| 0 <= i < terms@.len() ==> (#[trigger] self.plan_data(terms@)[i]).len() == terms@[i].unpacked_length,
    { unimplemented!() }

//@ extract cas_client/src/remote_client.rs in `impl RemoteClient` region reconstruct_file_to_writer
//@ block `progress_updater: Option<Arc<dyn ProgressUpdater>>, ) -> Result<u64> {`
//@ sig `fn reconstruct_file_to_writer_body(&self, terms: Vec<CASReconstructionTerm>, fetch_info: FetchInfoStub, offset_into_first_range: u64, byte_range: Option<FileRange>, writer: &OutputProvider, progress_updater: ProgressStub) -> (r: Result<(u64, OutWriter)>)`
//@ epilogue `.vx_with(writer)`
//@ subst `terms.iter().fold(0, |acc, x| acc + x.unpacked_length as u64)` => `vx_sum_unpacked(&terms)` :: R7 outline of an iterator fold; contract assumed (sum of unpacked_length, no overflow)
//@ subst `terms.into_iter().map(|term| { get_one_term( self.http_client.clone(), self.chunk_cache.clone(), term, fetch_info.clone(), self.range_download_single_flight.clone(), ) })` => `self.vx_term_futures(terms, &fetch_info)` :: R7 outline: iterator of network futures (get_one_term per term, in plan order); contract assumed
//@ subst `futures::stream::iter` => `vx_stream_iter` :: R11 callee path of the futures dependency -> stub (the combinator calls `.buffered(..)`/`.enumerate()` stay as written)
//@ subst `progress_updater.as_ref().inspect(|updater| updater.update(len_written));` => `vx_progress(&progress_updater, len_written);` :: R7 outline: closure over Option<Arc<dyn ProgressUpdater>>; no effect on the output
//@ contract
    requires
        // plan-validity domain: a byte range has start <= end (else `range.end - range.start` underflows)
        byte_range matches Some(rg) ==> rg.start <= rg.end,
        sum_unpacked(terms@, terms@.len() as int) <= u64::MAX,
        // plan-validity domain: the first-term offset lies inside the first term (else `&term_data[start..end]` panics)
        plan_ok(self.plan_data(terms@), offset_into_first_range as int, req_total(byte_range, terms@)),
        // machine arithmetic: `remaining_len + start as u64`
        offset_into_first_range + req_total(byte_range, terms@) <= u64::MAX,
    ensures
        // the output image == the previous image with OUT written at offset 0, OUT = the pieces in plan order
        /*@C17*/ r matches Ok(p) ==> p.1.content() == write_at(p.1.pre(), 0, pieces(self.plan_data(terms@), offset_into_first_range as int, req_total(byte_range, terms@), terms@.len() as int)),
        // OUT == concat(term data)[off .. off + w],  w == min(total_len, sum(unpacked) - off)
        /*@C17*/ r matches Ok(p) ==> terms@.len() > 0 ==> seq_out_is_slice(self.plan_data(terms@), offset_into_first_range as int, req_total(byte_range, terms@), pieces(self.plan_data(terms@), offset_into_first_range as int, req_total(byte_range, terms@), terms@.len() as int)),
        /*@C17*/ r matches Ok(p) ==> terms@.len() == 0 ==> pieces(self.plan_data(terms@), offset_into_first_range as int, req_total(byte_range, terms@), terms@.len() as int).len() == 0,
        // reported length == bytes written, when the byte range lies within the plan
        /*@C17*/ r matches Ok(p) ==> terms@.len() > 0 && range_in_plan(self.plan_data(terms@), offset_into_first_range as int, req_total(byte_range, terms@)) ==> p.0 == pieces(self.plan_data(terms@), offset_into_first_range as int, req_total(byte_range, terms@), terms@.len() as int).len(),
        // whole file (no byte range, offset 0): everything is written
        /*@C17*/ r matches Ok(p) ==> byte_range is None && offset_into_first_range == 0 && terms@.len() > 0 ==> pieces(self.plan_data(terms@), offset_into_first_range as int, req_total(byte_range, terms@), terms@.len() as int) == cat(self.plan_data(terms@), terms@.len() as int) && p.0 == pieces(self.plan_data(terms@), offset_into_first_range as int, req_total(byte_range, terms@), terms@.len() as int).len(),
//@ before `let mut remaining_len`
    let ghost data = self.plan_data(terms@);
    let ghost off = offset_into_first_range as int;
    let ghost total = total_len as int;
    let ghost mut i: int = 0;
    let ghost wpre = writer.pre();
    let ghost nterms = terms@.len() as int;
    proof {
        // ties the code's total_len to the requested total of the contract (not a proof convenience)
        /*@C17*/ assert(total == req_total(byte_range, terms@));
        lemma_sum_unpacked_is_sum_len(terms@, data, nterms);
    }
//@ loop 1
        invariant
            // the stream yields the terms' data in plan order (holds only for the order-preserving combinator)
            /*@C17*/ data == futs_buffered_enumerated.items(),
            off == offset_into_first_range as int,
            total == total_len as int,
            /*@AUX*/ plan_ok(data, off, total),
            /*@AUX*/ off + total <= u64::MAX,
            i == futs_buffered_enumerated.pos(),
            0 <= i <= data.len(),
            // remaining budget == total - bytes written so far (plan_rem(i) == total - plan_bw(i))
            /*@C17*/ remaining_len == plan_rem(data, off, total, i),
            /*@AUX*/ writer.pre() == wpre,
            // bytes written so far == the pieces of the first i terms, at offset 0
            /*@C17*/ writer.content() == write_at(wpre, 0, pieces(data, off, total, i)),
            // write position == sum of the lengths written so far
            /*@C17*/ writer.pos() == pieces(data, off, total, i).len(),
        ensures i == data.len(),
        decreases data.len() - futs_buffered_enumerated.pos(),
//@ before `let start = if term_idx == 0`
            proof {
                lemma_plan_state(data, off, total, i);
                lemma_plan_unfold(data, off, total, i);
            }
//@ after `remaining_len -= len_written;`
            proof {
                lemma_write_at_append(wpre, 0, pieces(data, off, total, i), piece(data, off, total, i));
                i = i + 1;
            }
//@ before `writer.flush()`
        proof {
            let n = data.len() as int;
            lemma_plan_state(data, off, total, n);
            lemma_pieces_len(data, off, total, n);
            if n > 0 {
                lemma_pieces_slice(data, off, total, n);
                lemma_cat_len(data, n);
                if byte_range is None && off == 0 { assert(cat(data, n).subrange(0, cat(data, n).len() as int) =~= cat(data, n)); }
            }
        }
//@ end
}
spec fn req_total(byte_range: Option<FileRange>, terms: Seq<CASReconstructionTerm>) -> int {
    match byte_range { Some(rg) => rg.end - rg.start, None => sum_unpacked(terms, terms.len() as int) }
}
spec fn seq_out_is_slice(data: Seq<Seq<u8>>, off: int, total: int, out: Seq<u8>) -> bool {
    let n = data.len() as int;
    let w = plan_written(data, off, total, n);
    0 <= w && off + w <= cat(data, n).len() && out == cat(data, n).subrange(off, off + w)
}
proof fn lemma_sum_unpacked_is_sum_len(terms: Seq<CASReconstructionTerm>, data: Seq<Seq<u8>>, n: int)
    requires 0 <= n <= terms.len(), data.len() == terms.len(), forall|i: int| 0 <= i < terms.len() ==> (#[trigger] data[i]).len() == terms[i].unpacked_length,
    ensures sum_unpacked(terms, n) == sum_len(data, n),
    decreases n
{ if n > 0 { lemma_sum_unpacked_is_sum_len(terms, data, n - 1); } }

// ======================================================================================================================
// (iii) fetch side: the WHOLE body of `get_one_term` (guard, warm cache branch, fetch_info selection, single-flight download,
// cache fill, trimming, length check), then the whole body of `write_term`
//
// Ground truth and store model (uninterpreted):
//   xorb_chunk_bytes(h, s, e)   unpacked bytes of chunks [s, e) of xorb h
//   range_data(url, url_range)  what the blob store serves for a GET of `url` with `Range: url_range`, decoded
//                               (`download_range`: data + chunk_byte_indices)
uninterp spec fn xorb_chunk_bytes(h: HexMerkleHash, s: int, e: int) -> Seq<u8>;
uninterp spec fn range_data(url: Seq<char>, url_range: HttpRange) -> (Seq<u8>, Seq<u32>);
uninterp spec fn hex_string(h: HexMerkleHash) -> Seq<char>;
impl HexMerkleHash {   // `Display`/`ToString` of the hash (hex text)
    #[verifier::external_body] fn to_string(&self) -> (r: String) ensures r@ == hex_string(*self), { unimplemented!() }
}
// the fetched blob: `data` = the unpacked chunks of the fetch range back to back, cbi = [0, end of chunk 0, ..]
spec fn fetched_ok(data: Seq<u8>, cbi: Seq<u32>, nchunks: int) -> bool {
    &&& cbi.len() == nchunks + 1
    &&& cbi[0] == 0
    &&& cbi[nchunks] == data.len()
    &&& forall|a: int, b: int| 0 <= a < b < cbi.len() ==> cbi[a] < cbi[b]     // chunks are non-empty
}
// PLAN-VALIDITY DOMAIN of a fetch_info entry `e` listed under xorb `h` (truthful reconstruction response + truthful store):
spec fn entry_ok(h: HexMerkleHash, e: CASReconstructionFetchInfo) -> bool {
    let d = range_data(e.url@, e.url_range);
    &&& e.range.start <= e.range.end
    // a url contains no space character (so "<url> <range header>" splits uniquely)
    &&& no_space(e.url@)
    &&& fetched_ok(d.0, d.1, e.range.end - e.range.start)
    // the served chunks are the xorb's chunks e.range
    &&& forall|a: int, b: int| 0 <= a <= b <= e.range.end - e.range.start ==>
            d.0.subrange(d.1[a] as int, d.1[b] as int) == #[trigger] xorb_chunk_bytes(h, e.range.start + a, e.range.start + b)
}
spec fn trim_want(term: CASReconstructionTerm, fetch_term: CASReconstructionFetchInfo, data: Seq<u8>, cbi: Seq<u32>) -> Seq<u8> {
    data.subrange(cbi[term.range.start - fetch_term.range.start] as int, cbi[term.range.end - fetch_term.range.start] as int)
}
// what a term denotes
spec fn term_payload(term: CASReconstructionTerm) -> Seq<u8> { xorb_chunk_bytes(term.hash, term.range.start as int, term.range.end as int) }

// ---- single flight -------------------------------------------------------------------------------------------------------
// `Group::work(key, fut)`: concurrent callers with the same key share ONE execution; a caller gets the result of SOME task
// submitted under its key — possibly another caller's.  Every submission goes through this one call site, whose obligation
// (the stub's precondition, discharged in get_one_term) is: the key is `spec_flight_key(url, url_range)` = "<url> <range header>" of the
// download it submits.
// `flight_key` must determine the download: lemma_flight_key_determines (PROVED; needs only that a url holds no space and that
// the Range header text determines the range).
spec fn no_space(s: Seq<char>) -> bool { forall|i: int| 0 <= i < s.len() ==> s[i] != ' ' }
// `range_header(range)` = `format!("bytes={}-{}", range.start, range.end)`: its body is a single format!, which Verus cannot parse, so
// extracting it would outline the whole body and prove nothing — it is a stub: an uninterpreted text that determines (start, end)
uninterp spec fn spec_range_header(rg: HttpRange) -> Seq<char>;
#[verifier::external_body]
proof fn axiom_range_header_injective(a: HttpRange, b: HttpRange)
    ensures spec_range_header(a) == spec_range_header(b) ==> a == b,
{}
#[verifier::external_body]
fn range_header(range: &HttpRange) -> (r: String) ensures r@ == spec_range_header(*range), { unimplemented!() }
// R7 outline of `format!("{} {}", a, b)`: ASSUMED to render a, one space, b
#[verifier::external_body]
fn vx_key(a: &String, b: String) -> (r: String) ensures r@ == a@ + seq![' '] + b@, { format!("{} {}", a, b) }
spec fn spec_flight_key(url: Seq<char>, url_range: HttpRange) -> Seq<char> { url + seq![' '] + spec_range_header(url_range) }
proof fn lemma_pair_injective(a1: Seq<char>, b1: Seq<char>, a2: Seq<char>, b2: Seq<char>)
    requires no_space(a1), no_space(a2), a1 + seq![' '] + b1 == a2 + seq![' '] + b2,
    ensures a1 == a2, b1 == b2,
{
    let l = a1 + seq![' '] + b1;
    let r = a2 + seq![' '] + b2;
    let n1 = a1.len() as int; let n2 = a2.len() as int;
    assert(l[n1] == ' '); assert(r[n2] == ' ');
    if n1 < n2 { assert(r[n1] == a2[n1]); assert(false); }
    if n2 < n1 { assert(l[n2] == a1[n2]); assert(false); }
    assert(n1 == n2);
    assert(l.len() == n1 + 1 + b1.len()); assert(r.len() == n2 + 1 + b2.len());
    assert(b1.len() == b2.len());
    assert forall|i: int| 0 <= i < n1 implies a1[i] == a2[i] by { assert(l[i] == a1[i]); assert(r[i] == a2[i]); }
    assert(a1 =~= a2);
    assert forall|j: int| 0 <= j < b1.len() implies b1[j] == b2[j] by { assert(l[n1 + 1 + j] == b1[j]); assert(r[n1 + 1 + j] == b2[j]); }
    assert(b1 =~= b2);
}
proof fn lemma_flight_key_determines(u1: Seq<char>, r1: HttpRange, u2: Seq<char>, r2: HttpRange)
    requires no_space(u1), no_space(u2), spec_flight_key(u1, r1) == spec_flight_key(u2, r2),
    ensures u1 == u2, r1 == r2,
{
    lemma_pair_injective(u1, spec_range_header(r1), u2, spec_range_header(r2));
    axiom_range_header_injective(r1, r2);
}
// the future `download_range(http_client, fetch_term, hash)`: GET fetch_term.url with Range fetch_term.url_range, decode the chunks
#[verifier::external_body] struct DownloadFut { _p: () }
impl DownloadFut { uninterp spec fn url(&self) -> Seq<char>; uninterp spec fn url_range(&self) -> HttpRange; }
#[verifier::external_body]
fn download_range(http_client: HttpStub, fetch_term: CASReconstructionFetchInfo, hash: HexMerkleHash) -> (r: DownloadFut)
    ensures r.url() == fetch_term.url@, r.url_range() == fetch_term.url_range,
{ unimplemented!() }
impl SingleFlightStub {
    #[verifier::external_body]
    fn work_dump_caller_info(&self, key: &String, fut: DownloadFut) -> (r: Result<(Vec<u8>, Vec<u32>)>)
        requires
            // OBLIGATION at the call site: the key is the flight key of what this caller downloads
            /*@C17,C20*/ key@ == spec_flight_key(fut.url(), fut.url_range()),
        ensures
            // the result of SOME download submitted under this key (each submitted by this call site, hence under its flight key)
            r matches Ok(p) ==> exists|u: Seq<char>, rg: HttpRange| no_space(u) && #[trigger] spec_flight_key(u, rg) == key@
                && (p.0@, p.1@) == range_data(u, rg),
    { unimplemented!() }
}
// ---- chunk cache (warm path): returns the chunks that were put for that key and range (put is fed by the cold path below) ----
//@ extract chunk_cache/src/lib.rs struct CacheRange
//@ subst `Arc<[u32]>` => `ArcU32s` :: R11 stub type
//@ subst `Arc<[u8]>` => `ArcBytes` :: R11 stub type
//@ end
//@ extract cas_types/src/key.rs struct Key
//@ end
//@ extract cas_client/src/remote_client.rs const PREFIX_DEFAULT
//@ subst `&str` => `&'static str` :: explicit lifetime (Verus does not elide it on consts)
//@ end
#[verifier::external_body] struct ArcU32s { _p: () }
#[verifier::external_body] struct ArcBytes { _p: () }
impl ArcBytes {
    uninterp spec fn view(&self) -> Seq<u8>;
    #[verifier::external_body] fn to_vec(&self) -> (r: Vec<u8>) ensures r@ == self@, { unimplemented!() }
}
struct ChunkCacheError { _p: () }
uninterp spec fn hex_of(m: MerkleHash) -> HexMerkleHash;
#[verifier::external_body] fn vx_into_merklehash(h: HexMerkleHash) -> (r: MerkleHash) ensures hex_of(r) == h, { unimplemented!() }
impl CacheStub {
    #[verifier::external_body]
    fn get(&self, key: &Key, range: &ChunkRange) -> (r: std::result::Result<Option<CacheRange>, ChunkCacheError>)
        ensures r matches Ok(Some(c)) ==> c.data@ == xorb_chunk_bytes(hex_of(key.hash), range.start as int, range.end as int),
    { unimplemented!() }
    #[verifier::external_body]
    fn put(&self, key: &Key, range: &ChunkRange, chunk_byte_indices: &Vec<u32>, data: &Vec<u8>) -> (r: Result<()>)
        requires
            // what is put IS the xorb's chunk range (keeps the cache contract above truthful): obligation on the cold path
            /*@C17*/ fetched_ok(data@, chunk_byte_indices@, range.end - range.start),
            /*@C17*/ data@ == xorb_chunk_bytes(hex_of(key.hash), range.start as int, range.end as int),
    { unimplemented!() }
}
impl FetchInfoStub {
    uninterp spec fn entries(&self, h: HexMerkleHash) -> Option<Seq<CASReconstructionFetchInfo>>;
    spec fn all_ok(&self) -> bool {
        forall|h: HexMerkleHash, i: int| self.entries(h) is Some && 0 <= i < self.entries(h)->Some_0.len() ==> entry_ok(h, #[trigger] self.entries(h)->Some_0[i])
    }
    #[verifier::external_body]
    fn get(&self, h: &HexMerkleHash) -> (r: Option<&Vec<CASReconstructionFetchInfo>>)
        ensures match r { Some(v) => self.entries(*h) == Some(v@), None => self.entries(*h) is None },
    { unimplemented!() }
}
impl CASReconstructionFetchInfo {   // inherent stand-in for the derived `Clone::clone`
    #[verifier::external_body] fn clone(&self) -> (r: Self) ensures r == *self, { unimplemented!() }
}
// R7 outline of `hash_fetch_info.iter().find(|fterm| fterm.range.start <= term.range.start && fterm.range.end >= term.range.end)`
// (iterator + closure): ASSUMED to return an element of the list satisfying that predicate (or None if there is none)
#[verifier::external_body]
fn vx_find_fetch_term<'a>(hash_fetch_info: &'a Vec<CASReconstructionFetchInfo>, term: &CASReconstructionTerm) -> (r: Option<&'a CASReconstructionFetchInfo>)
    ensures r matches Some(f) ==> (exists|i: int| 0 <= i < hash_fetch_info@.len() && hash_fetch_info@[i] == *f)
        && f.range.start <= term.range.start && f.range.end >= term.range.end,
{ hash_fetch_info.iter().find(|fterm| fterm.range.start <= term.range.start && fterm.range.end >= term.range.end) }

//@ extract cas_client/src/remote_client.rs region get_one_term
//@ block `range_download_single_flight: RangeDownloadSingleFlight, ) -> Result<Vec<u8>> {`
//@ sig `fn get_one_term(http_client: HttpStub, chunk_cache: Option<CacheStub>, term: CASReconstructionTerm, fetch_info: FetchInfoStub, range_download_single_flight: SingleFlightStub) -> (r: Result<Vec<u8>>)`
//@ subst `term.hash.into()` => `vx_into_merklehash(term.hash)` :: R11 stub for `From<HexMerkleHash> for MerkleHash` (newtype unwrap)
//@ subst `hash_fetch_info.iter().find(|fterm| fterm.range.start <= term.range.start && fterm.range.end >= term.range.end)` => `vx_find_fetch_term(hash_fetch_info, &term)` :: R7 outline of iterator find with a closure; contract assumed (an element satisfying the predicate)
//@ optsubst `format!("{} {}", fetch_term.url, range_header(&fetch_term.url_range))` => `vx_key(&fetch_term.url, range_header(&fetch_term.url_range))` :: R7 outline: two-argument format! (a, one space, b); contract assumed
//@ rules R7e
//@ contract
    requires
        // plan-validity domain: every fetch_info entry is truthful (entry_ok), a term names at least one chunk or is reversed
        // (the guard admits start == end, the trimming debug_asserts do not)
        fetch_info.all_ok(),
        term.range.start != term.range.end,
    ensures
        /*@C17*/ term.range.end < term.range.start ==> r is Err,
        // cold AND warm: the returned bytes are the term's chunks — for the cold path: the slice, by chunk byte indices, of what the
        // store serves for THIS term's fetch entry (asserted literally before the trimming block)
        /*@C17*/ r matches Ok(d) ==> d@ == term_payload(term),
        // the length check is only made on the cold path: a warm hit is returned unchecked
        /*@C17*/ chunk_cache is None ==> (r matches Ok(d) ==> d@.len() == term.unpacked_length),
//@ after `.clone();`
    proof {
        let v = fetch_info.entries(term.hash)->Some_0;
        let i = choose|i: int| 0 <= i < v.len() && v[i] == fetch_term;
        assert(entry_ok(term.hash, v[i]));
    }
//@ before `if let Some(cache) = chunk_cache`
    let ghost data0 = data@;
    let ghost cbi0 = chunk_byte_indices@;
    proof {
        // single flight: the shared result is THIS caller's download because the key determines (url, url_range)
        let (u, rg) = choose|u: Seq<char>, rg: HttpRange| no_space(u) && #[trigger] spec_flight_key(u, rg) == spec_flight_key(fetch_term.url@, fetch_term.url_range) && (data0, cbi0) == range_data(u, rg);
        lemma_flight_key_determines(u, rg, fetch_term.url@, fetch_term.url_range);
        /*@C17*/ assert((data0, cbi0) == range_data(fetch_term.url@, fetch_term.url_range));
        let n = fetch_term.range.end - fetch_term.range.start;
        assert(data0.subrange(0, data0.len() as int) =~= data0);
        assert(data0.subrange(cbi0[0] as int, cbi0[n] as int) == xorb_chunk_bytes(term.hash, fetch_term.range.start + 0, fetch_term.range.start + n));
        assert(trim_want(term, fetch_term, data0, cbi0) == xorb_chunk_bytes(term.hash, fetch_term.range.start + (term.range.start - fetch_term.range.start), fetch_term.range.start + (term.range.end - fetch_term.range.start)));
    }
//@ before `assert(start_byte_index < data.len());`
        // ties the code's byte indices to the spec's: cbi[term.start - fetch.start], cbi[term.end - fetch.start] (placed before the source's
        // debug_asserts, which Verus would otherwise assume after failing and so mask a wrong index)
        proof { /*@C17*/ assert(start_byte_index == cbi0[term.range.start - fetch_term.range.start] && end_byte_index == cbi0[term.range.end - fetch_term.range.start]); }
//@ after `data = data.split_off(start_byte_index);`
        // ties the code's trimmed buffer to the spec slice (not a proof convenience): data' == data[cbi[s]..cbi[e]]
        proof { /*@C17*/ assert(data@ =~= data0.subrange(start_byte_index as int, end_byte_index as int)); }
//@ end

impl TermWriteTask {
// the WHOLE body of `write_term`
//@ extract cas_client/src/remote_client.rs in `impl TermWriteTask` region write_term
//@ block `file_offset: u64) -> Result<u64> {`
//@ sig `fn write_term_body(self, term: CASReconstructionTerm, term_range: std::ops::Range<usize>, file_offset: u64) -> (r: Result<(u64, OutWriter)>)`
//@ epilogue `.vx_with(writer)`
//@ subst `self.semaphore.acquire_owned().map_err(|_| CasClientError::Other("couldn't acquire semaphore".to_string()))?` => `vx_acquire(&self.semaphore)?` :: R11 stub: tokio semaphore permit (scheduling only) and its error-conversion closure
//@ contract
    requires
        // from the planner (par_plan_term): start <= end (else `term_range.end - term_range.start` underflows)
        term_range.start <= term_range.end,
        // plan-validity domain of get_one_term
        self.fetch_info.all_ok(), term.range.start != term.range.end,
    ensures
        /*@C17*/ term_range.end > term_payload(term).len() ==> r is Err,
        // output image == the image the task found, with term_data[start..end] written at file_offset; reported length == bytes written
        /*@C17*/ r matches Ok(p) ==> term_range.end <= term_payload(term).len(),
        /*@C17*/ r matches Ok(p) ==> p.1.content() == write_at(p.1.pre(), file_offset as int, term_payload(term).subrange(term_range.start as int, term_range.end as int)),
        /*@C17*/ r matches Ok(p) ==> p.0 == term_range.end - term_range.start,
//@ end
}

// ======================================================================================================================
// (iv) the real output providers (cas_client/src/interface.rs): what `get_writer_at` does to the output and where the
// returned writer writes.  These items PROVE `writer_at_post` / `write_post` (recon_io.rs) — the contract the `OutWriter` /
// `OutputProvider` stubs of the writers' proofs carry — from a model of `std::fs::OpenOptions` / `File::seek` / `Cursor`.
#[verifier::external_body] struct PathBuf { _p: () }
enum SeekFrom { Start(u64), End(i64), Current(i64) }
// std::fs::File as a writer handle: pre() = image on disk when it was opened (empty if the file did not exist),
// content() = image after open's own effect (truncation) and the writes through this handle, pos() = cursor
#[verifier::external_body] struct File { _p: () }
spec fn seek_target(pos: int, len: int, to: SeekFrom) -> int {
    match to { SeekFrom::Start(n) => n as int, SeekFrom::End(d) => len + d, SeekFrom::Current(d) => pos + d }
}
impl File {
    uninterp spec fn pre_exists(&self) -> bool;
    uninterp spec fn pre(&self) -> Seq<u8>;
    uninterp spec fn content(&self) -> Seq<u8>;
    uninterp spec fn pos(&self) -> int;
    uninterp spec fn writable(&self) -> bool;
    // lseek: moves the cursor only
    #[verifier::external_body]
    fn seek(&mut self, to: SeekFrom) -> (r: Result<u64>)
        ensures final(self).pre() == old(self).pre(), final(self).content() == old(self).content(), final(self).writable() == old(self).writable(),
            r matches Ok(n) ==> n == seek_target(old(self).pos(), old(self).content().len() as int, to) && final(self).pos() == n,
    { unimplemented!() }
    // write(2) at the cursor of a writable handle (the model the `OutWriter::write_all` stub states; not called by item (iv) itself)
    #[verifier::external_body]
    fn write_all(&mut self, buf: &[u8]) -> (r: Result<()>)
        ensures final(self).pre() == old(self).pre(),
            r is Ok ==> old(self).writable() && write_post(old(self).content(), old(self).pos(), buf@, final(self).content(), final(self).pos()),
    { unimplemented!() }
}
// std::fs::OpenOptions: a builder; `open` acts according to the flags that were actually set
struct OpenOptions { write: bool, truncate: bool, create: bool }
impl OpenOptions {
    fn new() -> (r: OpenOptions) ensures !r.write, !r.truncate, !r.create, { OpenOptions { write: false, truncate: false, create: false } }
    fn write(self, b: bool) -> (r: OpenOptions) ensures r.write == b, r.truncate == self.truncate, r.create == self.create, { OpenOptions { write: b, truncate: self.truncate, create: self.create } }
    fn truncate(self, b: bool) -> (r: OpenOptions) ensures r.truncate == b, r.write == self.write, r.create == self.create, { OpenOptions { write: self.write, truncate: b, create: self.create } }
    fn create(self, b: bool) -> (r: OpenOptions) ensures r.create == b, r.write == self.write, r.truncate == self.truncate, { OpenOptions { write: self.write, truncate: self.truncate, create: b } }
    // open(2): fails on a missing file unless `create`; `truncate` (needs `write`) empties the file, otherwise the image is kept;
    // a created file is empty; the cursor starts at 0
    #[verifier::external_body]
    fn open(self, path: &PathBuf) -> (r: Result<File>)
        ensures r matches Ok(f) ==> (f.pre_exists() || self.create) && (self.truncate ==> self.write)
            && (!f.pre_exists() ==> f.pre() == Seq::<u8>::empty())
            && f.content() == (if self.truncate { Seq::<u8>::empty() } else { f.pre() })
            && f.pos() == 0 && f.writable() == self.write,
    { unimplemented!() }
}
//@ extract cas_client/src/interface.rs struct FileProvider
//@ end
impl FileProvider {
//@ extract cas_client/src/interface.rs in `impl FileProvider` fn get_writer_at
//@ ret r
//@ subst `Box<dyn Write + Send>` => `Box<File>` :: R11 trait-object erasure: the concrete writer type behind the `dyn Write`
//@ contract
    ensures
        // the existing image is left unchanged and the writer stands at `start` — for EVERY start, 0 included
        /*@C17*/ r matches Ok(w) ==> writer_at_post(w.pre(), w.content(), w.pos(), start),
        /*@C17*/ r matches Ok(w) ==> w.writable(),
//@ end
}

// the in-memory provider (test configuration): `Arc<Mutex<Cursor<Vec<u8>>>>` shared by all writers of one output
#[verifier::external_body] struct SharedCursor { _p: () }
impl SharedCursor { uninterp spec fn id(&self) -> int; }        // which shared buffer
// MutexGuard<Cursor<Vec<u8>>>: pre() = buffer image when the lock was taken, content()/pos() = after this guard's operations
#[verifier::external_body] struct CursorGuard { _p: () }
impl CursorGuard {
    uninterp spec fn of(&self) -> int;
    uninterp spec fn pre(&self) -> Seq<u8>;
    uninterp spec fn content(&self) -> Seq<u8>;
    uninterp spec fn pos(&self) -> int;
    #[verifier::external_body]
    fn set_position(&mut self, p: u64)
        ensures final(self).of() == old(self).of(), final(self).pre() == old(self).pre(), final(self).content() == old(self).content(), final(self).pos() == p,
    { unimplemented!() }
    // <Cursor<Vec<u8>> as Write>::write: writes the whole buffer at the cursor, zero-filling a gap, and advances the cursor
    #[verifier::external_body]
    fn write(&mut self, buf: &[u8]) -> (r: Result<usize>)
        ensures final(self).of() == old(self).of(), final(self).pre() == old(self).pre(),
            r matches Ok(n) ==> n == buf@.len() && final(self).pos() <= u64::MAX
                && write_post(old(self).content(), old(self).pos(), buf@, final(self).content(), final(self).pos()),
    { unimplemented!() }
    #[verifier::external_body]
    fn position(&self) -> (r: u64) ensures 0 <= self.pos() <= u64::MAX ==> r == self.pos(), { unimplemented!() }
}
// R7 outline of `self.inner.lock().map_err(|e| std::io::Error::other(format!("{e}")))` (closure + format!): taking the lock changes nothing
#[verifier::external_body]
fn vx_lock(c: &SharedCursor) -> (r: Result<CursorGuard>)
    ensures r matches Ok(g) ==> g.of() == c.id() && g.content() == g.pre(),
{ unimplemented!() }
//@ extract cas_client/src/interface.rs struct ThreadSafeBuffer
//@ subst `Arc<Mutex<Cursor<Vec<u8>>>>` => `SharedCursor` :: R11 stub type for the shared in-memory buffer
//@ end
//@ extract cas_client/src/interface.rs struct BufferProvider
//@ end
// `#[derive(Clone)]` (dropped by R10): field-wise; cloning the `Arc` shares the same buffer
impl ThreadSafeBuffer {   // inherent stand-in for the derived `Clone::clone`
    #[verifier::external_body]
    fn clone(&self) -> (r: Self) ensures r.idx == self.idx, r.inner.id() == self.inner.id(), { unimplemented!() }
}
impl BufferProvider {
//@ extract cas_client/src/interface.rs in `impl BufferProvider` fn get_writer_at
//@ ret r
//@ subst `Box<dyn Write + Send>` => `Box<ThreadSafeBuffer>` :: R11 trait-object erasure: the concrete writer type behind the `dyn Write`
//@ contract
    ensures
        // a handle on the SAME shared buffer standing at `start`; no operation touches the buffer (no lock is taken), so its
        // image is unchanged: writer_at_post with content == pre by construction
        /*@C17*/ r matches Ok(w) ==> w.idx == start,
        /*@C17*/ r matches Ok(w) ==> w.inner.id() == self.buf.inner.id(),
//@ end
}
impl ThreadSafeBuffer {
//@ extract cas_client/src/interface.rs in `impl Write for ThreadSafeBuffer` region write
//@ block `fn write(&mut self, buf: &[u8]) -> std::io::Result<usize> {`
//@ sig `fn write_body(&mut self, buf: &[u8]) -> (r: Result<(usize, CursorGuard)>)`
//@ epilogue `.vx_with(guard)`
//@ subst `self.inner.lock().map_err(|e| std::io::Error::other(format!("{e}")))?` => `vx_lock(&self.inner)?` :: R7 outline: poison-error conversion closure with format!
//@ contract
    ensures
        /*@AUX*/ final(self).inner.id() == old(self).inner.id(),
        // one positioned write at the handle's offset into the shared buffer; the handle advances by what was written
        /*@C17*/ r matches Ok(p) ==> p.1.of() == old(self).inner.id(),
        /*@C17*/ r matches Ok(p) ==> p.0 == buf@.len(),
        /*@C17*/ r matches Ok(p) ==> write_post(p.1.pre(), old(self).idx as int, buf@, p.1.content(), final(self).idx as int),
//@ end
}

} // verus!
fn main() {}
