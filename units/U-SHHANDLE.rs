//@ unit U-SHHANDLE
//@ props C18 C05 C09
//@ verus-args --rlimit 100
//@ rules-from shhandle crashfs
#![allow(non_snake_case, unused)]
use vstd::prelude::*;
use vstd::std_specs::cmp::*;
use std::cmp::Ordering;
use std::path::PathBuf;
use std::time::SystemTime;
verus! {
global size_of usize == 8;

//@ include prelude/setops_merklehash.rs
type HMACKey = MerkleHash;
#[verifier::external_type_specification]
#[verifier::external_body]
pub struct ExPathBuf(PathBuf);
#[verifier::external_type_specification]
#[verifier::external_body]
pub struct ExSystemTime(SystemTime);

//@ extract mdb_shard/src/shard_format.rs struct MDBShardFileHeader
//@ end
//@ extract mdb_shard/src/shard_format.rs struct MDBShardFileFooter
//@ end
//@ extract mdb_shard/src/shard_format.rs struct MDBShardInfo
//@ end
//@ extract mdb_shard/src/shard_file_handle.rs struct MDBShardFile
//@ end
//@ extract mdb_shard/src/file_structs.rs struct FileDataSequenceHeader
//@ end
//@ extract mdb_shard/src/file_structs.rs struct FileDataSequenceEntry
//@ end
//@ extract mdb_shard/src/file_structs.rs struct FileVerificationEntry
//@ end
//@ extract mdb_shard/src/file_structs.rs struct FileMetadataExt
//@ end
//@ extract mdb_shard/src/file_structs.rs struct MDBFileInfo
//@ end

// ================= std::io::Error with its kind; MDBShardError with the `#[from] io::Error` variant ==================
pub enum ErrorKind { NotFound, PermissionDenied, Other, Interrupted }
impl PartialEqSpecImpl for ErrorKind {
    open spec fn obeys_eq_spec() -> bool { true }
    open spec fn eq_spec(&self, other: &Self) -> bool { *self == *other }
}
impl PartialEq for ErrorKind {
    // std derive(PartialEq) on the fieldless enum: structural
    #[verifier::external_body]
    fn eq(&self, other: &Self) -> (r: bool) { unimplemented!() }
}
pub struct IoError { pub kind: ErrorKind }
impl IoError {
    // io::Error::kind(): exact
    #[verifier::external_body]
    fn kind(&self) -> (r: ErrorKind) ensures r == self.kind { unimplemented!() }
    // io::Error::other(..): a new error of kind Other (the payload is the message only)
    #[verifier::external_body]
    fn other(msg: String) -> (r: IoError) ensures r.kind == ErrorKind::Other { unimplemented!() }
}
// `format!` outline (rule crashfs.R7f): the text does not matter here
#[verifier::external_body]
fn vx_format(lead: &str, trail: &str) -> (r: String) { unimplemented!() }
pub enum MDBShardError { IOError(IoError), OtherVariant }
// thiserror's `#[from] io::Error` on the IOError variant
impl vstd::std_specs::convert::FromSpecImpl<IoError> for MDBShardError {
    open spec fn obeys_from_spec() -> bool { true }
    open spec fn from_spec(e: IoError) -> MDBShardError { MDBShardError::IOError(e) }
}
impl From<IoError> for MDBShardError {
    fn from(e: IoError) -> (r: MDBShardError) ensures r == MDBShardError::IOError(e) { MDBShardError::IOError(e) }
}
type Result<T> = std::result::Result<T, MDBShardError>;

// the directory at the time of the call: is there a file under this path, and what does it hold
uninterp spec fn file_present(p: PathBuf) -> bool;
uninterp spec fn file_bytes_at(p: PathBuf) -> Seq<u8>;
struct VxFile { bytes: Ghost<Seq<u8>> }
struct VxBufReader { bytes: Ghost<Seq<u8>> }
// std::fs::File::open: NotFound exactly when there is no such file; other failures (permissions, ...) may happen for a present file
// The `?` that follows the call converts the io::Error with thiserror's `#[from]` (= `MDBShardError::IOError(e)`); Verus does not tie
// the `?` conversion to the `From` specification, so — as in the other units — the conversion is absorbed here: the stub already
// returns the converted error.  (An io::Error produced in between, e.g. by `map_err`, goes through the unspecified conversion.)
#[verifier::external_body]
fn vx_file_open(p: &PathBuf) -> (r: Result<VxFile>)
    ensures
        !file_present(*p) ==> (r matches Err(MDBShardError::IOError(e)) && e.kind == ErrorKind::NotFound),
        file_present(*p) ==> (r matches Err(e) ==> open_failed(e)) && (r matches Ok(f) ==> f.bytes@ == file_bytes_at(*p)),
{ unimplemented!() }
impl VxBufReader {
    #[verifier::external_body]
    fn with_capacity(n: usize, f: VxFile) -> (r: VxBufReader) ensures r.bytes@ == f.bytes@ { unimplemented!() }
}

// the three shard queries (contracts proved in U-SHLOOKUP / U-SHQ): here only "a function of the shard info, the file bytes and the query"
uninterp spec fn spec_recon(s: MDBShardInfo, bytes: Seq<u8>, h: MerkleHash) -> Result<Option<MDBFileInfo>>;
uninterp spec fn spec_dedup(s: MDBShardInfo, bytes: Seq<u8>, q: Seq<MerkleHash>) -> Result<Option<(usize, FileDataSequenceEntry)>>;
uninterp spec fn spec_dedup_direct(s: MDBShardInfo, bytes: Seq<u8>, q: Seq<MerkleHash>, bi: u32, co: u32) -> Result<Option<(usize, FileDataSequenceEntry)>>;
impl MDBShardInfo {
    #[verifier::external_body]
    fn get_file_reconstruction_info(&self, reader: &mut VxBufReader, file_hash: &MerkleHash) -> (r: Result<Option<MDBFileInfo>>)
        ensures r == spec_recon(*self, old(reader).bytes@, *file_hash) { unimplemented!() }
    #[verifier::external_body]
    fn chunk_hash_dedup_query(&self, reader: &mut VxBufReader, query_hashes: &[MerkleHash]) -> (r: Result<Option<(usize, FileDataSequenceEntry)>>)
        ensures r == spec_dedup(*self, old(reader).bytes@, query_hashes@) { unimplemented!() }
    #[verifier::external_body]
    fn chunk_hash_dedup_query_direct(&self, reader: &mut VxBufReader, query_hashes: &[MerkleHash], cas_block_index: u32, cas_chunk_offset: u32) -> (r: Result<Option<(usize, FileDataSequenceEntry)>>)
        ensures r == spec_dedup_direct(*self, old(reader).bytes@, query_hashes@, cas_block_index, cas_chunk_offset) { unimplemented!() }
}

// a failed open that is NOT "file gone": the only way a wrapper may fail before asking the shard
spec fn open_failed(e: MDBShardError) -> bool { (e matches MDBShardError::IOError(x) && x.kind != ErrorKind::NotFound) }

impl MDBShardFile {
//@ extract mdb_shard/src/shard_file_handle.rs in `impl MDBShardFile` fn get_reader
//@ ret r
//@ rules R17e R7f
//@ subst `Result<BufReader<std::fs::File>>` => `Result<VxBufReader>` :: R11 reader stub
//@ subst `std::fs::File::open` => `vx_file_open` :: R11 file-system stub with a ghost directory
//@ subst `BufReader::with_capacity` => `VxBufReader::with_capacity` :: R11 reader stub
//@ optsubst `std::io::Error::other` => `IoError::other` :: R11 io::Error stub that carries its kind
//@ contract
        ensures
            // the error of a failed open reaches the caller WITH ITS KIND: NotFound exactly when the file is gone
            /*@C18,C05,C09*/ !file_present(self.path) ==> (r matches Err(MDBShardError::IOError(e)) && e.kind == ErrorKind::NotFound),
            /*@C18,C05,C09*/ file_present(self.path) ==> (r matches Ok(rd) ==> rd.bytes@ == file_bytes_at(self.path)) && (r matches Err(e) ==> open_failed(e)),
//@ end
//@ extract mdb_shard/src/shard_file_handle.rs in `impl MDBShardFile` fn get_reader_if_present
//@ ret r
//@ subst `Result<Option<BufReader<std::fs::File>>>` => `Result<Option<VxBufReader>>` :: R11 reader stub
//@ contract
        ensures
            // a shard file that was deleted meanwhile (expired and cleaned, consolidated away) is a soft miss, nothing else is
            /*@C18,C05,C09*/ (r matches Ok(None)) <==> !file_present(self.path),
            /*@C18,C05,C09*/ r matches Ok(Some(rd)) ==> rd.bytes@ == file_bytes_at(self.path),
            /*@C18,C05,C09*/ r matches Err(e) ==> open_failed(e),
//@ end
//@ extract mdb_shard/src/shard_file_handle.rs in `impl MDBShardFile` fn get_file_reconstruction_info
//@ ret r
//@ contract
        ensures
            /*@C18,C09*/ !file_present(self.path) ==> r == Ok::<Option<MDBFileInfo>, MDBShardError>(None),
            // otherwise the shard's answer, unchanged (or the open failure)
            /*@C09*/ file_present(self.path) ==> (r == spec_recon(self.shard, file_bytes_at(self.path), *file_hash) || (r matches Err(e) && open_failed(e))),
//@ end
//@ extract mdb_shard/src/shard_file_handle.rs in `impl MDBShardFile` fn chunk_hash_dedup_query
//@ ret r
//@ contract
        ensures
            /*@C18,C05*/ !file_present(self.path) ==> r == Ok::<Option<(usize, FileDataSequenceEntry)>, MDBShardError>(None),
            /*@C05*/ file_present(self.path) ==> (r == spec_dedup(self.shard, file_bytes_at(self.path), query_hashes@) || (r matches Err(e) && open_failed(e))),
//@ end
//@ extract mdb_shard/src/shard_file_handle.rs in `impl MDBShardFile` fn chunk_hash_dedup_query_direct
//@ ret r
//@ contract
        ensures
            /*@C18,C05*/ !file_present(self.path) ==> r == Ok::<Option<(usize, FileDataSequenceEntry)>, MDBShardError>(None),
            /*@C05*/ file_present(self.path) ==> (r == spec_dedup_direct(self.shard, file_bytes_at(self.path), query_hashes@, cas_block_index, cas_chunk_offset) || (r matches Err(e) && open_failed(e))),
//@ end
}

} // verus!
fn main() {}
