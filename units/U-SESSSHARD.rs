//@ unit U-SESSSHARD
//@ props C11 C05 C16
//@ verus-args --rlimit 100 --triggers-mode silent
//@ rules-from shflush ujoin exportwrap
//@ config MDB_SHARD_MIN_TARGET_SIZE MDB_SHARD_LOCAL_CACHE_EXPIRATION_SECS
//@ gsubst `dyn Client + Send + Sync` => `VxClient` :: R11 stub type for the cas_client trait object (not called by the functions under proof)
#![feature(allocator_api)]
#![allow(non_snake_case, unused, dropping_references)]
use vstd::prelude::*;
use vstd::multiset::*;
use std::collections::{BTreeMap, HashMap};
use std::sync::Arc;
verus! {
global size_of usize == 8;

//@ include prelude/ims_merklehash.rs
//@ include prelude/shq_io.rs

// ---- error types of the two crates: `mdb_shard::error::Result` (alias `Result`, prelude/shq_io.rs) and `data::errors::Result`
// (`DataResult` here: both crates call their alias `Result`; the data-crate items are extracted with `Result<` => `DataResult<`) ------
pub enum DataProcessingError { ShardError(MDBShardError), Other(u8) }   // `#[from] MDBShardError`
impl vstd::std_specs::convert::FromSpecImpl<MDBShardError> for DataProcessingError {
    open spec fn obeys_from_spec() -> bool { true }
    open spec fn from_spec(e: MDBShardError) -> Self { DataProcessingError::ShardError(e) }
}
impl From<MDBShardError> for DataProcessingError {
    fn from(e: MDBShardError) -> (r: Self) { DataProcessingError::ShardError(e) }
}
pub type DataResult<T> = std::result::Result<T, DataProcessingError>;
spec fn lift_err<T>(r: Result<T>) -> DataResult<T> {
    match r { Ok(v) => Ok(v), Err(e) => Err(DataProcessingError::ShardError(e)) }
}

// =====================================================================================================================
// The lock model of U-SHFLUSH (text copied from units/U-SHFLUSH.rs; rule R19 of vxlib/rules_extra/shflush.py writes down where
// the guard is dropped).  Two additions, both sound by the same induction over the sequence of critical sections:
//   * a STATE invariant `vx_inv` (here: U-IMS's `wf`): assumed for the value found at an acquisition, OBLIGED at every release;
//   * the acquisition hands out `vx_acq_bound` under the named global assumption `vx_counter_fits()` (see below).
// =====================================================================================================================
trait VxLockInv: Sized {
    spec fn vx_lock_step(&self, new: &Self) -> bool;
    spec fn vx_published(&self) -> bool;
    spec fn vx_inv(&self) -> bool;
    spec fn vx_acq_bound(&self) -> bool;
}
// ASSUMPTION (named, carried as a precondition up the whole call chain): the shard's running byte counter
// `current_shard_file_size` (u64) stays 2^40 below u64::MAX in every state found under the lock.  The counter is the size of the
// shard file the state would serialise to; it is reset by every flush, which `add_*` trigger once it exceeds the target size.
uninterp spec fn vx_counter_fits() -> bool;
#[verifier::external_body]
#[verifier::accept_recursive_types(T)]
struct RwLock<T> { _p: std::marker::PhantomData<T> }
impl<T: VxLockInv> RwLock<T> {
    uninterp spec fn vx_acquired(&self, v: T) -> bool;
    #[verifier::external_body]
    fn write(&self) -> (r: &mut T)
        ensures self.vx_acquired(*r), r.vx_inv(), vx_counter_fits() ==> r.vx_acq_bound(),
    { unimplemented!() }
}
#[verifier::external_body]
proof fn vx_release_write<T: VxLockInv>(old: T, new: T)
    requires /*@C11*/ old.vx_lock_step(&new), /*@C05*/ new.vx_inv(),
    ensures new.vx_published(),
{}
trait VxTry { spec fn vx_try_exits(&self) -> bool; }
impl<T, E> VxTry for std::result::Result<T, E> { spec fn vx_try_exits(&self) -> bool { self is Err } }
impl<T> VxTry for Option<T> { spec fn vx_try_exits(&self) -> bool { self is None } }
spec fn vx_exits<T: VxTry>(x: T) -> bool { x.vx_try_exits() }
pub assume_specification<T> [std::mem::drop] (_0: T);
pub assume_specification<T: std::default::Default> [std::mem::take] (x: &mut T) -> (r: T)
    ensures r == *old(x), call_ensures(T::default, (), *final(x));

// ---- vocabulary of C11 at this layer (names of U-SHFLUSH / U-SESSCUT) -----------------------------------------------------------
/// key of a record held by the in-memory shard: the xorb hash of a CAS block / the file hash of a file record
enum VxRecId { Cas(MerkleHash), File(MerkleHash) }
/// CAPABILITY (U-SHFLUSH): the record is contained in a completely written shard file of the session directory
uninterp spec fn vx_flushed(r: VxRecId) -> bool;
/// MARKER (U-SHFLUSH): the record was in the protected state when a write guard was released
uninterp spec fn vx_recorded(r: VxRecId) -> bool;
/// MARKER, content-aware: this block, with exactly this chunk list, was in the protected state when a write guard was released
uninterp spec fn vx_recorded_block(info: MDBCASInfo) -> bool;
/// U-SESSCUT's capability `vx_cas_recorded(xorb hash)`, DEFINED here: the xorb's record was in the session's shared in-memory
/// shard when the write guard was released; by U-SHFLUSH's no-loss invariant it is from then on in memory or in a flushed shard
/// file of the session ("some shard of this session contains the block")
spec fn vx_cas_recorded(xorb_hash: MerkleHash) -> bool { vx_recorded(VxRecId::Cas(xorb_hash)) }

// ---- dependency stubs (R11) --------------------------------------------------------------------------------------------------
pub struct PathBuf { pub id: int }   // an opaque identity (two directories can differ)
pub type Path = PathBuf;
pub struct AtomicBool { _p: () }
pub struct ShardBookkeeper { _p: () }
impl VxLockInv for ShardBookkeeper {
    spec fn vx_lock_step(&self, new: &Self) -> bool { true }
    spec fn vx_published(&self) -> bool { true }
    spec fn vx_inv(&self) -> bool { true }
    spec fn vx_acq_bound(&self) -> bool { true }
}
pub struct VxClient { _p: () }
pub type RepoSalt = [u8; 32];
pub struct ShardConfig { pub prefix: String, pub repo_salt: RepoSalt }   // the two fields upload_and_register_session_shards reads
pub struct TranslatorConfig { pub shard_config: ShardConfig }
pub struct TempDir { _p: () }
#[verifier::external_body] #[verifier::accept_recursive_types(T)] pub struct JoinSet<T> { _p: std::marker::PhantomData<T> }

//@ extract mdb_shard/src/cas_structs.rs struct CASChunkSequenceHeader
//@ end
//@ extract mdb_shard/src/cas_structs.rs struct CASChunkSequenceEntry
//@ end
//@ extract mdb_shard/src/cas_structs.rs struct MDBCASInfo
//@ end
//@ extract mdb_shard/src/file_structs.rs struct FileDataSequenceEntry
//@ end
//@ extract mdb_shard/src/file_structs.rs struct FileDataSequenceHeader
//@ end
struct MDBFileInfo { metadata: FileDataSequenceHeader, x: u8 }
uninterp spec fn spec_file_num_bytes(f: MDBFileInfo) -> u64;
impl Clone for MDBCASInfo {
    #[verifier::external_body]
    fn clone(&self) -> (r: MDBCASInfo) ensures r == *self { unimplemented!() }
}
//@ extract mdb_shard/src/shard_in_memory.rs struct MDBInMemoryShard
//@ end
//@ extract mdb_shard/src/shard_file_manager.rs struct ShardFileManager
//@ end

//@ include prelude/ims_sum.rs
//@ include prelude/ims_vocab.rs
//@ include prelude/sess_ims_post.rs
//@ include prelude/shq_truthful.rs

// ---- the in-memory shard: callee contracts copied from U-IMS (same predicates: prelude/ims_vocab.rs, prelude/sess_ims_post.rs) ----
impl MDBInMemoryShard {
    /// membership in the set of record keys the shard holds (U-SHFLUSH's abstraction `view()`, here DEFINED from the two BTreeMaps)
    spec fn has(&self, x: VxRecId) -> bool {
        match x {
            VxRecId::Cas(h) => self.cas_content@.contains_key(h),
            VxRecId::File(h) => self.file_content@.contains_key(h),
        }
    }
    // U-IMS: requires wf, size_inv, cas_fits(block), counter does not overflow; ensures wf, ims_add_cas_post (incl. size_inv), Ok
    #[verifier::external_body]
    fn add_cas_block(&mut self, cas_block_contents: MDBCASInfo) -> (r: Result<()>)
        requires
            ims_wf(old(self).chunk_hash_lookup@), size_inv(*old(self)), cas_fits(cas_block_contents),
            old(self).current_shard_file_size + 64 * cas_block_contents.chunks@.len() + 60 <= u64::MAX,
        ensures ims_wf(final(self).chunk_hash_lookup@), ims_add_cas_post(*old(self), *final(self), cas_block_contents), r is Ok,
    { unimplemented!() }
    // U-IMS: requires counter does not overflow; ensures ims_add_file_post, Ok
    #[verifier::external_body]
    fn add_file_reconstruction_info(&mut self, file_info: MDBFileInfo) -> (r: Result<()>)
        requires size_inv(*old(self)), old(self).current_shard_file_size + spec_file_num_bytes(file_info) + 12 <= u64::MAX,
        ensures ims_add_file_post(*old(self), *final(self), file_info), r is Ok,
    { unimplemented!() }
    /// `current_shard_file_size + MDBShardInfo::non_content_byte_size()` (only compared against the flush threshold)
    #[verifier::external_body]
    fn shard_file_size(&self) -> u64 { unimplemented!() }
}
// derived `Default`: the empty shard (not used by the pinned code of this unit; keeps "take the state out" restructurings decidable)
pub closed spec fn is_empty_shard(r: MDBInMemoryShard) -> bool {
    r.cas_content@ == Map::<MerkleHash, Arc<MDBCASInfo>>::empty() && r.file_content@ == Map::<MerkleHash, MDBFileInfo>::empty()
        && r.chunk_hash_lookup@ == Map::<MerkleHash, (Arc<MDBCASInfo>, u64)>::empty() && r.current_shard_file_size == 0
}
impl Default for MDBInMemoryShard {
    #[verifier::external_body]
    fn default() -> (r: Self) ensures is_empty_shard(r) { unimplemented!() }
}
// THE LOCK INVARIANT of `ShardFileManager::current_state`
impl VxLockInv for MDBInMemoryShard {
    // U-SHFLUSH: no record is lost
    spec fn vx_lock_step(&self, new: &Self) -> bool { forall|x: VxRecId| self.has(x) ==> new.has(x) || #[trigger] vx_flushed(x) }
    spec fn vx_published(&self) -> bool {
        &&& forall|x: VxRecId| self.has(x) ==> #[trigger] vx_recorded(x)
        &&& forall|h: MerkleHash| self.cas_content@.contains_key(h) ==> vx_recorded_block(*#[trigger] self.cas_content@[h])
    }
    // U-IMS's index invariant (what U-SFMQ's query requires of the in-memory shard) and its size-accounting invariant
    spec fn vx_inv(&self) -> bool { ims_wf(self.chunk_hash_lookup@) && size_inv(*self) }
    spec fn vx_acq_bound(&self) -> bool { self.current_shard_file_size <= u64::MAX - 0x100_0000_0000 }
}

// ---- the dedup universe of U-DEDUP (text copied from units/prelude/dedup_types.rs, dedup_segments.rs; `truthful` is called
// `truthful_dedup` here because prelude/shq_truthful.rs owns the name) --------------------------------------------------------------
pub uninterp spec fn len_of(h: MerkleHash) -> nat;
pub uninterp spec fn xorb_chunks(x: MerkleHash) -> Seq<MerkleHash>;
spec fn sum_len(s: Seq<MerkleHash>) -> nat decreases s.len() {
    if s.len() == 0 { 0 } else { sum_len(s.drop_last()) + len_of(s.last()) }
}
spec fn seg_src(e: FileDataSequenceEntry, nd: Seq<MerkleHash>) -> Seq<MerkleHash> {
    if e.cas_hash == zero_hash() { nd } else { xorb_chunks(e.cas_hash) }
}
spec fn seg_den(e: FileDataSequenceEntry, nd: Seq<MerkleHash>) -> Seq<MerkleHash> {
    seg_src(e, nd).subrange(e.chunk_index_start as int, e.chunk_index_end as int)
}
spec fn seg_ok(e: FileDataSequenceEntry, nd: Seq<MerkleHash>) -> bool {
    &&& e.chunk_index_start < e.chunk_index_end <= seg_src(e, nd).len()
    &&& e.unpacked_segment_bytes == sum_len(seg_den(e, nd))
    &&& sum_len(seg_src(e, nd)) <= u32::MAX
}
spec fn truthful_dedup(q: Seq<MerkleHash>, n: int, fse: FileDataSequenceEntry) -> bool {
    &&& 1 <= n <= q.len()
    &&& fse.cas_hash != zero_hash()
    &&& seg_ok(fse, Seq::<MerkleHash>::empty())
    &&& seg_den(fse, Seq::<MerkleHash>::empty()) == q.subrange(0, n)
}

// ---- faithful records: a shard record of xorb H lists the chunks content addressing assigns to H --------------------------------
// (established where the record is built: `RawXorbData::from_chunks`, U-XORBNAME / U-DEDUP `xorb_wf`; assumed for shards that came
// from the server)
spec fn faithful_rec(hash: MerkleHash, xs: Seq<CASChunkSequenceEntry>, key: MerkleHash) -> bool {
    &&& hash != zero_hash()
    &&& xs.len() == xorb_chunks(hash).len()
    &&& forall|i: int| 0 <= i < xs.len() ==> (#[trigger] xs[i]).chunk_hash == keyed(key, xorb_chunks(hash)[i])
            && xs[i].unpacked_segment_bytes == len_of(xorb_chunks(hash)[i])
    &&& sum_unpacked(xs, 0, xs.len() as int) <= u32::MAX
}
spec fn faithful(x: MDBCASInfo) -> bool { faithful_rec(x.metadata.cas_hash, x.chunks@, zero_hash()) }
// collision freedom of the keyed hash (blake3 keyed hash opaque)
spec fn keyed_inj(key: MerkleHash) -> bool { forall|a: MerkleHash, b: MerkleHash| #[trigger] keyed(key, a) == #[trigger] keyed(key, b) ==> a == b }

proof fn lemma_sum_bridge(hash: MerkleHash, xs: Seq<CASChunkSequenceEntry>, key: MerkleHash, a: int, b: int)
    requires faithful_rec(hash, xs, key), 0 <= a <= b <= xs.len(),
    ensures sum_unpacked(xs, a, b) == sum_len(xorb_chunks(hash).subrange(a, b)),
    decreases b - a,
{
    let cs = xorb_chunks(hash);
    if a < b {
        lemma_sum_bridge(hash, xs, key, a, b - 1);
        assert(cs.subrange(a, b).drop_last() =~= cs.subrange(a, b - 1));
        assert(cs.subrange(a, b).last() == cs[b - 1]);
        assert(xs[b - 1].unpacked_segment_bytes == len_of(cs[b - 1]));
    } else {
        assert(cs.subrange(a, b).len() == 0);
    }
}
// FROM the proved manager-level truthfulness (U-IMS `truthful_mem` with key = zero / U-SHQ `truthful` under the shard's key, as
// U-SFMQ's soundness clause returns them) TO the trait contract U-DEDUP assumes
proof fn lemma_truthful_bridge(xh: CASChunkSequenceHeader, xs: Seq<CASChunkSequenceEntry>, key: MerkleHash, q: Seq<MerkleHash>, n: int, fse: FileDataSequenceEntry)
    requires truthful(xh, xs, key, q, n, fse), faithful_rec(xh.cas_hash, xs, key), keyed_inj(key),
    ensures truthful_dedup(q, n, fse),
{
    let h = xh.cas_hash; let cs = xorb_chunks(h);
    let a = fse.chunk_index_start as int; let b = fse.chunk_index_end as int;
    lemma_sum_bridge(h, xs, key, a, b);
    lemma_sum_bridge(h, xs, key, 0, xs.len() as int);
    assert(cs.subrange(0, cs.len() as int) =~= cs);
    assert forall|k: int| 0 <= k < n implies cs[a + k] == q[k] by {
        assert(xs[a + k].chunk_hash == keyed(key, q[k]));
        assert(xs[a + k].chunk_hash == keyed(key, cs[a + k]));
    }
    assert(cs.subrange(a, b) =~= q.subrange(0, n));
}
proof fn lemma_truthful_bridge_mem(x: MDBCASInfo, q: Seq<MerkleHash>, n: int, fse: FileDataSequenceEntry)
    requires truthful_mem(x, q, n, fse), faithful(x),
    ensures truthful_dedup(q, n, fse),
{
    assert(keyed_inj(zero_hash()));
    assert(truthful(x.metadata, x.chunks@, zero_hash(), q, n, fse));
    lemma_truthful_bridge(x.metadata, x.chunks@, zero_hash(), q, n, fse);
}
// an answer a shard manager may give: truthful about a faithful record, in memory (unkeyed) or on disk under the shard's key —
// the two disjuncts of U-SFMQ's soundness clause, each paired with the faithfulness of the record it speaks about
spec fn mgr_answer_ok(q: Seq<MerkleHash>, n: int, fse: FileDataSequenceEntry) -> bool {
    ||| exists|x: MDBCASInfo| #[trigger] truthful_mem(x, q, n, fse) && faithful(x)
    ||| exists|xh: CASChunkSequenceHeader, xs: Seq<CASChunkSequenceEntry>, key: MerkleHash|
            #[trigger] truthful(xh, xs, key, q, n, fse) && faithful_rec(xh.cas_hash, xs, key) && keyed_inj(key)
}
proof fn lemma_answer_truthful(q: Seq<MerkleHash>, n: int, fse: FileDataSequenceEntry)
    requires mgr_answer_ok(q, n, fse),
    ensures /*@C05*/ truthful_dedup(q, n, fse),
{
    if exists|x: MDBCASInfo| #[trigger] truthful_mem(x, q, n, fse) && faithful(x) {
        let x = choose|x: MDBCASInfo| #[trigger] truthful_mem(x, q, n, fse) && faithful(x);
        lemma_truthful_bridge_mem(x, q, n, fse);
    } else {
        let (xh, xs, key) = choose|xh: CASChunkSequenceHeader, xs: Seq<CASChunkSequenceEntry>, key: MerkleHash|
            #[trigger] truthful(xh, xs, key, q, n, fse) && faithful_rec(xh.cas_hash, xs, key) && keyed_inj(key);
        lemma_truthful_bridge(xh, xs, key, q, n, fse);
    }
}
// the in-memory index keeps answering about faithful records when a faithful block is added (from U-IMS's `ims_add_cas_post`)
spec fn all_faithful(lookup: Map<MerkleHash, (Arc<MDBCASInfo>, u64)>) -> bool {
    forall|h: MerkleHash| lookup.contains_key(h) ==> faithful(*(#[trigger] lookup[h]).0)
}
proof fn lemma_add_keeps_faithful(o: MDBInMemoryShard, n: MDBInMemoryShard, info: MDBCASInfo)
    requires ims_add_cas_post(o, n, info), all_faithful(o.chunk_hash_lookup@), faithful(info),
    ensures all_faithful(n.chunk_hash_lookup@),
{
    assert forall|h: MerkleHash| n.chunk_hash_lookup@.contains_key(h) implies faithful(*(#[trigger] n.chunk_hash_lookup@[h]).0) by {
        if exists|i: int| 0 <= i < info.chunks@.len() && #[trigger] info.chunks@[i].chunk_hash == h {
            let i = choose|i: int| 0 <= i < info.chunks@.len() && #[trigger] info.chunks@[i].chunk_hash == h;
            assert(*(n.chunk_hash_lookup@[info.chunks@[i].chunk_hash]).0 == info);
        } else {
            assert(o.chunk_hash_lookup@.contains_key(h));
            assert(n.chunk_hash_lookup@[h] == o.chunk_hash_lookup@[h]);
        }
    }
}

// =====================================================================================================================
// Layer 2: ShardFileManager (the session's shard manager): insert under the write lock, flush trigger
// =====================================================================================================================
// a name for the manager's answer (used to say the glue hands it on unchanged)
uninterp spec fn mgr_query_result(m: ShardFileManager, q: Seq<MerkleHash>) -> Result<Option<(usize, FileDataSequenceEntry)>>;

// the write lock of manager m's `current_state` was taken by the current activation
spec fn locked_here(m: ShardFileManager) -> bool { exists|s: MDBInMemoryShard| #[trigger] m.current_state.vx_acquired(s) }

impl ShardFileManager {
    /// U-SHFLUSH proves `flush` (release obligations `no_loss`, "Ok => everything found under the lock is in a shard file"); its
    /// result is only propagated here
    /// added for `upload_and_register_session_shards`: Ok => what the in-memory shard held is in a shard file of THIS manager's
    /// directory (U-SHFLUSH's "Ok => everything found under the lock is in a shard file"), as the marker the consolidation asks for
    #[verifier::external_body]
    fn flush(&self) -> (r: Result<Option<PathBuf>>)
        ensures r is Ok ==> vx_dir_flushed(self.shard_directory),
    { unimplemented!() }
    /// `&self.shard_directory`
    #[verifier::external_body]
    fn shard_directory(&self) -> (r: &Path) ensures *r == self.shard_directory { unimplemented!() }
    /// U-SHREG proves `register_shards` (every shard of the slice ends up in the bookkeeper's collection of its key); here: the marker
    #[verifier::external_body]
    fn register_shards(&self, new_shards: &[Arc<MDBShardFile>]) -> (r: Result<()>)
        ensures r is Ok ==> forall|i: int| 0 <= i < new_shards@.len() ==> vx_registered_in(*self, *#[trigger] new_shards@[i]),
    { unimplemented!() }
    /// U-SFMQ proves the query (soundness: in-memory `truthful_mem` or `disk_truthful` under the probing collection's key). Here:
    /// its answer gets a name, and the soundness clause is paired with the faithfulness of the records the shards hold
    /// (`mgr_answer_ok`; the faithfulness half is the assumption, see notes)
    #[verifier::external_body]
    fn chunk_hash_dedup_query(&self, query_hashes: &[MerkleHash]) -> (r: Result<Option<(usize, FileDataSequenceEntry)>>)
        requires query_hashes@.len() > 0,
        ensures r == mgr_query_result(*self, query_hashes@),
            r matches Ok(Some((n, fse))) ==> mgr_answer_ok(query_hashes@, n as int, fse),
    { unimplemented!() }

//@ extract mdb_shard/src/shard_file_manager.rs in `impl ShardFileManager` fn add_cas_block
//@ ret ret
//@ rules R19
//@ contract
        requires vx_counter_fits(), cas_fits(cas_block_contents),
        ensures
            // Ok: the block — with exactly its chunk list — was in the CURRENT shared in-memory shard when the write guard was
            // released; the release obligations (no_loss + index invariant) hold at every exit, flush trigger included
            /*@C11*/ ret is Ok ==> vx_cas_recorded(cas_block_contents.metadata.cas_hash) && vx_recorded_block(cas_block_contents),
            // ... and it was THIS manager's state whose write lock was taken
            /*@C11*/ ret is Ok ==> locked_here(*self),
//@ before `if lg.shard_file_size() >= self.target_shard_min_size`
        proof {
            // carries the property: after the insert the block's key IS in the state still held under the write lock
            /*@C11*/ assert((*lg).has(VxRecId::Cas(cas_block_contents.metadata.cas_hash)));
            assert forall|x: VxRecId| vx_old_lg_1.has(x) implies (*lg).has(x) by {}
        }
//@ end

//@ extract mdb_shard/src/shard_file_manager.rs in `impl ShardFileManager` fn add_file_reconstruction_info
//@ ret ret
//@ rules R19
//@ contract
        requires vx_counter_fits(), spec_file_num_bytes(file_info) <= 0xff_ffff_ff00,
        ensures /*@C11*/ ret is Ok ==> vx_recorded(VxRecId::File(file_info.metadata.file_hash)) && locked_here(*self),
//@ before `if lg.shard_file_size() >= self.target_shard_min_size`
        proof {
            // carries the property: after the insert the record's key IS in the state still held under the write lock
            /*@C11*/ assert((*lg).has(VxRecId::File(file_info.metadata.file_hash)));
            assert forall|x: VxRecId| vx_old_lg_1.has(x) implies (*lg).has(x) by {}
        }
//@ end
}

// =====================================================================================================================
// Layer 3: SessionShardInterface (data/src/shard_interface.rs): the session-local manager and the cache-directory manager
// =====================================================================================================================
//@ extract data/src/shard_interface.rs struct SessionShardInterface
//@ end

// what the interface answers, as a function of the two managers' answers: the SESSION manager is asked first; the CACHE manager
// only if the session manager answered Ok(None); errors of either propagate (first one wins)
spec fn iface_answer(sess: Result<Option<(usize, FileDataSequenceEntry)>>, cache: Result<Option<(usize, FileDataSequenceEntry)>>)
    -> DataResult<Option<(usize, FileDataSequenceEntry)>> {
    match sess {
        Err(e) => Err(DataProcessingError::ShardError(e)),
        Ok(Some(a)) => Ok(Some(a)),
        Ok(None) => lift_err(cache),
    }
}

// equality of answers; an error answers an error (the payload goes through `From<MDBShardError>`, not tracked)
spec fn same_answer(r: DataResult<Option<(usize, FileDataSequenceEntry)>>, e: DataResult<Option<(usize, FileDataSequenceEntry)>>) -> bool {
    match (r, e) { (Ok(a), Ok(b)) => a == b, (Err(_), Err(_)) => true, _ => false }
}

impl SessionShardInterface {
//@ extract data/src/shard_interface.rs in `impl SessionShardInterface` fn chunk_hash_dedup_query
//@ ret r
//@ subst `Result<` => `DataResult<` :: the data crate's `Result` alias (both crates name their alias `Result`)
//@ contract
        requires query_hashes@.len() > 0,
        ensures
            // the answer handed to the deduper is a manager's answer, UNCHANGED; session-local shards first, then the cache directory
            /*@C05,C11*/ same_answer(r, iface_answer(mgr_query_result(*self.session_shard_manager, query_hashes@), mgr_query_result(*self.cache_shard_manager, query_hashes@))),
            /*@C05*/ r matches Ok(Some((n, fse))) ==> mgr_answer_ok(query_hashes@, n as int, fse),
//@ end

//@ extract data/src/shard_interface.rs in `impl SessionShardInterface` fn add_cas_block
//@ ret r
//@ subst `Result<` => `DataResult<` :: the data crate's `Result` alias
//@ contract
        requires vx_counter_fits(), cas_fits(cas_block_contents),
        ensures /*@C11,C16*/ r is Ok ==> vx_cas_recorded(cas_block_contents.metadata.cas_hash) && vx_recorded_block(cas_block_contents)
            // recorded in the SESSION manager (the one whose shards are uploaded and registered at finalize), not the cache manager
            && locked_here(*self.session_shard_manager),
//@ end

//@ extract data/src/shard_interface.rs in `impl SessionShardInterface` fn add_file_reconstruction_info
//@ ret r
//@ subst `Result<` => `DataResult<` :: the data crate's `Result` alias
//@ contract
        requires vx_counter_fits(), spec_file_num_bytes(file_info) <= 0xff_ffff_ff00,
        ensures /*@C11,C16*/ r is Ok ==> vx_recorded(VxRecId::File(file_info.metadata.file_hash)) && locked_here(*self.session_shard_manager),
//@ end
}

// =====================================================================================================================
// Layer 3b (added 2026-10-04, seed C11f1): SessionShardInterface::upload_and_register_session_shards — every session shard that this call
// uploads is ALSO exported into the cache directory and registered with the cache shard manager ("session shards moved to the cache and
// registered", C11 mechanism 3: that is how a later session sharing the local shard cache finds the xorbs of this one).
// The join bookkeeping (C16: every task joined, every result Ok) and the byte ledger (C14) of the same function are U-JOIN's; the
// JoinSet / future stubs below are U-JOIN's text reduced to the outcome multiset.
// =====================================================================================================================
#[verifier::external_body]
pub struct JoinError { _p: () }
#[verifier::external_body]
pub struct CasClientError { _p: () }
/// stands for std::io::Error (result of the outlined `std::fs::read`)
#[verifier::external_body]
pub struct VxIoError { _p: () }
// thiserror `#[from]` conversions used by the `?`s of the function and its task (only Err-ness matters)
impl From<JoinError> for DataProcessingError { #[verifier::external_body] fn from(e: JoinError) -> DataProcessingError { unimplemented!() } }
impl From<CasClientError> for DataProcessingError { #[verifier::external_body] fn from(e: CasClientError) -> DataProcessingError { unimplemented!() } }
impl From<VxIoError> for DataProcessingError { #[verifier::external_body] fn from(e: VxIoError) -> DataProcessingError { unimplemented!() } }

/// opaque future produced by rule ujoin.R16 from an `async move { .. }` block; `outcome()` = what joining it will yield (prophecy)
#[verifier::external_body]
#[verifier::accept_recursive_types(T)]
pub struct VxFuture<T> { _p: std::marker::PhantomData<T> }
impl<T> VxFuture<T> { uninterp spec fn outcome(&self) -> std::result::Result<T, JoinError>; }
impl<T> View for JoinSet<T> {
    type V = Multiset<std::result::Result<T, JoinError>>;
    uninterp spec fn view(&self) -> Multiset<std::result::Result<T, JoinError>>;
}
impl<T> JoinSet<T> {
    #[verifier::external_body]
    fn new() -> (r: Self) ensures r@ == Multiset::<std::result::Result<T, JoinError>>::empty() { unimplemented!() }
    #[verifier::external_body]
    fn spawn(&mut self, task: VxFuture<T>) ensures final(self)@ == old(self)@.insert(task.outcome()) { unimplemented!() }
    /// tokio: "Returns None if the set is empty"; otherwise waits for *some* task (arbitrary member: any completion order)
    #[verifier::external_body]
    fn join_next(&mut self) -> (r: Option<std::result::Result<T, JoinError>>)
        ensures match r {
            None => old(self)@.len() == 0 && final(self)@ == old(self)@,
            Some(x) => old(self)@.contains(x) && final(self)@ == old(self)@.remove(x),
        }
    { unimplemented!() }
}
pub type TaskRes = std::result::Result<DataResult<()>, JoinError>;
spec fn task_ok(x: TaskRes) -> bool { x matches Ok(Ok(_)) }
/// `now` is what is left of `before` after removing only successful results (U-JOIN's predicate)
spec fn drained_ok(before: Multiset<TaskRes>, now: Multiset<TaskRes>) -> bool {
    now.subset_of(before) && forall|x: TaskRes| before.count(x) > now.count(x) ==> #[trigger] task_ok(x)
}
proof fn lemma_drained_all(before: Multiset<TaskRes>, now: Multiset<TaskRes>)
    requires drained_ok(before, now), now.len() == 0,
    ensures forall|x: TaskRes| before.count(x) > 0 ==> #[trigger] task_ok(x),
{
    assert forall|x: TaskRes| before.count(x) > 0 implies #[trigger] task_ok(x) by {
        if now.count(x) > 0 { assert(now.contains(x)); assert(now.len() > 0); }
    }
}

// ---- vocabulary of the clause (markers in the style of `vx_recorded` above: uninterpreted, ONLY the named stub establishes each) ----------
/// the shard with this hash was accepted by the store: only a successful `upload_shard` establishes it (U-JOIN's capability, same name)
uninterp spec fn vx_shard_in_store(h: MerkleHash) -> bool;
/// `copy` is the handle of a hash-named shard file in directory `dir` whose content is `src`'s file with ONLY the footer's expiry
/// re-stamped to now + `valid_secs` seconds (U-EXPORTWRAP's postcondition of `MDBShardFile::export_with_expiration`): all xorb and file
/// records of `src` are in it
uninterp spec fn vx_cache_copy(copy: MDBShardFile, src: MDBShardFile, dir: PathBuf, valid_secs: u64) -> bool;
/// shard file `sf` is in manager `m`'s bookkeeper, so `m`'s dedup queries consult it (U-SHREG `register_shards`)
uninterp spec fn vx_registered_in(m: ShardFileManager, sf: MDBShardFile) -> bool;
/// a successful `flush` of the manager over directory `dir` happened: what its in-memory shard held is in a shard file there (U-SHFLUSH)
uninterp spec fn vx_dir_flushed(dir: PathBuf) -> bool;
/// `l` is a list `consolidate_shards_in_directory(dir, ..)` returned: shard files of `dir` that together hold every record of the
/// shard files that were there (U-CONSOLIDATE)
uninterp spec fn vx_consolidated(l: Seq<Arc<MDBShardFile>>, dir: PathBuf) -> bool;
/// the cache manager `m` serves a copy of `src` that lives in ITS OWN directory and is valid for the configured cache expiration
spec fn cached_in(src: MDBShardFile, m: ShardFileManager) -> bool {
    exists|c: MDBShardFile| #[trigger] vx_cache_copy(c, src, m.shard_directory, spec_MDB_SHARD_LOCAL_CACHE_EXPIRATION_SECS()) && vx_registered_in(m, c)
}
/// what must hold of one session shard when its task reports success (nothing is uploaded or made visible in a dry run)
spec fn shard_done(dry_run: bool, src: MDBShardFile, m: ShardFileManager) -> bool {
    dry_run || (vx_shard_in_store(src.shard_hash) && cached_in(src, m))
}
spec fn all_done(l: Seq<Arc<MDBShardFile>>, dry_run: bool, m: ShardFileManager) -> bool {
    forall|i: int| 0 <= i < l.len() ==> shard_done(dry_run, *#[trigger] l[i], m)
}

// ---- dependency stubs ------------------------------------------------------------------------------------------------------------
/// mdb_shard::MDBShardInfo: opaque; the two count accessors exist so that an edit that consults them stays decidable
pub struct MDBShardInfo { pub x: u64 }
impl MDBShardInfo {
    #[verifier::external_body] fn num_file_entries(&self) -> usize { unimplemented!() }
    #[verifier::external_body] fn num_cas_entries(&self) -> usize { unimplemented!() }
}
/// mdb_shard::MDBShardFile (the fields the function reads)
pub struct MDBShardFile { pub shard_hash: MerkleHash, pub path: PathBuf, pub shard: MDBShardInfo }
pub struct Duration { pub secs: u64 }
impl Duration { #[verifier::external_body] fn from_secs(s: u64) -> (r: Duration) ensures r.secs == s { unimplemented!() } }
impl MDBShardFile {
    /// U-EXPORTWRAP proves the wrapper (new hash-named file in `target_directory` = this file with the expiry re-stamped to
    /// now + shard_valid_for; the returned handle refers to it).  REQUIRES (C16 "local registration follows the successful upload", and
    /// C11: a later session must not dedup against a shard the store never got): the source shard is in the store.
    #[verifier::external_body]
    fn export_with_expiration(&self, target_directory: &Path, shard_valid_for: Duration) -> (r: Result<Arc<MDBShardFile>>)
        requires /*@C11,C16*/ vx_shard_in_store(self.shard_hash),
        ensures r matches Ok(n) ==> vx_cache_copy(*n, *self, *target_directory, shard_valid_for.secs),
    { unimplemented!() }
}
impl VxClient {
    /// cas_client::RegistrationClient::upload_shard
    #[verifier::external_body]
    fn upload_shard(&self, prefix: &str, hash: &MerkleHash, force_sync: bool, shard_data: &[u8], salt: &RepoSalt) -> (r: std::result::Result<bool, CasClientError>)
        ensures r is Ok ==> vx_shard_in_store(*hash),
    { unimplemented!() }
}
pub enum Ordering { Relaxed }
/// the shared byte counter (its ledger is U-JOIN's C14 subject; no contract here)
#[verifier::external_body]
pub struct AtomicUsize { _p: () }
impl AtomicUsize {
    #[verifier::external_body] fn new(v: usize) -> Self { unimplemented!() }
    #[verifier::external_body] fn fetch_add(&self, v: usize, o: Ordering) -> usize { unimplemented!() }
    #[verifier::external_body] fn load(&self, o: Ordering) -> usize { unimplemented!() }
}
pub struct OwnedSemaphorePermit { _p: () }
#[verifier::external_body]
fn acquire_upload_permit() -> DataResult<OwnedSemaphorePermit> { unimplemented!() }
/// outline (R7) of `std::fs::read(&si.path)`: the bytes are only handed to the store
#[verifier::external_body]
fn vx_fs_read(p: &PathBuf) -> std::result::Result<Vec<u8>, VxIoError> { unimplemented!() }
uninterp spec fn spec_MDB_SHARD_LOCAL_CACHE_EXPIRATION_SECS() -> u64;
#[verifier::external_body] fn MDB_SHARD_LOCAL_CACHE_EXPIRATION_SECS() -> (r: u64) ensures r == spec_MDB_SHARD_LOCAL_CACHE_EXPIRATION_SECS() { unimplemented!() }
uninterp spec fn spec_MDB_SHARD_MIN_TARGET_SIZE() -> u64;
#[verifier::external_body] fn MDB_SHARD_MIN_TARGET_SIZE() -> (r: u64) ensures r == spec_MDB_SHARD_MIN_TARGET_SIZE() { unimplemented!() }
/// mdb_shard::session_directory::consolidate_shards_in_directory (U-CONSOLIDATE).  REQUIRES that the directory's manager was flushed
/// (otherwise records still in memory are in no shard of the returned list)
#[verifier::external_body]
fn consolidate_shards_in_directory(session_directory: &Path, target_max_size: u64) -> (r: Result<Vec<Arc<MDBShardFile>>>)
    requires /*@C11*/ vx_dir_flushed(*session_directory),
    ensures r matches Ok(l) ==> vx_consolidated(l@, *session_directory),
{ unimplemented!() }
/// Rule exportwrap.R16e keeps the spawned `async move { .. }` body where it is written and evaluates it as a closure at the spawn
/// (so it sees exactly the locals it captures).  `VxTaskOut` = the task's value type.
type VxTaskOut = DataResult<()>;
/// ASSUMED (R16e): joining a task yields the value of its body, or a JoinError if it panicked / was cancelled.  The markers the body
/// establishes are timeless facts, so evaluating the body at the spawn instead of "some time before the join" loses nothing.
#[verifier::external_body]
fn vx_ready(o: VxTaskOut) -> (f: VxFuture<VxTaskOut>)
    ensures f.outcome() is Ok ==> f.outcome() == Ok::<VxTaskOut, JoinError>(o),
{ unimplemented!() }
/// THE TASK'S POSTCONDITION, checked at every exit of the body that yields a value (`return E;`, tail expression; a `?` exit yields Err):
/// the task reports success only if its shard is in the store AND a copy was exported into the cache manager's directory (valid for the
/// configured expiration) AND that copy was registered with the cache manager - whatever the shard contains.  Identity function.
fn vx_task_exit(Ghost(dry_run): Ghost<bool>, Ghost(si): Ghost<Arc<MDBShardFile>>, Ghost(cache_shard_manager): Ghost<Arc<ShardFileManager>>, e: VxTaskOut) -> (r: VxTaskOut)
    requires /*@C11*/ e is Ok ==> shard_done(dry_run, *si, *cache_shard_manager),
    ensures r == e,
{ e }

impl SessionShardInterface {
//@ extract data/src/shard_interface.rs in `impl SessionShardInterface` fn upload_and_register_session_shards
//@ ret ret
//@ rules R16e R17
//@ subst `Result<` => `DataResult<` :: the data crate's `Result` alias
//@ subst `std::fs::read(&si.path)` => `vx_fs_read(&si.path)` :: R7 outline of the file read (std::fs is outside Verus); result arbitrary
//@ subst `vx_task_post(vx_ret)` => `(vx_ret is Ok ==> shard_done(dry_run, *si, *cache_shard_manager))` :: R16e: the task's postcondition, over the variables the body captures
//@ subst `vx_task_exit_here(` => `vx_task_exit(Ghost(dry_run), Ghost(si), Ghost(cache_shard_manager), ` :: R16e: exit check of the task body (identity function whose precondition is the task's postcondition)
//@ contract
        ensures
            // C11: Ok (outside dry run) => EVERY shard of the consolidated session list was accepted by the store AND a copy of it, valid for
            // the configured cache expiration, was exported into the CACHE manager's directory and registered with the CACHE manager
            /*@C11*/ (ret is Ok && !self.dry_run) ==> exists|l: Seq<Arc<MDBShardFile>>|
                #[trigger] vx_consolidated(l, self.session_shard_manager.shard_directory) && all_done(l, false, *self.cache_shard_manager),
//@ before `for si in`
        let ghost list0 = shard_list@;
        let ghost mut outs: Seq<TaskRes> = Seq::empty();
        let ghost dry0 = self.dry_run;
        let ghost mgr0 = self.cache_shard_manager;
//@ loop 1
            invariant
                vx_it.seq() == list0, dry0 == self.dry_run, mgr0 == self.cache_shard_manager,
                // one task per shard taken from the list so far, each still pending or joined ...
                /*@C11*/ outs.len() == vx_it.index@,
                /*@C11*/ forall|j: int| 0 <= j < outs.len() ==> shard_uploads@.count(#[trigger] outs[j]) > 0,
                // ... and a task that reports success has uploaded its shard, exported it to the cache directory and registered it there
                /*@C11*/ forall|j: int| 0 <= j < outs.len() ==> task_ok(#[trigger] outs[j]) ==> shard_done(dry0, *list0[j], *mgr0),
//@ before `shard_uploads.spawn(vx_ready(`
            let ghost vx_pend_b = shard_uploads@;
//@ after `shard_uploads.spawn(vx_ready(vx_task_out));`
            proof {
                // carries the property: the task spawned for THIS shard is bound to this shard, the CACHE manager and the session's dry_run flag
                /*@C11*/ assert(exists|o: TaskRes| shard_uploads@ == #[trigger] vx_pend_b.insert(o) && (task_ok(o) ==> shard_done(dry0, *list0[vx_it.index@ as int], *mgr0)));
                let o = choose|o: TaskRes| shard_uploads@ == #[trigger] vx_pend_b.insert(o) && (task_ok(o) ==> shard_done(dry0, *list0[vx_it.index@ as int], *mgr0));
                outs = outs.push(o);
            }
//@ before `while let Some(jh)`
        let ghost pend0 = shard_uploads@;
//@ loop 2
            invariant /*@C11*/ drained_ok(pend0, shard_uploads@),
            ensures shard_uploads@.len() == 0,
            decreases shard_uploads@.len(),
//@ before `Ok(shard_bytes_uploaded`
        proof {
            lemma_drained_all(pend0, shard_uploads@);
            assert forall|i: int| 0 <= i < list0.len() implies shard_done(dry0, *#[trigger] list0[i], *mgr0) by {
                assert(pend0.count(outs[i]) > 0);
            }
        }
//@ end
}

// =====================================================================================================================
// Layer 4: UploadSessionDataManager (data/src/deduplication_interface.rs), the deduper's `DeduplicationDataInterface`
// =====================================================================================================================
struct RawXorbData { data: Vec<Arc<[u8]>>, cas_info: MDBCASInfo }   // deduplication::RawXorbData (fields as in the crate)
struct FileUploadSession { shard_interface: SessionShardInterface, x: u8 }   // the one field used here
impl FileUploadSession {
    // U-SESSCUT's contract of `register_new_xorb_for_upload`, C11 clause (its C15 clauses `xorb_le_limits`, `xorb_bytes_consistent`
    // live in U-SESSCUT's universe and are not repeated): a non-empty xorb may be handed to the uploader only after its chunk
    // list was recorded
    #[verifier::external_body]
    fn register_new_xorb_for_upload(&self, xorb: RawXorbData) -> DataResult<()>
        requires /*@C11*/ xorb.cas_info.metadata.num_bytes_in_cas > 0 ==> vx_cas_recorded(xorb.cas_info.metadata.cas_hash),
    { unimplemented!() }
}
//@ extract data/src/deduplication_interface.rs struct UploadSessionDataManager
//@ subst `Result<` => `DataResult<` :: the data crate's `Result` alias
//@ end

impl UploadSessionDataManager {
//@ extract data/src/deduplication_interface.rs in `impl DeduplicationDataInterface for UploadSessionDataManager` fn chunk_hash_dedup_query
//@ ret r
//@ subst `Result<` => `DataResult<` :: the data crate's `Result` alias
//@ contract
        requires query_hashes@.len() > 0,
        ensures
            // THE TRAIT CONTRACT U-DEDUP ASSUMES (`match r { Ok(Some((n, fse))) => truthful(query_hashes@, n, fse), _ => true }`)
            /*@C05*/ r matches Ok(Some((n, fse))) ==> truthful_dedup(query_hashes@, n as int, fse),
            /*@C05,C11*/ same_answer(r, iface_answer(mgr_query_result(*self.session.shard_interface.session_shard_manager, query_hashes@),
                                           mgr_query_result(*self.session.shard_interface.cache_shard_manager, query_hashes@))),
//@ body-start
        proof {
            assert forall|n: usize, fse: FileDataSequenceEntry| mgr_answer_ok(query_hashes@, n as int, fse) implies truthful_dedup(query_hashes@, n as int, fse) by {
                lemma_answer_truthful(query_hashes@, n as int, fse);
            }
        }
//@ end

//@ extract data/src/deduplication_interface.rs in `impl DeduplicationDataInterface for UploadSessionDataManager` fn register_new_xorb
//@ ret r
//@ subst `Result<` => `DataResult<` :: the data crate's `Result` alias
//@ contract
        requires vx_counter_fits(), cas_fits(xorb.cas_info),
        ensures
            // "the deduper cut a xorb => its chunk list is recorded in the session shard": Ok means the block, with exactly its chunk
            // list, was put into the session's current in-memory shard (and the hand-over to the uploader was allowed only after that:
            // the callee's precondition)
            /*@C11*/ r is Ok ==> vx_cas_recorded(xorb.cas_info.metadata.cas_hash) && vx_recorded_block(xorb.cas_info)
                && locked_here(*old(self).session.shard_interface.session_shard_manager),
//@ end
}

} // verus!
fn main() {}
