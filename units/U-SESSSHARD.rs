//@ unit U-SESSSHARD
//@ props C11 C05 C16
//@ verus-args --rlimit 100 --triggers-mode silent
//@ rules-from shflush
//@ gsubst `dyn Client + Send + Sync` => `VxClient` :: R11 stub type for the cas_client trait object (not called by the functions under proof)
#![feature(allocator_api)]
#![allow(non_snake_case, unused, dropping_references)]
use vstd::prelude::*;
use std::collections::{BTreeMap, HashMap};
use std::sync::Arc;
verus! {
global size_of usize == 8;

//@ include prelude/ims_merklehash.rs
//@ include prelude/shq_io.rs

// ---- error types of the two crates: `mdb_shard::error::Result` (alias `Result`, prelude/shq_io.rs) and `data::errors::Result`
// (`DataResult` here: both crates call their alias `Result`; the data-crate items are extracted with `Result<` => `DataResult<`) ------
pub enum DataProcessingError { ShardError(MDBShardError), Other(u8) }   // `#[from] MDBShardError`
impl vstd::std_specs::convert::FromSpecImpl<MDBShardError> for DataProcessingError {
    open spec fn obeys_from_spec() -> bool { true }
    open spec fn from_spec(e: MDBShardError) -> Self { DataProcessingError::ShardError(e) }
}
impl From<MDBShardError> for DataProcessingError {
    fn from(e: MDBShardError) -> (r: Self) { DataProcessingError::ShardError(e) }
}
pub type DataResult<T> = std::result::Result<T, DataProcessingError>;
spec fn lift_err<T>(r: Result<T>) -> DataResult<T> {
    match r { Ok(v) => Ok(v), Err(e) => Err(DataProcessingError::ShardError(e)) }
}

// =====================================================================================================================
// The lock model of U-SHFLUSH (text copied from units/U-SHFLUSH.rs; rule R19 of vxlib/rules_extra/shflush.py writes down where
// the guard is dropped).  Two additions, both sound by the same induction over the sequence of critical sections:
//   * a STATE invariant `vx_inv` (here: U-IMS's `wf`): assumed for the value found at an acquisition, OBLIGED at every release;
//   * the acquisition hands out `vx_acq_bound` under the named global assumption `vx_counter_fits()` (see below).
// =====================================================================================================================
trait VxLockInv: Sized {
    spec fn vx_lock_step(&self, new: &Self) -> bool;
    spec fn vx_published(&self) -> bool;
    spec fn vx_inv(&self) -> bool;
    spec fn vx_acq_bound(&self) -> bool;
}
// ASSUMPTION (named, carried as a precondition up the whole call chain): the shard's running byte counter
// `current_shard_file_size` (u64) stays 2^40 below u64::MAX in every state found under the lock.  The counter is the size of the
// shard file the state would serialise to; it is reset by every flush, which `add_*` trigger once it exceeds the target size.
uninterp spec fn vx_counter_fits() -> bool;
#[verifier::external_body]
#[verifier::accept_recursive_types(T)]
struct RwLock<T> { _p: std::marker::PhantomData<T> }
impl<T: VxLockInv> RwLock<T> {
    uninterp spec fn vx_acquired(&self, v: T) -> bool;
    #[verifier::external_body]
    fn write(&self) -> (r: &mut T)
        ensures self.vx_acquired(*r), r.vx_inv(), vx_counter_fits() ==> r.vx_acq_bound(),
    { unimplemented!() }
}
#[verifier::external_body]
proof fn vx_release_write<T: VxLockInv>(old: T, new: T)
    requires /*@C11*/ old.vx_lock_step(&new), /*@C05*/ new.vx_inv(),
    ensures new.vx_published(),
{}
trait VxTry { spec fn vx_try_exits(&self) -> bool; }
impl<T, E> VxTry for std::result::Result<T, E> { spec fn vx_try_exits(&self) -> bool { self is Err } }
impl<T> VxTry for Option<T> { spec fn vx_try_exits(&self) -> bool { self is None } }
spec fn vx_exits<T: VxTry>(x: T) -> bool { x.vx_try_exits() }
pub assume_specification<T> [std::mem::drop] (_0: T);
pub assume_specification<T: std::default::Default> [std::mem::take] (x: &mut T) -> (r: T)
    ensures r == *old(x), call_ensures(T::default, (), *final(x));

// ---- vocabulary of C11 at this layer (names of U-SHFLUSH / U-SESSCUT) -----------------------------------------------------------
/// key of a record held by the in-memory shard: the xorb hash of a CAS block / the file hash of a file record
enum VxRecId { Cas(MerkleHash), File(MerkleHash) }
/// CAPABILITY (U-SHFLUSH): the record is contained in a completely written shard file of the session directory
uninterp spec fn vx_flushed(r: VxRecId) -> bool;
/// MARKER (U-SHFLUSH): the record was in the protected state when a write guard was released
uninterp spec fn vx_recorded(r: VxRecId) -> bool;
/// MARKER, content-aware: this block, with exactly this chunk list, was in the protected state when a write guard was released
uninterp spec fn vx_recorded_block(info: MDBCASInfo) -> bool;
/// U-SESSCUT's capability `vx_cas_recorded(xorb hash)`, DEFINED here: the xorb's record was in the session's shared in-memory
/// shard when the write guard was released; by U-SHFLUSH's no-loss invariant it is from then on in memory or in a flushed shard
/// file of the session ("some shard of this session contains the block")
spec fn vx_cas_recorded(xorb_hash: MerkleHash) -> bool { vx_recorded(VxRecId::Cas(xorb_hash)) }

// ---- dependency stubs (R11) --------------------------------------------------------------------------------------------------
pub struct PathBuf { _p: () }
pub struct AtomicBool { _p: () }
pub struct ShardBookkeeper { _p: () }
impl VxLockInv for ShardBookkeeper {
    spec fn vx_lock_step(&self, new: &Self) -> bool { true }
    spec fn vx_published(&self) -> bool { true }
    spec fn vx_inv(&self) -> bool { true }
    spec fn vx_acq_bound(&self) -> bool { true }
}
pub struct VxClient { _p: () }
pub struct TranslatorConfig { _p: () }
pub struct TempDir { _p: () }
#[verifier::external_body] #[verifier::accept_recursive_types(T)] pub struct JoinSet<T> { _p: std::marker::PhantomData<T> }

//@ extract mdb_shard/src/cas_structs.rs struct CASChunkSequenceHeader
//@ end
//@ extract mdb_shard/src/cas_structs.rs struct CASChunkSequenceEntry
//@ end
//@ extract mdb_shard/src/cas_structs.rs struct MDBCASInfo
//@ end
//@ extract mdb_shard/src/file_structs.rs struct FileDataSequenceEntry
//@ end
//@ extract mdb_shard/src/file_structs.rs struct FileDataSequenceHeader
//@ end
struct MDBFileInfo { metadata: FileDataSequenceHeader, x: u8 }
uninterp spec fn spec_file_num_bytes(f: MDBFileInfo) -> u64;
impl Clone for MDBCASInfo {
    #[verifier::external_body]
    fn clone(&self) -> (r: MDBCASInfo) ensures r == *self { unimplemented!() }
}
//@ extract mdb_shard/src/shard_in_memory.rs struct MDBInMemoryShard
//@ end
//@ extract mdb_shard/src/shard_file_manager.rs struct ShardFileManager
//@ end

//@ include prelude/ims_sum.rs
//@ include prelude/ims_vocab.rs
//@ include prelude/sess_ims_post.rs
//@ include prelude/shq_truthful.rs

// ---- the in-memory shard: callee contracts copied from U-IMS (same predicates: prelude/ims_vocab.rs, prelude/sess_ims_post.rs) ----
impl MDBInMemoryShard {
    /// membership in the set of record keys the shard holds (U-SHFLUSH's abstraction `view()`, here DEFINED from the two BTreeMaps)
    spec fn has(&self, x: VxRecId) -> bool {
        match x {
            VxRecId::Cas(h) => self.cas_content@.contains_key(h),
            VxRecId::File(h) => self.file_content@.contains_key(h),
        }
    }
    // U-IMS: requires wf, size_inv, cas_fits(block), counter does not overflow; ensures wf, ims_add_cas_post (incl. size_inv), Ok
    #[verifier::external_body]
    fn add_cas_block(&mut self, cas_block_contents: MDBCASInfo) -> (r: Result<()>)
        requires
            ims_wf(old(self).chunk_hash_lookup@), size_inv(*old(self)), cas_fits(cas_block_contents),
            old(self).current_shard_file_size + 64 * cas_block_contents.chunks@.len() + 60 <= u64::MAX,
        ensures ims_wf(final(self).chunk_hash_lookup@), ims_add_cas_post(*old(self), *final(self), cas_block_contents), r is Ok,
    { unimplemented!() }
    // U-IMS: requires counter does not overflow; ensures ims_add_file_post, Ok
    #[verifier::external_body]
    fn add_file_reconstruction_info(&mut self, file_info: MDBFileInfo) -> (r: Result<()>)
        requires size_inv(*old(self)), old(self).current_shard_file_size + spec_file_num_bytes(file_info) + 12 <= u64::MAX,
        ensures ims_add_file_post(*old(self), *final(self), file_info), r is Ok,
    { unimplemented!() }
    /// `current_shard_file_size + MDBShardInfo::non_content_byte_size()` (only compared against the flush threshold)
    #[verifier::external_body]
    fn shard_file_size(&self) -> u64 { unimplemented!() }
}
// derived `Default`: the empty shard (not used by the pinned code of this unit; keeps "take the state out" restructurings decidable)
pub closed spec fn is_empty_shard(r: MDBInMemoryShard) -> bool {
    r.cas_content@ == Map::<MerkleHash, Arc<MDBCASInfo>>::empty() && r.file_content@ == Map::<MerkleHash, MDBFileInfo>::empty()
        && r.chunk_hash_lookup@ == Map::<MerkleHash, (Arc<MDBCASInfo>, u64)>::empty() && r.current_shard_file_size == 0
}
impl Default for MDBInMemoryShard {
    #[verifier::external_body]
    fn default() -> (r: Self) ensures is_empty_shard(r) { unimplemented!() }
}
// THE LOCK INVARIANT of `ShardFileManager::current_state`
impl VxLockInv for MDBInMemoryShard {
    // U-SHFLUSH: no record is lost
    spec fn vx_lock_step(&self, new: &Self) -> bool { forall|x: VxRecId| self.has(x) ==> new.has(x) || #[trigger] vx_flushed(x) }
    spec fn vx_published(&self) -> bool {
        &&& forall|x: VxRecId| self.has(x) ==> #[trigger] vx_recorded(x)
        &&& forall|h: MerkleHash| self.cas_content@.contains_key(h) ==> vx_recorded_block(*#[trigger] self.cas_content@[h])
    }
    // U-IMS's index invariant (what U-SFMQ's query requires of the in-memory shard) and its size-accounting invariant
    spec fn vx_inv(&self) -> bool { ims_wf(self.chunk_hash_lookup@) && size_inv(*self) }
    spec fn vx_acq_bound(&self) -> bool { self.current_shard_file_size <= u64::MAX - 0x100_0000_0000 }
}

// ---- the dedup universe of U-DEDUP (text copied from units/prelude/dedup_types.rs, dedup_segments.rs; `truthful` is called
// `truthful_dedup` here because prelude/shq_truthful.rs owns the name) --------------------------------------------------------------
pub uninterp spec fn len_of(h: MerkleHash) -> nat;
pub uninterp spec fn xorb_chunks(x: MerkleHash) -> Seq<MerkleHash>;
spec fn sum_len(s: Seq<MerkleHash>) -> nat decreases s.len() {
    if s.len() == 0 { 0 } else { sum_len(s.drop_last()) + len_of(s.last()) }
}
spec fn seg_src(e: FileDataSequenceEntry, nd: Seq<MerkleHash>) -> Seq<MerkleHash> {
    if e.cas_hash == zero_hash() { nd } else { xorb_chunks(e.cas_hash) }
}
spec fn seg_den(e: FileDataSequenceEntry, nd: Seq<MerkleHash>) -> Seq<MerkleHash> {
    seg_src(e, nd).subrange(e.chunk_index_start as int, e.chunk_index_end as int)
}
spec fn seg_ok(e: FileDataSequenceEntry, nd: Seq<MerkleHash>) -> bool {
    &&& e.chunk_index_start < e.chunk_index_end <= seg_src(e, nd).len()
    &&& e.unpacked_segment_bytes == sum_len(seg_den(e, nd))
    &&& sum_len(seg_src(e, nd)) <= u32::MAX
}
spec fn truthful_dedup(q: Seq<MerkleHash>, n: int, fse: FileDataSequenceEntry) -> bool {
    &&& 1 <= n <= q.len()
    &&& fse.cas_hash != zero_hash()
    &&& seg_ok(fse, Seq::<MerkleHash>::empty())
    &&& seg_den(fse, Seq::<MerkleHash>::empty()) == q.subrange(0, n)
}

// ---- faithful records: a shard record of xorb H lists the chunks content addressing assigns to H --------------------------------
// (established where the record is built: `RawXorbData::from_chunks`, U-XORBNAME / U-DEDUP `xorb_wf`; assumed for shards that came
// from the server)
spec fn faithful_rec(hash: MerkleHash, xs: Seq<CASChunkSequenceEntry>, key: MerkleHash) -> bool {
    &&& hash != zero_hash()
    &&& xs.len() == xorb_chunks(hash).len()
    &&& forall|i: int| 0 <= i < xs.len() ==> (#[trigger] xs[i]).chunk_hash == keyed(key, xorb_chunks(hash)[i])
            && xs[i].unpacked_segment_bytes == len_of(xorb_chunks(hash)[i])
    &&& sum_unpacked(xs, 0, xs.len() as int) <= u32::MAX
}
spec fn faithful(x: MDBCASInfo) -> bool { faithful_rec(x.metadata.cas_hash, x.chunks@, zero_hash()) }
// collision freedom of the keyed hash (blake3 keyed hash opaque)
spec fn keyed_inj(key: MerkleHash) -> bool { forall|a: MerkleHash, b: MerkleHash| #[trigger] keyed(key, a) == #[trigger] keyed(key, b) ==> a == b }

proof fn lemma_sum_bridge(hash: MerkleHash, xs: Seq<CASChunkSequenceEntry>, key: MerkleHash, a: int, b: int)
    requires faithful_rec(hash, xs, key), 0 <= a <= b <= xs.len(),
    ensures sum_unpacked(xs, a, b) == sum_len(xorb_chunks(hash).subrange(a, b)),
    decreases b - a,
{
    let cs = xorb_chunks(hash);
    if a < b {
        lemma_sum_bridge(hash, xs, key, a, b - 1);
        assert(cs.subrange(a, b).drop_last() =~= cs.subrange(a, b - 1));
        assert(cs.subrange(a, b).last() == cs[b - 1]);
        assert(xs[b - 1].unpacked_segment_bytes == len_of(cs[b - 1]));
    } else {
        assert(cs.subrange(a, b).len() == 0);
    }
}
// FROM the proved manager-level truthfulness (U-IMS `truthful_mem` with key = zero / U-SHQ `truthful` under the shard's key, as
// U-SFMQ's soundness clause returns them) TO the trait contract U-DEDUP assumes
proof fn lemma_truthful_bridge(xh: CASChunkSequenceHeader, xs: Seq<CASChunkSequenceEntry>, key: MerkleHash, q: Seq<MerkleHash>, n: int, fse: FileDataSequenceEntry)
    requires truthful(xh, xs, key, q, n, fse), faithful_rec(xh.cas_hash, xs, key), keyed_inj(key),
    ensures truthful_dedup(q, n, fse),
{
    let h = xh.cas_hash; let cs = xorb_chunks(h);
    let a = fse.chunk_index_start as int; let b = fse.chunk_index_end as int;
    lemma_sum_bridge(h, xs, key, a, b);
    lemma_sum_bridge(h, xs, key, 0, xs.len() as int);
    assert(cs.subrange(0, cs.len() as int) =~= cs);
    assert forall|k: int| 0 <= k < n implies cs[a + k] == q[k] by {
        assert(xs[a + k].chunk_hash == keyed(key, q[k]));
        assert(xs[a + k].chunk_hash == keyed(key, cs[a + k]));
    }
    assert(cs.subrange(a, b) =~= q.subrange(0, n));
}
proof fn lemma_truthful_bridge_mem(x: MDBCASInfo, q: Seq<MerkleHash>, n: int, fse: FileDataSequenceEntry)
    requires truthful_mem(x, q, n, fse), faithful(x),
    ensures truthful_dedup(q, n, fse),
{
    assert(keyed_inj(zero_hash()));
    assert(truthful(x.metadata, x.chunks@, zero_hash(), q, n, fse));
    lemma_truthful_bridge(x.metadata, x.chunks@, zero_hash(), q, n, fse);
}
// an answer a shard manager may give: truthful about a faithful record, in memory (unkeyed) or on disk under the shard's key —
// the two disjuncts of U-SFMQ's soundness clause, each paired with the faithfulness of the record it speaks about
spec fn mgr_answer_ok(q: Seq<MerkleHash>, n: int, fse: FileDataSequenceEntry) -> bool {
    ||| exists|x: MDBCASInfo| #[trigger] truthful_mem(x, q, n, fse) && faithful(x)
    ||| exists|xh: CASChunkSequenceHeader, xs: Seq<CASChunkSequenceEntry>, key: MerkleHash|
            #[trigger] truthful(xh, xs, key, q, n, fse) && faithful_rec(xh.cas_hash, xs, key) && keyed_inj(key)
}
proof fn lemma_answer_truthful(q: Seq<MerkleHash>, n: int, fse: FileDataSequenceEntry)
    requires mgr_answer_ok(q, n, fse),
    ensures /*@C05*/ truthful_dedup(q, n, fse),
{
    if exists|x: MDBCASInfo| #[trigger] truthful_mem(x, q, n, fse) && faithful(x) {
        let x = choose|x: MDBCASInfo| #[trigger] truthful_mem(x, q, n, fse) && faithful(x);
        lemma_truthful_bridge_mem(x, q, n, fse);
    } else {
        let (xh, xs, key) = choose|xh: CASChunkSequenceHeader, xs: Seq<CASChunkSequenceEntry>, key: MerkleHash|
            #[trigger] truthful(xh, xs, key, q, n, fse) && faithful_rec(xh.cas_hash, xs, key) && keyed_inj(key);
        lemma_truthful_bridge(xh, xs, key, q, n, fse);
    }
}
// the in-memory index keeps answering about faithful records when a faithful block is added (from U-IMS's `ims_add_cas_post`)
spec fn all_faithful(lookup: Map<MerkleHash, (Arc<MDBCASInfo>, u64)>) -> bool {
    forall|h: MerkleHash| lookup.contains_key(h) ==> faithful(*(#[trigger] lookup[h]).0)
}
proof fn lemma_add_keeps_faithful(o: MDBInMemoryShard, n: MDBInMemoryShard, info: MDBCASInfo)
    requires ims_add_cas_post(o, n, info), all_faithful(o.chunk_hash_lookup@), faithful(info),
    ensures all_faithful(n.chunk_hash_lookup@),
{
    assert forall|h: MerkleHash| n.chunk_hash_lookup@.contains_key(h) implies faithful(*(#[trigger] n.chunk_hash_lookup@[h]).0) by {
        if exists|i: int| 0 <= i < info.chunks@.len() && #[trigger] info.chunks@[i].chunk_hash == h {
            let i = choose|i: int| 0 <= i < info.chunks@.len() && #[trigger] info.chunks@[i].chunk_hash == h;
            assert(*(n.chunk_hash_lookup@[info.chunks@[i].chunk_hash]).0 == info);
        } else {
            assert(o.chunk_hash_lookup@.contains_key(h));
            assert(n.chunk_hash_lookup@[h] == o.chunk_hash_lookup@[h]);
        }
    }
}

// =====================================================================================================================
// Layer 2: ShardFileManager (the session's shard manager): insert under the write lock, flush trigger
// =====================================================================================================================
// a name for the manager's answer (used to say the glue hands it on unchanged)
uninterp spec fn mgr_query_result(m: ShardFileManager, q: Seq<MerkleHash>) -> Result<Option<(usize, FileDataSequenceEntry)>>;

// the write lock of manager m's `current_state` was taken by the current activation
spec fn locked_here(m: ShardFileManager) -> bool { exists|s: MDBInMemoryShard| #[trigger] m.current_state.vx_acquired(s) }

impl ShardFileManager {
    /// U-SHFLUSH proves `flush` (release obligations `no_loss`, "Ok => everything found under the lock is in a shard file"); its
    /// result is only propagated here
    #[verifier::external_body]
    fn flush(&self) -> Result<Option<PathBuf>> { unimplemented!() }
    /// U-SFMQ proves the query (soundness: in-memory `truthful_mem` or `disk_truthful` under the probing collection's key). Here:
    /// its answer gets a name, and the soundness clause is paired with the faithfulness of the records the shards hold
    /// (`mgr_answer_ok`; the faithfulness half is the assumption, see notes)
    #[verifier::external_body]
    fn chunk_hash_dedup_query(&self, query_hashes: &[MerkleHash]) -> (r: Result<Option<(usize, FileDataSequenceEntry)>>)
        requires query_hashes@.len() > 0,
        ensures r == mgr_query_result(*self, query_hashes@),
            r matches Ok(Some((n, fse))) ==> mgr_answer_ok(query_hashes@, n as int, fse),
    { unimplemented!() }

//@ extract mdb_shard/src/shard_file_manager.rs in `impl ShardFileManager` fn add_cas_block
//@ ret ret
//@ rules R19
//@ contract
        requires vx_counter_fits(), cas_fits(cas_block_contents),
        ensures
            // Ok: the block — with exactly its chunk list — was in the CURRENT shared in-memory shard when the write guard was
            // released; the release obligations (no_loss + index invariant) hold at every exit, flush trigger included
            /*@C11*/ ret is Ok ==> vx_cas_recorded(cas_block_contents.metadata.cas_hash) && vx_recorded_block(cas_block_contents),
            // ... and it was THIS manager's state whose write lock was taken
            /*@C11*/ ret is Ok ==> locked_here(*self),
//@ before `if lg.shard_file_size() >= self.target_shard_min_size`
        proof {
            // carries the property: after the insert the block's key IS in the state still held under the write lock
            /*@C11*/ assert((*lg).has(VxRecId::Cas(cas_block_contents.metadata.cas_hash)));
            assert forall|x: VxRecId| vx_old_lg_1.has(x) implies (*lg).has(x) by {}
        }
//@ end

//@ extract mdb_shard/src/shard_file_manager.rs in `impl ShardFileManager` fn add_file_reconstruction_info
//@ ret ret
//@ rules R19
//@ contract
        requires vx_counter_fits(), spec_file_num_bytes(file_info) <= 0xff_ffff_ff00,
        ensures /*@C11*/ ret is Ok ==> vx_recorded(VxRecId::File(file_info.metadata.file_hash)) && locked_here(*self),
//@ before `if lg.shard_file_size() >= self.target_shard_min_size`
        proof {
            // carries the property: after the insert the record's key IS in the state still held under the write lock
            /*@C11*/ assert((*lg).has(VxRecId::File(file_info.metadata.file_hash)));
            assert forall|x: VxRecId| vx_old_lg_1.has(x) implies (*lg).has(x) by {}
        }
//@ end
}

// =====================================================================================================================
// Layer 3: SessionShardInterface (data/src/shard_interface.rs): the session-local manager and the cache-directory manager
// =====================================================================================================================
//@ extract data/src/shard_interface.rs struct SessionShardInterface
//@ end

// what the interface answers, as a function of the two managers' answers: the SESSION manager is asked first; the CACHE manager
// only if the session manager answered Ok(None); errors of either propagate (first one wins)
spec fn iface_answer(sess: Result<Option<(usize, FileDataSequenceEntry)>>, cache: Result<Option<(usize, FileDataSequenceEntry)>>)
    -> DataResult<Option<(usize, FileDataSequenceEntry)>> {
    match sess {
        Err(e) => Err(DataProcessingError::ShardError(e)),
        Ok(Some(a)) => Ok(Some(a)),
        Ok(None) => lift_err(cache),
    }
}

// equality of answers; an error answers an error (the payload goes through `From<MDBShardError>`, not tracked)
spec fn same_answer(r: DataResult<Option<(usize, FileDataSequenceEntry)>>, e: DataResult<Option<(usize, FileDataSequenceEntry)>>) -> bool {
    match (r, e) { (Ok(a), Ok(b)) => a == b, (Err(_), Err(_)) => true, _ => false }
}

impl SessionShardInterface {
//@ extract data/src/shard_interface.rs in `impl SessionShardInterface` fn chunk_hash_dedup_query
//@ ret r
//@ subst `Result<` => `DataResult<` :: the data crate's `Result` alias (both crates name their alias `Result`)
//@ contract
        requires query_hashes@.len() > 0,
        ensures
            // the answer handed to the deduper is a manager's answer, UNCHANGED; session-local shards first, then the cache directory
            /*@C05,C11*/ same_answer(r, iface_answer(mgr_query_result(*self.session_shard_manager, query_hashes@), mgr_query_result(*self.cache_shard_manager, query_hashes@))),
            /*@C05*/ r matches Ok(Some((n, fse))) ==> mgr_answer_ok(query_hashes@, n as int, fse),
//@ end

//@ extract data/src/shard_interface.rs in `impl SessionShardInterface` fn add_cas_block
//@ ret r
//@ subst `Result<` => `DataResult<` :: the data crate's `Result` alias
//@ contract
        requires vx_counter_fits(), cas_fits(cas_block_contents),
        ensures /*@C11,C16*/ r is Ok ==> vx_cas_recorded(cas_block_contents.metadata.cas_hash) && vx_recorded_block(cas_block_contents)
            // recorded in the SESSION manager (the one whose shards are uploaded and registered at finalize), not the cache manager
            && locked_here(*self.session_shard_manager),
//@ end

//@ extract data/src/shard_interface.rs in `impl SessionShardInterface` fn add_file_reconstruction_info
//@ ret r
//@ subst `Result<` => `DataResult<` :: the data crate's `Result` alias
//@ contract
        requires vx_counter_fits(), spec_file_num_bytes(file_info) <= 0xff_ffff_ff00,
        ensures /*@C11,C16*/ r is Ok ==> vx_recorded(VxRecId::File(file_info.metadata.file_hash)) && locked_here(*self.session_shard_manager),
//@ end
}

// =====================================================================================================================
// Layer 4: UploadSessionDataManager (data/src/deduplication_interface.rs), the deduper's `DeduplicationDataInterface`
// =====================================================================================================================
struct RawXorbData { data: Vec<Arc<[u8]>>, cas_info: MDBCASInfo }   // deduplication::RawXorbData (fields as in the crate)
struct FileUploadSession { shard_interface: SessionShardInterface, x: u8 }   // the one field used here
impl FileUploadSession {
    // U-SESSCUT's contract of `register_new_xorb_for_upload`, C11 clause (its C15 clauses `xorb_le_limits`, `xorb_bytes_consistent`
    // live in U-SESSCUT's universe and are not repeated): a non-empty xorb may be handed to the uploader only after its chunk
    // list was recorded
    #[verifier::external_body]
    fn register_new_xorb_for_upload(&self, xorb: RawXorbData) -> DataResult<()>
        requires /*@C11*/ xorb.cas_info.metadata.num_bytes_in_cas > 0 ==> vx_cas_recorded(xorb.cas_info.metadata.cas_hash),
    { unimplemented!() }
}
//@ extract data/src/deduplication_interface.rs struct UploadSessionDataManager
//@ subst `Result<` => `DataResult<` :: the data crate's `Result` alias
//@ end

impl UploadSessionDataManager {
//@ extract data/src/deduplication_interface.rs in `impl DeduplicationDataInterface for UploadSessionDataManager` fn chunk_hash_dedup_query
//@ ret r
//@ subst `Result<` => `DataResult<` :: the data crate's `Result` alias
//@ contract
        requires query_hashes@.len() > 0,
        ensures
            // THE TRAIT CONTRACT U-DEDUP ASSUMES (`match r { Ok(Some((n, fse))) => truthful(query_hashes@, n, fse), _ => true }`)
            /*@C05*/ r matches Ok(Some((n, fse))) ==> truthful_dedup(query_hashes@, n as int, fse),
            /*@C05,C11*/ same_answer(r, iface_answer(mgr_query_result(*self.session.shard_interface.session_shard_manager, query_hashes@),
                                           mgr_query_result(*self.session.shard_interface.cache_shard_manager, query_hashes@))),
//@ body-start
        proof {
            assert forall|n: usize, fse: FileDataSequenceEntry| mgr_answer_ok(query_hashes@, n as int, fse) implies truthful_dedup(query_hashes@, n as int, fse) by {
                lemma_answer_truthful(query_hashes@, n as int, fse);
            }
        }
//@ end

//@ extract data/src/deduplication_interface.rs in `impl DeduplicationDataInterface for UploadSessionDataManager` fn register_new_xorb
//@ ret r
//@ subst `Result<` => `DataResult<` :: the data crate's `Result` alias
//@ contract
        requires vx_counter_fits(), cas_fits(xorb.cas_info),
        ensures
            // "the deduper cut a xorb => its chunk list is recorded in the session shard": Ok means the block, with exactly its chunk
            // list, was put into the session's current in-memory shard (and the hand-over to the uploader was allowed only after that:
            // the callee's precondition)
            /*@C11*/ r is Ok ==> vx_cas_recorded(xorb.cas_info.metadata.cas_hash) && vx_recorded_block(xorb.cas_info)
                && locked_here(*old(self).session.shard_interface.session_shard_manager),
//@ end
}

} // verus!
fn main() {}
