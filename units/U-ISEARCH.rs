//@ unit U-ISEARCH
//@ props C09
//@ verus-args --rlimit 100
//@ gsubst `Fn(&mut R) -> Result<Value, std::io::Error>` => `VxReadValueFn<R, Value>` :: R11 spec'd trait for the generic value-reader closure parameter (Verus has no `Fn(&mut _)` closures); assumed contract: decodes the value at the reader position and consumes size_of::<Value>() bytes
//@ gsubst `read_value_function(reader)` => `read_value_function.call(reader)` :: R11 call through the spec'd trait
//@ gsubst `Read + Seek` => `VxReadSeek` :: R11 reader stub trait with ghost byte view, position and read log
//@ gsubst `std::io::Error` => `VxIoError` :: R11 stub error type
#![allow(non_snake_case, unused)]
use vstd::prelude::*;
use vstd::set_lib::set_int_range;
use std::cmp::Ordering;
verus! {
global size_of usize == 8;

//@ include prelude/isearch_specs.rs

// w holds exactly the matching entries with index in [a,b) or >= h
pub open spec fn covers(w: Seq<int>, data: Seq<u8>, rs: int, psz: int, n: int, key: u64, a: int, b: int, h: int) -> bool {
    &&& forall|i: int| #[trigger] w.contains(i) ==> 0 <= i < n && tkey(data, rs, psz, i) == key && (a <= i < b || h <= i)
    &&& forall|i: int| 0 <= i < n && #[trigger] tkey(data, rs, psz, i) == key && (a <= i < b || h <= i) ==> w.contains(i)
}

pub proof fn lemma_geom(rs: int, psz: int, i: int, n: int)
    requires /*@C09*/ 0 <= i < n, 0 <= psz, 0 <= rs,   // tagged: the entry about to be read is inside the table
    ensures
        rs <= off(rs, psz, i),
        off(rs, psz, i + 1) == off(rs, psz, i) + psz,
        off(rs, psz, i + 1) <= off(rs, psz, n),
        0 <= i * psz <= n * psz,
        0 <= (i + 1) * psz <= n * psz,
{
    assert(0 <= i * psz) by (nonlinear_arith) requires 0 <= i, 0 <= psz;
    assert((i + 1) * psz == i * psz + psz) by (nonlinear_arith);
    assert((i + 1) * psz <= n * psz) by (nonlinear_arith) requires i + 1 <= n, 0 <= psz;
}
pub proof fn lemma_push(w: Seq<int>, x: int)
    requires w.no_duplicates(), !w.contains(x),
    ensures
        w.push(x).no_duplicates(),
        forall|i: int| #[trigger] w.push(x).contains(i) <==> (w.contains(i) || i == x),
{
    let w2 = w.push(x);
    assert forall|i: int, j: int| 0 <= i < w2.len() && 0 <= j < w2.len() && i != j implies w2[i] != w2[j] by {
        if i < w.len() && j < w.len() {
        } else if i < w.len() {
            assert(w.contains(w[i]));
        } else {
            assert(w.contains(w[j]));
        }
    }
    assert forall|i: int| #[trigger] w2.contains(i) <==> (w.contains(i) || i == x) by {
        if w.contains(i) {
            let k = choose|k: int| 0 <= k < w.len() && w[k] == i;
            assert(w2[k] == i);
        }
        if i == x { assert(w2[w.len() as int] == x); }
        if w2.contains(i) {
            let k = choose|k: int| 0 <= k < w2.len() && w2[k] == i;
            if k < w.len() { assert(w[k] == i); }
        }
    }
}

// one more matching entry `b` recorded
pub proof fn lemma_cover_push(w: Seq<int>, data: Seq<u8>, rs: int, psz: int, n: int, key: u64, a: int, b: int, h: int)
    // (tagged: at the call sites these say that the entry just read matches and has not been recorded yet)
    requires /*@C09*/ covers(w, data, rs, psz, n, key, a, b, h), w.no_duplicates(), a <= b < h, 0 <= b < n, tkey(data, rs, psz, b) == key,
    ensures covers(w.push(b), data, rs, psz, n, key, a, b + 1, h), w.push(b).no_duplicates(),
{
    lemma_push(w, b);
}

pub proof fn lemma_no_match(data: Seq<u8>, rs: int, psz: int, n: int, key: u64)
    requires matches(data, rs, psz, n, key).len() == 0,
    ensures forall|i: int| 0 <= i < n ==> #[trigger] tkey(data, rs, psz, i) != key,
{
    let m = matches(data, rs, psz, n, key);
    m.lemma_len0_is_empty();
    assert forall|i: int| 0 <= i < n implies #[trigger] tkey(data, rs, psz, i) != key by {
        if tkey(data, rs, psz, i) == key { assert(m.contains(i)); }
    }
}

// at the end: w enumerates all matches without repetition => its length is the number of matches
pub proof fn lemma_count(w: Seq<int>, data: Seq<u8>, rs: int, psz: int, n: int, key: u64)
    requires covers(w, data, rs, psz, n, key, 0, 0, 0), w.no_duplicates(),
    ensures w.len() == matches(data, rs, psz, n, key).len(),
{
    assert(w.to_set() =~= matches(data, rs, psz, n, key)) by {
        assert forall|i: int| #[trigger] w.to_set().contains(i) <==> matches(data, rs, psz, n, key).contains(i) by {
            assert(w.to_set().contains(i) <==> w.contains(i));
        }
    }
    w.unique_seq_to_set();
}

pub proof fn lemma_witness<R: VxReadSeek, V, F: VxReadValueFn<R, V>>(f: F, data: Seq<u8>, rs: int, psz: int, n: int, key: u64,
        w: Seq<int>, cnt: int, res: Seq<V>)
    requires
        covers(w, data, rs, psz, n, key, 0, 0, 0), w.no_duplicates(),
        cnt == min_int(w.len() as int, res.len() as int),
        forall|k: int| 0 <= k < cnt ==> res[k] == tval::<R, V, F>(f, data, rs, psz, #[trigger] w[k]),
    ensures
        written_ok::<R, V, F>(f, data, rs, psz, n, key, w.subrange(0, cnt), cnt, res),
{
    let wit = w.subrange(0, cnt);
    lemma_count(w, data, rs, psz, n, key);
    if cnt == w.len() { assert(wit =~= w); }
    assert forall|k: int| 0 <= k < cnt implies 0 <= #[trigger] wit[k] < n && tkey(data, rs, psz, wit[k]) == key
            && res[k] == tval::<R, V, F>(f, data, rs, psz, wit[k]) by {
        assert(wit[k] == w[k]);
        assert(w.contains(w[k]));
    }
}

//@ extract mdb_shard/src/interpolation_search.rs fn search_on_sorted_u64s
//@ ret ret
//@ rules R9 R4u
//@ subst `((key - lo_key) as f64 / (hi_key - lo_key) as f64 * (hi - lo) as f64).floor() as u64` => `vx_interp(key - lo_key, hi_key - lo_key, hi - lo)` :: R7 outline of the float interpolation term (integer subtractions stay verified); assumed: result <= hi-lo when hi-lo <= 2^53, otherwise arbitrary
//@ contract
    requires
        search_pre::<Value>(old(reader).data(), read_start, num_entries),
    ensures
        /*@AUX*/ final(reader).data() == old(reader).data(),
        /*@AUX*/ final(result)@.len() == old(result)@.len(),
        // it fails only when an operation on the reader failed
        /*@C09*/ ret is Err ==> final(reader).failed(),
        /*@AUX*/ old(reader).failed() ==> final(reader).failed(),
        // every read attempted by the search (successful or not) lies inside the table
        /*@C09*/ search_reads_ok::<Value>(old(reader).log(), final(reader).log(), read_start, num_entries),
        // the number returned is min(#entries with the key, |result|)
        /*@C09*/ ret matches Ok(cnt) ==> search_count_ok::<Value>(old(reader).data(), read_start, num_entries, key, old(result)@.len() as int, cnt as int),
        // the first cnt slots hold the values of cnt DISTINCT entries stored under the key (all of them if they fit) ...
        /*@C09*/ ret matches Ok(cnt) ==> stored_ok::<R, Value, ReadValueFunction>(read_value_function,
            old(reader).data(), read_start as int, size_of::<Value>() + 8, num_entries as int, key, cnt as int, final(result)@),
        // ... and the rest of the slice is untouched
        /*@C09*/ ret matches Ok(cnt) ==> search_tail_ok::<Value>(old(result)@, final(result)@, cnt as int),
//@ after `let mut result_write_idx = 0;`
    let ghost d0 = reader.data();
    let ghost rs = read_start as int;
    let ghost psz = size_of::<Value>() + 8;
    let ghost n = num_entries as int;
    let ghost l0 = reader.log().len() as int;
    let ghost log0 = reader.log();
    let ghost mut w: Seq<int> = Seq::empty();
    let ghost mut g: int = 0;
    let ghost mut g0: int = 0;
    proof {
        assert(reader.log().subrange(0, l0) =~= log0);
        if matches(d0, rs, psz, n, key).len() == 0 { lemma_no_match(d0, rs, psz, n, key); }
        assert(written_ok::<R, Value, ReadValueFunction>(read_value_function, d0, rs, psz, n, key, Seq::<int>::empty(), 0, result@));
    }
//@ loop 1
        invariant
            /*@C09*/ pair_size == psz, /*@C09*/ psz == size_of::<Value>() + 8, psz <= usize::MAX, n == num_entries, rs == read_start, n < 0x20_0000_0000_0000,
            rs + n * psz <= u64::MAX, sorted(d0, rs, psz, n), reader.data() == d0, d0 == old(reader).data(), old(reader).failed() ==> reader.failed(),
            result@.len() == old(result)@.len(),
            l0 == old(reader).log().len(), reader.log().len() >= l0, reader.log().subrange(0, l0) == old(reader).log(),
            /*@C09*/ log_within(reader.log(), l0, rs, rs + n * psz),
            /*@C09*/ 0 <= lo < hi <= n + 1,
            0 <= lo * psz <= n * psz,
            lo_key <= key <= hi_key,
            /*@C09*/ lo >= 1 ==> tkey(d0, rs, psz, lo - 1) < key,
            /*@C09*/ lo + 256 < hi ==> lo < probe_index < hi,
            /*@C09*/ covers(w, d0, rs, psz, n, key, hi - 1, hi - 1, hi - 1),
            /*@C09*/ w.no_duplicates(),
            /*@C09*/ result_write_idx == min_int(w.len() as int, result@.len() as int),
            /*@C09*/ forall|k: int| 0 <= k < result_write_idx ==> result@[k] == tval::<R, Value, ReadValueFunction>(read_value_function, d0, rs, psz, #[trigger] w[k]),
            /*@C09*/ forall|k: int| result_write_idx <= k < result@.len() ==> result@[k] == old(result)@[k],
        /*@C09*/ decreases hi - lo,
//@ before `reader.seek(` #1
        proof { lemma_geom(rs, psz, probe_index - 1, n); }
//@ after `let probe_key = read_u64(reader)?;`
        proof {
            /*@C09*/ assert(probe_key == tkey(d0, rs, psz, probe_index - 1));
            g0 = probe_index - 1;
            if probe_key == key {
                // the probed entry matches: it is recorded by the first write_result of the Equal arm
                lemma_cover_push(w, d0, rs, psz, n, key, g0, g0, hi - 1);
                w = w.push(g0);
                g = g0 + 1;
            }
        }
//@ loop 2
                    invariant_except_break
                        /*@C09*/ g == vx_it1 - 1,   // the duplicate scan visits consecutive entries starting right after the probe
                        /*@C09*/ reader.pos() == off(rs, psz, g),
                    invariant
                        /*@C09*/ pair_size == psz, /*@C09*/ psz == size_of::<Value>() + 8, psz <= usize::MAX, n == num_entries, rs == read_start,
                        rs + n * psz <= u64::MAX, sorted(d0, rs, psz, n), reader.data() == d0, d0 == old(reader).data(), old(reader).failed() ==> reader.failed(),
                        result@.len() == old(result)@.len(),
                        l0 == old(reader).log().len(), reader.log().len() >= l0, reader.log().subrange(0, l0) == old(reader).log(),
                        /*@C09*/ log_within(reader.log(), l0, rs, rs + n * psz),
                        /*@C09*/ 0 <= lo < probe_index < hi <= n + 1,
                        /*@C09*/ g0 == probe_index - 1, g0 < g <= hi - 1,
                        /*@C09*/ tkey(d0, rs, psz, g0) == key,
                        /*@C09*/ covers(w, d0, rs, psz, n, key, g0, g, hi - 1),
                        /*@C09*/ w.no_duplicates(),
                        /*@C09*/ result_write_idx == min_int(w.len() as int, result@.len() as int),
                        /*@C09*/ forall|k: int| 0 <= k < result_write_idx ==> result@[k] == tval::<R, Value, ReadValueFunction>(read_value_function, d0, rs, psz, #[trigger] w[k]),
                        /*@C09*/ forall|k: int| result_write_idx <= k < result@.len() ==> result@[k] == old(result)@[k],
                    ensures
                        /*@C09*/ covers(w, d0, rs, psz, n, key, g0, g0, g0),
//@ before `if read_u64(reader)? != key`
                    proof { lemma_geom(rs, psz, g, n); /*@C09*/ assert(tkey(d0, rs, psz, g) == spec_u64_at(d0, reader.pos())); }
//@ after `if read_u64(reader)? != key { break; }`
                    proof {
                        lemma_cover_push(w, d0, rs, psz, n, key, g0, g, hi - 1);
                        w = w.push(g);
                        g = g + 1;
                    }
//@ loop 3
        invariant
            /*@C09*/ pair_size == psz, /*@C09*/ psz == size_of::<Value>() + 8, psz <= usize::MAX, n == num_entries, rs == read_start,
            rs + n * psz <= u64::MAX, sorted(d0, rs, psz, n), reader.data() == d0, d0 == old(reader).data(), old(reader).failed() ==> reader.failed(),
            result@.len() == old(result)@.len(),
            l0 == old(reader).log().len(), reader.log().len() >= l0, reader.log().subrange(0, l0) == old(reader).log(),
            /*@C09*/ log_within(reader.log(), l0, rs, rs + n * psz),
            /*@C09*/ 0 <= lo < hi <= n + 1,
            /*@C09*/ reader.pos() == off(rs, psz, lo as int),
            /*@C09*/ covers(w, d0, rs, psz, n, key, 0, lo as int, hi - 1),
            /*@C09*/ w.no_duplicates(),
            /*@C09*/ result_write_idx == min_int(w.len() as int, result@.len() as int),
            /*@C09*/ forall|k: int| 0 <= k < result_write_idx ==> result@[k] == tval::<R, Value, ReadValueFunction>(read_value_function, d0, rs, psz, #[trigger] w[k]),
            /*@C09*/ forall|k: int| result_write_idx <= k < result@.len() ==> result@[k] == old(result)@[k],
        ensures
            /*@C09*/ covers(w, d0, rs, psz, n, key, 0, 0, 0),
        /*@C09*/ decreases hi - lo,
//@ before `let (probe_key, probe_value)`
        proof { lemma_geom(rs, psz, lo as int, n); /*@C09*/ assert(tkey(d0, rs, psz, lo as int) == spec_u64_at(d0, reader.pos())); }
//@ after `let (probe_key, probe_value) = (read_u64(reader)?, read_value_function.call(reader)?);`
        proof {
            if probe_key == key {
                // entry `lo` (0-based) matches: it is recorded by the write_result of the Equal arm below
                lemma_cover_push(w, d0, rs, psz, n, key, 0, lo as int, hi - 1);
                w = w.push(lo as int);
            }
        }
//@ before `Ok(result_write_idx)`
    proof {
        lemma_count(w, d0, rs, psz, n, key);
        lemma_witness::<R, Value, ReadValueFunction>(read_value_function, d0, rs, psz, n, key, w, result_write_idx as int, result@);
    }
//@ end

} // verus!
fn main() {}
