//@ unit U-ISEARCH
//@ props C09
//@ verus-args --rlimit 100
//@ gsubst `Fn(&mut R) -> Result<Value, std::io::Error>` => `VxReadValueFn<R, Value>` :: R11 spec'd trait for the generic value-reader closure parameter (Verus has no `Fn(&mut _)` closures)
//@ gsubst `read_value_function(reader)` => `read_value_function.call(reader)` :: R11 call through the spec'd trait
//@ gsubst `Read + Seek` => `VxReadSeek` :: R11 reader stub trait with ghost byte view, position and read log
//@ gsubst `std::io::Error` => `VxIoError` :: R11 stub error type
#![allow(non_snake_case, unused)]
use vstd::prelude::*;
use std::cmp::Ordering;
verus! {
global size_of usize == 8;

pub struct VxIoError { pub code: u64 }
pub enum SeekFrom { Start(u64), End(i64), Current(i64) }

pub uninterp spec fn spec_u64_at(data: Seq<u8>, off: int) -> u64;

pub trait VxReadSeek: Sized {
    spec fn data(&self) -> Seq<u8>;
    spec fn pos(&self) -> int;
    spec fn log(&self) -> Seq<(int, int)>;
    fn seek(&mut self, p: SeekFrom) -> (r: Result<u64, VxIoError>)
        ensures
            final(self).data() == old(self).data(),
            final(self).log() == old(self).log(),
            r is Ok ==> (p matches SeekFrom::Start(x) ==> final(self).pos() == x);
}

pub trait VxReadValueFn<R: VxReadSeek, Value> {
    spec fn decode(&self, data: Seq<u8>, off: int) -> Value;
    fn call(&self, reader: &mut R) -> (r: Result<Value, VxIoError>)
        ensures
            final(reader).data() == old(reader).data(),
            final(reader).log() == old(reader).log().push((old(reader).pos(), size_of::<Value>() as int)),
            r matches Ok(v) ==> v == self.decode(old(reader).data(), old(reader).pos())
                && final(reader).pos() == old(reader).pos() + size_of::<Value>();
}

#[verifier::external_body]
pub fn read_u64<R: VxReadSeek>(reader: &mut R) -> (r: Result<u64, VxIoError>)
    ensures
        final(reader).data() == old(reader).data(),
        final(reader).log() == old(reader).log().push((old(reader).pos(), 8int)),
        r matches Ok(v) ==> v == spec_u64_at(old(reader).data(), old(reader).pos())
            && final(reader).pos() == old(reader).pos() + 8,
{ unimplemented!() }

#[verifier::external_body]
pub fn vx_interp(a: u64, b: u64, c: u64) -> (r: u64)
    ensures a <= b && c <= 0x20_0000_0000_0000 ==> r <= c,
{ (a as f64 / b as f64 * c as f64).floor() as u64 }

//@ extract mdb_shard/src/interpolation_search.rs fn search_on_sorted_u64s
//@ ret ret
//@ rules R9
//@ subst `((key - lo_key) as f64 / (hi_key - lo_key) as f64 * (hi - lo) as f64).floor() as u64` => `vx_interp(key - lo_key, hi_key - lo_key, hi - lo)` :: R7 outline of the float interpolation
//@ contract
    requires true,
//@ loop 1
        invariant true,
        decreases hi - lo,
//@ loop 2
        invariant true,
//@ loop 3
        invariant true,
        decreases hi - lo,
//@ end

} // verus!
fn main() {}
