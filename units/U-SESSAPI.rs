//@ unit U-SESSAPI
//@ props C16 C03 C14 C01
//@ verus-args --rlimit 100 --triggers-mode silent
//@ gsubst `dyn Client + Send + Sync` => `VxClient` :: R11 stub type for the cas_client trait object
//@ gsubst `dyn ProgressUpdater` => `VxProgressUpdater` :: R11 stub type for the progress trait object
#![feature(allocator_api)]
#![allow(non_snake_case, unused)]
use vstd::prelude::*;
use std::sync::Arc;
verus! {
global size_of usize == 8;

// =====================================================================================================================
// The public entry points of the data crate that are pure glue: they must hand on exactly what they are given and return exactly
// what their callee returns.  The callees that carry the substance are stubs whose contracts are the ones PROVED elsewhere
// (finalize_impl: U-JOIN; chunker / deduper: U-CHUNK, U-DEDUP as used by U-METRICS; ShaGenerator: U-SHA) or, for calls into
// cas_client, an uninterpreted function of the arguments ("whatever the store answers for exactly these arguments").
// Vocabulary of U-METRICS is reused: chunker_buf, chunker_max, dd_wf, dd_fed, dd_metrics, hex_spec.
// =====================================================================================================================

// ---- MerkleHash and its hex codec (R11 stub; the text codec itself is outside Verus) ----------------------------------------
pub struct MerkleHash(pub [u64; 4]);
pub uninterp spec fn zero_hash() -> MerkleHash;
pub uninterp spec fn hex_spec(h: MerkleHash) -> Seq<char>;
#[verifier::external_body] pub struct DataHashHexParseError { _p: () }
pub uninterp spec fn spec_from_hex(s: Seq<char>) -> std::result::Result<MerkleHash, DataHashHexParseError>;
impl MerkleHash {
    #[verifier::external_body] pub fn hex(&self) -> (r: String) ensures r@ == hex_spec(*self) { unimplemented!() }
    #[verifier::external_body] pub fn from_hex(h: &str) -> (r: std::result::Result<MerkleHash, DataHashHexParseError>) ensures r == spec_from_hex(h@) { unimplemented!() }
}
impl Default for MerkleHash {
    #[verifier::external_body] fn default() -> (r: MerkleHash) ensures r == zero_hash() { unimplemented!() }
}
/// ASSUMED (candidate for an executable check on the real crate: `MerkleHash::from_hex(&h.hex()) == Ok(h)` for random h):
/// parsing the hex text of a hash gives that hash back.
pub broadcast proof fn axiom_hex_roundtrip(h: MerkleHash)
    ensures #[trigger] spec_from_hex(hex_spec(h)) == Ok::<MerkleHash, DataHashHexParseError>(h)
{ admit(); }

// ---- errors (only Err-ness matters) ------------------------------------------------------------------------------------------
#[verifier::external_body] pub struct DataProcessingError { _p: () }
#[verifier::external_body] pub struct CasClientError { _p: () }
impl From<CasClientError> for DataProcessingError { #[verifier::external_body] fn from(e: CasClientError) -> DataProcessingError { unimplemented!() } }
impl From<DataHashHexParseError> for DataProcessingError { #[verifier::external_body] fn from(e: DataHashHexParseError) -> DataProcessingError { unimplemented!() } }
pub type Result<T> = std::result::Result<T, DataProcessingError>;

// ---- opaque environment -----------------------------------------------------------------------------------------------------
pub struct VxProgressUpdater { _p: () }
pub struct ThreadPool { _p: () }
pub struct TranslatorConfig { _p: () }
pub struct MDBFileInfo { _p: () }
pub struct OutputProvider { _p: () }
/// cas_types::FileRange
#[derive(Clone, Copy)]
pub struct FileRange { pub start: u64, pub end: u64 }
pub struct VxCounter { _p: () }
impl VxCounter { #[verifier::external_body] pub fn inc_by(&self, v: u64) { unimplemented!() } }
pub mod prometheus_metrics {
    use vstd::prelude::*;
    #[verifier::external_body] pub fn FILTER_BYTES_SMUDGED() -> super::VxCounter { unimplemented!() }
}

// ---- the store client: its answer is an uninterpreted function of exactly the arguments it is given -------------------------
pub struct VxClient { _p: () }
pub uninterp spec fn spec_get_file(c: VxClient, hash: MerkleHash, byte_range: Option<FileRange>, out: OutputProvider) -> std::result::Result<u64, CasClientError>;
impl VxClient {
    /// cas_client::ReconstructionClient::get_file
    #[verifier::external_body]
    pub fn get_file(&self, hash: &MerkleHash, byte_range: Option<FileRange>, output_provider: &OutputProvider, progress_updater: Option<Arc<VxProgressUpdater>>) -> (r: std::result::Result<u64, CasClientError>)
        ensures r == spec_get_file(*self, *hash, byte_range, *output_provider)
    { unimplemented!() }
}
pub uninterp spec fn spec_create_remote_client(config: TranslatorConfig, dry_run: bool) -> Result<Arc<VxClient>>;
#[verifier::external_body]
pub fn create_remote_client(config: &Arc<TranslatorConfig>, threadpool: Arc<ThreadPool>, dry_run: bool) -> (r: Result<Arc<VxClient>>)
    ensures r == spec_create_remote_client(**config, dry_run)
{ unimplemented!() }

//@ extract deduplication/src/dedup_metrics.rs struct DeduplicationMetrics
//@ end

// ---- upload permits (tokio Semaphore, R11 stub) -----------------------------------------------------------------------------------
#[verifier::external_body] pub struct Semaphore { _p: () }
#[verifier::external_body] pub struct OwnedSemaphorePermit { _p: () }
#[verifier::external_body] pub struct AcquireError { _p: () }
pub uninterp spec fn spec_acquire(s: Semaphore) -> std::result::Result<OwnedSemaphorePermit, AcquireError>;
impl Semaphore {
    #[verifier::external_body]
    pub fn acquire_owned(self: Arc<Self>) -> (r: std::result::Result<OwnedSemaphorePermit, AcquireError>) ensures r == spec_acquire(*self) { unimplemented!() }
}
pub uninterp spec fn spec_UPLOAD_CONCURRENCY_LIMITER() -> Arc<Semaphore>;
#[verifier::external_body] pub fn UPLOAD_CONCURRENCY_LIMITER() -> (r: Arc<Semaphore>) ensures r == spec_UPLOAD_CONCURRENCY_LIMITER() { unimplemented!() }
/// R7 outline of `.map_err(|e| DataProcessingError::UploadTaskError(e.to_string()))` (closure + to_string are outside Verus):
/// map_err keeps an Ok value and turns an Err into an Err
pub trait VxAcquireErr { fn vx_as_upload_task_error(self) -> Result<OwnedSemaphorePermit>; }
impl VxAcquireErr for std::result::Result<OwnedSemaphorePermit, AcquireError> {
    #[verifier::external_body]
    fn vx_as_upload_task_error(self) -> (r: Result<OwnedSemaphorePermit>)
        ensures self matches Ok(p) ==> r == Ok::<OwnedSemaphorePermit, DataProcessingError>(p), self is Err ==> r is Err
    { unimplemented!() }
}
//@ extract data/src/file_upload_session.rs fn acquire_upload_permit
//@ ret ret
//@ subst `UPLOAD_CONCURRENCY_LIMITER` => `UPLOAD_CONCURRENCY_LIMITER()` :: R6 lazy_static semaphore -> stub accessor
//@ subst `.map_err(|e| DataProcessingError::UploadTaskError(e.to_string()))` => `.vx_as_upload_task_error()` :: R7 outline of the error-mapping closure; contract assumed (Ok kept, Err stays Err)
//@ contract
        ensures
            // a permit is returned only if the limiter granted one; a closed semaphore is reported, not swallowed
            /*@C16*/ match spec_acquire(*spec_UPLOAD_CONCURRENCY_LIMITER()) { Ok(p) => ret == Ok::<OwnedSemaphorePermit, DataProcessingError>(p), Err(_) => ret is Err },
//@ end

// ---- session construction: the dry-run flag reaches both the client and the shard interface ------------------------------------------
#[verifier::external_body] pub struct SessionShardInterface { _p: () }
pub uninterp spec fn spec_ssi_new(config: TranslatorConfig, client: VxClient, dry_run: bool) -> Result<SessionShardInterface>;
impl SessionShardInterface {
    #[verifier::external_body]
    pub fn new(config: Arc<TranslatorConfig>, client: Arc<VxClient>, dry_run: bool) -> (r: Result<SessionShardInterface>)
        ensures r == spec_ssi_new(*config, *client, dry_run)
    { unimplemented!() }
}
//@ extract data/src/file_upload_session.rs in `impl FileUploadSession` region new_impl
//@ from `let client = create_remote_client`
//@ to-before `let repo_id =`
//@ sig `fn new_impl__clients(config: Arc<TranslatorConfig>, threadpool: Arc<ThreadPool>, dry_run: bool) -> (ret: Result<(Arc<VxClient>, SessionShardInterface)>)`
//@ epilogue `Ok((client, shard_interface))`
//@ contract
        ensures
            /*@C16*/ ret matches Ok(p) ==> spec_create_remote_client(*config, dry_run) == Ok::<Arc<VxClient>, DataProcessingError>(p.0)
                                          && spec_ssi_new(*config, *p.0, dry_run) == Ok::<SessionShardInterface, DataProcessingError>(p.1),
            /*@C16*/ (spec_create_remote_client(*config, dry_run) is Err) ==> ret is Err,
//@ end

// not needed by the unchanged code; keeps "swallowing" edits decidable
impl Default for DeduplicationMetrics { #[verifier::external_body] fn default() -> Self { unimplemented!() } }
pub assume_specification<T: std::default::Default, E> [std::result::Result::<T, E>::unwrap_or_default] (r: std::result::Result<T, E>) -> (o: T)
    ensures match r { Ok(v) => o == v, Err(_) => call_ensures(T::default, (), o) };

// ===== 1. FileUploadSession: constructors, start_clean, finalize wrappers =========================================================
#[verifier::external_body] pub struct FileUploadSession { _p: () }
/// what U-JOIN proves for finalize_impl on Ok: xorb task set drained all-Ok, shard upload reached after that and all-Ok
/// (U-JOIN's markers vx_xorbs_drained ∧ vx_shards_stored of the session's shard interface)
pub uninterp spec fn vx_session_durable(s: FileUploadSession) -> bool;
uninterp spec fn spec_finalize_impl(s: FileUploadSession, return_files: bool) -> Result<(DeduplicationMetrics, Vec<MDBFileInfo>)>;
pub uninterp spec fn spec_new_impl(config: TranslatorConfig, threadpool: ThreadPool, updater: Option<Arc<VxProgressUpdater>>, dry_run: bool) -> Result<Arc<FileUploadSession>>;

impl FileUploadSession {
    /// stub; contract = U-JOIN's finalize_impl postcondition + "the result is a value" (named so that wrappers can be exact)
    #[verifier::external_body]
    fn finalize_impl(self: Arc<Self>, return_files: bool) -> (r: Result<(DeduplicationMetrics, Vec<MDBFileInfo>)>)
        ensures r == spec_finalize_impl(*self, return_files), r is Ok ==> vx_session_durable(*self)
    { unimplemented!() }
    #[verifier::external_body]
    fn new_impl(config: Arc<TranslatorConfig>, threadpool: Arc<ThreadPool>, upload_progress_updater: Option<Arc<VxProgressUpdater>>, dry_run: bool) -> (r: Result<Arc<FileUploadSession>>)
        ensures r == spec_new_impl(*config, *threadpool, upload_progress_updater, dry_run)
    { unimplemented!() }

//@ extract data/src/file_upload_session.rs in `impl FileUploadSession` fn new
//@ ret ret
//@ contract
        ensures /*@C16*/ ret == spec_new_impl(*config, *threadpool, upload_progress_updater, false),
//@ end
//@ extract data/src/file_upload_session.rs in `impl FileUploadSession` fn dry_run
//@ ret ret
//@ contract
        ensures /*@C16*/ ret == spec_new_impl(*config, *threadpool, upload_progress_updater, true),
//@ end

//@ extract data/src/file_upload_session.rs in `impl FileUploadSession` fn start_clean
//@ ret ret
//@ contract
        ensures /*@C03*/ ret.fresh_for(**self, file_name),
//@ end

//@ extract data/src/file_upload_session.rs in `impl FileUploadSession` fn finalize
//@ ret ret
//@ contract
        ensures
            // exactly finalize_impl(false)'s metrics; its error is propagated
            /*@C16,C14*/ match spec_finalize_impl(*self, false) { Ok(p) => ret matches Ok(m) && m == p.0, Err(_) => ret is Err },
            // "a session that reports success has durably handed everything to the store"
            /*@C16*/ ret is Ok ==> vx_session_durable(*self),
//@ end
//@ extract data/src/file_upload_session.rs in `impl FileUploadSession` fn finalize_with_file_info
//@ ret ret
//@ contract
        ensures
            /*@C16,C14*/ ret == spec_finalize_impl(*self, true),
            /*@C16*/ ret is Ok ==> vx_session_durable(*self),
//@ end
}

// ===== 2. SingleFileCleaner::new: every cleaner owns freshly constructed state ====================================================
// R11 stubs with the U-METRICS vocabulary
#[verifier::external_body] pub struct Chunker { _p: u8 }
pub uninterp spec fn chunker_buf(c: &Chunker) -> Seq<u8>;      // bytes fed but not yet emitted as a chunk
pub uninterp spec fn chunker_max(c: &Chunker) -> int;          // maximum chunk size of this chunker
pub uninterp spec fn chunker_target(c: &Chunker) -> int;       // target chunk size it was built with
pub uninterp spec fn spec_TARGET_CHUNK_SIZE() -> int;
pub uninterp spec fn spec_default_chunker_max() -> int;
impl Default for Chunker {
    /// deduplication::Chunker::default() = Chunker::new(*TARGET_CHUNK_SIZE): empty buffer (U-CHUNK `new`: chunkbuf@.len() == 0)
    #[verifier::external_body]
    fn default() -> (r: Chunker)
        ensures chunker_buf(&r) == Seq::<u8>::empty(), chunker_target(&r) == spec_TARGET_CHUNK_SIZE(), chunker_max(&r) == spec_default_chunker_max()
    { unimplemented!() }
}
impl Chunker {
    /// not used by the unchanged code; keeps edits that build a non-default chunker decidable
    #[verifier::external_body]
    pub fn new(target_chunk_size: usize) -> (r: Chunker)
        ensures chunker_buf(&r) == Seq::<u8>::empty(), chunker_target(&r) == target_chunk_size
    { unimplemented!() }
    #[verifier::external_body]
    pub fn next_block(&mut self, data: &[u8], is_final: bool) -> (ret: Vec<Chunk>)
        ensures data@.len() > 0 ==> chunker_buf(final(self)).len() + ret@.len() > 0
    { unimplemented!() }
}
/// the code names the chunker by its crate path
pub mod deduplication { pub use super::Chunker; }
pub struct Chunk { pub hash: MerkleHash, pub data: Arc<[u8]> }
#[verifier::external_body] pub struct UploadSessionDataManager { _p: u8 }
pub uninterp spec fn dm_session(d: &UploadSessionDataManager) -> FileUploadSession;
pub uninterp spec fn dm_fresh(d: &UploadSessionDataManager) -> bool;    // no global-dedup query registered yet
impl UploadSessionDataManager {
    #[verifier::external_body]
    pub fn new(session: Arc<FileUploadSession>) -> (r: Self) ensures dm_session(&r) == *session, dm_fresh(&r) { unimplemented!() }
}
#[verifier::external_body] pub struct FileDeduper { _p: u8 }
pub uninterp spec fn dd_wf(d: &FileDeduper) -> bool;
pub uninterp spec fn dd_fed(d: &FileDeduper) -> Seq<Chunk>;                 // every chunk processed so far, in order
pub uninterp spec fn dd_session(d: &FileDeduper) -> FileUploadSession;      // the session its data manager talks to
pub uninterp spec fn dd_fresh_manager(d: &FileDeduper) -> bool;
impl FileDeduper {
    /// FileDeduper::new(data_manager): U-DEDUP `new` — nothing processed, well-formed, owns the given data manager
    #[verifier::external_body]
    pub fn new(data_manager: UploadSessionDataManager) -> (r: Self)
        ensures dd_wf(&r), dd_fed(&r) == Seq::<Chunk>::empty(), dd_session(&r) == dm_session(&data_manager), dd_fresh_manager(&r) == dm_fresh(&data_manager)
    { unimplemented!() }
}
#[verifier::external_body] pub struct ShaGenerator { _p: u8 }
pub uninterp spec fn sha_fed(g: &ShaGenerator) -> Seq<u8>;                  // U-SHA: bytes hashed so far
pub uninterp spec fn sha_untouched(g: &ShaGenerator) -> bool;               // U-SHA: `hasher` is None
impl ShaGenerator {
    #[verifier::external_body] pub fn new() -> (r: Self) ensures sha_fed(&r) == Seq::<u8>::empty(), sha_untouched(&r) { unimplemented!() }
}
#[verifier::external_body] pub struct VxTime { _p: u8 }
pub struct Utc { _p: () }
impl Utc { #[verifier::external_body] pub fn now() -> VxTime { unimplemented!() } }

//@ extract data/src/file_cleaner.rs struct SingleFileCleaner
//@ subst `FileDeduper<UploadSessionDataManager>` => `FileDeduper` :: R11 stub type (the deduper instantiated with the session's data manager)
//@ subst `DateTime<Utc>` => `VxTime` :: R11 stub type
//@ end

impl SingleFileCleaner {
    /// C03 "no matter what else is in the session / how many files are cleaned concurrently": a new cleaner has consumed nothing,
    /// its chunker is the default one with an empty buffer, its deduper has processed nothing and owns a data manager created for
    /// it, its SHA generator is untouched; the only thing it shares is the session handle.
    spec fn fresh_for(&self, session: FileUploadSession, file_name: String) -> bool {
        &&& self.file_name == file_name
        &&& *self.session == session
        &&& chunker_buf(&self.chunker) == Seq::<u8>::empty()
        &&& chunker_target(&self.chunker) == spec_TARGET_CHUNK_SIZE()
        &&& chunker_max(&self.chunker) == spec_default_chunker_max()
        &&& dd_wf(&self.dedup_manager)
        &&& dd_fed(&self.dedup_manager) == Seq::<Chunk>::empty()
        &&& dd_session(&self.dedup_manager) == session
        &&& dd_fresh_manager(&self.dedup_manager)
        &&& sha_fed(&self.sha_generator) == Seq::<u8>::empty() && sha_untouched(&self.sha_generator)
    }

//@ extract data/src/file_cleaner.rs in `impl SingleFileCleaner` fn new
//@ ret ret
//@ contract
        ensures /*@C03*/ ret.fresh_for(*session, file_name),
//@ end
}

// ===== 3. PointerFile: the record and its accessors (the TOML text codec is NOT covered) =========================================
//@ extract data/src/pointer_file.rs const POINTER_FILE_LIMIT
//@ end
//@ extract data/src/pointer_file.rs const CURRENT_VERSION
//@ subst `: &str` => `: &'static str` :: Verus encodes a const as a function and needs the (implicit) 'static lifetime spelled out
//@ end
//@ extract data/src/pointer_file.rs struct PointerFile
//@ end
/// what `PointerFile::hash()` answers
spec fn pointer_hash_spec(p: &PointerFile) -> std::result::Result<MerkleHash, DataHashHexParseError> {
    if p.is_valid { spec_from_hex(p.hash@) } else { Ok(zero_hash()) }
}
/// the text parser, stubbed: an uninterpreted function of (contents, path)
uninterp spec fn spec_parse_pointer(contents: Seq<char>, path: Seq<char>) -> PointerFile;
pub uninterp spec fn utf8_decode(b: Seq<u8>) -> Seq<char>;
#[verifier::external_body]
pub fn vx_from_utf8(data: &[u8]) -> (r: std::result::Result<&str, ()>) ensures r matches Ok(s) ==> s@ == utf8_decode(data@) { unimplemented!() }

impl PointerFile {
    #[verifier::external_body]
    fn init_from_string(contents: &str, path: &str) -> (r: PointerFile) ensures r == spec_parse_pointer(contents@, path@) { unimplemented!() }

//@ extract data/src/pointer_file.rs in `impl PointerFile` fn init_from_info
//@ ret ret
//@ contract
        ensures
            // the pointer carries exactly the hash text and the size it is given, and is valid (C03: "same file hash and size in
            // the pointer file"; SingleFileCleaner::finish passes file_hash.hex() and total_bytes — U-METRICS)
            /*@C03,C14*/ ret.hash@ == hash@, /*@C03,C14*/ ret.filesize == filesize,
            /*@C03*/ ret.is_valid, ret.path@ == path@, ret.version_string@ == CURRENT_VERSION@,
//@ end
//@ extract data/src/pointer_file.rs in `impl PointerFile` fn is_valid
//@ ret ret
//@ contract
        ensures ret == self.is_valid,
//@ end
//@ extract data/src/pointer_file.rs in `impl PointerFile` fn hash_string
//@ ret ret
//@ contract
        ensures /*@C03*/ ret@ == self.hash@,
//@ end
//@ extract data/src/pointer_file.rs in `impl PointerFile` fn hash
//@ ret ret
//@ rules sessapi.R18
//@ contract
        ensures /*@C03,C01*/ ret == pointer_hash_spec(self),
//@ end
//@ extract data/src/pointer_file.rs in `impl PointerFile` fn path
//@ ret ret
//@ contract
        ensures ret@ == self.path@,
//@ end
//@ extract data/src/pointer_file.rs in `impl PointerFile` fn filesize
//@ ret ret
//@ contract
        ensures /*@C03,C14*/ ret == self.filesize,
//@ end
}
/// clean -> smudge glue: a pointer built by init_from_info from `h.hex()` answers `h` (uses the assumed hex round trip)
proof fn lemma_pointer_names_its_hash(p: &PointerFile, h: MerkleHash)
    requires p.is_valid, p.hash@ == hex_spec(h),
    ensures pointer_hash_spec(p) == Ok::<MerkleHash, DataHashHexParseError>(h),
{ broadcast use axiom_hex_roundtrip; }

//@ extract data/src/pointer_file.rs fn is_xet_pointer_file
//@ ret ret
//@ subst `std::str::from_utf8(data)` => `vx_from_utf8(data)` :: R7 outline of the UTF-8 check (str is outside Verus); result arbitrary
//@ contract
        ensures
            data@.len() >= POINTER_FILE_LIMIT ==> !ret,
            // true only for data that is short, UTF-8, and parses (under some path text) to a valid pointer
            ret ==> data@.len() < POINTER_FILE_LIMIT && exists|p: Seq<char>| spec_parse_pointer(utf8_decode(data@), p).is_valid,
//@ end

// ===== 4. FileDownloader: hash and range go to the store unchanged, its byte count comes back unchanged ===========================
//@ extract data/src/file_downloader.rs struct FileDownloader
//@ end
impl FileDownloader {
//@ extract data/src/file_downloader.rs in `impl FileDownloader` fn new
//@ ret ret
//@ contract
        ensures match spec_create_remote_client(*config, false) {
            Ok(c) => ret matches Ok(d) && d.client == c && d.config == config,
            Err(_) => ret is Err,
        },
//@ end

//@ extract data/src/file_downloader.rs in `impl FileDownloader` fn smudge_file_from_hash
//@ ret ret
//@ subst `prometheus_metrics::FILTER_BYTES_SMUDGED.inc_by` => `prometheus_metrics::FILTER_BYTES_SMUDGED().inc_by` :: R6/R11 global prometheus counter (lazy_static) -> stub accessor
//@ contract
        ensures
            // the store is asked for exactly this hash and exactly this range; its byte count (or its error) is what comes back
            /*@C01*/ match spec_get_file(*self.client, *file_id, range, *output) { Ok(n) => ret matches Ok(m) && m == n, Err(_) => ret is Err },
//@ end

//@ extract data/src/file_downloader.rs in `impl FileDownloader` fn smudge_file_from_pointer
//@ ret ret
//@ contract
        ensures
            /*@C01*/ match pointer_hash_spec(pointer) {
                Err(_) => ret is Err,
                Ok(h) => match spec_get_file(*self.client, h, range, *output) { Ok(n) => ret matches Ok(m) && m == n, Err(_) => ret is Err },
            },
//@ end
}

} // verus!
fn main() {}
