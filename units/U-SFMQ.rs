//@ unit U-SFMQ
//@ props C05 C18 C11
//@ verus-args --rlimit 100
//@ gsubst `PathBuf` => `VxPathBuf` :: R11 stub type (std::path::PathBuf; never inspected by the function under proof)
//@ gsubst `AtomicBool` => `VxAtomicBool` :: R11 stub type (std::sync::atomic::AtomicBool; never inspected)
//@ gsubst `SystemTime` => `VxSystemTime` :: R11 stub type (std::time::SystemTime; never inspected)
#![feature(allocator_api)]
#![allow(non_snake_case, unused)]
use vstd::prelude::*;
use std::collections::{BTreeMap, HashMap};
use std::sync::Arc;
verus! {
global size_of usize == 8;

//@ include prelude/ims_merklehash.rs
//@ include prelude/shq_io.rs

// ---- dependencies ---------------------------------------------------------------------------------------------------
pub struct VxPathBuf { pub x: u8 }
pub struct VxAtomicBool { pub x: u8 }
pub struct VxSystemTime { pub x: u8 }
pub struct MDBFileInfo { pub x: u8 }   // file half of the in-memory shard, untouched here

// tokio::sync::RwLock: `read().await` (R1: `.await` erased) yields a guard that derefs to the protected value; the stub
// yields the shared reference itself. No statement about concurrency: the contract below speaks about the values read
// under the two guards (the in-memory guard is dropped before the bookkeeper guard is taken, as in the code).
pub struct RwLock<T> { pub inner: T }
impl<T> RwLock<T> {
    #[verifier::external_body]
    pub fn read(&self) -> (r: &T) ensures *r == self.inner { unimplemented!() }
}

// mdb_shard::utils::truncate_hash: first 64-bit word of the hash
pub uninterp spec fn spec_truncate(h: MerkleHash) -> u64;
#[verifier::external_body]
pub fn truncate_hash(hash: &MerkleHash) -> (r: u64) ensures r == spec_truncate(*hash) { unimplemented!() }

//@ extract mdb_shard/src/cas_structs.rs struct CASChunkSequenceHeader
//@ end
//@ extract mdb_shard/src/cas_structs.rs struct CASChunkSequenceEntry
//@ end
//@ extract mdb_shard/src/cas_structs.rs struct MDBCASInfo
//@ end
//@ extract mdb_shard/src/file_structs.rs struct FileDataSequenceEntry
//@ end
//@ extract mdb_shard/src/shard_format.rs struct MDBShardFileHeader
//@ end
//@ extract mdb_shard/src/shard_format.rs struct MDBShardFileFooter
//@ end
//@ extract mdb_shard/src/shard_format.rs struct MDBShardInfo
//@ end
//@ extract mdb_shard/src/shard_in_memory.rs struct MDBInMemoryShard
//@ end
//@ extract mdb_shard/src/shard_file_handle.rs struct MDBShardFile
//@ end
//@ extract mdb_shard/src/shard_file_manager.rs struct ChunkCacheElement
//@ end
//@ extract mdb_shard/src/shard_file_manager.rs struct KeyedShardCollection
//@ end
//@ extract mdb_shard/src/shard_file_manager.rs struct ShardBookkeeper
//@ end
//@ extract mdb_shard/src/shard_file_manager.rs struct ShardFileManager
//@ end

//@ include prelude/ims_sum.rs
//@ include prelude/shq_truthful.rs
//@ include prelude/shq_vocab.rs
//@ include prelude/ims_vocab.rs

// ---- callee contracts, copied from the units that prove them -----------------------------------------------------------
impl MDBInMemoryShard {
    // U-IMS: `requires self.wf() ensures ims_query_post(self.chunk_hash_lookup@, query_hashes@, r)` with
    // `wf(self) = ims_wf(self.chunk_hash_lookup@)` — same predicates (prelude/ims_vocab.rs)
    #[verifier::external_body]
    fn chunk_hash_dedup_query(&self, query_hashes: &[MerkleHash]) -> (r: Option<(usize, FileDataSequenceEntry)>)
        requires ims_wf(self.chunk_hash_lookup@),
        ensures ims_query_post(self.chunk_hash_lookup@, query_hashes@, r),
    { unimplemented!() }
}

// a *name* for the outcome of the direct query of shard `s` at a position (used only to state which outcomes the manager saw)
uninterp spec fn direct_result(s: MDBShardFile, q: Seq<MerkleHash>, cas_block_index: u32, cas_chunk_offset: u32) -> Result<Option<(usize, FileDataSequenceEntry)>>;

impl MDBShardFile {
    // `MDBShardFile::chunk_hash_dedup_query_direct` (shard_file_handle.rs:290), the method the manager calls. Its contract
    // `requires direct_pre(file_bytes(*self), self.shard, ..) ensures direct_post(file_bytes(*self), self.shard, .., r)` is
    // PROVED in U-SHQ (wrapper extracted there, on top of the proved `MDBShardInfo::chunk_hash_dedup_query_direct`); the
    // predicates are the same text (prelude/shq_vocab.rs). Added here: the outcome is given the name `direct_result(..)`.
    #[verifier::external_body]
    fn chunk_hash_dedup_query_direct(&self, query_hashes: &[MerkleHash], cas_block_index: u32, cas_chunk_offset: u32) -> (r: Result<Option<(usize, FileDataSequenceEntry)>>)
        requires direct_pre(file_bytes(*self), self.shard, cas_block_index, cas_chunk_offset),
        ensures
            direct_post(file_bytes(*self), self.shard, query_hashes@, cas_block_index, cas_chunk_offset, r),
            r == direct_result(*self, query_hashes@, cas_block_index, cas_chunk_offset),
    { unimplemented!() }
}

// ---- manager-level vocabulary --------------------------------------------------------------------------------------------
type Outcome = Option<Result<Option<(usize, FileDataSequenceEntry)>>>;

// the truncated probe a collection is searched with: the first query hash keyed with THIS collection's key
spec fn probe(c: KeyedShardCollection, q0: MerkleHash) -> u64 { spec_truncate(keyed(c.hmac_key, q0)) }
spec fn has_cand(c: KeyedShardCollection, q0: MerkleHash) -> bool { c.chunk_lookup@.contains_key(probe(c, q0)) }
spec fn cand(c: KeyedShardCollection, q0: MerkleHash) -> ChunkCacheElement { c.chunk_lookup@[probe(c, q0)] }
spec fn cand_shard(c: KeyedShardCollection, q0: MerkleHash) -> MDBShardFile { *c.shard_list@[cand(c, q0).shard_index as int] }
// per-collection outcome: None = the collection's truncated-hash table names no candidate for the keyed first hash;
// Some(res) = the direct (full-hash) query of the named shard at the named position answered `res`
spec fn outcome(c: KeyedShardCollection, q: Seq<MerkleHash>) -> Outcome {
    if has_cand(c, q[0]) {
        Some(direct_result(cand_shard(c, q[0]), q, cand(c, q[0]).cas_start_index, cand(c, q[0]).cas_chunk_offset as u32))
    } else { None }
}
// the ghost sequence of per-collection outcomes, in collection order
spec fn outcomes(cs: Seq<KeyedShardCollection>, q: Seq<MerkleHash>) -> Seq<Outcome> {
    Seq::new(cs.len(), |i: int| outcome(cs[i], q))
}
spec fn is_miss(o: Outcome) -> bool { o is None || o == Some::<Result<Option<(usize, FileDataSequenceEntry)>>>(Ok(None)) }

//@ include prelude/sfmq_vocab.rs
// C05 for an answer taken from collection c: truthful about a block of the named shard's file, compared under c's key
spec fn disk_truthful(c: KeyedShardCollection, q: Seq<MerkleHash>, n: int, fse: FileDataSequenceEntry) -> bool {
    let s = cand_shard(c, q[0]); let e = cand(c, q[0]);
    has_cand(c, q[0]) && truthful(
        blk_header(file_bytes(s), s.shard.metadata.cas_info_offset as int, e.cas_start_index as int),
        blk_entries(file_bytes(s), s.shard.metadata.cas_info_offset as int, e.cas_start_index as int),
        c.hmac_key, q, n, fse)
}

impl ShardFileManager {
    spec fn mem(&self) -> Map<MerkleHash, (Arc<MDBCASInfo>, u64)> { self.current_state.inner.chunk_hash_lookup@ }
    spec fn colls(&self) -> Seq<KeyedShardCollection> { self.shard_bookkeeper.inner.shard_collections@ }
    spec fn wf(&self) -> bool {
        &&& ims_wf(self.mem())
        &&& colls_wf(self.colls())
    }

//@ extract mdb_shard/src/shard_file_manager.rs in `impl ShardFileManager` fn chunk_hash_dedup_query
//@ ret r
//@ rules R4f
//@ contract
        requires
            self.wf(),
            // `query_hashes[0]` is indexed unconditionally in the collection loop
            query_hashes@.len() > 0,
        ensures
            // soundness (C05): an answer is the in-memory answer, or — the in-memory index having none — the direct-query
            // answer of the first collection (in order) whose outcome is not a miss, truthful under THAT collection's key
            /*@C05,C18,C11*/ r matches Ok(Some((n, fse))) ==>
                (ims_query_post(self.mem(), query_hashes@, Some((n, fse))) && truthful_mem(*self.mem()[query_hashes@[0]].0, query_hashes@, n as int, fse))
                || (ims_query_post(self.mem(), query_hashes@, None)
                    && exists|ci: int| 0 <= ci < self.colls().len()
                        && #[trigger] outcomes(self.colls(), query_hashes@)[ci] == Some::<Result<Option<(usize, FileDataSequenceEntry)>>>(Ok(Some((n, fse))))
                        && disk_truthful(self.colls()[ci], query_hashes@, n as int, fse)
                        && forall|cj: int| 0 <= cj < ci ==> is_miss(#[trigger] outcomes(self.colls(), query_hashes@)[cj])),
            // completeness across keys (C18): "not found" means the in-memory index has no entry AND every collection's outcome
            // is a miss (no candidate, or the full-hash confirmation of its candidate failed) — a failed confirmation in one
            // collection never hides a hit in another
            /*@C05,C18,C11*/ r matches Ok(None) ==>
                ims_query_post(self.mem(), query_hashes@, None)
                && forall|ci: int| 0 <= ci < self.colls().len() ==> is_miss(#[trigger] outcomes(self.colls(), query_hashes@)[ci]),
            // errors propagate: an error is the error of the first non-miss outcome
            r matches Err(e) ==>
                ims_query_post(self.mem(), query_hashes@, None)
                && exists|ci: int| 0 <= ci < self.colls().len()
                    && #[trigger] outcomes(self.colls(), query_hashes@)[ci] == Some::<Result<Option<(usize, FileDataSequenceEntry)>>>(Err(e))
                    && forall|cj: int| 0 <= cj < ci ==> is_miss(#[trigger] outcomes(self.colls(), query_hashes@)[cj]),
//@ loop 1
            invariant
                self.wf(), query_hashes@.len() > 0,
                *shard_lg == self.shard_bookkeeper.inner,
                ims_query_post(self.mem(), query_hashes@, None),
                vx_n1 <= self.colls().len(),
                forall|cj: int| 0 <= cj < vx_n1 ==> is_miss(#[trigger] outcomes(self.colls(), query_hashes@)[cj]),
            decreases self.colls().len() - vx_n1,
//@ before `let query_hash = {`
            let ghost ci = vx_n1 - 1;
            let ghost os = outcomes(self.colls(), query_hashes@);
            proof { assert(*shard_col == self.colls()[ci]); assert(os[ci] == outcome(self.colls()[ci], query_hashes@)); }
//@ before `if let Some(cce) =`
            // carries the property: the probe the code computed IS the truncated first hash keyed with THIS collection's key
            proof { /*@C05,C18,C11*/ assert(query_hash == probe(self.colls()[ci], query_hashes@[0])); }
//@ before `return Ok(Some((count, fdse)));`
                    proof {
                        // carries the property: what is returned IS this collection's outcome (the designated shard's direct answer)
                        /*@C05,C18,C11*/ assert(os[ci] == Some::<Result<Option<(usize, FileDataSequenceEntry)>>>(Ok(Some((count, fdse)))));
                        assert(disk_truthful(self.colls()[ci], query_hashes@, count as int, fdse));
                    }
//@ end
}

} // verus!
fn main() {}
