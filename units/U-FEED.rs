//@ unit U-FEED
//@ props C01 C02 C04 C14
//@ verus-args --rlimit 100
//@ config MAX_XORB_BYTES MAX_XORB_CHUNKS INGESTION_BLOCK_SIZE
#![feature(allocator_api)]
#![allow(non_snake_case, unused)]
use vstd::prelude::*;
use std::collections::HashMap;
use std::sync::Arc;
verus! {
//@ include prelude/dedup_types.rs
//@ include prelude/dedup_model.rs

// =====================================================================================================================
// The FEEDING PATH of a file: SingleFileCleaner::add_data / add_data_impl (data/src/file_cleaner.rs).
//
// What the properties need from it (C01 "identical to the bytes that were fed in", C02 "the recorded SHA-256 ... the original
// bytes", C04 "chunks concatenate to exactly the input ... however the stream is split across calls", C14 "total-bytes metric equals
// the number of bytes fed in"): every byte of every `data` argument reaches the chunker, exactly once, in order; every chunk the
// chunker emits reaches BOTH the SHA-256 generator and the deduper, in the same order.
//
// How it is stated: the three callees are stubs that keep a ghost HISTORY of what they were handed
//     chunker_blocks(c)  : Seq<Seq<u8>>   every slice handed to Chunker::next_block, in call order
//     sha_chunks(g)      : Seq<Chunk>     every chunk handed to ShaGenerator::update (Ok calls), in order
//     dd_fed(d)          : Seq<Chunk>     every chunk handed to FileDeduper::process_chunks (Ok calls), in order   (U-METRICS name)
// besides the state their real contracts (proved in U-CHUNK / U-SHA / U-DEDUP) talk about (chunker_buf, sha_state, dd_metrics).
// A history variable only records the calls; it assumes nothing about the callee.
// Vocabulary shared with U-METRICS (concat_chunks, data_len_sum, chunker_buf, chunker_max, dd_wf, dd_fed, dd_metrics) is kept.
// =====================================================================================================================

// ---- bytes of a chunk list (as U-METRICS / U-SHA) -------------------------------------------------------------------------------
// The lemmas are PROVED here and handed to the solver as broadcast lemmas at the START of the body of add_data_impl and of the finish
// region (body-start is the only anchor that no edit of a statement can move), so that the extracted bodies need (almost) no proof
// hints at statement anchors: a hint anchored at a statement is lost when a harmless edit rewrites that statement, and the tagged
// clauses would then fail for no good reason.  add_data (the loop) needs no lemma and no hint at all: everything it uses is a
// postcondition of add_data_impl, and sequence equalities are stated with `=~=` so that the solver proves them pointwise.
spec fn concat_chunks(s: Seq<Chunk>) -> Seq<u8> decreases s.len() {
    if s.len() == 0 { Seq::<u8>::empty() } else { concat_chunks(s.drop_last()) + s.last().data@ }
}
broadcast proof fn lemma_concat_append(a: Seq<Chunk>, b: Seq<Chunk>)
    ensures #[trigger] concat_chunks(a + b) == concat_chunks(a) + concat_chunks(b)
    decreases b.len()
{
    if b.len() == 0 { assert(a + b =~= a); assert(concat_chunks(a) + Seq::<u8>::empty() =~= concat_chunks(a)); }
    else {
        lemma_concat_append(a, b.drop_last());
        assert((a + b).drop_last() =~= a + b.drop_last());
        assert((a + b).last() == b.last());
        assert((concat_chunks(a) + concat_chunks(b.drop_last())) + b.last().data@ =~= concat_chunks(a) + (concat_chunks(b.drop_last()) + b.last().data@));
    }
}
spec fn data_len_sum(s: Seq<Chunk>) -> nat decreases s.len() {
    if s.len() == 0 { 0 } else { data_len_sum(s.drop_last()) + s.last().data@.len() }
}
broadcast proof fn lemma_concat_len(s: Seq<Chunk>)
    ensures #[trigger] concat_chunks(s).len() == data_len_sum(s)
    decreases s.len()
{ if s.len() > 0 { lemma_concat_len(s.drop_last()); } }

// ---- bytes of a block history ------------------------------------------------------------------------------------------------------
/// concatenation, in order, of the slices handed to the chunker
spec fn flat(b: Seq<Seq<u8>>) -> Seq<u8> decreases b.len() {
    if b.len() == 0 { Seq::<u8>::empty() } else { flat(b.drop_last()) + b.last() }
}
broadcast proof fn lemma_flat_push(b: Seq<Seq<u8>>, x: Seq<u8>)
    ensures #[trigger] flat(b.push(x)) == flat(b) + x
{ assert(b.push(x).drop_last() =~= b); assert(b.push(x).last() == x); }
/// byte sequences: length of a concatenation, and re-association to the right (both immediate from vstd's Seq axioms; stated as
/// broadcast lemmas so that the solver has them at the terms the contracts mention)
broadcast proof fn lemma_bytes_add_len(a: Seq<u8>, b: Seq<u8>)
    ensures (#[trigger] (a + b)).len() == a.len() + b.len()
{}
broadcast proof fn lemma_bytes_add_assoc(a: Seq<u8>, b: Seq<u8>, c: Seq<u8>)
    ensures #[trigger] ((a + b) + c) == a + (b + c)
{ assert((a + b) + c =~= a + (b + c)); }
broadcast group feed_lemmas { lemma_concat_append, lemma_concat_len, lemma_flat_push, lemma_bytes_add_len, lemma_bytes_add_assoc }


pub uninterp spec fn spec_INGESTION_BLOCK_SIZE() -> usize;
#[verifier::external_body] pub fn INGESTION_BLOCK_SIZE() -> (r: usize) ensures r == spec_INGESTION_BLOCK_SIZE() { unimplemented!() }

pub assume_specification<T, A: std::alloc::Allocator + Clone> [<Arc<[T], A> as From<Vec<T, A>>>::from] (v: Vec<T, A>) -> (r: Arc<[T], A>)
    ensures r@ == v@;

/// position `pos` clipped to the buffer length
spec fn upto(pos: usize, len: nat) -> int { if pos <= len { pos as int } else { len as int } }
/// `b1` continues `b0`: nothing already handed over is changed or dropped (pointwise, so that it composes without hints)
spec fn extends(b0: Seq<Seq<u8>>, b1: Seq<Seq<u8>>) -> bool {
    b0.len() <= b1.len() && forall|i: int| 0 <= i < b0.len() ==> #[trigger] b1[i] == b0[i]
}
/// the blocks added between history `b0` and history `b1` each hold at most `bs` bytes and (unless the whole call was for an empty
/// buffer) at least one
spec fn new_blocks_bounded(b0: Seq<Seq<u8>>, b1: Seq<Seq<u8>>, bs: int, nonempty: bool) -> bool {
    forall|i: int| b0.len() <= i < b1.len() ==> (#[trigger] b1[i]).len() <= bs && (nonempty ==> b1[i].len() > 0)
}

// ---- R11 stub: deduplication::Chunker, contract = what U-CHUNK proves for next_block (as used by U-METRICS) + call history ----------
#[verifier::external_body] pub struct Chunker { _p: u8 }
pub uninterp spec fn chunker_buf(c: &Chunker) -> Seq<u8>;             // bytes fed but not yet emitted as a chunk
pub uninterp spec fn chunker_max(c: &Chunker) -> int;                 // maximum chunk size of this chunker
pub uninterp spec fn chunker_blocks(c: &Chunker) -> Seq<Seq<u8>>;     // GHOST HISTORY: every slice handed to next_block, in call order
impl Chunker {
    #[verifier::external_body]
    fn next_block(&mut self, data: &[u8], is_final: bool) -> (ret: Vec<Chunk>)
        requires
            data@.len() <= isize::MAX,
            // PROPERTY-DERIVED (C04 "boundaries ... are the same however the stream is split across calls"): `is_final = true` makes the
            // chunker cut at the end of this block (U-CHUNK), so the feeding path must never declare a block final; the only flush is
            // `finish()`
            /*@C04*/ !is_final,
        ensures
            chunker_blocks(final(self)) == chunker_blocks(old(self)).push(data@),
            chunker_buf(old(self)) + data@ == concat_chunks(ret@) + chunker_buf(final(self)),
            chunker_max(final(self)) == chunker_max(old(self)),
            forall|i: int| 0 <= i < ret@.len() ==> 0 < (#[trigger] ret@[i]).data@.len() <= chunker_max(old(self)),
            // content addressing, assumed per produced chunk: its hash determines its length (hash = H(data))
            chunks_ok(ret@),
    { unimplemented!() }
    /// U-CHUNK `finish` (as used by U-METRICS): the buffered rest becomes the last chunk
    #[verifier::external_body]
    fn finish(self) -> (ret: Option<Chunk>)
        ensures match ret {
            Some(c) => c.data@ == chunker_buf(&self) && c.data@.len() > 0 && c.data@.len() <= chunker_max(&self) && chunk_ok(c),
            None => chunker_buf(&self).len() == 0,
        },
    { unimplemented!() }
}

// ---- R11 stub: data::sha256::ShaGenerator, contract = what U-SHA proves for update + call history -----------------------------------
#[verifier::external_body] pub struct ShaGenerator { _p: u8 }
/// U-SHA `state()`: the bytes the hasher chain stands for, None once a hashing task has failed (prophecy of the task outcome)
pub uninterp spec fn sha_state(g: &ShaGenerator) -> Option<Seq<u8>>;
uninterp spec fn sha_chunks(g: &ShaGenerator) -> Seq<Chunk>;      // GHOST HISTORY: every chunk handed to update (Ok calls), in order
pub struct DataError { pub x: u8 }
// data::errors::Result
pub type Result<T> = std::result::Result<T, DataError>;
/// U-SHA's `digest_as_hash(sha256_spec(bytes))`: the MerkleHash that carries the SHA-256 digest of `bytes` (SHA-256 itself: not modelled)
pub uninterp spec fn sha256_hash_spec(bytes: Seq<u8>) -> MerkleHash;
impl ShaGenerator {
    /// U-SHA `finalize` (its three clauses in one): Ok only if no hashing task failed, and then the digest is over exactly the bytes
    /// the chain stands for (a never-updated generator stands for the empty input)
    #[verifier::external_body]
    fn finalize(self) -> (r: Result<MerkleHash>)
        ensures r matches Ok(h) ==> sha_state(&self) is Some && h == sha256_hash_spec(sha_state(&self)->Some_0),
    { unimplemented!() }
    #[verifier::external_body]
    fn update(&mut self, new_chunks: Arc<[Chunk]>) -> (r: Result<()>)
        ensures
            r is Ok ==> sha_chunks(final(self)) == sha_chunks(old(self)) + new_chunks@,
            // U-SHA: a failed predecessor task is reported; otherwise the chain now stands for previous bytes ++ this block's chunk data
            r is Ok ==> sha_state(old(self)) is Some,
            r is Ok && sha_state(final(self)) is Some ==> sha_state(final(self))->Some_0 == sha_state(old(self))->Some_0 + concat_chunks(new_chunks@),
    { unimplemented!() }
}

// ---- R11 stub: FileDeduper<UploadSessionDataManager>, contract = what U-DEDUP proves for process_chunks (as used by U-METRICS) --------
#[verifier::external_body] pub struct FileDeduper { _p: u8 }
pub uninterp spec fn dd_wf(d: &FileDeduper) -> bool;
uninterp spec fn dd_fed(d: &FileDeduper) -> Seq<Chunk>;           // every chunk processed so far, in order
uninterp spec fn dd_metrics(d: &FileDeduper) -> DeduplicationMetrics;
impl FileDeduper {
    #[verifier::external_body]
    fn process_chunks(&mut self, chunks: &[Chunk]) -> (r: Result<DeduplicationMetrics>)
        requires dd_wf(old(self)), chunks_ok(chunks@),
            forall|i: int| 0 <= i < chunks@.len() ==> (#[trigger] chunks@[i]).data@.len() <= spec_MAX_XORB_BYTES(),
            data_len_sum(dd_fed(old(self))) + data_len_sum(chunks@) <= usize::MAX,
        ensures match r {
            Ok(m) => dd_wf(final(self)) && dd_fed(final(self)) == dd_fed(old(self)) + chunks@
                && dd_metrics(final(self)).total_bytes == data_len_sum(dd_fed(final(self)))
                && m.total_bytes == data_len_sum(chunks@),
            Err(_) => true,
        },
    { unimplemented!() }
}

// ---- the rest of the cleaner's environment: opaque stubs ---------------------------------------------------------------------------
#[verifier::external_body] pub struct ProgressUpdater { _p: u8 }
impl ProgressUpdater { #[verifier::external_body] fn update(&self, n: u64) { unimplemented!() } }
pub struct FileUploadSession { pub upload_progress_updater: Option<Arc<ProgressUpdater>> }
#[verifier::external_body] pub struct VxTime { _p: u8 }
//@ extract mdb_shard/src/file_structs.rs struct FileMetadataExt
//@ end
impl FileMetadataExt {
    #[verifier::external_body] fn new(sha256: MerkleHash) -> (r: Self) ensures r.sha256 == sha256 { unimplemented!() }
}
/// R11 outline of `Arc::new([c])` (Arc<[Chunk; 1]> -> Arc<[Chunk]> unsizing coercion), as U-METRICS
#[verifier::external_body] fn vx_arc_one(c: Chunk) -> (r: Arc<[Chunk]>) ensures r@ == seq![c] { Arc::new([c]) }

//@ extract data/src/file_cleaner.rs struct SingleFileCleaner
//@ subst `FileDeduper<UploadSessionDataManager>` => `FileDeduper` :: R11 stub type (the deduper instantiated with the session's data manager)
//@ subst `DateTime<Utc>` => `VxTime` :: R11 stub type
//@ end

impl SingleFileCleaner {
    /// every byte handed to the chunker so far, in order (the file as fed)
    spec fn fed_bytes(&self) -> Seq<u8> { flat(chunker_blocks(&self.chunker)) }
    /// number of bytes fed so far
    spec fn fed_total(&self) -> nat { self.fed_bytes().len() }
    /// the bytes that went through the chunker: chunks handed on to the deduper, then what the chunker still buffers (U-METRICS)
    spec fn stream(&self) -> Seq<u8> { concat_chunks(dd_fed(&self.dedup_manager)) + chunker_buf(&self.chunker) }

    /// technical well-formedness of the deduper and the configuration (U-METRICS `wf`)
    spec fn wf(&self) -> bool {
        &&& dd_wf(&self.dedup_manager)
        &&& chunks_ok(dd_fed(&self.dedup_manager))
        // configuration: the chunker's maximum chunk fits a xorb; a positive ingestion block size
        &&& chunker_max(&self.chunker) <= spec_MAX_XORB_BYTES()
        &&& spec_INGESTION_BLOCK_SIZE() >= 1
    }
    /// C04/C01: nothing handed to the chunker is lost or invented downstream: what the deduper got plus what is still buffered IS the
    /// concatenation of all blocks fed
    spec fn conserved(&self) -> bool { self.stream() =~= self.fed_bytes() }
    /// C02: the SHA-256 generator and the deduper were handed the same chunk sequence, and (unless a hashing task failed, which
    /// `finalize` reports) the hasher chain stands for exactly the bytes of those chunks
    spec fn sha_in_sync(&self) -> bool {
        &&& sha_chunks(&self.sha_generator) == dd_fed(&self.dedup_manager)
        &&& sha_state(&self.sha_generator) matches Some(s) ==> s == concat_chunks(sha_chunks(&self.sha_generator))
    }
    /// C14: the deduper's total-bytes counter is the byte count of the chunks it was handed
    spec fn counted(&self) -> bool { dd_metrics(&self.dedup_manager).total_bytes == concat_chunks(dd_fed(&self.dedup_manager)).len() }

//@ extract data/src/file_cleaner.rs in `impl SingleFileCleaner` fn add_data_impl
//@ ret r
//@ contract
        requires
            old(self).wf(),
            /*@C01,C03,C04,C14*/ old(self).conserved(),
            /*@C02*/ old(self).sha_in_sync(),
            /*@C14*/ old(self).counted(),
            /*@AUX*/ data@.len() <= isize::MAX,
            /*@AUX*/ old(self).fed_total() + data@.len() <= usize::MAX,
            // the function's own splitting contract (call sites in add_data): one call never carries more than one ingestion block
            /*@C01,C03,C04*/ data@.len() <= spec_INGESTION_BLOCK_SIZE(),
        ensures
            /*@AUX*/ r is Ok ==> final(self).wf(),
            /*@AUX*/ r is Ok ==> chunker_max(&final(self).chunker) == chunker_max(&old(self).chunker),
            // exactly one block, the whole argument, was handed to the chunker
            /*@C01,C02,C03,C04,C14*/ r is Ok ==> chunker_blocks(&final(self).chunker) == chunker_blocks(&old(self).chunker).push(data@),
            /*@C01,C02,C03,C04,C14*/ r is Ok ==> final(self).fed_bytes() =~= old(self).fed_bytes() + data@,
            // every chunk the chunker emitted for it went on to the deduper (the rest is still buffered) ...
            /*@C01,C03,C04,C14*/ r is Ok ==> final(self).conserved(),
            // ... and to the SHA-256 generator, in the same order
            /*@C02*/ r is Ok ==> final(self).sha_in_sync(),
            /*@C14*/ r is Ok ==> final(self).counted(),
//@ body-start
        proof { broadcast use feed_lemmas; }
//@ end

//@ extract data/src/file_cleaner.rs in `impl SingleFileCleaner` fn add_data
//@ ret r
//@ rules feed.R4x
//@ contract
        requires
            old(self).wf(),
            /*@C01,C03,C04,C14*/ old(self).conserved(),
            /*@C02*/ old(self).sha_in_sync(),
            /*@C14*/ old(self).counted(),
            /*@AUX*/ data@.len() <= isize::MAX,
            /*@AUX*/ old(self).fed_total() + data@.len() <= usize::MAX,
        ensures
            /*@AUX*/ r is Ok ==> final(self).wf(),
            // (a) the blocks handed to the chunker by this call continue the history and concatenate to exactly `data`, in order
            /*@C01,C02,C03,C04,C14*/ r is Ok ==> extends(chunker_blocks(&old(self).chunker), chunker_blocks(&final(self).chunker)),
            /*@C01,C02,C03,C04,C14*/ r is Ok ==> final(self).fed_bytes() =~= old(self).fed_bytes() + data@,
            // (b) every block is at most one ingestion block and, for a non-empty buffer, non-empty
            /*@C01,C03,C04*/ r is Ok ==> new_blocks_bounded(chunker_blocks(&old(self).chunker), chunker_blocks(&final(self).chunker), spec_INGESTION_BLOCK_SIZE() as int, data@.len() > 0),
            // (c) state level: the number of bytes fed grows by exactly data.len()
            /*@C14*/ r is Ok ==> final(self).fed_total() == old(self).fed_total() + data@.len(),
            // (d) downstream: deduper chunks ++ chunker buffer is everything fed; SHA generator in step with the deduper; counter
            /*@C01,C03,C04,C14*/ r is Ok ==> final(self).conserved(),
            /*@C01,C03,C04,C14*/ r is Ok ==> final(self).stream() =~= old(self).stream() + data@,
            /*@C02*/ r is Ok ==> final(self).sha_in_sync(),
            /*@C14*/ r is Ok ==> final(self).counted(),
            /*@C14*/ r is Ok ==> dd_metrics(&final(self).dedup_manager).total_bytes + chunker_buf(&final(self).chunker).len() == dd_metrics(&old(self).dedup_manager).total_bytes + chunker_buf(&old(self).chunker).len() + data@.len(),
//@ body-start
        let ghost b0 = chunker_blocks(&self.chunker); let ghost mx = chunker_max(&self.chunker);
//@ loop 1
                invariant
                    data@.len() <= isize::MAX, self.wf(), chunker_max(&self.chunker) == mx,
                    spec_INGESTION_BLOCK_SIZE() < data@.len(),
                    b0 == chunker_blocks(&old(self).chunker), flat(b0).len() + data@.len() <= usize::MAX,
                    /*@C01,C03,C04,C14*/ self.conserved(),
                    /*@C02*/ self.sha_in_sync(),
                    /*@C14*/ self.counted(),
                    // the property for the prefix fed so far: history continued, its bytes are data[..pos], blocks bounded
                    // (`upto` = min(pos, len): a loop that steps `pos` by whole blocks past the end is as good as one that stops at it)
                    /*@C01,C02,C03,C04,C14*/ extends(b0, chunker_blocks(&self.chunker)),
                    /*@C01,C02,C03,C04,C14*/ flat(chunker_blocks(&self.chunker)) =~= flat(b0) + data@.subrange(0, upto(pos, data@.len())),
                    /*@C01,C03,C04*/ new_blocks_bounded(b0, chunker_blocks(&self.chunker), spec_INGESTION_BLOCK_SIZE() as int, true),
                decreases data@.len() - upto(pos, data@.len()),
//@ end

// ---- the END of the feeding path: the first half of `finish` (flush the chunker's rest to the SHA generator and the deduper, then
// finalize the SHA-256).  The second half (dedup finalize, pointer file, registration) is U-METRICS / U-DEDUP / U-SESSAPI.
//@ extract data/src/file_cleaner.rs in `impl SingleFileCleaner` region finish
//@ from `if let Some(chunk) = self.chunker.finish()`
//@ to-before `let repo_salt`
//@ sig `fn finish__feed_tail(mut self) -> (ret: Result<(FileDeduper, FileMetadataExt)>)`
//@ epilogue `Ok((self.dedup_manager, metadata_ext))`
//@ rules R14
//@ subst `Arc::new([chunk.clone()])` => `vx_arc_one(chunk.clone())` :: R11: Arc<[Chunk; 1]> -> Arc<[Chunk]> unsizing coercion outlined (as U-METRICS); contract assumed: the one-element list
//@ contract
        requires
            self.wf(),
            /*@C01,C03,C04,C14*/ self.conserved(),
            /*@C02*/ self.sha_in_sync(),
            /*@C14*/ self.counted(),
            /*@AUX*/ self.fed_total() <= usize::MAX,
        ensures
            /*@AUX*/ ret matches Ok(p) ==> dd_wf(&p.0),
            // every byte fed has reached the deduper as chunk data, in order (nothing is left in the chunker)
            /*@C01,C03,C04,C14*/ ret matches Ok(p) ==> concat_chunks(dd_fed(&p.0)) =~= self.fed_bytes(),
            // the total-bytes counter is the number of bytes fed
            /*@C14*/ ret matches Ok(p) ==> dd_metrics(&p.0).total_bytes == concat_chunks(dd_fed(&p.0)).len() && concat_chunks(dd_fed(&p.0)).len() == self.fed_total(),
            // the SHA-256 handed on for the file record is the digest of exactly the bytes fed, in order
            /*@C02*/ ret matches Ok(p) ==> p.1.sha256 == sha256_hash_spec(self.fed_bytes()),
//@ body-start
        proof { broadcast use feed_lemmas; }
        let ghost fed0 = dd_fed(&self.dedup_manager);
//@ after `if let Some(chunk) = vx_self.chunker.finish() {`
            // pure proof steps (unfoldings for the one-element list), placed at the head of the block so that they do not depend on
            // the order of the two calls below
            proof {
                let one = seq![chunk];
                assert(one.drop_last() =~= Seq::<Chunk>::empty());
                assert(concat_chunks(Seq::<Chunk>::empty()) =~= Seq::<u8>::empty());
                assert(concat_chunks(one) =~= chunk.data@) by { assert(Seq::<u8>::empty() + chunk.data@ =~= chunk.data@); }
                assert((fed0 + one) =~= fed0.push(chunk));
                assert(chunks_ok(one));
                let arr = [chunk]; assert(arr@ =~= one);
            }
//@ end
}

} // verus!
fn main() {}
