//@ unit U-CACHEBIND
//@ props C12
//@ verus-args --rlimit 100
#![feature(allocator_api)]
#![allow(non_snake_case, unused)]
use vstd::prelude::*;
use vstd::bytes::*;
use std::sync::Arc;
verus! {
global size_of usize == 8;

// ---- stub types (as in U-CACHEACCT's scan section) ------------------------------------------------------------------------
struct PathBuf { id: u64 }
enum ChunkCacheError { General, IO, Parse, BadRange, CacheEmpty, Infallible, LockPoison, InvalidArguments }
#[derive(PartialEq, Eq, Structural)]
enum ErrorKind { NotFound, PermissionDenied, Other }
struct IoError { k: u64 }
impl IoError {
    #[verifier::external_body]
    fn kind(&self) -> ErrorKind { unimplemented!() }
}
impl From<IoError> for ChunkCacheError {
    #[verifier::external_body]
    fn from(e: IoError) -> (r: ChunkCacheError) ensures r is IO { ChunkCacheError::IO }
}
impl ChunkCacheError {
    #[verifier::external_body]
    fn general(value: String) -> (r: ChunkCacheError) ensures r is General { unimplemented!() }
}
mod io { pub type Result<T> = core::result::Result<T, super::IoError>; }
#[verifier::external_body]
fn vx_format(lead: &str, trail: &str) -> String { unimplemented!() }
//@ extract cas_types/src/lib.rs struct Range
//@ end
impl<Idx: Copy> Copy for Range<Idx> {}
impl<Idx: Copy> Clone for Range<Idx> {
    #[verifier::external_body]
    fn clone(&self) -> (r: Self) ensures r == *self { unimplemented!() }
}
//@ extract cas_types/src/lib.rs type ChunkRange
//@ end
//@ extract chunk_cache/src/disk/cache_item.rs struct CacheItem
//@ end
//@ extract chunk_cache/src/lib.rs struct CacheRange
//@ end
// a directory entry of a key directory: ghost name, the directory it lies in, what `stat` says, and the file's content
struct DirEntry { name: Ghost<Seq<u8>>, dir: Ghost<PathBuf>, stat_ok: Ghost<bool>, is_file: Ghost<bool>, len: Ghost<u64>, content: Ghost<Seq<u8>> }
struct Metadata { is_file: bool, len: u64 }
struct OsString { bytes: Ghost<Seq<u8>> }
impl OsString {
    #[verifier::external_body]
    fn as_encoded_bytes(&self) -> (r: &[u8]) ensures r@ == self.bytes@ { unimplemented!() }
}
impl Metadata {
    fn is_file(&self) -> (r: bool) ensures r == self.is_file { self.is_file }
    fn len(&self) -> (r: u64) ensures r == self.len { self.len }
}
impl DirEntry {
    #[verifier::external_body]
    fn metadata(&self) -> (r: io::Result<Metadata>)
        ensures r is Ok <==> self.stat_ok@, r matches Ok(md) ==> md.is_file == self.is_file@ && md.len == self.len@ && self.len@ == self.content@.len()
    { unimplemented!() }
    #[verifier::external_body]
    fn file_name(&self) -> (r: OsString) ensures r.bytes@ == self.name@ { unimplemented!() }
    #[verifier::external_body]
    fn path(&self) -> PathBuf { unimplemented!() }
}
#[verifier::external_body]
fn remove_file(path: PathBuf) -> (r: Result<(), ChunkCacheError>) { unimplemented!() }
uninterp spec fn parse_name(name: Seq<u8>) -> Option<CacheItem>;
impl CacheItem {
    #[verifier::external_body]
    fn parse(file_name: &[u8]) -> (r: Result<CacheItem, ChunkCacheError>)
        ensures match r { Ok(ci) => parse_name(file_name@) == Some(ci), Err(_) => parse_name(file_name@) is None }
    { unimplemented!() }
}
//@ extract chunk_cache/src/disk.rs const DEFAULT_CHUNK_CACHE_CAPACITY
//@ end
type OptionResult<T, E> = Result<Option<T>, E>;

// ---- what C12 needs from an entry the scan accepts -------------------------------------------------------------------------
// the on-disk form of what `put(key, range, idx, data)` stores (U-CACHEPUT: `enc_hdr(idx) ++ data`, proved to be what put writes)
spec fn le4(v: u32) -> Seq<u8> { spec_u32_to_le_bytes(v) }
spec fn le32(b: Seq<u8>) -> u32 { spec_u32_from_le_bytes(b) }
spec fn hdr_len(n: int) -> int { (n + 1) * 4 }
spec fn strictly_inc(s: Seq<u32>) -> bool { forall|i: int| 1 <= i < s.len() ==> s[i - 1] < #[trigger] s[i] }
spec fn hdr_ok(s: Seq<u32>) -> bool { strictly_inc(s) && (s.len() > 0 ==> s[0] == 0) }
// U-CACHEPUT `file_roundtrips`: the file `b` is what a put of (range, idx, data) leaves behind
spec fn stored_as(b: Seq<u8>, range: ChunkRange, idx: Seq<u32>, data: Seq<u8>) -> bool {
    let n = idx.len() as int;
    &&& b.len() == hdr_len(n) + data.len()
    &&& le32(b.subrange(0, 4)) == n
    &&& forall|i: int| 0 <= i < n ==> le32(#[trigger] b.subrange(4 + 4 * i, 8 + 4 * i)) == idx[i]
    &&& hdr_ok(idx) && n == range.end - range.start + 1
    &&& b.subrange(hdr_len(n), b.len() as int) == data
    &&& idx[n - 1] as int == data.len()
}
// the history: `was_put(dir, range, idx, data)` — some `put(key, range, idx, data)` with key_dir(key) == dir happened
uninterp spec fn was_put(dir: PathBuf, range: ChunkRange, idx: Seq<u32>, data: Seq<u8>) -> bool;
// THE BINDING the read side of C12 needs for an item loaded by the scan: the file's content is what was put FOR THE KEY OF THE
// DIRECTORY IT LIES IN and FOR THE RANGE ITS NAME CLAIMS.  Nothing in the file or its name carries key or range under the checksum.
spec fn content_was_put_under(e: DirEntry, range: ChunkRange) -> bool {
    exists|idx: Seq<u32>, data: Seq<u8>| #[trigger] was_put(e.dir@, range, idx, data) && stored_as(e.content@, range, idx, data)
}

//@ extract chunk_cache/src/disk.rs fn try_parse_cache_file
//@ ret r
//@ rules crashfs.R7f
//@ contract
    ensures
        // what the scan does check (also proved in U-CACHEACCT): regular file, name parses, length == the length in the name
        r matches Ok(Some(ci)) ==> file_result is Ok && file_result->Ok_0.is_file@ && parse_name(file_result->Ok_0.name@) == Some(ci)
            && ci.len == file_result->Ok_0.content@.len() && ci.len <= capacity,
        // what C12 needs and nothing checks — neither here nor later (the crc verified on first read covers header + data only):
        /*@C12*/ r matches Ok(Some(ci)) ==> content_was_put_under(file_result->Ok_0, ci.range),
//@ end

// ---- why that clause is exactly what is missing: with it, a hit is a slice of what was put --------------------------------
// U-CACHEGET proves for every hit: the served file parses to `idx` and `cr` is `slice_of(file, idx, item.start, range, cr)`.
spec fn parses_to(b: Seq<u8>, idx: Seq<u32>) -> bool {
    let n = idx.len() as int;
    &&& hdr_ok(idx) && n <= u32::MAX
    &&& hdr_len(n) <= b.len()
    &&& n == le32(b.subrange(0, 4))
    &&& forall|i: int| 0 <= i < n ==> idx[i] == le32(#[trigger] b.subrange(4 + 4 * i, 8 + 4 * i))
}
spec fn slice_of(b: Seq<u8>, idx: Seq<u32>, start: u32, range: ChunkRange, cr: CacheRange) -> bool {
    let s = (range.start - start) as int; let e = (range.end - start) as int; let hl = hdr_len(idx.len() as int);
    &&& e < idx.len()
    &&& hl + idx[e] <= b.len()
    &&& cr.data@ == b.subrange(hl + idx[s], hl + idx[e])
    &&& cr.offsets@.len() == range.end - range.start + 1
    &&& forall|k: int| 0 <= k <= e - s ==> #[trigger] cr.offsets@[k] == idx[s + k] - idx[s]
    &&& cr.range == range
}
proof fn lemma_inc_le(s: Seq<u32>, a: int, b: int)
    requires strictly_inc(s), 0 <= a <= b < s.len()
    ensures s[a] <= s[b]
    decreases b - a
{ if a < b { lemma_inc_le(s, a, b - 1); } }
// C12's read-side statement: the returned bytes and offsets are the requested slice of what was PUT (item_range, idx0, data0)
proof fn lemma_hit_returns_put_bytes(b: Seq<u8>, item_range: ChunkRange, idx0: Seq<u32>, data0: Seq<u8>, idx: Seq<u32>, range: ChunkRange, cr: CacheRange)
    requires
        stored_as(b, item_range, idx0, data0),                       // the binding (content_was_put_under) for the serving item
        item_range.start <= range.start < range.end <= item_range.end, // find_match
        parses_to(b, idx), slice_of(b, idx, item_range.start, range, cr), // U-CACHEGET's hit postcondition
    ensures ({
        let s = (range.start - item_range.start) as int; let e = (range.end - item_range.start) as int;
        &&& idx == idx0
        &&& cr.data@ == data0.subrange(idx0[s] as int, idx0[e] as int)
        &&& forall|k: int| 0 <= k <= e - s ==> #[trigger] cr.offsets@[k] == idx0[s + k] - idx0[s]
    }),
{
    let n = idx0.len() as int;
    assert(idx.len() == n);
    assert forall|i: int| 0 <= i < n implies idx[i] == idx0[i] by {
        assert(idx[i] == le32(b.subrange(4 + 4 * i, 8 + 4 * i)));
    }
    assert(idx =~= idx0);
    let s = (range.start - item_range.start) as int; let e = (range.end - item_range.start) as int; let hl = hdr_len(n);
    lemma_inc_le(idx0, s, e); lemma_inc_le(idx0, e, n - 1);
    assert(b.subrange(hl + idx0[s], hl + idx0[e]) =~= b.subrange(hl, b.len() as int).subrange(idx0[s] as int, idx0[e] as int));
}

} // verus!
fn main() {}
