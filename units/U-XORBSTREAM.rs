//@ unit U-XORBSTREAM
//@ props C06 C08
//@ verus-args --rlimit 100
//@ rules-from xorbidx
//@ gsubst `anyhow::Error` => `AnyhowError` :: R11 stub type for the anyhow dependency (opaque error value)
//@ gsubst `std::io::Error` => `IoError` :: R11 stub type (opaque error value)
//@ gsubst `lz4_flex::frame::Error` => `Lz4Error` :: R11 stub type (opaque error value)
//@ gsubst `Infallible` => `VxInfallible` :: R11 stub type (opaque error value)
//@ gsubst `merklehash::compute_data_hash` => `compute_data_hash` :: R11 stub for the merklehash dependency (uninterpreted chunk hash H)
//@ gsubst `DataHash` => `MerkleHash` :: `merklehash::MerkleHash` is an alias of `DataHash` (merklehash/src/lib.rs:49)
#![allow(non_snake_case, unused)]
use vstd::prelude::*;
use std::mem::size_of;
verus! {
global size_of usize == 8;

//@ include prelude/xorbidx_types.rs

//@ extract cas_object/src/error.rs enum CasObjectError
//@ end
//@ extract merkledb/src/chunk_iterator.rs struct Chunk
//@ end
//@ extract cas_object/src/cas_object_format.rs type CasObjectIdent
//@ end
//@ extract cas_object/src/cas_object_format.rs const CAS_OBJECT_FORMAT_BOUNDARIES_VERSION
//@ end
//@ extract cas_object/src/cas_object_format.rs struct CasObjectInfoV1
//@ end
//@ extract cas_object/src/cas_object_format.rs struct CasObject
//@ end
//@ extract merkledb/src/constants.rs const TARGET_CDC_CHUNK_SIZE
//@ end
//@ extract merkledb/src/constants.rs const MAXIMUM_CHUNK_MULTIPLIER
//@ end
//@ extract merkledb/src/constants.rs const MAXIMUM_CHUNK_SIZE
//@ end
// the real header struct (8 x u8; `#[repr(C, packed)]` is dropped by R10, the layout below is re-checked by rustc)
//@ extract cas_object/src/cas_chunk_format.rs struct CASChunkHeader
//@ end
global layout CASChunkHeader is size == 8, align == 1;

// ---- stubs (R11) -----------------------------------------------------------------------------------------------------------
// async reader after R1 (sequential reading): ghost bytes + position
pub trait AsyncRead {
    spec fn bytes(&self) -> Seq<u8>;
    spec fn pos(&self) -> nat;
    // futures::AsyncReadExt::read_exact: fills the whole buffer from the current position or fails
    fn read_exact(&mut self, buf: &mut [u8]) -> (r: Result<(), IoError>)
        ensures
            final(self).bytes() == old(self).bytes(),
            final(buf)@.len() == old(buf)@.len(),
            r is Ok ==> old(self).pos() + old(buf)@.len() <= old(self).bytes().len()
                && final(buf)@ == old(self).bytes().subrange(old(self).pos() as int, (old(self).pos() + old(buf)@.len()) as int)
                && final(self).pos() == old(self).pos() + old(buf)@.len();
}
pub trait Unpin {}

#[derive(Clone, Copy)]
pub enum CompressionScheme { None, LZ4, ByteGrouping4LZ4 }
pub uninterp spec fn spec_scheme(b: u8) -> Option<CompressionScheme>;
// decoding is a function of scheme and compressed bytes
pub uninterp spec fn spec_decompress(s: CompressionScheme, data: Seq<u8>) -> Option<Seq<u8>>;
impl CompressionScheme {
    // (the real function returns Cow<[u8]>; the region only takes `.len()` and `&x` as a slice of the result)
    #[verifier::external_body]
    fn decompress_from_slice(&self, data: &[u8]) -> (r: Result<Vec<u8>, CasObjectError>)
        ensures r matches Ok(d) ==> spec_decompress(*self, data@) == Some(d@)
    { unimplemented!() }
}
// H: the chunk hash
pub uninterp spec fn spec_data_hash(data: Seq<u8>) -> MerkleHash;
#[verifier::external_body]
fn compute_data_hash(slice: &[u8]) -> (r: MerkleHash) ensures r == spec_data_hash(slice@) { unimplemented!() }

// 3-byte little-endian field
pub open spec fn le3(s: Seq<u8>, o: int) -> nat { (s[o] as nat) + 256 * (s[o + 1] as nat) + 65536 * (s[o + 2] as nat) }
impl CASChunkHeader {
    spec fn clen(&self) -> nat { le3(self.compressed_length@, 0) }
    spec fn ulen(&self) -> nat { le3(self.uncompressed_length@, 0) }
    // accessors (cas_chunk_format.rs:42-58; their byte arithmetic is K-HDR's subject): little-endian value of the 3-byte fields
    #[verifier::external_body]
    fn get_compressed_length(&self) -> (r: u32) ensures r == self.clen() { unimplemented!() }
    #[verifier::external_body]
    fn get_uncompressed_length(&self) -> (r: u32) ensures r == self.ulen() { unimplemented!() }
    #[verifier::external_body]
    fn get_compression_scheme(&self) -> (r: Result<CompressionScheme, CasObjectError>)
        ensures match r { Ok(s) => spec_scheme(self.compression_scheme) == Some(s), Err(e) => e is FormatError }
    { unimplemented!() }
}
// the header an 8-byte prefix denotes (parse_chunk_header is a transmute + validate)
spec fn header_matches(h: CASChunkHeader, b: Seq<u8>) -> bool {
    &&& h.version == b[0] && h.compression_scheme == b[4]
    &&& h.compressed_length@ =~= b.subrange(1, 4)
    &&& h.uncompressed_length@ =~= b.subrange(5, 8)
}
// parse_chunk_header (cas_chunk_format.rs:134-138): the facts K-HDR establishes for every 8-byte input
#[verifier::external_body]
fn parse_chunk_header(chunk_header_bytes: [u8; 8]) -> (r: Result<CASChunkHeader, CasObjectError>)
    ensures match r {
        Ok(h) => header_matches(h, chunk_header_bytes@) && h.clen() <= 2 * MAXIMUM_CHUNK_SIZE && h.ulen() <= MAXIMUM_CHUNK_SIZE
            && spec_scheme(h.compression_scheme) is Some,
        Err(e) => e is FormatError,
    }
{ unimplemented!() }

// R7 outline: `v.last().unwrap_or(&0)` yields a `&u32` that is then added to u32 values (`&u32 + u32`, no Verus support);
// the outline returns the value; body = the original expression, dereferenced
#[verifier::external_body]
fn vx_last_or_zero(v: &Vec<u32>) -> (r: u32) ensures r == last_or_0(v@) { *v.last().unwrap_or(&0) }
pub open spec fn last_or_0(s: Seq<u32>) -> u32 { if s.len() == 0 { 0 } else { s[s.len() - 1] } }

// ---- the property-level view of one chunk step -----------------------------------------------------------------------------------
spec fn chunk_of(d: Seq<u8>) -> Chunk { Chunk { hash: spec_data_hash(d), length: d.len() as usize } }
// the chunk whose 8-byte header is `b8` and whose payload starts at `pos`: decoded data, if it decodes
spec fn decoded_at(bytes: Seq<u8>, pos: nat, b8: Seq<u8>) -> Option<Seq<u8>> {
    match spec_scheme(b8[4]) {
        Some(s) => spec_decompress(s, bytes.subrange(pos as int, (pos + le3(b8, 1)) as int)),
        None => None,
    }
}

//@ extract cas_object/src/validate_xorb_stream.rs region _validate_cas_object_from_async_read
//@ from `let chunk_header = parse_chunk_header(buf8)`
//@ to-before `}; if let Some(cas_object) = &maybe_cas_object`
//@ sig `fn vx_stream_chunk_step<R: AsyncRead + Unpin>(reader: &mut R, buf8: [u8; 8], chunk_hash_and_size: &mut Vec<Chunk>, compressed_chunk_boundary_offsets: &mut Vec<u32>, hash: &MerkleHash) -> (r: Result<(), CasObjectError>)`
//@ epilogue `Ok(())`
//@ rules R15
//@ subst `compressed_chunk_boundary_offsets.last().unwrap_or(&0)` => `vx_last_or_zero(compressed_chunk_boundary_offsets)` :: R7 outline (`&u32 + u32`): value of the last element or 0
//@ contract
    // no precondition: since commit 0a1edf6 the u32 end offset is computed with `checked_add` and an offset that does not fit is a
    // FormatError (on the pre-fix text the two `+` overflow obligations fail)
    ensures
        /*@AUX*/ final(reader).bytes() == old(reader).bytes(),
        r is Ok ==> ({
            let b = old(reader).bytes(); let p = old(reader).pos(); let clen = le3(buf8@, 1);
            // the payload was read, it decodes to some d ...
            &&& /*@C08*/ p + clen <= b.len() && final(reader).pos() == p + clen
            &&& /*@C06,C08*/ decoded_at(b, p, buf8@) matches Some(d)
                // ... whose length is the header's uncompressed length (and so at most MAXIMUM_CHUNK_SIZE),
                && d.len() == le3(buf8@, 5) && d.len() <= MAXIMUM_CHUNK_SIZE
                // ... and the chunk list grows by EXACTLY ONE entry (H(d), |d|)
                && final(chunk_hash_and_size)@ == old(chunk_hash_and_size)@.push(chunk_of(d))
            // the offset table grows by exactly last_or_0 + 8 + compressed length, which fits u32 (otherwise the step is rejected, never wrapped)
            &&& /*@C08*/ last_or_0(old(compressed_chunk_boundary_offsets)@) + 8 + clen <= u32::MAX
            &&& /*@C08*/ final(compressed_chunk_boundary_offsets)@
                    == old(compressed_chunk_boundary_offsets)@.push((last_or_0(old(compressed_chunk_boundary_offsets)@) + 8 + clen) as u32)
        }),
        // on rejection/error the offset table is untouched; the chunk list is untouched too except on the overflow rejection, which comes
        // after the chunk was pushed (old list is then a prefix; the caller returns the error, so the lists are dropped)
        r is Err ==> final(compressed_chunk_boundary_offsets)@ == old(compressed_chunk_boundary_offsets)@
            && (final(chunk_hash_and_size)@ == old(chunk_hash_and_size)@
                || (final(chunk_hash_and_size)@.drop_last() == old(chunk_hash_and_size)@
                    && last_or_0(old(compressed_chunk_boundary_offsets)@) + 8 + le3(buf8@, 1) > u32::MAX)),
//@ end

// ---- loop level (pure): if every chunk step satisfies the contract above, the list is the decoded chunks' (H(d_i), |d_i|) in order ----
spec fn chunks_of(ds: Seq<Seq<u8>>) -> Seq<Chunk> { Seq::new(ds.len(), |i: int| chunk_of(ds[i])) }
spec fn chunk_pairs(s: Seq<Chunk>) -> Seq<(MerkleHash, nat)> { Seq::new(s.len(), |i: int| (s[i].hash, s[i].length as nat)) }
// states[i] = `chunk_hash_and_size` after i successful steps; ds[i] = the data decoded in step i
spec fn steps_ok(states: Seq<Seq<Chunk>>, ds: Seq<Seq<u8>>) -> bool {
    &&& states.len() == ds.len() + 1
    &&& states[0].len() == 0
    &&& forall|i: int| 0 <= i < ds.len() ==> #[trigger] states[i + 1] == states[i].push(chunk_of(ds[i]))
}
proof fn lemma_steps_prefix(states: Seq<Seq<Chunk>>, ds: Seq<Seq<u8>>, k: int)
    requires steps_ok(states, ds), 0 <= k <= ds.len(),
    ensures states[k] == chunks_of(ds.subrange(0, k)),
    decreases k,
{
    if k == 0 {
        assert(states[0] =~= chunks_of(ds.subrange(0, 0)));
    } else {
        lemma_steps_prefix(states, ds, k - 1);
        assert(states[k - 1 + 1] == states[k - 1].push(chunk_of(ds[k - 1])));
        assert(chunks_of(ds.subrange(0, k - 1)).push(chunk_of(ds[k - 1])) =~= chunks_of(ds.subrange(0, k)));
    }
}
// C06 for the streaming validator: the list handed to add_file + finalize is exactly [(H(d_i), |d_i|)] of the decoded chunks, in order,
// i.e. the list the uploader hashes (U-MERKLE); chunk lengths fit usize because every |d_i| <= MAXIMUM_CHUNK_SIZE
proof fn lemma_stream_list_is_decoded_list(states: Seq<Seq<Chunk>>, ds: Seq<Seq<u8>>)
    requires steps_ok(states, ds), forall|i: int| 0 <= i < ds.len() ==> (#[trigger] ds[i]).len() <= MAXIMUM_CHUNK_SIZE,
    ensures
        /*@C06*/ states[ds.len() as int] == chunks_of(ds),
        /*@C06*/ chunk_pairs(states[ds.len() as int]) == Seq::new(ds.len(), |i: int| (spec_data_hash(ds[i]), ds[i].len())),
{
    lemma_steps_prefix(states, ds, ds.len() as int);
    assert(ds.subrange(0, ds.len() as int) =~= ds);
    assert(chunk_pairs(chunks_of(ds)) =~= Seq::new(ds.len(), |i: int| (spec_data_hash(ds[i]), ds[i].len())));
}

// ---- merkle tree stub (merkledb), same as in U-XORBVAL: root = uninterpreted function of the (hash, length) list of the one staged file ----
pub uninterp spec fn xorb_root(chunks: Seq<(MerkleHash, nat)>) -> MerkleHash;
pub struct MerkleMemDB { pub ghost _g: int }
pub struct InsertionStaging { pub ghost files: Seq<Seq<(MerkleHash, nat)>> }
pub struct MerkleNode { pub h: MerkleHash }
impl MerkleMemDB {
    #[verifier::external_body]
    fn default() -> (r: MerkleMemDB) { unimplemented!() }
    #[verifier::external_body]
    fn start_insertion_staging(&self) -> (r: InsertionStaging) ensures r.files.len() == 0 { unimplemented!() }
    #[verifier::external_body]
    fn add_file(&mut self, staging: &mut InsertionStaging, chunk: &[Chunk]) -> (r: MerkleHash)
        ensures final(staging).files == old(staging).files.push(chunk_pairs(chunk@)) { unimplemented!() }
    #[verifier::external_body]
    fn finalize(&mut self, staging: InsertionStaging) -> (r: MerkleNode)
        ensures staging.files.len() == 1 ==> r.h == xorb_root(staging.files[0]) { unimplemented!() }
}
impl MerkleNode {
    #[verifier::external_body]
    fn hash(&self) -> (r: &MerkleHash) ensures *r == self.h { unimplemented!() }
}

// the root-hash comparison at the end of the streaming validator
//@ extract cas_object/src/validate_xorb_stream.rs region _validate_cas_object_from_async_read
//@ from `let mut db = MerkleMemDB::default();`
//@ to-before `let cas_object =` #2
//@ sig `fn vx_stream_root_check(chunk_hash_and_size: Vec<Chunk>, hash: &MerkleHash) -> (r: Result<(), CasObjectError>)`
//@ epilogue `Ok(())`
//@ rules R15
//@ contract
    ensures
        /*@C06*/ r is Ok ==> xorb_root(chunk_pairs(chunk_hash_and_size@)) == *hash,
        /*@C08*/ r matches Err(e) ==> e is FormatError,
//@ end

// ==== the footer generated for footer-less / version-0 streams: create_cas_object_from_parts ====================================================
pub open spec fn hash_section_len(nh: nat) -> nat { 7 + 1 + 4 + 32 * nh }
pub open spec fn boundary_section_len(nb: nat, nu: nat) -> nat { 7 + 1 + 4 + 4 * nb + 4 * nu + 4 + 4 + 4 + 16 }
spec fn info_offsets_filled(s: CasObjectInfoV1) -> bool {
    &&& s.boundary_section_offset_from_end == boundary_section_len(s.chunk_boundary_offsets@.len(), s.unpacked_chunk_offsets@.len())
    &&& s.hashes_section_offset_from_end == hash_section_len(s.chunk_hashes@.len()) + boundary_section_len(s.chunk_boundary_offsets@.len(), s.unpacked_chunk_offsets@.len())
}
spec fn len_sum(s: Seq<Chunk>, i: int) -> nat decreases i {
    if i <= 0 { 0 } else { len_sum(s, i - 1) + s[i - 1].length as nat }
}
proof fn lemma_len_sum_mono(s: Seq<Chunk>, i: int, j: int)
    requires i <= j,
    ensures len_sum(s, i) <= len_sum(s, j),
    decreases j - i,
{ if i < j { lemma_len_sum_mono(s, i, j - 1); } }
impl CasObjectInfoV1 {
    // both under contract in U-XORBIDX (Default: empty tables, version-1 constants; fill_in_boundary_offsets: offsets_filled + frame)
    #[verifier::external_body]
    fn default() -> (r: Self)
        ensures r.chunk_hashes@.len() == 0, r.chunk_boundary_offsets@.len() == 0, r.unpacked_chunk_offsets@.len() == 0,
            r.boundaries_version == CAS_OBJECT_FORMAT_BOUNDARIES_VERSION, r.num_chunks == 0,
    { unimplemented!() }
    #[verifier::external_body]
    fn fill_in_boundary_offsets(&mut self)
        requires hash_section_len(old(self).chunk_hashes@.len()) + boundary_section_len(old(self).chunk_boundary_offsets@.len(), old(self).unpacked_chunk_offsets@.len()) <= u32::MAX,
        ensures info_offsets_filled(*final(self)),
            *final(self) == (CasObjectInfoV1 { boundary_section_offset_from_end: final(self).boundary_section_offset_from_end,
                hashes_section_offset_from_end: final(self).hashes_section_offset_from_end, ..*old(self) }),
    { unimplemented!() }
}

// the value produced by create_cas_object_from_parts, whatever its return type (`Result<CasObject>` since f189f65, plain `CasObject` before):
// lets one contract text be checked against both versions of the function (so that reverting the fix is decided, not a type error)
pub trait VxCreated { spec fn created(&self) -> Option<CasObject>; }
impl VxCreated for CasObject { open spec fn created(&self) -> Option<CasObject> { Some(*self) } }
impl VxCreated for Result<CasObject, CasObjectError> { open spec fn created(&self) -> Option<CasObject> { match *self { Ok(c) => Some(c), Err(_) => None } } }

// R7 outline of the combinator chain introduced by f189f65 (body = the original expression after R15; contract assumed)
#[verifier::external_body]
fn vx_checked_prefix(prefixsum: u32, length: usize) -> (r: Result<u32, CasObjectError>)
    ensures match r {
        Ok(v) => v == prefixsum + length && prefixsum + length <= u32::MAX,
        Err(e) => prefixsum + length > u32::MAX && e is FormatError,
    }
{
    u32::try_from(length)
        .ok()
        .and_then(|len| prefixsum.checked_add(len))
        .ok_or_else(|| { CasObjectError::FormatError(vx_anyhow()) })
}

//@ extract cas_object/src/validate_xorb_stream.rs fn create_cas_object_from_parts
//@ ret r
//@ rules R15 R4d R4e
//@ optsubst `Result<CasObject>` => `Result<CasObject, CasObjectError>` :: expansion of the crate-local alias `type Result<T>` (error.rs:35)
//@ optsubst `u32::try_from(chunk.length) .ok() .and_then(|len| unpacked_offset.checked_add(len)) .ok_or_else(|| { CasObjectError::FormatError(vx_anyhow()) })` => `vx_checked_prefix(unpacked_offset, chunk.length)` :: R7 outline: Option/Result combinator chain with closures (Verus accepts it but has no specs for try_from/ok/and_then); assumed = checked u32 addition, overflow -> FormatError (same outline as in U-XORBVAL)
//@ contract
    requires
        // (no bound on the decoded total: since f189f65 the running sum is a checked u32 accumulation that rejects)
        // (D2) u32 arithmetic of num_chunks and of fill_in_boundary_offsets (92 + 40 n <= u32::MAX)
        hash_section_len(chunk_hash_and_size@.len()) + boundary_section_len(compressed_chunk_boundary_offsets@.len(), chunk_hash_and_size@.len()) <= u32::MAX,
    ensures
        r.created() matches Some(cas) ==> ({
            let n = chunk_hash_and_size@.len();
            &&& /*@C07,C08*/ cas.info.cashash == *hash && cas.info_length == 0 && cas.info.num_chunks == n
            &&& /*@C07,C08*/ cas.info.chunk_boundary_offsets@ == compressed_chunk_boundary_offsets@
            &&& /*@C07,C08*/ cas.info.chunk_hashes@.len() == n && forall|i: int| 0 <= i < n ==> cas.info.chunk_hashes@[i] == chunk_hash_and_size@[i].hash
            // the generated unpacked offsets are the EXACT prefix sums of the decoded chunk lengths (no wrap: each fits u32)
            &&& /*@C08*/ cas.info.unpacked_chunk_offsets@.len() == n
                && forall|i: int| 0 <= i < n ==> cas.info.unpacked_chunk_offsets@[i] == len_sum(chunk_hash_and_size@, i + 1)
            &&& /*@C08*/ len_sum(chunk_hash_and_size@, n as int) <= u32::MAX
            &&& /*@C07,C08*/ cas.info.boundaries_version == CAS_OBJECT_FORMAT_BOUNDARIES_VERSION && info_offsets_filled(cas.info)
        }),
        // a total that does not fit is rejected with a format error (never wrapped)
        /*@C08*/ len_sum(chunk_hash_and_size@, chunk_hash_and_size@.len() as int) > u32::MAX ==> r.created() is None,
//@ loop 1
        invariant
            /*@C07,C08*/ vx_c@.len() == vx_j, forall|i: int| 0 <= i < vx_j ==> vx_c@[i] == chunk_hash_and_size@[i].hash,
//@ loop 2
        invariant
            /*@C08*/ unpacked_offset == len_sum(chunk_hash_and_size@, vx_j as int),
            /*@C08*/ vx_c@.len() == vx_j, forall|i: int| 0 <= i < vx_j ==> vx_c@[i] == len_sum(chunk_hash_and_size@, i + 1),
//@ end

// ==== the public wrapper: format errors of the streaming validator become rejections ==========================================================
//@ extract cas_object/src/error.rs trait Validate
//@ subst `Result<Option<T>>` => `Result<Option<T>, CasObjectError>` :: expansion of the crate-local alias `type Result<T>` (error.rs:35)
//@ end
impl<T> Validate<T> for Result<T, CasObjectError> {
//@ extract cas_object/src/error.rs in `impl<T> Validate<T> for Result<T>` fn ok_for_format_error
//@ ret r
//@ subst `Result<Option<T>>` => `Result<Option<T>, CasObjectError>` :: expansion of the crate-local alias `type Result<T>` (error.rs:35)
//@ contract
        ensures
            match self {
                Ok(v) => r == Ok::<Option<T>, CasObjectError>(Some(v)),
                Err(CasObjectError::FormatError(_)) => r == Ok::<Option<T>, CasObjectError>(None),
                Err(e) => r == Err::<Option<T>, CasObjectError>(e),
            },
//@ end
}
// the validator body: its chunk step, footer comparison (U-XORBVAL) and root comparison are the lifted regions; as a whole it is a stub here,
// its result relation is left uninterpreted
pub uninterp spec fn stream_validation_result(bytes: Seq<u8>, pos: nat, hash: MerkleHash, r: Result<(CasObject, Option<usize>), CasObjectError>) -> bool;
#[verifier::external_body]
fn _validate_cas_object_from_async_read<R: AsyncRead + Unpin>(reader: &mut R, hash: &MerkleHash) -> (r: Result<(CasObject, Option<usize>), CasObjectError>)
    ensures final(reader).bytes() == old(reader).bytes(), stream_validation_result(old(reader).bytes(), old(reader).pos(), *hash, r),
{ unimplemented!() }

//@ extract cas_object/src/validate_xorb_stream.rs fn validate_cas_object_from_async_read
//@ ret r
//@ subst `Result<Option<(CasObject, Option<usize>)>>` => `Result<Option<(CasObject, Option<usize>)>, CasObjectError>` :: expansion of the crate-local alias `type Result<T>`
//@ contract
    ensures
        /*@AUX*/ final(reader).bytes() == old(reader).bytes(),
        // exactly the inner result with format errors turned into `Ok(None)`: accepted values and non-format errors pass through unchanged
        /*@C08*/ exists|inner: Result<(CasObject, Option<usize>), CasObjectError>| stream_validation_result(old(reader).bytes(), old(reader).pos(), *hash, inner)
            && match inner {
                Ok(v) => r == Ok::<Option<(CasObject, Option<usize>)>, CasObjectError>(Some(v)),
                Err(CasObjectError::FormatError(_)) => r == Ok::<Option<(CasObject, Option<usize>)>, CasObjectError>(None),
                Err(e) => r == Err::<Option<(CasObject, Option<usize>)>, CasObjectError>(e),
            },
//@ end

} // verus!
fn main() {}
