//@ unit U-SHWRITE
//@ props C09 C05 C11
//@ verus-args --rlimit 100
//@ rules-from shwrite
//@ gsubst `<W: Write>` => `` :: R11 writer stub instead of the generic parameter
//@ gsubst `writer: &mut W` => `writer: &mut VxW` :: R11 append-only writer stub with ghost bytes
//@ gsubst `Result<usize, std::io::Error>` => `Result<usize>` :: R11 one error type for all stubs (no From conversion), as in U-SHSCAN
#![feature(allocator_api)]
#![allow(non_snake_case, unused)]
use vstd::prelude::*;
use vstd::std_specs::cmp::*;
use vstd::std_specs::btree::*;
use vstd::std_specs::iter::IteratorSpec;
use std::cmp::Ordering;
use std::mem::size_of;
use std::collections::{BTreeMap, HashMap};
use std::sync::Arc;
verus! {
global size_of usize == 8;
broadcast use vstd::std_specs::btree::group_btree_axioms;

//@ include prelude/setops_merklehash.rs
type HMACKey = MerkleHash;

// U-ISEARCH / U-SHLOOKUP vocabulary (reader model, table view, the predicates of the search contract), in its own module
// because prelude/shscan_io.rs also defines a `SeekFrom`
pub mod isx {
use vstd::prelude::*;
use vstd::set_lib::set_int_range;
//@ include prelude/isearch_specs.rs
}

//@ extract mdb_shard/src/file_structs.rs struct FileDataSequenceHeader
//@ end
//@ extract mdb_shard/src/file_structs.rs struct FileDataSequenceEntry
//@ end
//@ extract mdb_shard/src/file_structs.rs struct FileVerificationEntry
//@ end
//@ extract mdb_shard/src/file_structs.rs struct FileMetadataExt
//@ end
//@ extract mdb_shard/src/file_structs.rs struct MDBFileInfo
//@ end
//@ extract mdb_shard/src/cas_structs.rs struct CASChunkSequenceHeader
//@ end
//@ extract mdb_shard/src/cas_structs.rs struct CASChunkSequenceEntry
//@ end
//@ extract mdb_shard/src/cas_structs.rs struct MDBCASInfo
//@ end
//@ extract mdb_shard/src/shard_format.rs struct MDBShardFileHeader
//@ end
//@ extract mdb_shard/src/shard_format.rs struct MDBShardFileFooter
//@ end
//@ extract mdb_shard/src/shard_format.rs struct MDBShardInfo
//@ end
//@ extract mdb_shard/src/file_structs.rs const MDB_FILE_FLAG_VERIFICATION_MASK
//@ end
//@ extract mdb_shard/src/file_structs.rs const MDB_FILE_FLAG_METADATA_EXT_MASK
//@ end
// shard_format.rs: `size_of::<[u64; 4]>() + 4 * size_of::<u32>()`, const_assert'ed there to equal the size of each 48-byte record
// (`size_of` in a const initialiser is not accepted by Verus)
const MDB_FILE_INFO_ENTRY_SIZE: usize = 48;
global size_of FileDataSequenceHeader == 48;
global size_of FileDataSequenceEntry == 48;
global size_of FileVerificationEntry == 48;
global size_of FileMetadataExt == 48;
global size_of CASChunkSequenceHeader == 48;
global size_of CASChunkSequenceEntry == 48;

//@ include prelude/shscan_io.rs
//@ include prelude/shwrite_sections.rs
//@ include prelude/shwrite_io.rs

// the items a slice iterator yields are references to the elements, in order
spec fn refs_of<T>(r: Seq<&T>, s: Seq<T>) -> bool {
    r.len() == s.len() && forall|j: int| 0 <= j < r.len() ==> *(#[trigger] r[j]) == s[j]
}
#[verifier::external_body] fn vx_abort() ensures false { panic!() }

// ---- in-memory records that serialize to exactly themselves -------------------------------------------------------------
// (MDBFileInfo::serialize writes `segments.len()` entries, the verification entries iff the FLAG is set and the metadata-ext
//  iff the OPTION is Some; the readers go by the header.  The two views agree exactly for well-formed records.)
spec fn file_info_wf(f: MDBFileInfo) -> bool {
    let n = f.metadata.num_entries as int;
    &&& f.segments@.len() == n
    &&& f.verification@.len() == (if has_verif(f.metadata) { n } else { 0 })
    &&& (f.metadata_ext is Some) == has_ext(f.metadata)
}

impl FileDataSequenceHeader {
//@ extract mdb_shard/src/file_structs.rs in `impl FileDataSequenceHeader` fn contains_metadata_ext
//@ ret r
//@ contract
    ensures r == has_ext(*self),
//@ end
//@ extract mdb_shard/src/file_structs.rs in `impl FileDataSequenceHeader` fn contains_verification
//@ ret r
//@ contract
    ensures r == has_verif(*self),
//@ end
}

proof fn lemma_file_block_keeps(w0: VxW, w1: VxW, p: int, f: MDBFileInfo)
    requires keeps(w0, w1), file_block_ok(w0.out@, p, f), 0 <= p, p + 48 + 48 * following(f.metadata) <= w0.len(), file_info_wf(f),
    ensures file_block_ok(w1.out@, p, f),
{
    let n = f.metadata.num_entries as int;
    let d0 = w0.out@; let d1 = w1.out@;
    assert(decodes(d0, p, Tok::FileHdr(f.metadata)));
    assert forall|j: int| 0 <= j < n implies #[trigger] f.segments@[j] == file_entry_at(d1, p + 48 + 48 * j) by {
        assert(decodes(d0, p + 48 + 48 * j, Tok::FileEntry(f.segments@[j])));
    }
    assert forall|j: int| 0 <= j < f.verification@.len() implies #[trigger] f.verification@[j] == verif_at(d1, p + 48 + 48 * n + 48 * j) by {
        assert(decodes(d0, p + 48 + 48 * n + 48 * j, Tok::Verif(f.verification@[j])));
    }
    if has_ext(f.metadata) {
        assert(decodes(d0, p + 48 + 48 * (following(f.metadata) - 1), Tok::Ext(f.metadata_ext->Some_0)));
    }
}

impl MDBFileInfo {
//@ extract mdb_shard/src/file_structs.rs in `impl MDBFileInfo` fn contains_verification
//@ ret r
//@ contract
    ensures r == has_verif(self.metadata),
//@ end

//@ extract mdb_shard/src/file_structs.rs in `impl MDBFileInfo` fn serialize
//@ ret r
//@ rules R4n
//@ contract
        requires file_info_wf(*self),
        ensures
            r matches Ok(n) ==> n == 48 + 48 * following(self.metadata)
                && final(writer).len() == old(writer).len() + n
                && keeps(*old(writer), *final(writer))
                // the block written at the old end of the output decodes (U-SHSCAN's `MDBFileInfo::deserialize` contract) to *self
                && file_block_ok(final(writer).out@, old(writer).len(), *self),
//@ after `let mut bytes_written = 0;`
        let ghost w0 = *writer; let ghost p = writer.len(); let ghost nn = self.metadata.num_entries as int;
//@ loop 1
            invariant
                file_info_wf(*self), nn == self.metadata.num_entries, p == w0.len(), w0 == *old(writer),
                refs_of(vx_it1.seq(), self.segments@),
                /*@C09*/ bytes_written == 48 + 48 * vx_it1.index@, writer.len() == p + bytes_written, keeps(w0, *writer),
                /*@C09*/ decodes(writer.out@, p, Tok::FileHdr(self.metadata)),
                /*@C09*/ forall|j: int| 0 <= j < vx_it1.index@ ==> decodes(writer.out@, p + 48 + 48 * j, Tok::FileEntry(#[trigger] self.segments@[j])),
//@ loop 2
                invariant
                    file_info_wf(*self), nn == self.metadata.num_entries, p == w0.len(), w0 == *old(writer), has_verif(self.metadata),
                    refs_of(vx_it2.seq(), self.verification@),
                    /*@C09*/ bytes_written == 48 + 48 * nn + 48 * vx_it2.index@, writer.len() == p + bytes_written, keeps(w0, *writer),
                    /*@C09*/ decodes(writer.out@, p, Tok::FileHdr(self.metadata)),
                    /*@C09*/ forall|j: int| 0 <= j < nn ==> decodes(writer.out@, p + 48 + 48 * j, Tok::FileEntry(#[trigger] self.segments@[j])),
                    /*@C09*/ forall|j: int| 0 <= j < vx_it2.index@ ==> decodes(writer.out@, p + 48 + 48 * nn + 48 * j, Tok::Verif(#[trigger] self.verification@[j])),
//@ end
}

// mdb_shard::utils::truncate_hash: `hash.deref()[0]`
spec fn spec_truncate(h: MerkleHash) -> u64 { h.0[0] }
#[verifier::external_body]
fn truncate_hash(hash: &MerkleHash) -> (r: u64) ensures r == spec_truncate(*hash) { unimplemented!() }

// ASSUMED (trusted axiom): `Eq`/`PartialOrd`/`Ord` of DataHash satisfy vstd's ordering laws, i.e. std's BTreeMap behaves as an
// ordered map for this key type.  (`Ord::cmp` is `self.0.cmp(&other.0)`, lexicographic on four u64 words: a total order.)
#[verifier::external_body]
proof fn axiom_merklehash_total_order() ensures vstd::laws_cmp::obeys_cmp::<MerkleHash>() {}

// ---- a BTreeMap's entries in iteration order -----------------------------------------------------------------------------
// what vstd's specification of `BTreeMap::iter` gives for the sequence of items the iterator yields
spec fn iter_entries<V>(r: Seq<(&MerkleHash, &V)>, m: Map<MerkleHash, V>) -> bool {
    &&& r.len() == m.len()
    &&& increasing_seq(r.map_values(|kv: (&MerkleHash, &V)| *kv.0))
    &&& forall|i: int| 0 <= i < r.len() ==> m.contains_key(*(#[trigger] r[i]).0) && m[*r[i].0] == *r[i].1
    &&& forall|k: MerkleHash| m.contains_key(k) ==> exists|i: int| 0 <= i < r.len() && *(#[trigger] r[i]).0 == k
}
spec fn own<V>(r: Seq<(&MerkleHash, &V)>) -> Seq<(MerkleHash, V)> { Seq::new(r.len(), |i: int| (*r[i].0, *r[i].1)) }
// `s` lists the entries of `m` in strictly increasing hash order (lexicographic on the four words = `Ord for DataHash`)
spec fn is_entries<V>(s: Seq<(MerkleHash, V)>, m: Map<MerkleHash, V>) -> bool {
    &&& s.len() == m.len()
    &&& forall|i: int, j: int| 0 <= i < j < s.len() ==> hash_lt((#[trigger] s[i]).0, (#[trigger] s[j]).0)
    &&& forall|i: int| 0 <= i < s.len() ==> m.contains_key((#[trigger] s[i]).0) && m[s[i].0] == s[i].1
    &&& forall|k: MerkleHash| m.contains_key(k) ==> exists|i: int| 0 <= i < s.len() && (#[trigger] s[i]).0 == k
}
proof fn lemma_entries_from_iter<V>(r: Seq<(&MerkleHash, &V)>, m: Map<MerkleHash, V>)
    requires iter_entries(r, m),
    ensures is_entries(own(r), m),
{
    let s = own(r);
    let ks = r.map_values(|kv: (&MerkleHash, &V)| *kv.0);
    axiom_merklehash_total_order();
    axiom_increasing_seq_meaning::<MerkleHash>(ks);
    assert forall|i: int, j: int| 0 <= i < j < s.len() implies hash_lt((#[trigger] s[i]).0, (#[trigger] s[j]).0) by {
        assert(ks[i] == s[i].0 && ks[j] == s[j].0);
        assert(vstd::std_specs::cmp::OrdSpec::cmp_spec(&ks[i], &ks[j]) == Ordering::Less);
    }
    assert forall|i: int| 0 <= i < s.len() implies m.contains_key((#[trigger] s[i]).0) && m[s[i].0] == s[i].1 by {
        assert(m.contains_key(*r[i].0));
    }
    assert forall|k: MerkleHash| m.contains_key(k) implies exists|i: int| 0 <= i < s.len() && (#[trigger] s[i]).0 == k by {
        let i = choose|i: int| 0 <= i < r.len() && *(#[trigger] r[i]).0 == k;
        assert(s[i].0 == k);
    }
}
// the truncated hash is monotone in the hash order: word 0 is the most significant word
proof fn lemma_truncate_monotone(a: MerkleHash, b: MerkleHash)
    requires hash_lt(a, b),
    ensures spec_truncate(a) <= spec_truncate(b),
{}

// ---- file section ------------------------------------------------------------------------------------------------------------
spec fn file_hdrs(s: Seq<(MerkleHash, MDBFileInfo)>) -> Seq<FileDataSequenceHeader> { Seq::new(s.len(), |k: int| s[k].1.metadata) }
proof fn lemma_file_pos_mono(off: int, sec: Seq<FileDataSequenceHeader>, a: int, b: int)
    requires 0 <= a <= b <= sec.len(),
    ensures file_pos(off, sec, a) <= file_pos(off, sec, b),
    decreases b - a,
{
    if a < b { lemma_file_pos_mono(off, sec, a, b - 1); lemma_file_pos_step(off, sec, b - 1); }
}
// file_pos only looks at the headers before k
proof fn lemma_file_pos_prefix(off: int, s1: Seq<FileDataSequenceHeader>, s2: Seq<FileDataSequenceHeader>, k: int)
    requires 0 <= k <= s1.len(), k <= s2.len(), forall|j: int| 0 <= j < k ==> s1[j] == s2[j],
    ensures file_pos(off, s1, k) == file_pos(off, s2, k),
    decreases k,
{
    if k > 0 { lemma_file_pos_prefix(off, s1, s2, k - 1); }
}
// requirement on the in-memory file records (an invariant of MDBInMemoryShard, see `ims_files_ok`)
spec fn files_ok(m: Map<MerkleHash, MDBFileInfo>) -> bool {
    forall|k: MerkleHash| #[trigger] m.contains_key(k) ==> file_info_wf(m[k]) && m[k].metadata.file_hash == k && k != bookend_hash()
}
proof fn lemma_file_pos_shift(off: int, sec: Seq<FileDataSequenceHeader>, k: int)
    requires 0 <= k <= sec.len(),
    ensures file_pos(off, sec, k) == off + file_pos(0, sec, k),
    decreases k,
{
    if k > 0 { lemma_file_pos_shift(off, sec, k - 1); }
}
// state of convert_and_save_file_info after i entries of the order s (index = ordinal of the next record)
spec fn conv_file_inv(s: Seq<(MerkleHash, MDBFileInfo)>, w0: VxW, w: VxW, keys: Seq<u64>, vals: Seq<u32>, index: int, i: int) -> bool {
    let sec = file_hdrs(s); let p0 = w0.len();
    &&& 0 <= i <= s.len()
    &&& keeps(w0, w) && w.len() == p0 + 48 * index && p0 + 48 * index == file_pos(p0, sec, i)
    &&& keys.len() == i && vals.len() == i
    &&& forall|k: int| 0 <= k < i ==> #[trigger] keys[k] == spec_truncate(s[k].0)
    &&& forall|k: int| 0 <= k < i ==> p0 + 48 * (#[trigger] vals[k]) == file_pos(p0, sec, k)
    &&& forall|k: int| 0 <= k < i ==> file_block_ok(w.out@, #[trigger] file_pos(p0, sec, k), s[k].1)
}
// what convert_and_save_file_info produced, for the entry order s
spec fn conv_file_post(s: Seq<(MerkleHash, MDBFileInfo)>, w0: VxW, w1: VxW, keys: Seq<u64>, vals: Seq<u32>, n: int) -> bool {
    let sec = file_hdrs(s); let p0 = w0.len(); let cnt = s.len() as int;
    &&& keeps(w0, w1) && w1.len() == p0 + n && n == file_pos(p0, sec, cnt) - p0 + 48
    &&& keys.len() == cnt && vals.len() == cnt
    // lookup table: (truncated hash, ordinal of the record's header among the 48-byte records of the section), key order
    &&& forall|k: int| 0 <= k < cnt ==> #[trigger] keys[k] == spec_truncate(s[k].0)
    &&& forall|k: int| 0 <= k < cnt ==> p0 + 48 * (#[trigger] vals[k]) == file_pos(p0, sec, k)
    &&& forall|i: int, j: int| 0 <= i <= j < cnt ==> #[trigger] keys[i] <= #[trigger] keys[j]
    // the bytes are the section (U-SHSCAN's model) of exactly these records, each block decoding to the in-memory record
    &&& file_section(w1.out@, p0, sec)
    &&& forall|k: int| 0 <= k < cnt ==> file_block_ok(w1.out@, #[trigger] file_pos(p0, sec, k), s[k].1)
}
// the loop is done and the bookend has been written: the section is complete
proof fn lemma_conv_file_done(s: Seq<(MerkleHash, MDBFileInfo)>, m: Map<MerkleHash, MDBFileInfo>, w0: VxW, wb: VxW, w1: VxW,
        keys: Seq<u64>, vals: Seq<u32>, index: int)
    requires
        /*@C09*/ is_entries(s, m), files_ok(m), conv_file_inv(s, w0, wb, keys, vals, index, s.len() as int),
        /*@C09*/ keeps(wb, w1), w1.len() == wb.len() + 48, file_hdr_at(w1.out@, wb.len()).file_hash == bookend_hash(),
    ensures conv_file_post(s, w0, w1, keys, vals, 48 * index + 48),
{
    let sec = file_hdrs(s); let p0 = w0.len(); let cnt = s.len() as int;
    assert forall|k: int| 0 <= k < cnt implies file_block_ok(w1.out@, #[trigger] file_pos(p0, sec, k), s[k].1)
        && file_hdr_at(w1.out@, file_pos(p0, sec, k)) == sec[k] && sec[k].file_hash != bookend_hash() by {
        lemma_file_pos_step(p0, sec, k);
        lemma_file_pos_mono(p0, sec, k + 1, cnt);
        lemma_file_pos_mono(p0, sec, 0, k);
        assert(m.contains_key(s[k].0));
        lemma_file_block_keeps(wb, w1, file_pos(p0, sec, k), s[k].1);
    }
    assert forall|i: int, j: int| 0 <= i <= j < cnt implies #[trigger] keys[i] <= #[trigger] keys[j] by {
        if i < j { lemma_truncate_monotone(s[i].0, s[j].0); }
    }
}

impl MDBShardInfo {
//@ extract mdb_shard/src/shard_format.rs in `impl MDBShardInfo` fn convert_and_save_file_info
//@ ret r
//@ rules R4i R4n
//@ contract
        requires
            files_ok(file_content@),
            // the u32 ordinal and the byte counter do not overflow: fewer than 2^32 48-byte records in the section
            forall|s: Seq<(MerkleHash, MDBFileInfo)>| #[trigger] is_entries(s, file_content@) ==> file_pos(0, file_hdrs(s), s.len() as int) + 48 <= 48 * 0xFFFF_FFFF,
        ensures
            /*@C09*/ r matches Ok(((keys, vals), n)) ==> exists|s: Seq<(MerkleHash, MDBFileInfo)>| #[trigger] is_entries(s, file_content@)
                && conv_file_post(s, *old(writer), *final(writer), keys@, vals@, n as int),
//@ after `let mut bytes_written = 0;`
        let ghost w0 = *writer; let ghost p0 = writer.len(); let ghost m = file_content@;
        let ghost mut wb = *writer;
        proof {
            axiom_merklehash_total_order();
            assert forall|r: Seq<(&MerkleHash, &MDBFileInfo)>| #[trigger] iter_entries(r, m) implies is_entries(own(r), m) by { lemma_entries_from_iter(r, m); }
        }
//@ loop 1
            invariant
                w0 == *old(writer), p0 == w0.len(), m == file_content@, files_ok(m),
                forall|s: Seq<(MerkleHash, MDBFileInfo)>| #[trigger] is_entries(s, m) ==> file_pos(0, file_hdrs(s), s.len() as int) + 48 <= 48 * 0xFFFF_FFFF,
                forall|r: Seq<(&MerkleHash, &MDBFileInfo)>| #[trigger] iter_entries(r, m) ==> is_entries(own(r), m),
                iter_entries(vx_it1.seq(), m),
                /*@C09*/ bytes_written == 48 * index,
                /*@C09*/ conv_file_inv(own(vx_it1.seq()), w0, *writer, file_lookup_keys@, file_lookup_vals@, index as int, vx_it1.index@ as int),
            ensures
                /*@C09*/ bytes_written == 48 * index,
                /*@C09*/ exists|s: Seq<(MerkleHash, MDBFileInfo)>| #[trigger] is_entries(s, m)
                    && conv_file_inv(s, w0, *writer, file_lookup_keys@, file_lookup_vals@, index as int, s.len() as int),
//@ before `let bytes = content.serialize(writer)?;`
            proof {
                wb = *writer;
                let s = own(vx_it1.seq()); let sec = file_hdrs(s); let i = vx_it1.index@ as int;
                assert(m.contains_key(*vx_it1.seq()[i].0));
                lemma_file_pos_step(p0, sec, i);
                lemma_file_pos_mono(p0, sec, i + 1, s.len() as int);
                lemma_file_pos_shift(p0, sec, s.len() as int);
            }
//@ after `let bytes = content.serialize(writer)?;`
            proof {
                let s = own(vx_it1.seq()); let sec = file_hdrs(s); let i = vx_it1.index@ as int;
                assert forall|k: int| 0 <= k < i implies file_block_ok(writer.out@, #[trigger] file_pos(p0, sec, k), s[k].1) by {
                    lemma_file_pos_step(p0, sec, k);
                    lemma_file_pos_mono(p0, sec, k + 1, i);
                    lemma_file_pos_mono(p0, sec, 0, k);
                    assert(m.contains_key(*vx_it1.seq()[k].0));
                    lemma_file_block_keeps(wb, *writer, file_pos(p0, sec, k), s[k].1);
                }
            }
//@ before `bytes_written += FileDataSequenceHeader::bookend()`
        let ghost ents = choose|s: Seq<(MerkleHash, MDBFileInfo)>| #[trigger] is_entries(s, m)
                    && conv_file_inv(s, w0, *writer, file_lookup_keys@, file_lookup_vals@, index as int, s.len() as int);
        proof {
            wb = *writer;
            lemma_file_pos_shift(p0, file_hdrs(ents), ents.len() as int);
        }
//@ before `Ok(((file_lookup_keys, file_lookup_vals), bytes_written))`
        proof {
            lemma_conv_file_done(ents, m, w0, wb, *writer, file_lookup_keys@, file_lookup_vals@, index as int);
        }
//@ end
}

// ---- cas section + chunk lookup -----------------------------------------------------------------------------------------------
spec fn cas_info_wf(b: MDBCASInfo) -> bool { b.chunks@.len() == b.metadata.num_entries }
spec fn cas_ok(m: Map<MerkleHash, Arc<MDBCASInfo>>) -> bool {
    forall|k: MerkleHash| #[trigger] m.contains_key(k) ==> cas_info_wf(*m[k]) && m[k].metadata.cas_hash == k && k != bookend_hash()
}
spec fn cas_hdrs(s: Seq<(MerkleHash, Arc<MDBCASInfo>)>) -> Seq<CASChunkSequenceHeader> { Seq::new(s.len(), |k: int| s[k].1.metadata) }
proof fn lemma_cas_pos_mono(off: int, sec: Seq<CASChunkSequenceHeader>, a: int, b: int)
    requires 0 <= a <= b <= sec.len(),
    ensures cas_pos(off, sec, a) <= cas_pos(off, sec, b),
    decreases b - a,
{
    if a < b { lemma_cas_pos_mono(off, sec, a, b - 1); lemma_cas_pos_step(off, sec, b - 1); }
}
proof fn lemma_cas_pos_shift(off: int, sec: Seq<CASChunkSequenceHeader>, k: int)
    requires 0 <= k <= sec.len(),
    ensures cas_pos(off, sec, k) == off + cas_pos(0, sec, k),
    decreases k,
{
    if k > 0 { lemma_cas_pos_shift(off, sec, k - 1); }
}
proof fn lemma_cas_block_keeps(w0: VxW, w1: VxW, p: int, b: MDBCASInfo)
    requires keeps(w0, w1), cas_block_ok(w0.out@, p, b), 0 <= p, p + 48 + 48 * b.metadata.num_entries <= w0.len(),
    ensures cas_block_ok(w1.out@, p, b),
{
    let d0 = w0.out@; let d1 = w1.out@;
    assert(decodes(d0, p, Tok::CasHdr(b.metadata)));
    assert forall|j: int| 0 <= j < b.chunks@.len() implies #[trigger] b.chunks@[j] == cas_entry_at(d1, p + 48 + 48 * j) by {
        assert(decodes(d0, p + 48 + 48 * j, Tok::CasEntry(b.chunks@[j])));
    }
}
// number of chunks in the first k blocks
spec fn chunk_total(s: Seq<(MerkleHash, Arc<MDBCASInfo>)>, k: int) -> int decreases k {
    if k <= 0 { 0 } else { chunk_total(s, k - 1) + s[k - 1].1.chunks@.len() }
}
// the chunk-lookup pair (key, val) names chunk j of block k: truncated chunk hash, (ordinal of the block header, chunk index)
spec fn names_chunk(s: Seq<(MerkleHash, Arc<MDBCASInfo>)>, p0: int, key: u64, val: (u32, u32), k: int, j: int) -> bool {
    &&& 0 <= k < s.len() && 0 <= j < s[k].1.chunks@.len()
    &&& key == spec_truncate(s[k].1.chunks@[j].chunk_hash)
    &&& p0 + 48 * val.0 == cas_pos(p0, cas_hdrs(s), k) && val.1 == j
}
spec fn pair_named(s: Seq<(MerkleHash, Arc<MDBCASInfo>)>, p0: int, key: u64, val: (u32, u32), nb: int, nj: int) -> bool {
    exists|k: int, j: int| #[trigger] names_chunk(s, p0, key, val, k, j) && (k < nb || (k == nb && j < nj))
}
spec fn chunk_listed(s: Seq<(MerkleHash, Arc<MDBCASInfo>)>, p0: int, keys: Seq<u64>, vals: Seq<(u32, u32)>, k: int, j: int) -> bool {
    exists|t: int| 0 <= t < keys.len() && #[trigger] names_chunk(s, p0, keys[t], vals[t], k, j)
}
// the pairs (keys[t], vals[t]) are exactly one per chunk of the first nb blocks plus the first nj chunks of block nb
spec fn chunk_pairs(s: Seq<(MerkleHash, Arc<MDBCASInfo>)>, p0: int, keys: Seq<u64>, vals: Seq<(u32, u32)>, nb: int, nj: int) -> bool {
    &&& keys.len() == vals.len() && keys.len() == chunk_total(s, nb) + nj
    &&& forall|t: int| 0 <= t < keys.len() ==> pair_named(s, p0, #[trigger] keys[t], vals[t], nb, nj)
    &&& forall|k: int, j: int| 0 <= k < s.len() && 0 <= j < s[k].1.chunks@.len() && (k < nb || (k == nb && j < nj))
            ==> #[trigger] chunk_listed(s, p0, keys, vals, k, j)
}
spec fn pairs_of(keys: Seq<u64>, vals: Seq<(u32, u32)>) -> Seq<(u64, (u32, u32))> { Seq::new(keys.len(), |t: int| (keys[t], vals[t])) }
spec fn deref_pairs(c: Seq<(&u64, &(u32, u32))>) -> Seq<(u64, (u32, u32))> { Seq::new(c.len(), |t: int| (*c[t].0, *c[t].1)) }

spec fn keys_collected(r: Seq<u64>, c: Seq<(&u64, &(u32, u32))>) -> bool { r.len() == c.len() && forall|t: int| 0 <= t < r.len() ==> #[trigger] r[t] == *c[t].0 }
spec fn vals_collected(r: Seq<(u32, u32)>, c: Seq<(&u64, &(u32, u32))>) -> bool { r.len() == c.len() && forall|t: int| 0 <= t < r.len() ==> #[trigger] r[t] == *c[t].1 }
// R7 outlines of the iterator chains around the sort of the chunk lookup table (each body is the original expression)
#[verifier::external_body]
fn vx_zip_collect<'a>(chunk_lookup_keys: &'a Vec<u64>, chunk_lookup_vals: &'a Vec<(u32, u32)>) -> (r: Vec<(&'a u64, &'a (u32, u32))>)
    requires chunk_lookup_keys@.len() == chunk_lookup_vals@.len(),
    ensures deref_pairs(r@) == pairs_of(chunk_lookup_keys@, chunk_lookup_vals@),
{ chunk_lookup_keys.iter().zip(chunk_lookup_vals.iter()).collect::<Vec<_>>() }
// `sort_unstable_by_key(|&(k, _)| k)`: contract = a permutation of the input, ordered by key (nothing else is assumed)
#[verifier::external_body]
fn vx_sort_by_key(chunk_lookup_combined: &mut Vec<(&u64, &(u32, u32))>)
    ensures
        deref_pairs(final(chunk_lookup_combined)@).to_multiset() == deref_pairs(old(chunk_lookup_combined)@).to_multiset(),
        forall|a: int, b: int| 0 <= a <= b < final(chunk_lookup_combined)@.len() ==> *(#[trigger] final(chunk_lookup_combined)@[a]).0 <= *(#[trigger] final(chunk_lookup_combined)@[b]).0,
{ chunk_lookup_combined.sort_unstable_by_key(|&(k, _)| k); }
#[verifier::external_body]
fn vx_collect_keys(chunk_lookup_combined: &Vec<(&u64, &(u32, u32))>) -> (r: Vec<u64>)
    ensures keys_collected(r@, chunk_lookup_combined@),
{ chunk_lookup_combined.iter().map(|&(k, _)| *k).collect() }
#[verifier::external_body]
fn vx_collect_vals(chunk_lookup_combined: &Vec<(&u64, &(u32, u32))>) -> (r: Vec<(u32, u32)>)
    ensures vals_collected(r@, chunk_lookup_combined@),
{ chunk_lookup_combined.iter().map(|&(_, v)| *v).collect() }

// a sorted permutation of the unsorted table still names exactly the chunks
proof fn lemma_sorted_pairs(s: Seq<(MerkleHash, Arc<MDBCASInfo>)>, p0: int, fk: Seq<u64>, fv: Seq<(u32, u32)>, sk: Seq<u64>, sv: Seq<(u32, u32)>)
    requires
        chunk_pairs(s, p0, fk, fv, s.len() as int, 0), sk.len() == sv.len(),
        pairs_of(sk, sv).to_multiset() == pairs_of(fk, fv).to_multiset(),
    ensures chunk_pairs(s, p0, sk, sv, s.len() as int, 0),
{
    let f = pairs_of(fk, fv); let g = pairs_of(sk, sv); let nb = s.len() as int;
    f.to_multiset_ensures(); g.to_multiset_ensures();
    assert forall|t: int| 0 <= t < sk.len() implies pair_named(s, p0, #[trigger] sk[t], sv[t], nb, 0) by {
        assert(g[t] == (sk[t], sv[t]));
        assert(g.contains(g[t]));
        assert(g.to_multiset().count(g[t]) > 0);
        assert(f.to_multiset().count(g[t]) > 0);
        assert(f.contains(g[t]));
        let u = choose|u: int| 0 <= u < f.len() && f[u] == g[t];
        assert(f[u] == (fk[u], fv[u]));
    }
    assert forall|k: int, j: int| 0 <= k < s.len() && 0 <= j < s[k].1.chunks@.len() && (k < nb || (k == nb && j < 0))
            implies #[trigger] chunk_listed(s, p0, sk, sv, k, j) by {
        assert(chunk_listed(s, p0, fk, fv, k, j));
        let u = choose|u: int| 0 <= u < fk.len() && #[trigger] names_chunk(s, p0, fk[u], fv[u], k, j);
        assert(f[u] == (fk[u], fv[u]));
        assert(f.contains(f[u]));
        assert(f.to_multiset().count(f[u]) > 0);
        assert(g.to_multiset().count(f[u]) > 0);
        assert(g.contains(f[u]));
        let t = choose|t: int| 0 <= t < g.len() && g[t] == f[u];
        assert(g[t] == (sk[t], sv[t]));
    }
}

proof fn lemma_chunk_pairs_push(s: Seq<(MerkleHash, Arc<MDBCASInfo>)>, p0: int, fk: Seq<u64>, fv: Seq<(u32, u32)>, nb: int, nj: int, key: u64, val: (u32, u32))
    requires /*@C09,C05*/ chunk_pairs(s, p0, fk, fv, nb, nj), 0 <= nb < s.len(), 0 <= nj < s[nb].1.chunks@.len(), names_chunk(s, p0, key, val, nb, nj),
    ensures chunk_pairs(s, p0, fk.push(key), fv.push(val), nb, nj + 1),
{
    let k2 = fk.push(key); let v2 = fv.push(val);
    assert forall|t: int| 0 <= t < k2.len() implies pair_named(s, p0, #[trigger] k2[t], v2[t], nb, nj + 1) by {
        if t < fk.len() {
            assert(pair_named(s, p0, fk[t], fv[t], nb, nj));
            let (k, j) = choose|k: int, j: int| #[trigger] names_chunk(s, p0, fk[t], fv[t], k, j) && (k < nb || (k == nb && j < nj));
            assert(names_chunk(s, p0, k2[t], v2[t], k, j));
        } else {
            assert(names_chunk(s, p0, k2[t], v2[t], nb, nj));
        }
    }
    assert forall|k: int, j: int| 0 <= k < s.len() && 0 <= j < s[k].1.chunks@.len() && (k < nb || (k == nb && j < nj + 1))
            implies #[trigger] chunk_listed(s, p0, k2, v2, k, j) by {
        if k == nb && j == nj {
            assert(names_chunk(s, p0, k2[fk.len() as int], v2[fk.len() as int], k, j));
        } else {
            assert(chunk_listed(s, p0, fk, fv, k, j));
            let t = choose|t: int| 0 <= t < fk.len() && #[trigger] names_chunk(s, p0, fk[t], fv[t], k, j);
            assert(names_chunk(s, p0, k2[t], v2[t], k, j));
        }
    }
}
proof fn lemma_chunk_pairs_next(s: Seq<(MerkleHash, Arc<MDBCASInfo>)>, p0: int, fk: Seq<u64>, fv: Seq<(u32, u32)>, nb: int)
    requires 0 <= nb < s.len(), chunk_pairs(s, p0, fk, fv, nb, s[nb].1.chunks@.len() as int),
    ensures chunk_pairs(s, p0, fk, fv, nb + 1, 0),
{
    let nj = s[nb].1.chunks@.len() as int;
    assert forall|t: int| 0 <= t < fk.len() implies pair_named(s, p0, #[trigger] fk[t], fv[t], nb + 1, 0) by {
        assert(pair_named(s, p0, fk[t], fv[t], nb, nj));
        let (k, j) = choose|k: int, j: int| #[trigger] names_chunk(s, p0, fk[t], fv[t], k, j) && (k < nb || (k == nb && j < nj));
        assert(names_chunk(s, p0, fk[t], fv[t], k, j) && (k < nb + 1));
    }
    assert forall|k: int, j: int| 0 <= k < s.len() && 0 <= j < s[k].1.chunks@.len() && (k < nb + 1 || (k == nb + 1 && j < 0))
            implies #[trigger] chunk_listed(s, p0, fk, fv, k, j) by {
        assert(k < nb || (k == nb && j < nj));
    }
}
// state of convert_and_save_cas_info after i blocks of the order s
spec fn conv_cas_inv(s: Seq<(MerkleHash, Arc<MDBCASInfo>)>, w0: VxW, w: VxW, keys: Seq<u64>, vals: Seq<u32>, index: int, i: int) -> bool {
    let sec = cas_hdrs(s); let p0 = w0.len();
    &&& 0 <= i <= s.len()
    &&& keeps(w0, w) && w.len() == p0 + 48 * index && p0 + 48 * index == cas_pos(p0, sec, i)
    &&& keys.len() == i && vals.len() == i
    &&& forall|k: int| 0 <= k < i ==> #[trigger] keys[k] == spec_truncate(s[k].0)
    &&& forall|k: int| 0 <= k < i ==> p0 + 48 * (#[trigger] vals[k]) == cas_pos(p0, sec, k)
    &&& forall|k: int| 0 <= k < i ==> cas_block_ok(w.out@, #[trigger] cas_pos(p0, sec, k), *s[k].1)
}
// what convert_and_save_cas_info produced (cas section + cas lookup), for the entry order s
spec fn conv_cas_post(s: Seq<(MerkleHash, Arc<MDBCASInfo>)>, w0: VxW, w1: VxW, keys: Seq<u64>, vals: Seq<u32>, n: int) -> bool {
    let sec = cas_hdrs(s); let p0 = w0.len(); let cnt = s.len() as int;
    &&& keeps(w0, w1) && w1.len() == p0 + n && n == cas_pos(p0, sec, cnt) - p0 + 48
    &&& keys.len() == cnt && vals.len() == cnt
    &&& forall|k: int| 0 <= k < cnt ==> #[trigger] keys[k] == spec_truncate(s[k].0)
    &&& forall|k: int| 0 <= k < cnt ==> p0 + 48 * (#[trigger] vals[k]) == cas_pos(p0, sec, k)
    &&& forall|i: int, j: int| 0 <= i <= j < cnt ==> #[trigger] keys[i] <= #[trigger] keys[j]
    &&& cas_section(w1.out@, p0, sec)
    &&& forall|k: int| 0 <= k < cnt ==> cas_block_ok(w1.out@, #[trigger] cas_pos(p0, sec, k), *s[k].1)
}
// the chunk lookup table: ordered by key, one (truncated chunk hash, (block ordinal, chunk index)) per chunk, nothing else
spec fn chunk_table_post(s: Seq<(MerkleHash, Arc<MDBCASInfo>)>, p0: int, hk: Seq<u64>, hv: Seq<(u32, u32)>) -> bool {
    &&& chunk_pairs(s, p0, hk, hv, s.len() as int, 0)
    &&& forall|a: int, b: int| 0 <= a <= b < hk.len() ==> #[trigger] hk[a] <= #[trigger] hk[b]
}
proof fn lemma_conv_cas_done(s: Seq<(MerkleHash, Arc<MDBCASInfo>)>, m: Map<MerkleHash, Arc<MDBCASInfo>>, w0: VxW, wb: VxW, w1: VxW,
        keys: Seq<u64>, vals: Seq<u32>, index: int)
    requires
        /*@C09,C05*/ is_entries(s, m), cas_ok(m), conv_cas_inv(s, w0, wb, keys, vals, index, s.len() as int),
        /*@C09,C05*/ keeps(wb, w1), w1.len() == wb.len() + 48, cas_hdr_at(w1.out@, wb.len()).cas_hash == bookend_hash(),
    ensures conv_cas_post(s, w0, w1, keys, vals, 48 * index + 48),
{
    let sec = cas_hdrs(s); let p0 = w0.len(); let cnt = s.len() as int;
    assert forall|k: int| 0 <= k < cnt implies cas_block_ok(w1.out@, #[trigger] cas_pos(p0, sec, k), *s[k].1)
        && cas_hdr_at(w1.out@, cas_pos(p0, sec, k)) == sec[k] && sec[k].cas_hash != bookend_hash() by {
        lemma_cas_pos_step(p0, sec, k);
        lemma_cas_pos_mono(p0, sec, k + 1, cnt);
        lemma_cas_pos_mono(p0, sec, 0, k);
        assert(m.contains_key(s[k].0));
        lemma_cas_block_keeps(wb, w1, cas_pos(p0, sec, k), *s[k].1);
    }
    assert forall|i: int, j: int| 0 <= i <= j < cnt implies #[trigger] keys[i] <= #[trigger] keys[j] by {
        if i < j { lemma_truncate_monotone(s[i].0, s[j].0); }
    }
}
// the sorted table collected from the sorted pair list
proof fn lemma_chunk_table(s: Seq<(MerkleHash, Arc<MDBCASInfo>)>, p0: int, fk: Seq<u64>, fv: Seq<(u32, u32)>,
        c0: Seq<(&u64, &(u32, u32))>, c: Seq<(&u64, &(u32, u32))>, sk: Seq<u64>, sv: Seq<(u32, u32)>)
    requires
        chunk_pairs(s, p0, fk, fv, s.len() as int, 0),
        /*@C09,C05*/ deref_pairs(c0) == pairs_of(fk, fv), deref_pairs(c).to_multiset() == deref_pairs(c0).to_multiset(),
        /*@C09,C05*/ forall|a: int, b: int| 0 <= a <= b < c.len() ==> *(#[trigger] c[a]).0 <= *(#[trigger] c[b]).0,   // the table is ordered
        /*@C09,C05*/ keys_collected(sk, c), vals_collected(sv, c),
    ensures chunk_table_post(s, p0, sk, sv),
{
    assert(pairs_of(sk, sv) =~= deref_pairs(c));
    lemma_sorted_pairs(s, p0, fk, fv, sk, sv);
    assert forall|a: int, b: int| 0 <= a <= b < sk.len() implies #[trigger] sk[a] <= #[trigger] sk[b] by {
        assert(*c[a].0 <= *c[b].0);
    }
}

impl MDBShardInfo {
//@ extract mdb_shard/src/shard_format.rs in `impl MDBShardInfo` fn convert_and_save_cas_info
//@ ret r
//@ rules R4a R4i R4n
//@ subst `chunk_lookup_keys.iter().zip(chunk_lookup_vals.iter()).collect::<Vec<_>>()` => `vx_zip_collect(&chunk_lookup_keys, &chunk_lookup_vals)` :: R7 outline (iterator chain); assumed: element t is (&keys[t], &vals[t])
//@ optsubst `chunk_lookup_combined.sort_unstable_by_key(|&(k, _)| k)` => `vx_sort_by_key(&mut chunk_lookup_combined)` :: R7 outline of the std sort with a key closure; contract = permutation of the input + ordered by key
//@ subst `chunk_lookup_combined.iter().map(|&(k, _)| *k).collect()` => `vx_collect_keys(&chunk_lookup_combined)` :: R7 outline (iterator chain); assumed: element t is *combined[t].0
//@ subst `chunk_lookup_combined.iter().map(|&(_, v)| *v).collect()` => `vx_collect_vals(&chunk_lookup_combined)` :: R7 outline (iterator chain); assumed: element t is *combined[t].1
//@ contract
        requires
            cas_ok(cas_content@),
            // the u32 ordinal and the byte counter do not overflow: fewer than 2^32 48-byte records in the section
            forall|s: Seq<(MerkleHash, Arc<MDBCASInfo>)>| #[trigger] is_entries(s, cas_content@) ==> cas_pos(0, cas_hdrs(s), s.len() as int) + 48 <= 48 * 0xFFFF_FFFF,
        ensures
            /*@C09,C05*/ r matches Ok(((ck, cv), (hk, hv), n)) ==> exists|s: Seq<(MerkleHash, Arc<MDBCASInfo>)>| #[trigger] is_entries(s, cas_content@)
                && conv_cas_post(s, *old(writer), *final(writer), ck@, cv@, n as int)
                && chunk_table_post(s, old(writer).len(), hk@, hv@),
//@ after `let mut bytes_written = 0;`
        let ghost w0 = *writer; let ghost p0 = writer.len(); let ghost m = cas_content@;
        let ghost mut wb = *writer; let ghost mut ws = *writer;
        proof {
            axiom_merklehash_total_order();
            assert forall|r: Seq<(&MerkleHash, &Arc<MDBCASInfo>)>| #[trigger] iter_entries(r, m) implies is_entries(own(r), m) by { lemma_entries_from_iter(r, m); }
        }
//@ loop 1
            invariant
                w0 == *old(writer), p0 == w0.len(), m == cas_content@, cas_ok(m),
                forall|s: Seq<(MerkleHash, Arc<MDBCASInfo>)>| #[trigger] is_entries(s, m) ==> cas_pos(0, cas_hdrs(s), s.len() as int) + 48 <= 48 * 0xFFFF_FFFF,
                forall|r: Seq<(&MerkleHash, &Arc<MDBCASInfo>)>| #[trigger] iter_entries(r, m) ==> is_entries(own(r), m),
                iter_entries(vx_it1.seq(), m),
                /*@C09,C05*/ bytes_written == 48 * index,
                /*@C09,C05*/ conv_cas_inv(own(vx_it1.seq()), w0, *writer, cas_lookup_keys@, cas_lookup_vals@, index as int, vx_it1.index@ as int),
                /*@C09,C05*/ chunk_pairs(own(vx_it1.seq()), p0, chunk_lookup_keys@, chunk_lookup_vals@, vx_it1.index@ as int, 0),
            ensures
                /*@C09,C05*/ bytes_written == 48 * index,
                /*@C09,C05*/ exists|s: Seq<(MerkleHash, Arc<MDBCASInfo>)>| #[trigger] is_entries(s, m)
                    && conv_cas_inv(s, w0, *writer, cas_lookup_keys@, cas_lookup_vals@, index as int, s.len() as int)
                    && chunk_pairs(s, p0, chunk_lookup_keys@, chunk_lookup_vals@, s.len() as int, 0),
//@ before `bytes_written += content.metadata.serialize(writer)?;`
            proof {
                ws = *writer;
                let s = own(vx_it1.seq()); let sec = cas_hdrs(s); let bi = vx_it1.index@ as int;
                assert(m.contains_key(*vx_it1.seq()[bi].0));
                lemma_cas_pos_step(p0, sec, bi);
                lemma_cas_pos_mono(p0, sec, bi + 1, s.len() as int);
                lemma_cas_pos_shift(p0, sec, s.len() as int);
            }
//@ loop 2
                invariant
                    w0 == *old(writer), p0 == w0.len(), m == cas_content@, cas_ok(m),
                    iter_entries(vx_it1.seq(), m), is_entries(own(vx_it1.seq()), m),
                    0 <= vx_it1.index@ < vx_it1.seq().len(), *content == own(vx_it1.seq())[vx_it1.index@ as int].1, cas_info_wf(**content),
                    keeps(w0, *writer), keeps(ws, *writer), ws.len() == p0 + 48 * index,
                    /*@C09,C05*/ writer.len() == p0 + bytes_written, bytes_written == 48 * index + 48 + 48 * i,
                    /*@C09,C05*/ p0 + 48 * index == cas_pos(p0, cas_hdrs(own(vx_it1.seq())), vx_it1.index@ as int),
                    p0 + 48 * index + 48 + 48 * content.chunks@.len() + 48 <= p0 + 48 * 0xFFFF_FFFF,
                    /*@C09,C05*/ decodes(writer.out@, p0 + 48 * index, Tok::CasHdr(content.metadata)),
                    /*@C09,C05*/ forall|j: int| 0 <= j < i ==> decodes(writer.out@, p0 + 48 * index + 48 + 48 * j, Tok::CasEntry(#[trigger] content.chunks@[j])),
                    /*@C09,C05*/ conv_cas_inv(own(vx_it1.seq()), w0, ws, cas_lookup_keys@.drop_last(), cas_lookup_vals@.drop_last(), index as int, vx_it1.index@ as int),
                    cas_lookup_keys@.len() == vx_it1.index@ + 1, cas_lookup_vals@.len() == vx_it1.index@ + 1,
                    /*@C09,C05*/ cas_lookup_keys@.last() == spec_truncate(own(vx_it1.seq())[vx_it1.index@ as int].0), cas_lookup_vals@.last() == index,
                    /*@C09,C05*/ chunk_pairs(own(vx_it1.seq()), p0, chunk_lookup_keys@, chunk_lookup_vals@, vx_it1.index@ as int, i as int),
//@ before `chunk_lookup_keys.push(truncate_hash(&chunk.chunk_hash));`
                let ghost fk0 = chunk_lookup_keys@; let ghost fv0 = chunk_lookup_vals@;
//@ after `chunk_lookup_vals.push((index, i as u32));`
                proof {
                    let s = own(vx_it1.seq()); let bi = vx_it1.index@ as int;
                    lemma_chunk_pairs_push(s, p0, fk0, fv0, bi, i as int, chunk_lookup_keys@.last(), chunk_lookup_vals@.last());
                    assert(chunk_lookup_keys@ =~= fk0.push(chunk_lookup_keys@.last()));
                    assert(chunk_lookup_vals@ =~= fv0.push(chunk_lookup_vals@.last()));
                }
//@ before `index += 1 + content.chunks.len() as u32;`
            proof {
                let s = own(vx_it1.seq()); let sec = cas_hdrs(s); let bi = vx_it1.index@ as int;
                lemma_cas_pos_step(p0, sec, bi);
                assert forall|k: int| 0 <= k < bi implies cas_block_ok(writer.out@, #[trigger] cas_pos(p0, sec, k), *s[k].1) by {
                    lemma_cas_pos_step(p0, sec, k);
                    lemma_cas_pos_mono(p0, sec, k + 1, bi);
                    lemma_cas_pos_mono(p0, sec, 0, k);
                    lemma_cas_block_keeps(ws, *writer, cas_pos(p0, sec, k), *s[k].1);
                }
                /*@C09,C05*/ assert(cas_block_ok(writer.out@, cas_pos(p0, sec, bi), *s[bi].1));   // tagged: the block just written decodes to the in-memory xorb
                lemma_chunk_pairs_next(s, p0, chunk_lookup_keys@, chunk_lookup_vals@, bi);
            }
//@ before `bytes_written += CASChunkSequenceHeader::bookend()`
        let ghost ents = choose|s: Seq<(MerkleHash, Arc<MDBCASInfo>)>| #[trigger] is_entries(s, m)
                    && conv_cas_inv(s, w0, *writer, cas_lookup_keys@, cas_lookup_vals@, index as int, s.len() as int)
                    && chunk_pairs(s, p0, chunk_lookup_keys@, chunk_lookup_vals@, s.len() as int, 0);
        proof {
            wb = *writer;
            lemma_cas_pos_shift(p0, cas_hdrs(ents), ents.len() as int);
        }
//@ before `let mut chunk_lookup_combined`
        proof { lemma_conv_cas_done(ents, m, w0, wb, *writer, cas_lookup_keys@, cas_lookup_vals@, index as int); }
//@ after `let mut chunk_lookup_combined = vx_zip_collect(&chunk_lookup_keys, &chunk_lookup_vals);`
        let ghost c0 = chunk_lookup_combined@;
//@ before `Ok((`
        proof {
            let c = chunk_lookup_combined@;
            assert forall|sk: Seq<u64>, sv: Seq<(u32, u32)>| #[trigger] keys_collected(sk, c) && #[trigger] vals_collected(sv, c)
                implies chunk_table_post(ents, p0, sk, sv) by {
                lemma_chunk_table(ents, p0, chunk_lookup_keys@, chunk_lookup_vals@, c0, c, sk, sv);
            }
        }
//@ end
}

// ---- shard header and footer ---------------------------------------------------------------------------------------------------
global size_of MDBShardFileHeader == 48;
global size_of MDBShardFileFooter == 200;
// shard_format.rs: `size_of::<MDBShardFileFooter>() as i64` (size_of in a const initialiser is not accepted by Verus)
const MDB_SHARD_FOOTER_SIZE: i64 = 200;
//@ extract mdb_shard/src/shard_format.rs const MDB_SHARD_HEADER_VERSION
//@ end
//@ extract mdb_shard/src/shard_format.rs const MDB_SHARD_FOOTER_VERSION
//@ end
//@ extract mdb_shard/src/shard_format.rs const MDB_SHARD_HEADER_TAG
//@ end
pub uninterp spec fn zero_hash() -> MerkleHash;
impl Default for MerkleHash {
    #[verifier::external_body]
    fn default() -> (r: MerkleHash) ensures r == zero_hash() { unimplemented!() }
}
// the header / footer `f` is stored at byte p (field order and widths of `serialize`)
spec fn header_at(data: Seq<u8>, p: int, h: MDBShardFileHeader) -> bool {
    &&& decodes(data, p, Tok::Raw(MDB_SHARD_HEADER_TAG@))
    &&& decodes(data, p + 32, Tok::U64(h.version))
    &&& decodes(data, p + 40, Tok::U64(h.footer_size))
}
spec fn footer_at(data: Seq<u8>, p: int, f: MDBShardFileFooter) -> bool {
    &&& decodes(data, p, Tok::U64(f.version))
    &&& decodes(data, p + 8, Tok::U64(f.file_info_offset))
    &&& decodes(data, p + 16, Tok::U64(f.cas_info_offset))
    &&& decodes(data, p + 24, Tok::U64(f.file_lookup_offset))
    &&& decodes(data, p + 32, Tok::U64(f.file_lookup_num_entry))
    &&& decodes(data, p + 40, Tok::U64(f.cas_lookup_offset))
    &&& decodes(data, p + 48, Tok::U64(f.cas_lookup_num_entry))
    &&& decodes(data, p + 56, Tok::U64(f.chunk_lookup_offset))
    &&& decodes(data, p + 64, Tok::U64(f.chunk_lookup_num_entry))
    &&& decodes(data, p + 72, Tok::Hash(f.chunk_hash_hmac_key))
    &&& decodes(data, p + 104, Tok::U64(f.shard_creation_timestamp))
    &&& decodes(data, p + 112, Tok::U64(f.shard_key_expiry))
    &&& forall|t: int| 0 <= t < 6 ==> decodes(data, p + 120 + 8 * t, Tok::U64(#[trigger] f._buffer@[t]))
    &&& decodes(data, p + 168, Tok::U64(f.stored_bytes_on_disk))
    &&& decodes(data, p + 176, Tok::U64(f.materialized_bytes))
    &&& decodes(data, p + 184, Tok::U64(f.stored_bytes))
    &&& decodes(data, p + 192, Tok::U64(f.footer_offset))
}
proof fn lemma_header_keeps(w0: VxW, w1: VxW, p: int, h: MDBShardFileHeader)
    requires keeps(w0, w1), header_at(w0.out@, p, h), 0 <= p, p + 48 <= w0.len(),
    ensures header_at(w1.out@, p, h),
{}

impl MDBShardFileHeader {
//@ extract mdb_shard/src/shard_format.rs in `impl MDBShardFileHeader` fn serialize
//@ ret r
//@ contract
        ensures
            /*@C09*/ r matches Ok(n) ==> n == 48 && final(writer).len() == old(writer).len() + 48 && keeps(*old(writer), *final(writer))
                && decodes(final(writer).out@, old(writer).len() as int, Tok::Raw(MDB_SHARD_HEADER_TAG@))
                && decodes(final(writer).out@, old(writer).len() + 32, Tok::U64(self.version))
                && decodes(final(writer).out@, old(writer).len() + 40, Tok::U64(self.footer_size)),
//@ end
}
impl MDBShardFileFooter {
//@ extract mdb_shard/src/shard_format.rs in `impl MDBShardFileFooter` fn serialize
//@ ret r
//@ contract
        ensures
            /*@C09*/ r matches Ok(n) ==> n == 200 && final(writer).len() == old(writer).len() + 200 && keeps(*old(writer), *final(writer))
                && footer_at(final(writer).out@, old(writer).len() as int, *self),
//@ end
}

// ---- serialize_from -------------------------------------------------------------------------------------------------------------
pub assume_specification<T>[std::mem::drop::<T>](x: T);
//@ extract mdb_shard/src/shard_in_memory.rs struct MDBInMemoryShard
//@ end
// the in-memory accounting of the three byte totals: DEFINED in prelude/imsbytes_totals.rs (spec_* = the mathematical sums over all file
// records' segments / all xorb records, as u64; `totals_fit` = each sum < 2^64).  The three getters below are stubs whose contracts are
// PROVED on the extracted bodies (iterator folds over the two maps) in unit U-IMSBYTES, under the same domain preconditions.
//@ include prelude/imsbytes_totals.rs
impl MDBInMemoryShard {
    #[verifier::external_body]
    fn stored_bytes_on_disk(&self) -> (r: u64) requires math_stored_bytes_on_disk(*self) <= u64::MAX, ensures r == spec_stored_bytes_on_disk(*self) { unimplemented!() }
    #[verifier::external_body]
    fn materialized_bytes(&self) -> (r: u64) requires math_materialized_bytes(*self) <= u64::MAX, ensures r == spec_materialized_bytes(*self) { unimplemented!() }
    #[verifier::external_body]
    fn stored_bytes(&self) -> (r: u64) requires math_stored_bytes(*self) <= u64::MAX, ensures r == spec_stored_bytes(*self) { unimplemented!() }
}
spec fn header_default() -> MDBShardFileHeader {
    MDBShardFileHeader { tag: MDB_SHARD_HEADER_TAG, version: MDB_SHARD_HEADER_VERSION, footer_size: MDB_SHARD_FOOTER_SIZE as u64 }
}
spec fn is_footer_default(f: MDBShardFileFooter) -> bool {
    &&& f.version == MDB_SHARD_FOOTER_VERSION && f.file_info_offset == 0 && f.cas_info_offset == 0 && f.file_lookup_offset == 0
    &&& f.file_lookup_num_entry == 0 && f.cas_lookup_offset == 0 && f.cas_lookup_num_entry == 0 && f.chunk_lookup_offset == 0
    &&& f.chunk_lookup_num_entry == 0 && f.chunk_hash_hmac_key == zero_hash() && f.shard_creation_timestamp == 0
    &&& f.shard_key_expiry == u64::MAX && f.stored_bytes_on_disk == 0 && f.materialized_bytes == 0 && f.stored_bytes == 0 && f.footer_offset == 0
    &&& forall|t: int| 0 <= t < 6 ==> #[trigger] f._buffer@[t] == 0
}
// `MDBShardInfo::default()` (derived; the field defaults are `impl Default for MDBShardFileHeader / MDBShardFileFooter`,
// shard_format.rs:65-74 and 135-158, mirrored by header_default / is_footer_default) -- a trait impl cannot carry a contract over
// the private extracted structs, so the call is redirected to this stub (R11)
#[verifier::external_body]
fn vx_shard_info_default() -> (r: MDBShardInfo) ensures r.header == header_default(), is_footer_default(r.metadata) { unimplemented!() }

// a lookup table of n (u64 key, u32 value) entries of 12 bytes at byte `off`, as U-ISEARCH / U-SHLOOKUP read it
spec fn table12_at(data: Seq<u8>, off: int, keys: Seq<u64>, vals: Seq<u32>) -> bool {
    keys.len() == vals.len() && forall|t: int| 0 <= t < keys.len() ==>
        decodes(data, off + 12 * t, Tok::U64(#[trigger] keys[t])) && decodes(data, off + 12 * t + 8, Tok::U32(vals[t]))
}
// the chunk lookup table: 16-byte entries (u64 key, u32 block ordinal, u32 chunk index)
spec fn table16_at(data: Seq<u8>, off: int, keys: Seq<u64>, vals: Seq<(u32, u32)>) -> bool {
    keys.len() == vals.len() && forall|t: int| 0 <= t < keys.len() ==>
        decodes(data, off + 16 * t, Tok::U64(#[trigger] keys[t])) && decodes(data, off + 16 * t + 8, Tok::U32(vals[t].0))
        && decodes(data, off + 16 * t + 12, Tok::U32(vals[t].1))
}
proof fn lemma_table12_keeps(w0: VxW, w1: VxW, off: int, keys: Seq<u64>, vals: Seq<u32>)
    requires keeps(w0, w1), table12_at(w0.out@, off, keys, vals), 0 <= off, off + 12 * keys.len() <= w0.len(),
    ensures table12_at(w1.out@, off, keys, vals),
{}
proof fn lemma_table16_keeps(w0: VxW, w1: VxW, off: int, keys: Seq<u64>, vals: Seq<(u32, u32)>)
    requires keeps(w0, w1), table16_at(w0.out@, off, keys, vals), 0 <= off, off + 16 * keys.len() <= w0.len(),
    ensures table16_at(w1.out@, off, keys, vals),
{}
// every record is at least its header: the number of records is bounded by the number of 48-byte slots
proof fn lemma_file_count_le(off: int, sec: Seq<FileDataSequenceHeader>, k: int)
    requires 0 <= k <= sec.len(),
    ensures file_pos(off, sec, k) >= off + 48 * k,
    decreases k,
{
    if k > 0 { lemma_file_count_le(off, sec, k - 1); }
}
proof fn lemma_cas_count_le(off: int, s: Seq<(MerkleHash, Arc<MDBCASInfo>)>, k: int)
    requires 0 <= k <= s.len(), forall|q: int| 0 <= q < s.len() ==> cas_info_wf(*(#[trigger] s[q]).1),
    ensures cas_pos(off, cas_hdrs(s), k) == off + 48 * k + 48 * chunk_total(s, k), chunk_total(s, k) >= 0,
    decreases k,
{
    if k > 0 { lemma_cas_count_le(off, s, k - 1); }
}

// what serialize_from wrote, for the entry orders sf (files) and sc (xorbs); hk/hv = the chunk lookup table
spec fn shard_post(sf: Seq<(MerkleHash, MDBFileInfo)>, sc: Seq<(MerkleHash, Arc<MDBCASInfo>)>, mdb: MDBInMemoryShard, sh: MDBShardInfo, data: Seq<u8>,
        fk: Seq<u64>, fv: Seq<u32>, ck: Seq<u64>, cv: Seq<u32>, hk: Seq<u64>, hv: Seq<(u32, u32)>) -> bool {
    let md = sh.metadata; let fsec = file_hdrs(sf); let csec = cas_hdrs(sc);
    let nf = sf.len() as int; let nc = sc.len() as int; let nh = hk.len() as int;
    // layout: header | file section | cas section | file lookup | cas lookup | chunk lookup | footer -- each footer offset is
    // the byte position where that part starts, each *_num_entry the table length
    &&& sh.header == header_default() && header_at(data, 0, sh.header)
    &&& md.file_info_offset == 48
    &&& md.cas_info_offset == file_pos(48, fsec, nf) + 48
    &&& md.file_lookup_offset == cas_pos(md.cas_info_offset as int, csec, nc) + 48
    &&& md.file_lookup_num_entry == nf
    &&& md.cas_lookup_offset == md.file_lookup_offset + 12 * nf
    &&& md.cas_lookup_num_entry == nc
    &&& md.chunk_lookup_offset == md.cas_lookup_offset + 12 * nc
    &&& md.chunk_lookup_num_entry == nh && nh == chunk_total(sc, nc)
    &&& md.footer_offset == md.chunk_lookup_offset + 16 * nh
    &&& data.len() == md.footer_offset + 200
    &&& footer_at(data, md.footer_offset as int, md)
    // byte totals = the in-memory accounting
    &&& md.stored_bytes_on_disk == spec_stored_bytes_on_disk(mdb)
    &&& md.materialized_bytes == spec_materialized_bytes(mdb)
    &&& md.stored_bytes == spec_stored_bytes(mdb)
    // the untouched footer fields
    &&& md.version == MDB_SHARD_FOOTER_VERSION && md.chunk_hash_hmac_key == zero_hash() && md.shard_creation_timestamp == 0 && md.shard_key_expiry == u64::MAX
    // sections (U-SHSCAN's model): exactly the in-memory records in key order, then the bookend
    &&& file_section(data, md.file_info_offset as int, fsec)
    &&& forall|k: int| 0 <= k < nf ==> file_block_ok(data, #[trigger] file_pos(md.file_info_offset as int, fsec, k), sf[k].1)
    &&& cas_section(data, md.cas_info_offset as int, csec)
    &&& forall|k: int| 0 <= k < nc ==> cas_block_ok(data, #[trigger] cas_pos(md.cas_info_offset as int, csec, k), *sc[k].1)
    // lookup tables: (truncated hash, ordinal of the record header), non-decreasing keys
    &&& table12_at(data, md.file_lookup_offset as int, fk, fv) && fk.len() == nf
    &&& forall|k: int| 0 <= k < nf ==> #[trigger] fk[k] == spec_truncate(sf[k].0)
    &&& forall|k: int| 0 <= k < nf ==> md.file_info_offset + 48 * (#[trigger] fv[k]) == file_pos(md.file_info_offset as int, fsec, k)
    &&& forall|i: int, j: int| 0 <= i <= j < nf ==> #[trigger] fk[i] <= #[trigger] fk[j]
    &&& table12_at(data, md.cas_lookup_offset as int, ck, cv) && ck.len() == nc
    &&& forall|k: int| 0 <= k < nc ==> #[trigger] ck[k] == spec_truncate(sc[k].0)
    &&& forall|k: int| 0 <= k < nc ==> md.cas_info_offset + 48 * (#[trigger] cv[k]) == cas_pos(md.cas_info_offset as int, csec, k)
    &&& forall|i: int, j: int| 0 <= i <= j < nc ==> #[trigger] ck[i] <= #[trigger] ck[j]
    &&& table16_at(data, md.chunk_lookup_offset as int, hk, hv)
    &&& chunk_table_post(sc, md.cas_info_offset as int, hk, hv)
}
// proof-internal: what is known after the header and the two sections have been written (wH, wF, wA = writer after each part)
#[verifier::opaque]
spec fn stage_a(sf: Seq<(MerkleHash, MDBFileInfo)>, sc: Seq<(MerkleHash, Arc<MDBCASInfo>)>, mdb: MDBInMemoryShard, sh: MDBShardInfo,
        wH: VxW, wF: VxW, wA: VxW, fk: Seq<u64>, fv: Seq<u32>, ck: Seq<u64>, cv: Seq<u32>, hk: Seq<u64>, hv: Seq<(u32, u32)>) -> bool {
    let md = sh.metadata;
    &&& is_entries(sf, mdb.file_content@) && is_entries(sc, mdb.cas_content@) && files_ok(mdb.file_content@) && cas_ok(mdb.cas_content@)
    &&& wH.len() == 48 && sh.header == header_default() && header_at(wH.out@, 0, sh.header)
    &&& conv_file_post(sf, wH, wF, fk, fv, wF.len() - 48)
    &&& conv_cas_post(sc, wF, wA, ck, cv, wA.len() - wF.len())
    &&& chunk_table_post(sc, wF.len(), hk, hv)
    &&& md.file_info_offset == 48 && md.cas_info_offset == wF.len()
    &&& md.version == MDB_SHARD_FOOTER_VERSION && md.chunk_hash_hmac_key == zero_hash() && md.shard_creation_timestamp == 0 && md.shard_key_expiry == u64::MAX
    &&& fk.len() <= 0xFFFF_FFFF && ck.len() + hk.len() <= 0xFFFF_FFFF && wF.len() <= 48 + 48 * 0xFFFF_FFFF && wA.len() <= 48 + 96 * 0xFFFF_FFFF
}
// ... after the file lookup table (wB) and the cas lookup table (wC)
#[verifier::opaque]
spec fn stage_b(sh: MDBShardInfo, wA: VxW, wB: VxW, fk: Seq<u64>, fv: Seq<u32>) -> bool {
    &&& keeps(wA, wB) && wB.len() == wA.len() + 12 * fk.len() && table12_at(wB.out@, wA.len(), fk, fv)
    &&& sh.metadata.file_lookup_offset == wA.len() && sh.metadata.file_lookup_num_entry == fk.len()
}
#[verifier::opaque]
spec fn stage_c(sh: MDBShardInfo, wB: VxW, wC: VxW, ck: Seq<u64>, cv: Seq<u32>) -> bool {
    &&& keeps(wB, wC) && wC.len() == wB.len() + 12 * ck.len() && table12_at(wC.out@, wB.len(), ck, cv)
    &&& sh.metadata.cas_lookup_offset == wB.len() && sh.metadata.cas_lookup_num_entry == ck.len()
}
#[verifier::opaque]
spec fn stage_d(sh: MDBShardInfo, wC: VxW, wD: VxW, hk: Seq<u64>, hv: Seq<(u32, u32)>) -> bool {
    &&& keeps(wC, wD) && wD.len() == wC.len() + 16 * hk.len() && table16_at(wD.out@, wC.len(), hk, hv)
    &&& sh.metadata.chunk_lookup_offset == wC.len() && sh.metadata.chunk_lookup_num_entry == hk.len()
}
// everything written: lift the parts to the final bytes
proof fn lemma_shard_done(sf: Seq<(MerkleHash, MDBFileInfo)>, sc: Seq<(MerkleHash, Arc<MDBCASInfo>)>, mdb: MDBInMemoryShard, sh: MDBShardInfo,
        wH: VxW, wF: VxW, wA: VxW, wB: VxW, wC: VxW, wD: VxW, w1: VxW,
        fk: Seq<u64>, fv: Seq<u32>, ck: Seq<u64>, cv: Seq<u32>, hk: Seq<u64>, hv: Seq<(u32, u32)>)
    requires
        /*@C09,C05*/ stage_a(sf, sc, mdb, sh, wH, wF, wA, fk, fv, ck, cv, hk, hv), stage_b(sh, wA, wB, fk, fv), stage_c(sh, wB, wC, ck, cv), stage_d(sh, wC, wD, hk, hv),
        /*@C09,C05*/ keeps(wD, w1), w1.len() == wD.len() + 200, footer_at(w1.out@, wD.len(), sh.metadata), sh.metadata.footer_offset == wD.len(),
        /*@C09*/ sh.metadata.stored_bytes_on_disk == spec_stored_bytes_on_disk(mdb), sh.metadata.materialized_bytes == spec_materialized_bytes(mdb),
        /*@C09*/ sh.metadata.stored_bytes == spec_stored_bytes(mdb),
    ensures
        shard_post(sf, sc, mdb, sh, w1.out@, fk, fv, ck, cv, hk, hv),
        w1.len() == model_size(sf, sc),
{
    reveal(stage_a); reveal(stage_b); reveal(stage_c); reveal(stage_d);
    let fsec = file_hdrs(sf); let csec = cas_hdrs(sc); let nf = sf.len() as int; let nc = sc.len() as int;
    let fm = mdb.file_content@; let cm = mdb.cas_content@;
    let d = w1.out@;
    lemma_header_keeps(wH, w1, 0, sh.header);
    // file section
    lemma_file_pos_shift(48, fsec, nf);
    assert forall|k: int| 0 <= k < nf implies file_block_ok(d, #[trigger] file_pos(48, fsec, k), sf[k].1)
        && file_hdr_at(d, file_pos(48, fsec, k)) == fsec[k] && fsec[k].file_hash != bookend_hash() by {
        lemma_file_pos_step(48, fsec, k); lemma_file_pos_mono(48, fsec, k + 1, nf); lemma_file_pos_mono(48, fsec, 0, k);
        assert(fm.contains_key(sf[k].0));
        lemma_file_block_keeps(wF, w1, file_pos(48, fsec, k), sf[k].1);
    }
    assert(decodes(wF.out@, file_pos(48, fsec, nf), Tok::FileHdr(file_hdr_at(wF.out@, file_pos(48, fsec, nf)))));
    lemma_file_pos_mono(48, fsec, 0, nf);
    // cas section
    let c0 = wF.len();
    lemma_cas_pos_shift(c0, csec, nc);
    assert forall|q: int| 0 <= q < sc.len() implies cas_info_wf(*(#[trigger] sc[q]).1) by { assert(cm.contains_key(sc[q].0)); }
    lemma_cas_count_le(c0, sc, nc);
    lemma_cas_count_le(0, sc, nc);
    assert forall|k: int| 0 <= k < nc implies cas_block_ok(d, #[trigger] cas_pos(c0, csec, k), *sc[k].1)
        && cas_hdr_at(d, cas_pos(c0, csec, k)) == csec[k] && csec[k].cas_hash != bookend_hash() by {
        lemma_cas_pos_step(c0, csec, k); lemma_cas_pos_mono(c0, csec, k + 1, nc); lemma_cas_pos_mono(c0, csec, 0, k);
        assert(cm.contains_key(sc[k].0));
        lemma_cas_block_keeps(wA, w1, cas_pos(c0, csec, k), *sc[k].1);
    }
    assert(decodes(wA.out@, cas_pos(c0, csec, nc), Tok::CasHdr(cas_hdr_at(wA.out@, cas_pos(c0, csec, nc)))));
    lemma_cas_pos_mono(c0, csec, 0, nc);
    // tables
    lemma_table12_keeps(wB, w1, wA.len(), fk, fv);
    lemma_table12_keeps(wC, w1, wB.len(), ck, cv);
    lemma_table16_keeps(wD, w1, wC.len(), hk, hv);
    lemma_file_pos_shift(0, fsec, nf);
}

// what the footer getters (unit U-IMSBYTES) read: `footer_written` lists the count / offset / size / total conjuncts of shard_post, with
// fsz / csz = byte size of the file / xorb section including the bookend, nh = number of chunk-lookup entries.  The antecedent of
// every footer-getter clause in U-IMSBYTES is therefore a consequence of serialize_from's postcondition.
//@ include prelude/imsbytes_footer.rs
proof fn lemma_shard_post_footer_written(sf: Seq<(MerkleHash, MDBFileInfo)>, sc: Seq<(MerkleHash, Arc<MDBCASInfo>)>, mdb: MDBInMemoryShard, sh: MDBShardInfo, data: Seq<u8>,
        fk: Seq<u64>, fv: Seq<u32>, ck: Seq<u64>, cv: Seq<u32>, hk: Seq<u64>, hv: Seq<(u32, u32)>)
    requires is_entries(sf, mdb.file_content@), is_entries(sc, mdb.cas_content@), shard_post(sf, sc, mdb, sh, data, fk, fv, ck, cv, hk, hv),
    ensures /*@C09*/ footer_written(mdb, sh, data.len() as int, file_pos(0, file_hdrs(sf), sf.len() as int) + 48, cas_pos(0, cas_hdrs(sc), sc.len() as int) + 48, hk.len() as int),
{
    let fsec = file_hdrs(sf); let csec = cas_hdrs(sc); let nf = sf.len() as int; let nc = sc.len() as int;
    lemma_file_pos_shift(48, fsec, nf); lemma_cas_pos_shift(sh.metadata.cas_info_offset as int, csec, nc);
    lemma_file_pos_mono(0, fsec, 0, nf); lemma_cas_pos_mono(0, csec, 0, nc);
}
// the bytes are a serialization of the in-memory shard: for the key orders of its two maps, everything in shard_post holds
spec fn shard_written(mdb: MDBInMemoryShard, sh: MDBShardInfo, data: Seq<u8>) -> bool {
    exists|sf: Seq<(MerkleHash, MDBFileInfo)>, sc: Seq<(MerkleHash, Arc<MDBCASInfo>)>,
            fk: Seq<u64>, fv: Seq<u32>, ck: Seq<u64>, cv: Seq<u32>, hk: Seq<u64>, hv: Seq<(u32, u32)>|
        is_entries(sf, mdb.file_content@) && is_entries(sc, mdb.cas_content@)
        && #[trigger] shard_post(sf, sc, mdb, sh, data, fk, fv, ck, cv, hk, hv)
}
spec fn size_is_model(mdb: MDBInMemoryShard, n: int) -> bool {
    exists|sf: Seq<(MerkleHash, MDBFileInfo)>, sc: Seq<(MerkleHash, Arc<MDBCASInfo>)>|
        is_entries(sf, mdb.file_content@) && is_entries(sc, mdb.cas_content@) && n == #[trigger] model_size(sf, sc)
}
// size of the serialized shard in terms of the in-memory content (the quantity `shard_file_size()` is meant to track)
spec fn model_size(sf: Seq<(MerkleHash, MDBFileInfo)>, sc: Seq<(MerkleHash, Arc<MDBCASInfo>)>) -> int {
    48 + (file_pos(0, file_hdrs(sf), sf.len() as int) + 48) + (cas_pos(0, cas_hdrs(sc), sc.len() as int) + 48)
       + 12 * sf.len() + 12 * sc.len() + 16 * chunk_total(sc, sc.len() as int) + 200
}

impl MDBShardInfo {
//@ extract mdb_shard/src/shard_format.rs in `impl MDBShardInfo` fn serialize_from
//@ ret r
//@ rules R4z R4n
//@ subst `MDBShardInfo::default()` => `vx_shard_info_default()` :: R11 stub of the derived Default (see vx_shard_info_default)
//@ contract
        requires
            old(writer).len() == 0,     // the footer offsets are absolute: the shard starts at the writer's position 0
            /*@AUX*/ totals_fit(*mdb),   // domain of the three byte totals (each < 2^64; U-IMSBYTES proves the getters under it)
            files_ok(mdb.file_content@), cas_ok(mdb.cas_content@),
            forall|s: Seq<(MerkleHash, MDBFileInfo)>| #[trigger] is_entries(s, mdb.file_content@) ==> file_pos(0, file_hdrs(s), s.len() as int) + 48 <= 48 * 0xFFFF_FFFF,
            forall|s: Seq<(MerkleHash, Arc<MDBCASInfo>)>| #[trigger] is_entries(s, mdb.cas_content@) ==> cas_pos(0, cas_hdrs(s), s.len() as int) + 48 <= 48 * 0xFFFF_FFFF,
        ensures
            /*@C09,C05*/ r matches Ok(sh) ==> shard_written(*mdb, sh, final(writer).out@),
            // total bytes written = the size the in-memory content determines
            /*@C09*/ r matches Ok(sh) ==> size_is_model(*mdb, final(writer).len()),
//@ after `let mut bytes_pos: usize = 0;`
        let ghost w0 = *writer; let ghost mut wH = *writer; let ghost mut wF = *writer; let ghost mut wA = *writer;
        let ghost mut wB = *writer; let ghost mut wC = *writer; let ghost mut wD = *writer;
        let ghost mut sf: Seq<(MerkleHash, MDBFileInfo)> = Seq::empty(); let ghost mut sc: Seq<(MerkleHash, Arc<MDBCASInfo>)> = Seq::empty();
        let ghost mut fk: Seq<u64> = Seq::empty(); let ghost mut fv: Seq<u32> = Seq::empty();
        let ghost mut ck: Seq<u64> = Seq::empty(); let ghost mut cv: Seq<u32> = Seq::empty();
        let ghost mut hk: Seq<u64> = Seq::empty(); let ghost mut hv: Seq<(u32, u32)> = Seq::empty();
//@ after `bytes_pos += shard.header.serialize(writer)?;`
        proof { wH = *writer; }
//@ after `Self::convert_and_save_file_info(writer, &mdb.file_content)?;`
        proof {
            wF = *writer; fk = file_lookup_keys@; fv = file_lookup_vals@;
            sf = choose|s: Seq<(MerkleHash, MDBFileInfo)>| #[trigger] is_entries(s, mdb.file_content@)
                && conv_file_post(s, wH, wF, fk, fv, bytes_written as int);
            lemma_file_pos_shift(48, file_hdrs(sf), sf.len() as int);
            lemma_file_count_le(48, file_hdrs(sf), sf.len() as int);
        }
//@ after `Self::convert_and_save_cas_info(writer, &mdb.cas_content)?;`
        proof {
            wA = *writer; ck = cas_lookup_keys@; cv = cas_lookup_vals@; hk = chunk_lookup_keys@; hv = chunk_lookup_vals@;
            sc = choose|s: Seq<(MerkleHash, Arc<MDBCASInfo>)>| #[trigger] is_entries(s, mdb.cas_content@)
                && conv_cas_post(s, wF, wA, ck, cv, bytes_written as int) && chunk_table_post(s, wF.len(), hk, hv);
            lemma_cas_pos_shift(wF.len(), cas_hdrs(sc), sc.len() as int);
            assert forall|q: int| 0 <= q < sc.len() implies cas_info_wf(*(#[trigger] sc[q]).1) by { assert(mdb.cas_content@.contains_key(sc[q].0)); }
            lemma_cas_count_le(wF.len(), sc, sc.len() as int);
        }
//@ before `shard.metadata.file_lookup_num_entry = file_lookup_keys.len() as u64;`
        proof { reveal(stage_a); /*@C09,C05*/ assert(stage_a(sf, sc, *mdb, shard, wH, wF, wA, fk, fv, ck, cv, hk, hv)); }
//@ loop 1
            invariant_except_break
                /*@C09,C05*/ writer.len() == wA.len() + 12 * vx_z1,
                /*@C09,C05*/ forall|t: int| 0 <= t < vx_z1 ==> decodes(writer.out@, wA.len() + 12 * t, Tok::U64(#[trigger] fk[t])) && decodes(writer.out@, wA.len() + 12 * t + 8, Tok::U32(fv[t])),
            invariant
                /*@C09,C05*/ stage_a(sf, sc, *mdb, shard, wH, wF, wA, fk, fv, ck, cv, hk, hv),
                /*@C09,C05*/ shard.metadata.file_lookup_offset == wA.len() && shard.metadata.file_lookup_num_entry == fk.len(),
                fk.len() <= 0xFFFF_FFFF && ck.len() + hk.len() <= 0xFFFF_FFFF && wA.len() <= 48 + 96 * 0xFFFF_FFFF, fk.len() == fv.len(), ck.len() == cv.len(), hk.len() == hv.len(),
                /*@C09,C05*/ bytes_pos == wA.len(), file_lookup_keys@ == fk, file_lookup_vals@ == fv, cas_lookup_keys@ == ck, cas_lookup_vals@ == cv,
                chunk_lookup_keys@ == hk, chunk_lookup_vals@ == hv,
                /*@C09,C05*/ keeps(wA, *writer),
            ensures
                /*@C09,C05*/ writer.len() == wA.len() + 12 * fk.len(), table12_at(writer.out@, wA.len(), fk, fv),
//@ before `drop(file_lookup_keys);`
        proof { wB = *writer; reveal(stage_b); /*@C09,C05*/ assert(stage_b(shard, wA, wB, fk, fv)); }
//@ loop 2
            invariant_except_break
                /*@C09,C05*/ writer.len() == wB.len() + 12 * vx_z2,
                /*@C09,C05*/ forall|t: int| 0 <= t < vx_z2 ==> decodes(writer.out@, wB.len() + 12 * t, Tok::U64(#[trigger] ck[t])) && decodes(writer.out@, wB.len() + 12 * t + 8, Tok::U32(cv[t])),
            invariant
                /*@C09,C05*/ stage_a(sf, sc, *mdb, shard, wH, wF, wA, fk, fv, ck, cv, hk, hv), stage_b(shard, wA, wB, fk, fv),
                /*@C09,C05*/ shard.metadata.cas_lookup_offset == wB.len() && shard.metadata.cas_lookup_num_entry == ck.len(),
                fk.len() <= 0xFFFF_FFFF && ck.len() + hk.len() <= 0xFFFF_FFFF && wA.len() <= 48 + 96 * 0xFFFF_FFFF, wB.len() == wA.len() + 12 * fk.len(), ck.len() == cv.len(), hk.len() == hv.len(),
                /*@C09,C05*/ bytes_pos == wB.len(), cas_lookup_keys@ == ck, cas_lookup_vals@ == cv, chunk_lookup_keys@ == hk, chunk_lookup_vals@ == hv,
                /*@C09,C05*/ keeps(wB, *writer),
            ensures
                /*@C09,C05*/ writer.len() == wB.len() + 12 * ck.len(), table12_at(writer.out@, wB.len(), ck, cv),
//@ before `shard.metadata.chunk_lookup_offset = bytes_pos as u64;`
        proof { wC = *writer; reveal(stage_c); /*@C09,C05*/ assert(stage_c(shard, wB, wC, ck, cv)); }
//@ loop 3
            invariant_except_break
                /*@C09,C05*/ writer.len() == wC.len() + 16 * vx_z3,
                /*@C09,C05*/ forall|t: int| 0 <= t < vx_z3 ==> decodes(writer.out@, wC.len() + 16 * t, Tok::U64(#[trigger] hk[t])) && decodes(writer.out@, wC.len() + 16 * t + 8, Tok::U32(hv[t].0))
                    && decodes(writer.out@, wC.len() + 16 * t + 12, Tok::U32(hv[t].1)),
            invariant
                /*@C09,C05*/ stage_a(sf, sc, *mdb, shard, wH, wF, wA, fk, fv, ck, cv, hk, hv), stage_b(shard, wA, wB, fk, fv), stage_c(shard, wB, wC, ck, cv),
                /*@C09,C05*/ shard.metadata.chunk_lookup_offset == wC.len() && shard.metadata.chunk_lookup_num_entry == hk.len(),
                fk.len() <= 0xFFFF_FFFF && ck.len() + hk.len() <= 0xFFFF_FFFF && wA.len() <= 48 + 96 * 0xFFFF_FFFF, wB.len() == wA.len() + 12 * fk.len(), wC.len() == wB.len() + 12 * ck.len(), hk.len() == hv.len(),
                /*@C09,C05*/ bytes_pos == wC.len(), chunk_lookup_keys@ == hk, chunk_lookup_vals@ == hv,
                /*@C09,C05*/ keeps(wC, *writer),
            ensures
                /*@C09,C05*/ writer.len() == wC.len() + 16 * hk.len(), table16_at(writer.out@, wC.len(), hk, hv),
//@ before `shard.metadata.stored_bytes_on_disk = mdb.stored_bytes_on_disk();`
        proof { wD = *writer; reveal(stage_d); /*@C09,C05*/ assert(stage_d(shard, wC, wD, hk, hv)); }
//@ before `Ok(shard)`
        proof {
            assert(stage_a(sf, sc, *mdb, shard, wH, wF, wA, fk, fv, ck, cv, hk, hv)) by { reveal(stage_a); }
            assert(stage_b(shard, wA, wB, fk, fv)) by { reveal(stage_b); }
            assert(stage_c(shard, wB, wC, ck, cv)) by { reveal(stage_c); }
            assert(stage_d(shard, wC, wD, hk, hv)) by { reveal(stage_d); }
            lemma_shard_done(sf, sc, *mdb, shard, wH, wF, wA, wB, wC, wD, *writer, fk, fv, ck, cv, hk, hv);
            assert(is_entries(sf, mdb.file_content@) && is_entries(sc, mdb.cas_content@)) by { reveal(stage_a); }
            assert(shard_written(*mdb, shard, writer.out@));
            assert(size_is_model(*mdb, writer.len()));
        }
//@ end
}

// ---- connecting lemma: a lookup (U-SHLOOKUP's contract) on bytes written by serialize_from answers exactly as the in-memory shard ----
// U-SHLOOKUP's view of the file lookup table of `sh` in `data` (its fl_key / fl_idx / fl_count, with the u32 reader's decoder = u32_at)
spec fn lk_n(sh: MDBShardInfo) -> int { sh.metadata.file_lookup_num_entry as int }
spec fn lk_key(sh: MDBShardInfo, data: Seq<u8>, i: int) -> u64 { isx::tkey(data, sh.metadata.file_lookup_offset as int, 12, i) }
spec fn lk_idx(sh: MDBShardInfo, data: Seq<u8>, i: int) -> u32 { u32_at(data, isx::off(sh.metadata.file_lookup_offset as int, 12, i) + 8) }
spec fn lk_count(sh: MDBShardInfo, data: Seq<u8>, h: MerkleHash) -> nat {
    isx::matches(data, sh.metadata.file_lookup_offset as int, 12, lk_n(sh), spec_truncate(h)).len()
}
// the postcondition of `get_file_reconstruction_info(reader, &h)` proved in U-SHLOOKUP, clause by clause; `rec(idx)` / `valid(idx)`
// stand for its `spec_file_info(sh, data, idx)` / `spec_file_info_valid(..)` (what read_file_info decodes for entry index idx),
// `failed` for "an operation on the reader failed"; ret: Some(x) = Ok(x), None = Err
spec fn lookup_post(sh: MDBShardInfo, data: Seq<u8>, h: MerkleHash, rec: spec_fn(u32) -> MDBFileInfo, valid: spec_fn(u32) -> bool,
        failed: bool, ret: Option<Option<MDBFileInfo>>) -> bool {
    &&& ret matches Some(Some(info)) ==> info.metadata.file_hash == h
            && exists|i: int| 0 <= i < lk_n(sh) && #[trigger] lk_key(sh, data, i) == spec_truncate(h) && info == rec(lk_idx(sh, data, i))
    &&& ret matches Some(None) ==> forall|i: int| 0 <= i < lk_n(sh) && #[trigger] lk_key(sh, data, i) == spec_truncate(h)
            ==> rec(lk_idx(sh, data, i)).metadata.file_hash != h
    &&& lk_count(sh, data, h) >= 8 ==> ret is None
    &&& ret is None ==> failed || lk_count(sh, data, h) >= 8
            || exists|i: int| 0 <= i < lk_n(sh) && #[trigger] lk_key(sh, data, i) == spec_truncate(h) && !valid(lk_idx(sh, data, i))
}
// what `read_file_info(reader, idx)` returns, from U-SHSCAN's contract of `MDBFileInfo::deserialize` at file_info_offset + 48*idx:
// the block found there unless its header is the bookend
spec fn reads_blocks(sh: MDBShardInfo, data: Seq<u8>, rec: spec_fn(u32) -> MDBFileInfo, valid: spec_fn(u32) -> bool) -> bool {
    forall|idx: u32| {
        let p = sh.metadata.file_info_offset + 48 * idx;
        (#[trigger] valid(idx) <==> file_hdr_at(data, p).file_hash != bookend_hash()) && (valid(idx) ==> file_block_ok(data, p, rec(idx)))
    }
}
// two records decoded from the same block are the same record
spec fn rec_eq(a: MDBFileInfo, b: MDBFileInfo) -> bool {
    a.metadata == b.metadata && a.segments@ == b.segments@ && a.verification@ == b.verification@ && a.metadata_ext == b.metadata_ext
}
proof fn lemma_block_unique(data: Seq<u8>, p: int, a: MDBFileInfo, b: MDBFileInfo)
    requires file_block_ok(data, p, a), file_block_ok(data, p, b),
    ensures rec_eq(a, b),
{
    assert(a.segments@ =~= b.segments@);
    assert(a.verification@ =~= b.verification@);
}
proof fn lemma_lookup_exact(mdb: MDBInMemoryShard, sh: MDBShardInfo, data: Seq<u8>, h: MerkleHash,
        rec: spec_fn(u32) -> MDBFileInfo, valid: spec_fn(u32) -> bool, failed: bool, ret: Option<Option<MDBFileInfo>>)
    requires
        files_ok(mdb.file_content@),
        shard_written(mdb, sh, data),              // serialize_from's postcondition
        reads_blocks(sh, data, rec, valid),        // read_file_info (U-SHSCAN)
        lookup_post(sh, data, h, rec, valid, failed, ret),   // get_file_reconstruction_info (U-SHLOOKUP)
    ensures
        // a contained hash: the stored record, never not-found
        /*@C09*/ mdb.file_content@.contains_key(h) ==> (ret matches Some(x) ==> x matches Some(info) && rec_eq(info, mdb.file_content@[h])),
        // anything else: not found, never a record
        /*@C09*/ !mdb.file_content@.contains_key(h) ==> (ret matches Some(x) ==> x is None),
        // an error only after an I/O failure or with 8 or more entries under the truncated hash
        /*@C09*/ ret is None ==> failed || lk_count(sh, data, h) >= 8,
{
    let m = mdb.file_content@;
    let (sf, sc, fk, fv, ck, cv, hk, hv) = choose|sf: Seq<(MerkleHash, MDBFileInfo)>, sc: Seq<(MerkleHash, Arc<MDBCASInfo>)>,
            fk: Seq<u64>, fv: Seq<u32>, ck: Seq<u64>, cv: Seq<u32>, hk: Seq<u64>, hv: Seq<(u32, u32)>|
        is_entries(sf, mdb.file_content@) && is_entries(sc, mdb.cas_content@)
        && #[trigger] shard_post(sf, sc, mdb, sh, data, fk, fv, ck, cv, hk, hv);
    let md = sh.metadata; let fsec = file_hdrs(sf); let nf = sf.len() as int; let fio = md.file_info_offset as int; let flo = md.file_lookup_offset as int;
    assert(table12_at(data, flo, fk, fv) && fk.len() == nf && lk_n(sh) == nf);
    // every table entry i < nf: key, index, and what read_file_info gives for it
    assert forall|i: int| 0 <= i < nf implies
        #[trigger] lk_key(sh, data, i) == spec_truncate(sf[i].0) && valid(lk_idx(sh, data, i))
        && rec_eq(rec(lk_idx(sh, data, i)), sf[i].1) && sf[i].1.metadata.file_hash == sf[i].0 && m.contains_key(sf[i].0) && m[sf[i].0] == sf[i].1 by {
        assert(0 <= i < fk.len());
        let kk = fk[i];
        assert(decodes(data, flo + 12 * i, Tok::U64(fk[i])));
        assert(decodes(data, flo + 12 * i + 8, Tok::U32(fv[i])));
        assert(isx::off(flo, 12, i) == flo + 12 * i);
        assert(lk_idx(sh, data, i) == fv[i]);
        let p = file_pos(fio, fsec, i);
        assert(file_block_ok(data, p, sf[i].1));
        assert(m.contains_key(sf[i].0));
        assert(file_hdr_at(data, p) == sf[i].1.metadata);
        assert(valid(fv[i]));
        lemma_block_unique(data, p, rec(fv[i]), sf[i].1);
    }
    if m.contains_key(h) {
        let k = choose|k: int| 0 <= k < sf.len() && (#[trigger] sf[k]).0 == h;
        assert(lk_key(sh, data, k) == spec_truncate(h));
        if ret is Some {
            let x = ret->Some_0;
            if x is None { assert(rec(lk_idx(sh, data, k)).metadata.file_hash == h); assert(false); }
            let info = x->Some_0;
            let i = choose|i: int| 0 <= i < lk_n(sh) && #[trigger] lk_key(sh, data, i) == spec_truncate(h) && info == rec(lk_idx(sh, data, i));
            assert(sf[i].0 == h);
        }
    } else {
        if ret is Some {
            let x = ret->Some_0;
            if x is Some {
                let info = x->Some_0;
                let i = choose|i: int| 0 <= i < lk_n(sh) && #[trigger] lk_key(sh, data, i) == spec_truncate(h) && info == rec(lk_idx(sh, data, i));
                assert(sf[i].0 == h);
                assert(false);
            }
        }
    }
}

// ---- the in-memory size counter (C09 "size equals the in-memory accounting", C11 insert) -------------------------------------------
//@ include prelude/ims_counter.rs
impl std::hash::Hash for MerkleHash {
    #[verifier::external_body]
    fn hash<H: std::hash::Hasher>(&self, state: &mut H) { unimplemented!() }
}
// contribution of one file record: its block plus its file-lookup entry
spec fn file_contrib(f: MDBFileInfo) -> int { 48 + 48 * following(f.metadata) + 12 }
spec fn fc() -> spec_fn(MDBFileInfo) -> int { |f: MDBFileInfo| file_contrib(f) }
spec fn cc() -> spec_fn(Arc<MDBCASInfo>) -> int { |a: Arc<MDBCASInfo>| cas_contrib(*a) }

// sum of c over the values of a (finite) map
spec fn msum<V>(m: Map<MerkleHash, V>, c: spec_fn(V) -> int) -> int
    decreases m.len()
{
    if m.len() == 0 { 0 } else {
        let k = choose|k: MerkleHash| m.contains_key(k);
        if m.contains_key(k) { c(m[k]) + msum(m.remove(k), c) } else { 0 }
    }
}
// the sum does not depend on which key is taken out first
proof fn lemma_msum_remove<V>(m: Map<MerkleHash, V>, c: spec_fn(V) -> int, k: MerkleHash)
    requires m.contains_key(k),
    ensures msum(m, c) == c(m[k]) + msum(m.remove(k), c),
    decreases m.len(),
{
    assert(m.dom().contains(k));
    assert(m.len() > 0) by { if m.len() == 0 { m.dom().lemma_len0_is_empty(); assert(false); } }
    let k0 = choose|k0: MerkleHash| m.contains_key(k0);
    if k0 != k {
        lemma_msum_remove(m.remove(k0), c, k);
        lemma_msum_remove(m.remove(k), c, k0);
        assert(m.remove(k0).remove(k) =~= m.remove(k).remove(k0));
    }
}
proof fn lemma_msum_insert<V>(m: Map<MerkleHash, V>, c: spec_fn(V) -> int, k: MerkleHash, v: V)
    ensures msum(m.insert(k, v), c) == msum(m, c) + c(v) - (if m.contains_key(k) { c(m[k]) } else { 0 }),
{
    let m1 = m.insert(k, v);
    lemma_msum_remove(m1, c, k);
    if m.contains_key(k) {
        lemma_msum_remove(m, c, k);
        assert(m1.remove(k) =~= m.remove(k));
    } else {
        assert(m1.remove(k) =~= m);
    }
}
proof fn lemma_msum_ge<V>(m: Map<MerkleHash, V>, c: spec_fn(V) -> int, k: MerkleHash)
    requires m.contains_key(k), forall|v: V| #[trigger] c(v) >= 0,
    ensures msum(m, c) >= c(m[k]),
{
    lemma_msum_remove(m, c, k);
    lemma_msum_nonneg(m.remove(k), c);
}
proof fn lemma_msum_nonneg<V>(m: Map<MerkleHash, V>, c: spec_fn(V) -> int)
    requires forall|v: V| #[trigger] c(v) >= 0,
    ensures msum(m, c) >= 0,
    decreases m.len(),
{
    if m.len() != 0 {
        let k = choose|k: MerkleHash| m.contains_key(k);
        if m.contains_key(k) { lemma_msum_nonneg(m.remove(k), c); }
    }
}
// ... and equals the sum along the key order
spec fn ssum<V>(s: Seq<(MerkleHash, V)>, c: spec_fn(V) -> int, k: int) -> int decreases k {
    if k <= 0 { 0 } else { ssum(s, c, k - 1) + c(s[k - 1].1) }
}
proof fn lemma_ssum_prefix<V>(s1: Seq<(MerkleHash, V)>, s2: Seq<(MerkleHash, V)>, c: spec_fn(V) -> int, k: int)
    requires 0 <= k <= s1.len(), k <= s2.len(), forall|j: int| 0 <= j < k ==> s1[j] == s2[j],
    ensures ssum(s1, c, k) == ssum(s2, c, k),
    decreases k,
{
    if k > 0 { lemma_ssum_prefix(s1, s2, c, k - 1); }
}
proof fn lemma_ssum_mono<V>(s: Seq<(MerkleHash, V)>, c: spec_fn(V) -> int, a: int, b: int)
    requires 0 <= a <= b <= s.len(), forall|v: V| #[trigger] c(v) >= 0,
    ensures 0 <= ssum(s, c, a) <= ssum(s, c, b),
    decreases b,
{
    if a < b { lemma_ssum_mono(s, c, a, b - 1); } else if a > 0 { lemma_ssum_mono(s, c, a - 1, a - 1); }
}
proof fn lemma_msum_entries<V>(s: Seq<(MerkleHash, V)>, m: Map<MerkleHash, V>, c: spec_fn(V) -> int)
    requires is_entries(s, m),
    ensures msum(m, c) == ssum(s, c, s.len() as int),
    decreases s.len(),
{
    if s.len() == 0 {
    } else {
        let n = s.len() as int; let k = s[n - 1].0; let s2 = s.drop_last(); let m2 = m.remove(k);
        assert(m.contains_key(k));
        lemma_msum_remove(m, c, k);
        assert forall|i: int| 0 <= i < n - 1 implies (#[trigger] s[i]).0 != k by {
            assert(hash_lt(s[i].0, s[n - 1].0));
            lemma_hash_order_total(s[i].0, k);
        }
        assert(is_entries(s2, m2)) by {
            assert forall|i: int| 0 <= i < s2.len() implies m2.contains_key((#[trigger] s2[i]).0) && m2[s2[i].0] == s2[i].1 by {
                assert(s2[i] == s[i]);
            }
            assert forall|q: MerkleHash| m2.contains_key(q) implies exists|i: int| 0 <= i < s2.len() && (#[trigger] s2[i]).0 == q by {
                let i = choose|i: int| 0 <= i < s.len() && (#[trigger] s[i]).0 == q;
                assert(s2[i] == s[i]);
            }
            assert forall|i: int, j: int| 0 <= i < j < s2.len() implies hash_lt((#[trigger] s2[i]).0, (#[trigger] s2[j]).0) by {
                assert(s2[i] == s[i] && s2[j] == s[j]);
            }
        }
        lemma_msum_entries(s2, m2, c);
        lemma_ssum_prefix(s2, s, c, n - 1);
    }
}
// along the key order the contributions add up to the section sizes plus the lookup tables
proof fn lemma_ssum_files(s: Seq<(MerkleHash, MDBFileInfo)>, k: int)
    requires 0 <= k <= s.len(),
    ensures ssum(s, fc(), k) == file_pos(0, file_hdrs(s), k) + 12 * k,
    decreases k,
{
    if k > 0 { lemma_ssum_files(s, k - 1); }
}
proof fn lemma_ssum_cas(s: Seq<(MerkleHash, Arc<MDBCASInfo>)>, k: int)
    requires 0 <= k <= s.len(), forall|q: int| 0 <= q < s.len() ==> cas_info_wf(*(#[trigger] s[q]).1),
    ensures ssum(s, cc(), k) == cas_pos(0, cas_hdrs(s), k) + 12 * k + 16 * chunk_total(s, k),
    decreases k,
{
    if k > 0 { lemma_ssum_cas(s, k - 1); }
}

impl FileDataSequenceHeader {
//@ extract mdb_shard/src/file_structs.rs in `impl FileDataSequenceHeader` fn num_info_entry_following
//@ ret r
//@ contract
        requires 2 * self.num_entries + 1 <= u32::MAX,
        ensures r == following(*self),
//@ end
}
impl MDBFileInfo {
//@ extract mdb_shard/src/file_structs.rs in `impl MDBFileInfo` fn num_bytes
//@ ret r
//@ contract
        requires 2 * self.metadata.num_entries + 1 <= u32::MAX,
        // = the number of bytes `serialize` writes for a well-formed record (48 + 48*following, see MDBFileInfo::serialize above)
        ensures r == 48 + 48 * following(self.metadata),
//@ end
}
impl MDBCASInfo {
//@ extract mdb_shard/src/cas_structs.rs in `impl MDBCASInfo` fn num_bytes
//@ ret r
//@ contract
        requires self.chunks@.len() <= u32::MAX,
        ensures r == 48 + 48 * self.chunks@.len(),
//@ end
}
impl MDBShardInfo {
//@ extract mdb_shard/src/shard_format.rs in `impl MDBShardInfo` fn non_content_byte_size
//@ ret r
//@ contract
        // header 48 + footer 200 + the two bookends
        ensures r == 344,
//@ end
}
proof fn lemma_contribs_nonneg()
    ensures forall|v: MDBFileInfo| #[trigger] fc()(v) >= 0, forall|a: Arc<MDBCASInfo>| #[trigger] cc()(a) >= 0,
{}
impl MDBInMemoryShard {
    // the arithmetic of num_bytes / num_info_entry_following stays inside u32 / usize for every stored record
    spec fn vals_ok(&self) -> bool {
        &&& forall|k: MerkleHash| #[trigger] self.cas_content@.contains_key(k) ==> self.cas_content@[k].chunks@.len() <= u32::MAX
        &&& forall|k: MerkleHash| #[trigger] self.file_content@.contains_key(k) ==> 2 * self.file_content@[k].metadata.num_entries + 1 <= u32::MAX
    }
    // THE COUNTER INVARIANT: current_shard_file_size == sum over xorbs (num_bytes + 12 + 16*|chunks|) + sum over files (num_bytes + 12)
    spec fn counter_inv(&self) -> bool {
        &&& self.vals_ok()
        &&& self.current_shard_file_size == msum(self.cas_content@, cc()) + msum(self.file_content@, fc())
    }

//@ extract mdb_shard/src/shard_in_memory.rs in `impl MDBInMemoryShard` fn shard_file_size
//@ ret r
//@ contract
        requires self.current_shard_file_size + 344 <= u64::MAX,
        ensures r == self.current_shard_file_size + 344,
//@ end

//@ extract mdb_shard/src/shard_in_memory.rs in `impl MDBInMemoryShard` fn add_file_reconstruction_info
//@ ret r
//@ contract
        requires
            old(self).counter_inv(),
            2 * file_info.metadata.num_entries + 1 <= u32::MAX,
            old(self).current_shard_file_size + file_contrib(file_info) <= u64::MAX,
        ensures
            r is Ok,
            // the record is filed under its own hash (the key/record agreement `files_ok` needs), replacing a record with that hash
            /*@C11,C09*/ final(self).file_content@ == old(self).file_content@.insert(file_info.metadata.file_hash, file_info),
            // the counter invariant is preserved, whether the hash is fresh or replaces a record
            /*@C09*/ final(self).counter_inv(),
            /*@AUX*/ final(self).cas_content@ == old(self).cas_content@, final(self).chunk_hash_lookup@ == old(self).chunk_hash_lookup@,
//@ body-start
        proof {
            axiom_merklehash_total_order();
            lemma_contribs_nonneg();
            let h = file_info.metadata.file_hash;
            lemma_msum_insert(self.file_content@, fc(), h, file_info);
            lemma_msum_nonneg(self.cas_content@, cc());
            if self.file_content@.contains_key(h) { lemma_msum_ge(self.file_content@, fc(), h); }
        }
//@ end

//@ extract mdb_shard/src/shard_in_memory.rs in `impl MDBInMemoryShard` fn add_cas_block
//@ ret r
//@ rules R4a R4n
//@ contract
        requires
            old(self).counter_inv(),
            cas_block_contents.chunks@.len() <= u32::MAX,
            old(self).current_shard_file_size + cas_contrib(cas_block_contents) <= u64::MAX,
        ensures
            r is Ok,
            // (shared with U-IMS, prelude/ims_counter.rs) stored under its own hash, other entries untouched, counter delta
            /*@C11,C09*/ add_cas_counter_post(old(self).cas_content@, old(self).current_shard_file_size, final(self).cas_content@,
                                              final(self).current_shard_file_size, cas_block_contents),
            /*@C09*/ final(self).counter_inv(),
            /*@AUX*/ final(self).file_content@ == old(self).file_content@,
//@ body-start
        let ghost cas0 = self.cas_content@; let ghost size0 = self.current_shard_file_size; let ghost h = cas_block_contents.metadata.cas_hash;
        let ghost n = cas_block_contents.chunks@.len() as int;
        proof {
            axiom_merklehash_total_order();
            lemma_contribs_nonneg();
            lemma_msum_nonneg(self.file_content@, fc());
            if cas0.contains_key(h) { lemma_msum_ge(cas0, cc(), h); }
        }
//@ loop 1
            invariant
                *dest_content_v == cas_block_contents, n == cas_block_contents.chunks@.len(), n <= u32::MAX,
                /*@C11,C09*/ self.file_content@ == old(self).file_content@, self.cas_content@ == cas0.insert(h, dest_content_v),
                cas0 == old(self).cas_content@, size0 == old(self).current_shard_file_size, h == cas_block_contents.metadata.cas_hash,
                size0 + cas_contrib(cas_block_contents) <= u64::MAX,
                cas0.contains_key(h) ==> size0 >= cas_contrib(*cas0[h]),
                /*@C09*/ self.current_shard_file_size == size0 - (if cas0.contains_key(h) { cas_contrib(*cas0[h]) } else { 0 }) + 16 * i,
//@ before `Ok(())`
        proof {
            lemma_msum_insert(cas0, cc(), h, dest_content_v);
            assert forall|k: MerkleHash| #[trigger] self.cas_content@.contains_key(k) implies self.cas_content@[k].chunks@.len() <= u32::MAX by {
                if k != h { assert(cas0.contains_key(k)); }
            }
        }
//@ end

//@ extract mdb_shard/src/shard_in_memory.rs in `impl MDBInMemoryShard` fn recalculate_shard_size
//@ rules R4n
//@ contract
        requires
            old(self).vals_ok(),
            msum(old(self).cas_content@, cc()) + msum(old(self).file_content@, fc()) <= u64::MAX,
        ensures
            // the recomputation establishes the counter invariant (it is what `union` / `difference` call)
            /*@C09*/ final(self).counter_inv(),
            /*@AUX*/ final(self).cas_content@ == old(self).cas_content@, final(self).file_content@ == old(self).file_content@,
            /*@AUX*/ final(self).chunk_hash_lookup@ == old(self).chunk_hash_lookup@,
//@ body-start
        let ghost cm = self.cas_content@; let ghost fm = self.file_content@;
        proof {
            axiom_merklehash_total_order();
            lemma_contribs_nonneg();
            lemma_msum_nonneg(cm, cc()); lemma_msum_nonneg(fm, fc());
            assert forall|r: Seq<(&MerkleHash, &Arc<MDBCASInfo>)>| #[trigger] iter_entries(r, cm) implies
                is_entries(own(r), cm) && msum(cm, cc()) == ssum(own(r), cc(), r.len() as int) by {
                lemma_entries_from_iter(r, cm); lemma_msum_entries(own(r), cm, cc());
            }
            assert forall|r: Seq<(&MerkleHash, &MDBFileInfo)>| #[trigger] iter_entries(r, fm) implies
                is_entries(own(r), fm) && msum(fm, fc()) == ssum(own(r), fc(), r.len() as int) by {
                lemma_entries_from_iter(r, fm); lemma_msum_entries(own(r), fm, fc());
            }
        }
//@ loop 1
            invariant
                cm == self.cas_content@, fm == self.file_content@, self.vals_ok(), *self == *old(self),
                msum(cm, cc()) + msum(fm, fc()) <= u64::MAX, msum(fm, fc()) >= 0,
                forall|v: MDBFileInfo| #[trigger] fc()(v) >= 0, forall|a: Arc<MDBCASInfo>| #[trigger] cc()(a) >= 0,
                forall|r: Seq<(&MerkleHash, &Arc<MDBCASInfo>)>| #[trigger] iter_entries(r, cm) ==> is_entries(own(r), cm) && msum(cm, cc()) == ssum(own(r), cc(), r.len() as int),
                forall|r: Seq<(&MerkleHash, &MDBFileInfo)>| #[trigger] iter_entries(r, fm) ==> is_entries(own(r), fm) && msum(fm, fc()) == ssum(own(r), fc(), r.len() as int),
                iter_entries(vx_it1.seq(), cm),
                /*@C09*/ num_bytes == ssum(own(vx_it1.seq()), cc(), vx_it1.index@ as int),
            ensures /*@C09*/ num_bytes == msum(cm, cc()),
//@ before `num_bytes += cas_block_contents.num_bytes();`
            proof {
                let s = own(vx_it1.seq()); let i = vx_it1.index@ as int;
                assert(cm.contains_key(*vx_it1.seq()[i].0));
                lemma_ssum_mono(s, cc(), i + 1, s.len() as int);
                assert(ssum(s, cc(), i + 1) == ssum(s, cc(), i) + cc()(s[i].1));
            }
//@ loop 2
            invariant
                cm == self.cas_content@, fm == self.file_content@, self.vals_ok(), *self == *old(self),
                msum(cm, cc()) + msum(fm, fc()) <= u64::MAX, msum(cm, cc()) >= 0,
                forall|v: MDBFileInfo| #[trigger] fc()(v) >= 0,
                forall|r: Seq<(&MerkleHash, &MDBFileInfo)>| #[trigger] iter_entries(r, fm) ==> is_entries(own(r), fm) && msum(fm, fc()) == ssum(own(r), fc(), r.len() as int),
                iter_entries(vx_it2.seq(), fm),
                /*@C09*/ num_bytes == msum(cm, cc()) + ssum(own(vx_it2.seq()), fc(), vx_it2.index@ as int),
            ensures /*@C09*/ num_bytes == msum(cm, cc()) + msum(fm, fc()),
//@ before `num_bytes += file_info.num_bytes();`
            proof {
                let s = own(vx_it2.seq()); let i = vx_it2.index@ as int;
                assert(fm.contains_key(*vx_it2.seq()[i].0));
                lemma_ssum_mono(s, fc(), i + 1, s.len() as int);
                assert(ssum(s, fc(), i + 1) == ssum(s, fc(), i) + fc()(s[i].1));
            }
//@ end
}
// C09 "its size ... equal[s] the in-memory accounting": under the counter invariant, shard_file_size() is exactly the number of bytes
// serialize_from writes (n below; `size_is_model` is serialize_from's second postcondition, `r == counter + 344` is shard_file_size's)
proof fn lemma_size_exact(mdb: MDBInMemoryShard, n: int)
    requires mdb.counter_inv(), cas_ok(mdb.cas_content@), size_is_model(mdb, n),
    ensures /*@C09*/ n == mdb.current_shard_file_size + 344,
{
    let (sf, sc) = choose|sf: Seq<(MerkleHash, MDBFileInfo)>, sc: Seq<(MerkleHash, Arc<MDBCASInfo>)>|
        is_entries(sf, mdb.file_content@) && is_entries(sc, mdb.cas_content@) && n == #[trigger] model_size(sf, sc);
    assert forall|q: int| 0 <= q < sc.len() implies cas_info_wf(*(#[trigger] sc[q]).1) by { assert(mdb.cas_content@.contains_key(sc[q].0)); }
    lemma_msum_entries(sf, mdb.file_content@, fc());
    lemma_msum_entries(sc, mdb.cas_content@, cc());
    lemma_ssum_files(sf, sf.len() as int);
    lemma_ssum_cas(sc, sc.len() as int);
    lemma_cas_count_le(0, sc, sc.len() as int);
}

} // verus!
fn main() {}
