//@ unit U-SHWRITE
//@ props C09 C05 C11
//@ verus-args --rlimit 100
//@ rules-from shwrite
//@ gsubst `<W: Write>` => `` :: R11 writer stub instead of the generic parameter
//@ gsubst `writer: &mut W` => `writer: &mut VxW` :: R11 append-only writer stub with ghost bytes
//@ gsubst `Result<usize, std::io::Error>` => `Result<usize>` :: R11 one error type for all stubs (no From conversion), as in U-SHSCAN
#![feature(allocator_api)]
#![allow(non_snake_case, unused)]
use vstd::prelude::*;
use vstd::std_specs::cmp::*;
use vstd::std_specs::btree::*;
use vstd::std_specs::iter::IteratorSpec;
use std::cmp::Ordering;
use std::mem::size_of;
use std::collections::{BTreeMap, HashMap};
use std::sync::Arc;
verus! {
global size_of usize == 8;
broadcast use vstd::std_specs::btree::group_btree_axioms;

//@ include prelude/setops_merklehash.rs
type HMACKey = MerkleHash;

// U-ISEARCH / U-SHLOOKUP vocabulary (reader model, table view, the predicates of the search contract), in its own module
// because prelude/shscan_io.rs also defines a `SeekFrom`
pub mod isx {
use vstd::prelude::*;
use vstd::set_lib::set_int_range;
//@ include prelude/isearch_specs.rs
}

//@ extract mdb_shard/src/file_structs.rs struct FileDataSequenceHeader
//@ end
//@ extract mdb_shard/src/file_structs.rs struct FileDataSequenceEntry
//@ end
//@ extract mdb_shard/src/file_structs.rs struct FileVerificationEntry
//@ end
//@ extract mdb_shard/src/file_structs.rs struct FileMetadataExt
//@ end
//@ extract mdb_shard/src/file_structs.rs struct MDBFileInfo
//@ end
//@ extract mdb_shard/src/cas_structs.rs struct CASChunkSequenceHeader
//@ end
//@ extract mdb_shard/src/cas_structs.rs struct CASChunkSequenceEntry
//@ end
//@ extract mdb_shard/src/cas_structs.rs struct MDBCASInfo
//@ end
//@ extract mdb_shard/src/shard_format.rs struct MDBShardFileHeader
//@ end
//@ extract mdb_shard/src/shard_format.rs struct MDBShardFileFooter
//@ end
//@ extract mdb_shard/src/shard_format.rs struct MDBShardInfo
//@ end
//@ extract mdb_shard/src/file_structs.rs const MDB_FILE_FLAG_VERIFICATION_MASK
//@ end
//@ extract mdb_shard/src/file_structs.rs const MDB_FILE_FLAG_METADATA_EXT_MASK
//@ end
// shard_format.rs: `size_of::<[u64; 4]>() + 4 * size_of::<u32>()`, const_assert'ed there to equal the size of each 48-byte record
// (`size_of` in a const initialiser is not accepted by Verus)
const MDB_FILE_INFO_ENTRY_SIZE: usize = 48;
global size_of FileDataSequenceHeader == 48;
global size_of FileDataSequenceEntry == 48;
global size_of FileVerificationEntry == 48;
global size_of FileMetadataExt == 48;
global size_of CASChunkSequenceHeader == 48;
global size_of CASChunkSequenceEntry == 48;

//@ include prelude/shscan_io.rs
//@ include prelude/shwrite_sections.rs
//@ include prelude/shwrite_io.rs

// the items a slice iterator yields are references to the elements, in order
spec fn refs_of<T>(r: Seq<&T>, s: Seq<T>) -> bool {
    r.len() == s.len() && forall|j: int| 0 <= j < r.len() ==> *(#[trigger] r[j]) == s[j]
}
#[verifier::external_body] fn vx_abort() ensures false { panic!() }

// ---- in-memory records that serialize to exactly themselves -------------------------------------------------------------
// (MDBFileInfo::serialize writes `segments.len()` entries, the verification entries iff the FLAG is set and the metadata-ext
//  iff the OPTION is Some; the readers go by the header.  The two views agree exactly for well-formed records.)
spec fn file_info_wf(f: MDBFileInfo) -> bool {
    let n = f.metadata.num_entries as int;
    &&& f.segments@.len() == n
    &&& f.verification@.len() == (if has_verif(f.metadata) { n } else { 0 })
    &&& (f.metadata_ext is Some) == has_ext(f.metadata)
}

impl FileDataSequenceHeader {
//@ extract mdb_shard/src/file_structs.rs in `impl FileDataSequenceHeader` fn contains_metadata_ext
//@ ret r
//@ contract
    ensures r == has_ext(*self),
//@ end
//@ extract mdb_shard/src/file_structs.rs in `impl FileDataSequenceHeader` fn contains_verification
//@ ret r
//@ contract
    ensures r == has_verif(*self),
//@ end
}

proof fn lemma_file_block_keeps(w0: VxW, w1: VxW, p: int, f: MDBFileInfo)
    requires keeps(w0, w1), file_block_ok(w0.bytes@, p, f), 0 <= p, p + 48 + 48 * following(f.metadata) <= w0.len(), file_info_wf(f),
    ensures file_block_ok(w1.bytes@, p, f),
{
    let n = f.metadata.num_entries as int;
    let d0 = w0.bytes@; let d1 = w1.bytes@;
    assert(decodes(d0, p, Tok::FileHdr(f.metadata)));
    assert forall|j: int| 0 <= j < n implies #[trigger] f.segments@[j] == file_entry_at(d1, p + 48 + 48 * j) by {
        assert(decodes(d0, p + 48 + 48 * j, Tok::FileEntry(f.segments@[j])));
    }
    assert forall|j: int| 0 <= j < f.verification@.len() implies #[trigger] f.verification@[j] == verif_at(d1, p + 48 + 48 * n + 48 * j) by {
        assert(decodes(d0, p + 48 + 48 * n + 48 * j, Tok::Verif(f.verification@[j])));
    }
    if has_ext(f.metadata) {
        assert(decodes(d0, p + 48 + 48 * (following(f.metadata) - 1), Tok::Ext(f.metadata_ext->Some_0)));
    }
}

impl MDBFileInfo {
//@ extract mdb_shard/src/file_structs.rs in `impl MDBFileInfo` fn contains_verification
//@ ret r
//@ contract
    ensures r == has_verif(self.metadata),
//@ end

//@ extract mdb_shard/src/file_structs.rs in `impl MDBFileInfo` fn serialize
//@ ret r
//@ rules R4n
//@ contract
        requires file_info_wf(*self),
        ensures
            r matches Ok(n) ==> n == 48 + 48 * following(self.metadata)
                && final(writer).len() == old(writer).len() + n
                && keeps(*old(writer), *final(writer))
                // the block written at the old end of the output decodes (U-SHSCAN's `MDBFileInfo::deserialize` contract) to *self
                && file_block_ok(final(writer).bytes@, old(writer).len(), *self),
//@ after `let mut bytes_written = 0;`
        let ghost w0 = *writer; let ghost p = writer.len(); let ghost nn = self.metadata.num_entries as int;
//@ loop 1
            invariant
                file_info_wf(*self), nn == self.metadata.num_entries, p == w0.len(), w0 == *old(writer),
                refs_of(vx_it1.seq(), self.segments@),
                bytes_written == 48 + 48 * vx_it1.index@, writer.len() == p + bytes_written, keeps(w0, *writer),
                decodes(writer.bytes@, p, Tok::FileHdr(self.metadata)),
                forall|j: int| 0 <= j < vx_it1.index@ ==> decodes(writer.bytes@, p + 48 + 48 * j, Tok::FileEntry(#[trigger] self.segments@[j])),
//@ loop 2
                invariant
                    file_info_wf(*self), nn == self.metadata.num_entries, p == w0.len(), w0 == *old(writer), has_verif(self.metadata),
                    refs_of(vx_it2.seq(), self.verification@),
                    bytes_written == 48 + 48 * nn + 48 * vx_it2.index@, writer.len() == p + bytes_written, keeps(w0, *writer),
                    decodes(writer.bytes@, p, Tok::FileHdr(self.metadata)),
                    forall|j: int| 0 <= j < nn ==> decodes(writer.bytes@, p + 48 + 48 * j, Tok::FileEntry(#[trigger] self.segments@[j])),
                    forall|j: int| 0 <= j < vx_it2.index@ ==> decodes(writer.bytes@, p + 48 + 48 * nn + 48 * j, Tok::Verif(#[trigger] self.verification@[j])),
//@ end
}

// mdb_shard::utils::truncate_hash: `hash.deref()[0]`
spec fn spec_truncate(h: MerkleHash) -> u64 { h.0[0] }
#[verifier::external_body]
fn truncate_hash(hash: &MerkleHash) -> (r: u64) ensures r == spec_truncate(*hash) { unimplemented!() }

// ---- a BTreeMap's entries in iteration order -----------------------------------------------------------------------------
// what vstd's specification of `BTreeMap::iter` gives for the sequence of items the iterator yields
spec fn iter_entries<V>(r: Seq<(&MerkleHash, &V)>, m: Map<MerkleHash, V>) -> bool {
    &&& r.len() == m.len()
    &&& increasing_seq(r.map_values(|kv: (&MerkleHash, &V)| *kv.0))
    &&& forall|i: int| 0 <= i < r.len() ==> m.contains_key(*(#[trigger] r[i]).0) && m[*r[i].0] == *r[i].1
    &&& forall|k: MerkleHash| m.contains_key(k) ==> exists|i: int| 0 <= i < r.len() && *(#[trigger] r[i]).0 == k
}
spec fn own<V>(r: Seq<(&MerkleHash, &V)>) -> Seq<(MerkleHash, V)> { Seq::new(r.len(), |i: int| (*r[i].0, *r[i].1)) }
// `s` lists the entries of `m` in strictly increasing hash order (lexicographic on the four words = `Ord for DataHash`)
spec fn is_entries<V>(s: Seq<(MerkleHash, V)>, m: Map<MerkleHash, V>) -> bool {
    &&& s.len() == m.len()
    &&& forall|i: int, j: int| 0 <= i < j < s.len() ==> hash_lt((#[trigger] s[i]).0, (#[trigger] s[j]).0)
    &&& forall|i: int| 0 <= i < s.len() ==> m.contains_key((#[trigger] s[i]).0) && m[s[i].0] == s[i].1
    &&& forall|k: MerkleHash| m.contains_key(k) ==> exists|i: int| 0 <= i < s.len() && (#[trigger] s[i]).0 == k
}
proof fn lemma_entries_from_iter<V>(r: Seq<(&MerkleHash, &V)>, m: Map<MerkleHash, V>)
    requires iter_entries(r, m),
    ensures is_entries(own(r), m),
{
    let s = own(r);
    let ks = r.map_values(|kv: (&MerkleHash, &V)| *kv.0);
    axiom_increasing_seq_meaning::<MerkleHash>(ks);
    assert forall|i: int, j: int| 0 <= i < j < s.len() implies hash_lt((#[trigger] s[i]).0, (#[trigger] s[j]).0) by {
        assert(ks[i] == s[i].0 && ks[j] == s[j].0);
        assert(vstd::std_specs::cmp::OrdSpec::cmp_spec(&ks[i], &ks[j]) == Ordering::Less);
    }
    assert forall|i: int| 0 <= i < s.len() implies m.contains_key((#[trigger] s[i]).0) && m[s[i].0] == s[i].1 by {
        assert(m.contains_key(*r[i].0));
    }
    assert forall|k: MerkleHash| m.contains_key(k) implies exists|i: int| 0 <= i < s.len() && (#[trigger] s[i]).0 == k by {
        let i = choose|i: int| 0 <= i < r.len() && *(#[trigger] r[i]).0 == k;
        assert(s[i].0 == k);
    }
}
// the truncated hash is monotone in the hash order: word 0 is the most significant word
proof fn lemma_truncate_monotone(a: MerkleHash, b: MerkleHash)
    requires hash_lt(a, b),
    ensures spec_truncate(a) <= spec_truncate(b),
{}

// ---- file section ------------------------------------------------------------------------------------------------------------
spec fn file_hdrs(s: Seq<(MerkleHash, MDBFileInfo)>) -> Seq<FileDataSequenceHeader> { Seq::new(s.len(), |k: int| s[k].1.metadata) }
proof fn lemma_file_pos_mono(off: int, sec: Seq<FileDataSequenceHeader>, a: int, b: int)
    requires 0 <= a <= b <= sec.len(),
    ensures file_pos(off, sec, a) <= file_pos(off, sec, b),
    decreases b - a,
{
    if a < b { lemma_file_pos_mono(off, sec, a, b - 1); lemma_file_pos_step(off, sec, b - 1); }
}
// file_pos only looks at the headers before k
proof fn lemma_file_pos_prefix(off: int, s1: Seq<FileDataSequenceHeader>, s2: Seq<FileDataSequenceHeader>, k: int)
    requires 0 <= k <= s1.len(), k <= s2.len(), forall|j: int| 0 <= j < k ==> s1[j] == s2[j],
    ensures file_pos(off, s1, k) == file_pos(off, s2, k),
    decreases k,
{
    if k > 0 { lemma_file_pos_prefix(off, s1, s2, k - 1); }
}
// requirement on the in-memory file records (an invariant of MDBInMemoryShard, see `ims_files_ok`)
spec fn files_ok(m: Map<MerkleHash, MDBFileInfo>) -> bool {
    forall|k: MerkleHash| #[trigger] m.contains_key(k) ==> file_info_wf(m[k]) && m[k].metadata.file_hash == k && k != bookend_hash()
}
proof fn lemma_file_pos_shift(off: int, sec: Seq<FileDataSequenceHeader>, k: int)
    requires 0 <= k <= sec.len(),
    ensures file_pos(off, sec, k) == off + file_pos(0, sec, k),
    decreases k,
{
    if k > 0 { lemma_file_pos_shift(off, sec, k - 1); }
}
// state of convert_and_save_file_info after i entries of the order s (index = ordinal of the next record)
spec fn conv_file_inv(s: Seq<(MerkleHash, MDBFileInfo)>, w0: VxW, w: VxW, keys: Seq<u64>, vals: Seq<u32>, index: int, i: int) -> bool {
    let sec = file_hdrs(s); let p0 = w0.len();
    &&& 0 <= i <= s.len()
    &&& keeps(w0, w) && w.len() == p0 + 48 * index && p0 + 48 * index == file_pos(p0, sec, i)
    &&& keys.len() == i && vals.len() == i
    &&& forall|k: int| 0 <= k < i ==> #[trigger] keys[k] == spec_truncate(s[k].0)
    &&& forall|k: int| 0 <= k < i ==> p0 + 48 * (#[trigger] vals[k]) == file_pos(p0, sec, k)
    &&& forall|k: int| 0 <= k < i ==> file_block_ok(w.bytes@, #[trigger] file_pos(p0, sec, k), s[k].1)
}
// what convert_and_save_file_info produced, for the entry order s
spec fn conv_file_post(s: Seq<(MerkleHash, MDBFileInfo)>, w0: VxW, w1: VxW, keys: Seq<u64>, vals: Seq<u32>, n: int) -> bool {
    let sec = file_hdrs(s); let p0 = w0.len(); let cnt = s.len() as int;
    &&& keeps(w0, w1) && w1.len() == p0 + n && n == file_pos(p0, sec, cnt) - p0 + 48
    &&& keys.len() == cnt && vals.len() == cnt
    // lookup table: (truncated hash, ordinal of the record's header among the 48-byte records of the section), key order
    &&& forall|k: int| 0 <= k < cnt ==> #[trigger] keys[k] == spec_truncate(s[k].0)
    &&& forall|k: int| 0 <= k < cnt ==> p0 + 48 * (#[trigger] vals[k]) == file_pos(p0, sec, k)
    &&& forall|i: int, j: int| 0 <= i <= j < cnt ==> #[trigger] keys[i] <= #[trigger] keys[j]
    // the bytes are the section (U-SHSCAN's model) of exactly these records, each block decoding to the in-memory record
    &&& file_section(w1.bytes@, p0, sec)
    &&& forall|k: int| 0 <= k < cnt ==> file_block_ok(w1.bytes@, #[trigger] file_pos(p0, sec, k), s[k].1)
}
// the loop is done and the bookend has been written: the section is complete
proof fn lemma_conv_file_done(s: Seq<(MerkleHash, MDBFileInfo)>, m: Map<MerkleHash, MDBFileInfo>, w0: VxW, wb: VxW, w1: VxW,
        keys: Seq<u64>, vals: Seq<u32>, index: int)
    requires
        is_entries(s, m), files_ok(m), conv_file_inv(s, w0, wb, keys, vals, index, s.len() as int),
        keeps(wb, w1), w1.len() == wb.len() + 48, file_hdr_at(w1.bytes@, wb.len()).file_hash == bookend_hash(),
    ensures conv_file_post(s, w0, w1, keys, vals, 48 * index + 48),
{
    let sec = file_hdrs(s); let p0 = w0.len(); let cnt = s.len() as int;
    assert forall|k: int| 0 <= k < cnt implies file_block_ok(w1.bytes@, #[trigger] file_pos(p0, sec, k), s[k].1)
        && file_hdr_at(w1.bytes@, file_pos(p0, sec, k)) == sec[k] && sec[k].file_hash != bookend_hash() by {
        lemma_file_pos_step(p0, sec, k);
        lemma_file_pos_mono(p0, sec, k + 1, cnt);
        lemma_file_pos_mono(p0, sec, 0, k);
        assert(m.contains_key(s[k].0));
        lemma_file_block_keeps(wb, w1, file_pos(p0, sec, k), s[k].1);
    }
    assert forall|i: int, j: int| 0 <= i <= j < cnt implies #[trigger] keys[i] <= #[trigger] keys[j] by {
        if i < j { lemma_truncate_monotone(s[i].0, s[j].0); }
    }
}

impl MDBShardInfo {
//@ extract mdb_shard/src/shard_format.rs in `impl MDBShardInfo` fn convert_and_save_file_info
//@ ret r
//@ rules R4i R4n
//@ contract
        requires
            files_ok(file_content@),
            // the u32 ordinal and the byte counter do not overflow: fewer than 2^32 48-byte records in the section
            forall|s: Seq<(MerkleHash, MDBFileInfo)>| #[trigger] is_entries(s, file_content@) ==> file_pos(0, file_hdrs(s), s.len() as int) + 48 <= 48 * 0xFFFF_FFFF,
        ensures
            /*@C09*/ r matches Ok(((keys, vals), n)) ==> exists|s: Seq<(MerkleHash, MDBFileInfo)>| #[trigger] is_entries(s, file_content@)
                && conv_file_post(s, *old(writer), *final(writer), keys@, vals@, n as int),
//@ after `let mut bytes_written = 0;`
        let ghost w0 = *writer; let ghost p0 = writer.len(); let ghost m = file_content@;
        let ghost mut wb = *writer;
        proof {
            assert forall|r: Seq<(&MerkleHash, &MDBFileInfo)>| #[trigger] iter_entries(r, m) implies is_entries(own(r), m) by { lemma_entries_from_iter(r, m); }
        }
//@ loop 1
            invariant
                w0 == *old(writer), p0 == w0.len(), m == file_content@, files_ok(m),
                forall|s: Seq<(MerkleHash, MDBFileInfo)>| #[trigger] is_entries(s, m) ==> file_pos(0, file_hdrs(s), s.len() as int) + 48 <= 48 * 0xFFFF_FFFF,
                forall|r: Seq<(&MerkleHash, &MDBFileInfo)>| #[trigger] iter_entries(r, m) ==> is_entries(own(r), m),
                iter_entries(vx_it1.seq(), m),
                bytes_written == 48 * index,
                conv_file_inv(own(vx_it1.seq()), w0, *writer, file_lookup_keys@, file_lookup_vals@, index as int, vx_it1.index@ as int),
            ensures
                bytes_written == 48 * index,
                exists|s: Seq<(MerkleHash, MDBFileInfo)>| #[trigger] is_entries(s, m)
                    && conv_file_inv(s, w0, *writer, file_lookup_keys@, file_lookup_vals@, index as int, s.len() as int),
//@ before `let bytes = content.serialize(writer)?;`
            proof {
                wb = *writer;
                let s = own(vx_it1.seq()); let sec = file_hdrs(s); let i = vx_it1.index@ as int;
                assert(m.contains_key(*vx_it1.seq()[i].0));
                lemma_file_pos_step(p0, sec, i);
                lemma_file_pos_mono(p0, sec, i + 1, s.len() as int);
                lemma_file_pos_shift(p0, sec, s.len() as int);
            }
//@ after `let bytes = content.serialize(writer)?;`
            proof {
                let s = own(vx_it1.seq()); let sec = file_hdrs(s); let i = vx_it1.index@ as int;
                assert forall|k: int| 0 <= k < i implies file_block_ok(writer.bytes@, #[trigger] file_pos(p0, sec, k), s[k].1) by {
                    lemma_file_pos_step(p0, sec, k);
                    lemma_file_pos_mono(p0, sec, k + 1, i);
                    lemma_file_pos_mono(p0, sec, 0, k);
                    assert(m.contains_key(*vx_it1.seq()[k].0));
                    lemma_file_block_keeps(wb, *writer, file_pos(p0, sec, k), s[k].1);
                }
            }
//@ before `bytes_written += FileDataSequenceHeader::bookend()`
        let ghost ents = choose|s: Seq<(MerkleHash, MDBFileInfo)>| #[trigger] is_entries(s, m)
                    && conv_file_inv(s, w0, *writer, file_lookup_keys@, file_lookup_vals@, index as int, s.len() as int);
        proof {
            wb = *writer;
            lemma_file_pos_shift(p0, file_hdrs(ents), ents.len() as int);
        }
//@ before `Ok(((file_lookup_keys, file_lookup_vals), bytes_written))`
        proof {
            lemma_conv_file_done(ents, m, w0, wb, *writer, file_lookup_keys@, file_lookup_vals@, index as int);
        }
//@ end
}

} // verus!
fn main() {}
