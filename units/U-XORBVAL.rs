//@ unit U-XORBVAL
//@ props C08 C06
//@ verus-args --rlimit 100
//@ rules-from xorbidx
//@ gsubst `anyhow::Error` => `AnyhowError` :: R11 stub type for the anyhow dependency (opaque error value)
//@ gsubst `std::io::Error` => `IoError` :: R11 stub type (opaque error value)
//@ gsubst `lz4_flex::frame::Error` => `Lz4Error` :: R11 stub type (opaque error value)
//@ gsubst `Infallible` => `VxInfallible` :: R11 stub type (opaque error value)
//@ gsubst `std::io::SeekFrom` => `SeekFrom` :: R11 stub enum for std::io::SeekFrom (same variants)
//@ gsubst `merklehash::compute_data_hash` => `compute_data_hash` :: R11 stub for the merklehash dependency (uninterpreted chunk hash)
//@ gsubst `size_of_val` => `vx_size_of_val` :: R11 stub for std::mem::size_of_val (sizes of the argument types used: u32, [u8;16])
//@ gsubst `futures::io::AsyncRead` => `AsyncRead` :: R11 stub trait (after R1 the async reader is read sequentially; same ghost model as Read)
//@ gsubst `size_of::<CasObjectIdent>()` => `vx_size_of_ident()` :: R11 stub: size_of::<[u8; 7]>() == 7 (vstd has no array layout facts)
//@ gsubst `Vec::with_capacity(` => `vx_with_capacity(` :: R11 stub for Vec::with_capacity carrying the allocation cap of C08 as precondition
//@ gsubst `u32::from_le_bytes` => `vx_u32_from_le_bytes` :: R11 stub for std u32::from_le_bytes (anonymous-const array type cannot be named in assume_specification; value unconstrained)
//@ gsubst `DataHash` => `MerkleHash` :: `merklehash::MerkleHash` is an alias of `DataHash` (merklehash/src/lib.rs:49)
#![allow(non_snake_case, unused)]
use vstd::prelude::*;
use std::mem::size_of;
verus! {
global size_of usize == 8;

//@ include prelude/xorbidx_types.rs

//@ extract cas_object/src/error.rs enum CasObjectError
//@ end
//@ extract cas_object/src/cas_object_format.rs type CasObjectIdent
//@ end
//@ extract cas_object/src/cas_object_format.rs const CAS_OBJECT_FORMAT_IDENT
//@ end
//@ extract cas_object/src/cas_object_format.rs const CAS_OBJECT_FORMAT_VERSION_V0
//@ end
//@ extract cas_object/src/cas_object_format.rs const CAS_OBJECT_FORMAT_IDENT_HASHES
//@ end
//@ extract cas_object/src/cas_object_format.rs const CAS_OBJECT_FORMAT_IDENT_BOUNDARIES
//@ end
//@ extract cas_object/src/cas_object_format.rs const CAS_OBJECT_FORMAT_VERSION
//@ end
//@ extract cas_object/src/cas_object_format.rs const CAS_OBJECT_FORMAT_HASHES_VERSION
//@ end
//@ extract cas_object/src/cas_object_format.rs const CAS_OBJECT_FORMAT_BOUNDARIES_VERSION_NO_UNPACKED_INFO
//@ end
//@ extract cas_object/src/cas_object_format.rs const CAS_OBJECT_FORMAT_BOUNDARIES_VERSION
//@ end
//@ extract merkledb/src/constants.rs const TARGET_CDC_CHUNK_SIZE
//@ end
//@ extract merkledb/src/constants.rs const IDEAL_CAS_BLOCK_SIZE
//@ end
//@ extract cas_object/src/cas_object_format.rs const AVERAGE_NUM_CHUNKS_PER_XORB
//@ end
//@ extract cas_object/src/cas_object_format.rs struct CasObjectInfoV0
//@ end
//@ extract cas_object/src/cas_object_format.rs struct CasObjectInfoV1
//@ end
//@ extract cas_object/src/cas_object_format.rs struct CasObject
//@ end
//@ extract merkledb/src/chunk_iterator.rs struct Chunk
//@ end

// ---- format errors become rejections (error.rs; the same item is under contract in U-FMTERR) -----------------------------
//@ extract cas_object/src/error.rs trait Validate
//@ subst `Result<Option<T>>` => `Result<Option<T>, CasObjectError>` :: expansion of the crate-local alias `type Result<T>` (error.rs:35)
//@ end
impl<T> Validate<T> for Result<T, CasObjectError> {
//@ extract cas_object/src/error.rs in `impl<T> Validate<T> for Result<T>` fn ok_for_format_error
//@ ret r
//@ subst `Result<Option<T>>` => `Result<Option<T>, CasObjectError>` :: expansion of the crate-local alias `type Result<T>` (error.rs:35)
//@ contract
        ensures
            /*@C08*/ match self {
                Ok(v) => r == Ok::<Option<T>, CasObjectError>(Some(v)),
                Err(CasObjectError::FormatError(_)) => r == Ok::<Option<T>, CasObjectError>(None),
                Err(e) => r == Err::<Option<T>, CasObjectError>(e),
            },
//@ end
}

// ---- reader stub (R11): ghost bytes + position ---------------------------------------------------------------------------
pub enum SeekFrom { Start(u64), End(i64), Current(i64) }
pub trait Read {
    spec fn bytes(&self) -> Seq<u8>;
    spec fn pos(&self) -> nat;
    // number of bytes consumed through this handle so far (what a countio::Counter wrapped around it reports)
    spec fn nread(&self) -> nat;
    // upper bound of nread: the bytes that were left in the underlying stream when counting started (nobody reads more than there is)
    spec fn navail(&self) -> nat;
    // std::io::Read::read_exact: fills the buffer from the current position or fails
    fn read_exact(&mut self, buf: &mut [u8]) -> (r: Result<(), IoError>)
        ensures
            final(self).bytes() == old(self).bytes(), final(buf)@.len() == old(buf)@.len(),
            r is Ok ==> old(self).pos() + old(buf)@.len() <= old(self).bytes().len() && final(self).pos() == old(self).pos() + old(buf)@.len();
}
#[verifier::external_body]
fn vx_u32_from_le_bytes(b: [u8; 4]) -> (r: u32) { u32::from_le_bytes(b) }
#[verifier::external_body]
fn vx_size_of_ident() -> (r: usize) ensures r == 7 { std::mem::size_of::<CasObjectIdent>() }
pub trait AsyncRead: Read {
    // AsyncReadExt::read: some bytes (possibly none) are read
    fn read(&mut self, buf: &mut [u8]) -> (r: Result<usize, IoError>)
        ensures final(self).bytes() == old(self).bytes(), final(buf)@.len() == old(buf)@.len();
}
pub trait Unpin {}
pub trait Seek: Read {
    // std::io::Seek::seek: the new position is returned; content never changes; on error the position is unspecified
    fn seek(&mut self, p: SeekFrom) -> (r: Result<u64, IoError>)
        ensures
            final(self).bytes() == old(self).bytes(),
            r matches Ok(n) ==> final(self).pos() == n && match p {
                SeekFrom::Start(x) => n == x,
                SeekFrom::End(d) => n == old(self).bytes().len() + d,
                SeekFrom::Current(d) => n == old(self).pos() + d,
            };
    fn stream_position(&mut self) -> (r: Result<u64, IoError>)
        ensures
            final(self).bytes() == old(self).bytes(), final(self).pos() == old(self).pos(),
            r matches Ok(n) ==> n == old(self).pos();
}

// ---- chunk decoding stub (cas_chunk_format.rs::deserialize_chunk) -----------------------------------------------------------
// the chunk found at `pos`: decoded data and number of bytes its serialized form claims (8-byte header + compressed length field)
pub uninterp spec fn spec_chunk_at(bytes: Seq<u8>, pos: nat) -> Option<(Seq<u8>, nat)>;
// reader position after the chunk at `pos` has been decoded (what the decoder actually consumed)
pub uninterp spec fn spec_chunk_end(bytes: Seq<u8>, pos: nat) -> nat;
pub uninterp spec fn spec_data_hash(data: Seq<u8>) -> MerkleHash;
#[verifier::external_body]
pub fn compute_data_hash(slice: &[u8]) -> (r: MerkleHash) ensures r == spec_data_hash(slice@) { unimplemented!() }
pub const MAX_3BYTE: usize = 0xFF_FFFF;
#[verifier::external_body]
pub fn deserialize_chunk<R: Read>(reader: &mut R) -> (r: Result<(Vec<u8>, usize, u32), CasObjectError>)
    ensures
        final(reader).bytes() == old(reader).bytes(),
        r matches Ok((data, clen, ulen)) ==> {
            // reads start inside the byte string and never move past its end
            &&& final(reader).pos() == spec_chunk_end(old(reader).bytes(), old(reader).pos()) && final(reader).pos() <= old(reader).bytes().len()
            &&& spec_chunk_at(old(reader).bytes(), old(reader).pos()) == Some((data@, clen as nat))
            // decoded length equals the header's uncompressed length (checked by deserialize_chunk_to_writer); both header lengths are 3-byte fields
            &&& ulen == data@.len() && ulen <= MAX_3BYTE
            &&& 8 <= clen <= 8 + MAX_3BYTE
            // the 8 header bytes were read from the reader
            &&& old(reader).pos() + 8 <= old(reader).bytes().len()
        },
{ unimplemented!() }

spec fn footer_tables_ok(cas: CasObject) -> bool {
    &&& cas.info.chunk_hashes@.len() == cas.info.num_chunks
    &&& cas.info.chunk_boundary_offsets@.len() == cas.info.num_chunks
    &&& (cas.info.boundaries_version == CAS_OBJECT_FORMAT_BOUNDARIES_VERSION ==> cas.info.unpacked_chunk_offsets@.len() == cas.info.num_chunks)
}

// ==== the footer parser CasObjectInfoV1::deserialize under contract: table lengths, arithmetic, bounded preallocation =========
// countio::Counter around the reader: only the running byte count is modelled (the parsed values are unconstrained, i.e. the
// proof holds for every byte string)
// (`data` = the bytes that will come through the counter: unconstrained, so every value read through it is arbitrary)
pub struct Counter { pub ghost n: nat, pub ghost avail: nat, pub ghost data: Seq<u8> }
impl Counter {
    #[verifier::external_body]
    fn new<R: Read>(r: &mut R) -> (c: Counter)
        ensures c.n == 0, final(r).bytes() == old(r).bytes(),
            // at most the bytes from the reader's position to its end can ever be counted
            c.avail == (if old(r).pos() <= old(r).bytes().len() { old(r).bytes().len() - old(r).pos() } else { 0 }),
    { unimplemented!() }
    #[verifier::external_body]
    fn reader_bytes(&self) -> (r: usize) requires self.n <= usize::MAX ensures r == self.n { unimplemented!() }
}
impl Read for Counter {
    open spec fn bytes(&self) -> Seq<u8> { self.data }
    open spec fn pos(&self) -> nat { self.n }
    open spec fn nread(&self) -> nat { self.n }
    open spec fn navail(&self) -> nat { self.avail }
    #[verifier::external_body]
    fn read_exact(&mut self, buf: &mut [u8]) -> (r: Result<(), IoError>) { unimplemented!() }
}
// utils::serialization_utils read helpers: Ok ==> exactly that many bytes were consumed
#[verifier::external_body]
fn read_bytes<R: Read>(reader: &mut R, val: &mut [u8]) -> (r: Result<(), IoError>)
    ensures final(val)@.len() == old(val)@.len(), final(reader).navail() == old(reader).navail(), final(reader).bytes() == old(reader).bytes(),
        r is Ok ==> final(reader).nread() == old(reader).nread() + old(val)@.len() && final(reader).nread() <= final(reader).navail() { unimplemented!() }
#[verifier::external_body]
fn read_u8<R: Read>(reader: &mut R) -> (r: Result<u8, IoError>)
    ensures final(reader).navail() == old(reader).navail(), final(reader).bytes() == old(reader).bytes(), r is Ok ==> final(reader).nread() == old(reader).nread() + 1 && final(reader).nread() <= final(reader).navail() { unimplemented!() }
#[verifier::external_body]
fn read_u32<R: Read>(reader: &mut R) -> (r: Result<u32, IoError>)
    ensures final(reader).navail() == old(reader).navail(), final(reader).bytes() == old(reader).bytes(),
        r matches Ok(v) ==> final(reader).nread() == old(reader).nread() + 4 && final(reader).nread() <= final(reader).navail()
            // the value is a function of the 4 bytes at the reader's position (little-endian decode, uninterpreted here)
            && v == spec_u32_at(old(reader).bytes(), old(reader).pos()) { unimplemented!() }
pub uninterp spec fn spec_u32_at(bytes: Seq<u8>, pos: nat) -> u32;
#[verifier::external_body]
fn read_hash<R: Read>(reader: &mut R) -> (r: Result<MerkleHash, IoError>)
    ensures final(reader).navail() == old(reader).navail(), final(reader).bytes() == old(reader).bytes(), r is Ok ==> final(reader).nread() == old(reader).nread() + 32 && final(reader).nread() <= final(reader).navail() { unimplemented!() }

// footer geometry (same definitions as in U-XORBIDX)
pub open spec fn hash_section_len(nh: nat) -> nat { 7 + 1 + 4 + 32 * nh }
pub open spec fn boundary_section_len(nb: nat, nu: nat) -> nat { 7 + 1 + 4 + 4 * nb + 4 * nu + 4 + 4 + 4 + 16 }
// the two section offsets stored in the footer equal what the serialized layout implies for the current table lengths (U-XORBIDX: offsets_filled)
spec fn info_offsets_filled(s: CasObjectInfoV1) -> bool {
    &&& s.boundary_section_offset_from_end == boundary_section_len(s.chunk_boundary_offsets@.len(), s.unpacked_chunk_offsets@.len())
    &&& s.hashes_section_offset_from_end == hash_section_len(s.chunk_hashes@.len()) + boundary_section_len(s.chunk_boundary_offsets@.len(), s.unpacked_chunk_offsets@.len())
}
spec fn info_tables_ok(s: CasObjectInfoV1) -> bool {
    &&& s.chunk_hashes@.len() == s.num_chunks
    &&& s.chunk_boundary_offsets@.len() == s.num_chunks
    &&& (s.boundaries_version == CAS_OBJECT_FORMAT_BOUNDARIES_VERSION ==> s.unpacked_chunk_offsets@.len() == s.num_chunks)
}
// every ident / version field of a parsed footer equals its format constant ("any footer it relied on")
spec fn info_idents_ok(s: CasObjectInfoV1) -> bool {
    &&& s.ident == CAS_OBJECT_FORMAT_IDENT && s.version == CAS_OBJECT_FORMAT_VERSION
    &&& s.ident_hash_section == CAS_OBJECT_FORMAT_IDENT_HASHES && s.hashes_version == CAS_OBJECT_FORMAT_HASHES_VERSION
    &&& s.ident_boundary_section == CAS_OBJECT_FORMAT_IDENT_BOUNDARIES
}
// an in-memory info converted from a version-0 wire footer (from_v0): no unpacked table, marked by boundaries version 0
spec fn info_is_v0_converted(s: CasObjectInfoV1) -> bool {
    s.boundaries_version == CAS_OBJECT_FORMAT_BOUNDARIES_VERSION_NO_UNPACKED_INFO && s.unpacked_chunk_offsets@.len() == 0
}
// what the wire parser may return: all idents/versions are the constants; the boundaries section is version 1 -- the only other
// possibility is the v0 conversion, which has no unpacked table at all
spec fn info_wire_ok(s: CasObjectInfoV1) -> bool {
    info_idents_ok(s) && (s.boundaries_version == CAS_OBJECT_FORMAT_BOUNDARIES_VERSION || info_is_v0_converted(s))
}
spec fn info_v0_tables_ok(s: CasObjectInfoV0) -> bool {
    s.chunk_hashes@.len() == s.num_chunks && s.chunk_boundary_offsets@.len() == s.num_chunks
}
impl CasObjectInfoV0 {
    // the v0 parser (closure-based byte counting; not under contract): pushes num_chunks entries into both tables; consumes 52 + 36*num_chunks bytes
    #[verifier::external_body]
    fn deserialize_v0<R: Read>(reader: &mut R) -> (r: Result<(Self, u32), CasObjectError>)
        ensures final(reader).navail() == old(reader).navail(),
            r matches Ok((s, _)) ==> info_v0_tables_ok(s) && final(reader).nread() == old(reader).nread() + 52 + 36 * s.num_chunks && final(reader).nread() <= final(reader).navail()
            // (the struct is built with `ident: CAS_OBJECT_FORMAT_IDENT`, cas_object_format.rs:197)
            && s.ident == CAS_OBJECT_FORMAT_IDENT
    { unimplemented!() }
}
// bounded allocation: `Vec::reserve` requests go through this stub, whose precondition is the allocation cap of C08
// (9/8 of the average number of chunks of a xorb = 1152 entries), so every call site is an obligation
pub open spec fn prealloc_cap() -> nat { 1152 }
#[verifier::external_body]
fn vx_reserve<T>(v: &mut Vec<T>, additional: usize)
    requires /*@C08*/ additional <= prealloc_cap()
    ensures final(v)@ == old(v)@
{ v.reserve(additional) }
// the same cap for the other ways of allocating from a declared count (`resize`, `with_capacity`): a footer parser that sizes a table by an
// untrusted count fails this precondition (pre-bf8898d `deserialize_only_boundaries_section` did: 16 GiB request from a 44-byte input)
#[verifier::external_body]
fn vx_resize<T: Clone>(v: &mut Vec<T>, new_len: usize, value: T)
    requires /*@C08*/ new_len <= prealloc_cap()
    ensures final(v)@.len() == new_len
{ v.resize(new_len, value) }
#[verifier::external_body]
fn vx_with_capacity<T>(capacity: usize) -> (v: Vec<T>)
    requires /*@C08*/ capacity <= prealloc_cap()
    ensures v@.len() == 0
{ Vec::with_capacity(capacity) }

//@ extract cas_object/src/cas_object_format.rs fn prealloc_num_chunks
//@ ret r
//@ contract
    ensures /*@C08*/ r <= declared_size, /*@C08*/ r <= prealloc_cap(),
//@ end

impl CasObjectInfoV1 {
    // `Default` for CasObjectInfoV1 is under contract in U-XORBIDX (empty tables); here only that fact is used
    #[verifier::external_body]
    fn default() -> (r: Self) ensures r.chunk_hashes@.len() == 0, r.chunk_boundary_offsets@.len() == 0, r.unpacked_chunk_offsets@.len() == 0 { unimplemented!() }
    // from_v0 moves the two v0 tables, leaves the unpacked table empty and marks that with boundaries_version 0 (cas_object_format.rs:786-807)
    #[verifier::external_body]
    // (from_v0 is under contract in U-XORBIDX with exactly this precondition and `offsets_filled`)
    fn from_v0(src: CasObjectInfoV0) -> (r: Self)
        requires hash_section_len(src.chunk_hashes@.len()) + boundary_section_len(src.chunk_boundary_offsets@.len(), 0) <= u32::MAX
        ensures info_offsets_filled(r), r.chunk_hashes@ == src.chunk_hashes@, r.chunk_boundary_offsets@ == src.chunk_boundary_offsets@, r.num_chunks == src.num_chunks,
            r.unpacked_chunk_offsets@.len() == 0, r.boundaries_version == CAS_OBJECT_FORMAT_BOUNDARIES_VERSION_NO_UNPACKED_INFO,
            // (struct literal of from_v0: ident copied, the other ident/version fields are the constants)
            r.ident == src.ident, r.version == CAS_OBJECT_FORMAT_VERSION, r.ident_hash_section == CAS_OBJECT_FORMAT_IDENT_HASHES,
            r.hashes_version == CAS_OBJECT_FORMAT_HASHES_VERSION, r.ident_boundary_section == CAS_OBJECT_FORMAT_IDENT_BOUNDARIES,
    { unimplemented!() }

//@ extract cas_object/src/cas_object_format.rs in `impl CasObjectInfoV1` fn deserialize
//@ ret ret
//@ rules R15 R4u
//@ subst `countio::Counter::new(reader)` => `Counter::new(reader)` :: R11 stub type for the countio dependency
//@ subst `s.chunk_hashes.reserve(` => `vx_reserve(&mut s.chunk_hashes, ` :: R11 stub for Vec::reserve carrying the allocation cap as precondition
//@ subst `s.chunk_boundary_offsets.reserve(` => `vx_reserve(&mut s.chunk_boundary_offsets, ` :: R11 stub for Vec::reserve carrying the allocation cap as precondition
//@ subst `s.unpacked_chunk_offsets.reserve(` => `vx_reserve(&mut s.unpacked_chunk_offsets, ` :: R11 stub for Vec::reserve carrying the allocation cap as precondition
//@ optsubst `s.chunk_hashes.resize(` => `vx_resize(&mut s.chunk_hashes, ` :: R11 stub for Vec::resize carrying the allocation cap (not in the current text)
//@ optsubst `s.chunk_boundary_offsets.resize(` => `vx_resize(&mut s.chunk_boundary_offsets, ` :: as above
//@ optsubst `s.unpacked_chunk_offsets.resize(` => `vx_resize(&mut s.unpacked_chunk_offsets, ` :: as above
//@ contract
        requires
            // input below 4 GiB: a version-0 footer of >= 2^32 bytes would overflow the u32 arithmetic of fill_in_boundary_offsets in from_v0
            old(reader).bytes().len() <= u32::MAX,
        ensures
            /*@AUX*/ final(reader).bytes() == old(reader).bytes(),
            // the two section offsets of an accepted footer are the ones the layout implies (the reader checks them against its byte counts)
            /*@C07*/ ret matches Ok((s, n)) ==> info_offsets_filled(s),
            // the footer was read from the bytes between the reader's position and its end, and n is its exact length
            /*@C08*/ ret matches Ok((s, n)) ==> old(reader).pos() + n <= old(reader).bytes().len() && n >= 8,
            // whatever the bytes: an accepted footer has tables of exactly num_chunks entries (the unpacked table only in boundaries version 1)
            /*@C08*/ ret matches Ok((s, n)) ==> info_tables_ok(s),
            // ... and every ident / version field equals its constant; boundaries version is 1 unless this is the v0 conversion
            /*@C08*/ ret matches Ok((s, n)) ==> info_wire_ok(s),
//@ loop 1
            invariant
                /*@AUX*/ reader.bytes() == old(reader).bytes(),
                /*@AUX*/ r.n <= r.avail, r.avail == 0 || old(reader).pos() + r.avail <= old(reader).bytes().len(), old(reader).bytes().len() <= u32::MAX,
                /*@C08*/ s.ident == CAS_OBJECT_FORMAT_IDENT, s.version == CAS_OBJECT_FORMAT_VERSION, s.ident_hash_section == CAS_OBJECT_FORMAT_IDENT_HASHES, s.hashes_version == CAS_OBJECT_FORMAT_HASHES_VERSION,
                /*@C07,C08*/ s.chunk_hashes@.len() == vx_u, s.chunk_boundary_offsets@.len() == 0, s.unpacked_chunk_offsets@.len() == 0,
                /*@C07,C08*/ r.n == hash_section_begin_byte_offset + 12 + 32 * vx_u, hash_section_begin_byte_offset == 40,
//@ loop 2
            invariant
                /*@AUX*/ reader.bytes() == old(reader).bytes(),
                /*@AUX*/ r.n <= r.avail, r.avail == 0 || old(reader).pos() + r.avail <= old(reader).bytes().len(), old(reader).bytes().len() <= u32::MAX,
                /*@C08*/ s.ident == CAS_OBJECT_FORMAT_IDENT, s.version == CAS_OBJECT_FORMAT_VERSION, s.ident_hash_section == CAS_OBJECT_FORMAT_IDENT_HASHES, s.hashes_version == CAS_OBJECT_FORMAT_HASHES_VERSION,
                /*@C08*/ s.ident_boundary_section == CAS_OBJECT_FORMAT_IDENT_BOUNDARIES, /*@C08*/ s.boundaries_version == CAS_OBJECT_FORMAT_BOUNDARIES_VERSION,
                /*@C07,C08*/ s.chunk_hashes@.len() == num_chunks_2, num_chunks_2 == num_chunks_3, s.chunk_boundary_offsets@.len() == vx_u, s.unpacked_chunk_offsets@.len() == 0,
                /*@C07,C08*/ hash_section_begin_byte_offset == 40, boundary_section_begin_byte_offset == 52 + 32 * num_chunks_2,
                /*@C07,C08*/ r.n == boundary_section_begin_byte_offset + 12 + 4 * vx_u,
//@ loop 3
            invariant
                /*@AUX*/ reader.bytes() == old(reader).bytes(),
                /*@AUX*/ r.n <= r.avail, r.avail == 0 || old(reader).pos() + r.avail <= old(reader).bytes().len(), old(reader).bytes().len() <= u32::MAX,
                /*@C08*/ s.ident == CAS_OBJECT_FORMAT_IDENT, s.version == CAS_OBJECT_FORMAT_VERSION, s.ident_hash_section == CAS_OBJECT_FORMAT_IDENT_HASHES, s.hashes_version == CAS_OBJECT_FORMAT_HASHES_VERSION,
                /*@C08*/ s.ident_boundary_section == CAS_OBJECT_FORMAT_IDENT_BOUNDARIES, /*@C08*/ s.boundaries_version == CAS_OBJECT_FORMAT_BOUNDARIES_VERSION,
                /*@C07,C08*/ s.chunk_hashes@.len() == num_chunks_2, num_chunks_2 == num_chunks_3, s.chunk_boundary_offsets@.len() == num_chunks_3, s.unpacked_chunk_offsets@.len() == vx_u,
                /*@C07,C08*/ hash_section_begin_byte_offset == 40, boundary_section_begin_byte_offset == 52 + 32 * num_chunks_2,
                /*@C07,C08*/ r.n == boundary_section_begin_byte_offset + 12 + 4 * num_chunks_3 + 4 * vx_u,
//@ end
}

// ---- the section reader that CONSUMES boundary_section_offset_from_end (deserialize_only_boundaries_section) -----------------------------
#[verifier::external_body]
fn read_u32s<R: Read>(reader: &mut R, vs: &mut [u32]) -> (r: Result<(), IoError>)
    ensures final(vs)@.len() == old(vs)@.len(), final(reader).navail() == old(reader).navail(), final(reader).bytes() == old(reader).bytes(),
        r is Ok ==> final(reader).nread() == old(reader).nread() + 4 * old(vs)@.len() && final(reader).nread() <= final(reader).navail() { unimplemented!() }
// size_of_val for the two argument types used here (see U-XORBIDX)
pub trait VxSized { spec fn vx_size() -> nat; }
impl VxSized for u32 { open spec fn vx_size() -> nat { 4 } }
impl VxSized for [u8; 16] { open spec fn vx_size() -> nat { 16 } }
#[verifier::external_body]
pub fn vx_size_of_val<T: VxSized>(x: &T) -> (r: usize) ensures r == T::vx_size() { std::mem::size_of_val(x) }
impl CasObjectInfoV1 {
//@ extract cas_object/src/cas_object_format.rs in `impl CasObjectInfoV1` fn deserialize_only_boundaries_section
//@ ret ret
//@ rules R15 R4u
//@ subst `countio::Counter::new(reader)` => `Counter::new(reader)` :: R11 stub type for the countio dependency
//@ optsubst `s.chunk_boundary_offsets.reserve(` => `vx_reserve(&mut s.chunk_boundary_offsets, ` :: R11 stub for Vec::reserve carrying the allocation cap as precondition
//@ optsubst `s.unpacked_chunk_offsets.reserve(` => `vx_reserve(&mut s.unpacked_chunk_offsets, ` :: R11 stub for Vec::reserve carrying the allocation cap as precondition
//@ optsubst `s.chunk_boundary_offsets.resize(` => `vx_resize(&mut s.chunk_boundary_offsets, ` :: R11 stub for Vec::resize carrying the allocation cap (pre-bf8898d text)
//@ optsubst `s.unpacked_chunk_offsets.resize(` => `vx_resize(&mut s.unpacked_chunk_offsets, ` :: as above
//@ subst `s.chunk_hashes.is_empty()` => `s.chunk_hashes@.len() == 0` :: spec rendering of the exec call inside the R2 obligation (`debug_assert!(s.chunk_hashes.is_empty())`)
//@ contract
        // (no bound on the untrusted on-wire `boundary_section_offset_from_end`: since e1bd685 the `+ 4` is a checked_add that rejects)
        requires old(reader).bytes().len() <= u32::MAX,
        ensures
            /*@AUX*/ final(reader).bytes() == old(reader).bytes(),
            /*@C07*/ ret matches Ok((s, n)) ==> s.chunk_boundary_offsets@.len() == s.num_chunks && s.unpacked_chunk_offsets@.len() == s.num_chunks
                && s.boundary_section_offset_from_end == boundary_section_len(s.num_chunks as nat, s.num_chunks as nat),
//@ after `for vx_u in 0..num_chunks_boundaries_section` #1
            invariant
                /*@AUX*/ reader.bytes() == old(reader).bytes(), old(reader).bytes().len() <= u32::MAX,
                /*@AUX*/ r.n <= r.avail, r.avail <= old(reader).bytes().len(),
                /*@C07,C08*/ s.chunk_hashes@.len() == 0, s.chunk_boundary_offsets@.len() == vx_u, s.unpacked_chunk_offsets@.len() == 0,
                /*@C07,C08*/ r.n == 12 + 4 * vx_u,
//@ after `for vx_u in 0..num_chunks_boundaries_section` #2
            invariant
                /*@AUX*/ reader.bytes() == old(reader).bytes(), old(reader).bytes().len() <= u32::MAX,
                /*@AUX*/ r.n <= r.avail, r.avail <= old(reader).bytes().len(),
                /*@C07,C08*/ s.chunk_hashes@.len() == 0, s.chunk_boundary_offsets@.len() == num_chunks_boundaries_section, s.unpacked_chunk_offsets@.len() == vx_u,
                /*@C07,C08*/ r.n == 12 + 4 * num_chunks_boundaries_section + 4 * vx_u,
//@ end
}

// ==== the asynchronous footer parsers (R1 erases async/await): the same postconditions as the synchronous ones, so "sync == async" is literal =====
#[verifier::external_body]
fn read_bytes_async<R: Read>(reader: &mut R, val: &mut [u8]) -> (r: Result<(), IoError>)
    ensures final(val)@.len() == old(val)@.len(), final(reader).navail() == old(reader).navail(), final(reader).bytes() == old(reader).bytes(),
        r is Ok ==> final(reader).nread() == old(reader).nread() + old(val)@.len() && final(reader).nread() <= final(reader).navail() { unimplemented!() }
#[verifier::external_body]
fn read_u8_async<R: Read>(reader: &mut R) -> (r: Result<u8, IoError>)
    ensures final(reader).navail() == old(reader).navail(), final(reader).bytes() == old(reader).bytes(), r is Ok ==> final(reader).nread() == old(reader).nread() + 1 && final(reader).nread() <= final(reader).navail() { unimplemented!() }
#[verifier::external_body]
fn read_u32_async<R: Read>(reader: &mut R) -> (r: Result<u32, IoError>)
    ensures final(reader).navail() == old(reader).navail(), final(reader).bytes() == old(reader).bytes(), r is Ok ==> final(reader).nread() == old(reader).nread() + 4 && final(reader).nread() <= final(reader).navail() { unimplemented!() }
#[verifier::external_body]
fn read_hash_async<R: Read>(reader: &mut R) -> (r: Result<MerkleHash, IoError>)
    ensures final(reader).navail() == old(reader).navail(), final(reader).bytes() == old(reader).bytes(), r is Ok ==> final(reader).nread() == old(reader).nread() + 32 && final(reader).nread() <= final(reader).navail() { unimplemented!() }
// `..Default::default()` in deserialize_async_v1 (the trait impl; under contract in U-XORBIDX: empty tables)
pub closed spec fn info_default_tables_empty(r: CasObjectInfoV1) -> bool { r.chunk_hashes@.len() == 0 && r.chunk_boundary_offsets@.len() == 0 && r.unpacked_chunk_offsets@.len() == 0 }
impl Default for CasObjectInfoV1 {
    #[verifier::external_body]
    fn default() -> (r: Self) ensures info_default_tables_empty(r) { unimplemented!() }
}
impl CasObjectInfoV0 {
    // v0 async parser (nested fn item + manual byte counting; not extractable): reads 52 + 36*num_chunks bytes that exist, fills both tables
    #[verifier::external_body]
    fn deserialize_async<R: AsyncRead + Unpin>(reader: &mut R, version: u8) -> (r: Result<(Self, u32), CasObjectError>)
        ensures final(reader).bytes() == old(reader).bytes(),
            r matches Ok((s, _)) ==> info_v0_tables_ok(s) && s.ident == CAS_OBJECT_FORMAT_IDENT && 52 + 36 * s.num_chunks <= old(reader).bytes().len()
    { unimplemented!() }
}
impl CasObjectInfoV1 {
//@ extract cas_object/src/cas_object_format.rs in `impl CasObjectInfoV1` fn deserialize_async_v1
//@ ret ret
//@ rules R15 R4u
//@ subst `countio::Counter::new(reader)` => `Counter::new(reader)` :: R11 stub type for the countio dependency
//@ subst `s.chunk_hashes.reserve(` => `vx_reserve(&mut s.chunk_hashes, ` :: R11 stub for Vec::reserve carrying the allocation cap as precondition
//@ subst `s.chunk_boundary_offsets.reserve(` => `vx_reserve(&mut s.chunk_boundary_offsets, ` :: as above
//@ subst `s.unpacked_chunk_offsets.reserve(` => `vx_reserve(&mut s.unpacked_chunk_offsets, ` :: as above
//@ contract
        requires old(reader).bytes().len() + 8 <= u32::MAX,
        ensures
            /*@AUX*/ final(reader).bytes() == old(reader).bytes(),
            /*@C07*/ ret matches Ok((s, n)) ==> info_offsets_filled(s),
            /*@C08*/ ret matches Ok((s, n)) ==> info_tables_ok(s),
            /*@C08*/ ret matches Ok((s, n)) ==> info_wire_ok(s) && s.boundaries_version == CAS_OBJECT_FORMAT_BOUNDARIES_VERSION,
//@ loop 1
            invariant
                /*@AUX*/ reader.bytes() == old(reader).bytes(), old(reader).bytes().len() + 8 <= u32::MAX,
                /*@AUX*/ r.n <= r.avail, r.avail <= old(reader).bytes().len(),
                /*@C08*/ s.ident == CAS_OBJECT_FORMAT_IDENT, s.version == CAS_OBJECT_FORMAT_VERSION, s.ident_hash_section == CAS_OBJECT_FORMAT_IDENT_HASHES, s.hashes_version == CAS_OBJECT_FORMAT_HASHES_VERSION,
                /*@C07,C08*/ s.chunk_hashes@.len() == vx_u, s.chunk_boundary_offsets@.len() == 0, s.unpacked_chunk_offsets@.len() == 0,
                /*@C07,C08*/ r.n == hash_section_begin_byte_offset + 12 + 32 * vx_u, hash_section_begin_byte_offset == 32,
//@ loop 2
            invariant
                /*@AUX*/ reader.bytes() == old(reader).bytes(), old(reader).bytes().len() + 8 <= u32::MAX,
                /*@AUX*/ r.n <= r.avail, r.avail <= old(reader).bytes().len(),
                /*@C08*/ s.ident == CAS_OBJECT_FORMAT_IDENT, s.version == CAS_OBJECT_FORMAT_VERSION, s.ident_hash_section == CAS_OBJECT_FORMAT_IDENT_HASHES, s.hashes_version == CAS_OBJECT_FORMAT_HASHES_VERSION,
                /*@C08*/ s.ident_boundary_section == CAS_OBJECT_FORMAT_IDENT_BOUNDARIES, /*@C08*/ s.boundaries_version == CAS_OBJECT_FORMAT_BOUNDARIES_VERSION,
                /*@C07,C08*/ s.chunk_hashes@.len() == num_chunks_2, num_chunks_2 == num_chunks_3, s.chunk_boundary_offsets@.len() == vx_u, s.unpacked_chunk_offsets@.len() == 0,
                /*@C07,C08*/ hash_section_begin_byte_offset == 32, boundary_section_begin_byte_offset == 44 + 32 * num_chunks_2,
                /*@C07,C08*/ r.n == boundary_section_begin_byte_offset + 12 + 4 * vx_u,
//@ loop 3
            invariant
                /*@AUX*/ reader.bytes() == old(reader).bytes(), old(reader).bytes().len() + 8 <= u32::MAX,
                /*@AUX*/ r.n <= r.avail, r.avail <= old(reader).bytes().len(),
                /*@C08*/ s.ident == CAS_OBJECT_FORMAT_IDENT, s.version == CAS_OBJECT_FORMAT_VERSION, s.ident_hash_section == CAS_OBJECT_FORMAT_IDENT_HASHES, s.hashes_version == CAS_OBJECT_FORMAT_HASHES_VERSION,
                /*@C08*/ s.ident_boundary_section == CAS_OBJECT_FORMAT_IDENT_BOUNDARIES, /*@C08*/ s.boundaries_version == CAS_OBJECT_FORMAT_BOUNDARIES_VERSION,
                /*@C07,C08*/ s.chunk_hashes@.len() == num_chunks_2, num_chunks_2 == num_chunks_3, s.chunk_boundary_offsets@.len() == num_chunks_3, s.unpacked_chunk_offsets@.len() == vx_u,
                /*@C07,C08*/ hash_section_begin_byte_offset == 32, boundary_section_begin_byte_offset == 44 + 32 * num_chunks_2,
                /*@C07,C08*/ r.n == boundary_section_begin_byte_offset + 12 + 4 * num_chunks_3 + 4 * vx_u,
//@ end

//@ extract cas_object/src/cas_object_format.rs in `impl CasObjectInfoV1` fn deserialize_async
//@ ret ret
//@ rules R15
//@ contract
        requires old(reader).bytes().len() + 8 <= u32::MAX,
        ensures
            /*@AUX*/ final(reader).bytes() == old(reader).bytes(),
            // exactly the postconditions of the synchronous CasObjectInfoV1::deserialize
            /*@C07*/ ret matches Ok((s, n)) ==> info_offsets_filled(s),
            /*@C08*/ ret matches Ok((s, n)) ==> info_tables_ok(s),
            /*@C08*/ ret matches Ok((s, n)) ==> info_wire_ok(s),
//@ end
}

// ---- merkle tree stub (merkledb): one file = the chunk list; root is an uninterpreted function of the (hash, length) list ----
pub uninterp spec fn xorb_root(chunks: Seq<(MerkleHash, nat)>) -> MerkleHash;
spec fn chunk_pairs(s: Seq<Chunk>) -> Seq<(MerkleHash, nat)> { Seq::new(s.len(), |i: int| (s[i].hash, s[i].length as nat)) }
pub struct MerkleMemDB { pub ghost _g: int }
pub struct InsertionStaging { pub ghost files: Seq<Seq<(MerkleHash, nat)>> }
pub struct MerkleNode { pub h: MerkleHash }
impl MerkleMemDB {
    #[verifier::external_body]
    fn default() -> (r: MerkleMemDB) { unimplemented!() }
    #[verifier::external_body]
    fn start_insertion_staging(&self) -> (r: InsertionStaging) ensures r.files.len() == 0 { unimplemented!() }
    #[verifier::external_body]
    fn add_file(&mut self, staging: &mut InsertionStaging, chunk: &[Chunk]) -> (r: MerkleHash)
        ensures final(staging).files == old(staging).files.push(chunk_pairs(chunk@)) { unimplemented!() }
    // with exactly one file staged, the returned node is that file's root
    #[verifier::external_body]
    fn finalize(&mut self, staging: InsertionStaging) -> (r: MerkleNode)
        ensures staging.files.len() == 1 ==> r.h == xorb_root(staging.files[0]) { unimplemented!() }
}
impl MerkleNode {
    #[verifier::external_body]
    fn hash(&self) -> (r: &MerkleHash) ensures *r == self.h { unimplemented!() }
}

// ---- what acceptance means ---------------------------------------------------------------------------------------------------
pub open spec fn prev_or_zero(t: Seq<u32>, i: int) -> int { if i <= 0 { 0 } else { t[i - 1] as int } }
impl CasObject {
    // chunk idx starts where the footer says chunk idx-1 ends
    spec fn chunk_start(&self, idx: int) -> nat { prev_or_zero(self.info.chunk_boundary_offsets@, idx) as nat }
    spec fn decoded_len(&self, bytes: Seq<u8>, idx: int) -> nat {
        match spec_chunk_at(bytes, self.chunk_start(idx)) { Some((d, _)) => d.len(), None => 0 }
    }
    // sum of the decoded lengths of chunks 0..i
    spec fn unpacked_sum(&self, bytes: Seq<u8>, i: int) -> nat decreases i {
        if i <= 0 { 0 } else { self.unpacked_sum(bytes, i - 1) + self.decoded_len(bytes, i - 1) }
    }
    spec fn chunk_consistent(&self, bytes: Seq<u8>, idx: int) -> bool {
        match spec_chunk_at(bytes, self.chunk_start(idx)) {
            Some((d, clen)) => {
                &&& /* recomputed chunk hash == footer hash */ spec_data_hash(d) == self.info.chunk_hashes@[idx]
                &&& /* start + compressed == boundary */ self.chunk_start(idx) + clen == self.info.chunk_boundary_offsets@[idx]
                &&& /* unpacked prefix sums == footer (v1) */ (self.info.boundaries_version == CAS_OBJECT_FORMAT_BOUNDARIES_VERSION
                        ==> self.info.unpacked_chunk_offsets@[idx] == self.unpacked_sum(bytes, idx + 1))
            },
            None => false,
        }
    }
    spec fn decoded_list(&self, bytes: Seq<u8>, n: int) -> Seq<(MerkleHash, nat)> {
        Seq::new(n as nat, |i: int| (match spec_chunk_at(bytes, self.chunk_start(i)) { Some((d, _)) => spec_data_hash(d), None => zero_hash() }, self.decoded_len(bytes, i)))
    }
}
proof fn lemma_unpacked_sum_mono(cas: CasObject, bytes: Seq<u8>, i: int, j: int)
    requires i <= j,
    ensures cas.unpacked_sum(bytes, i) <= cas.unpacked_sum(bytes, j),
    decreases j - i,
{
    if i < j { lemma_unpacked_sum_mono(cas, bytes, i, j - 1); }
}

impl CasObject {
// the asynchronous counterpart of CasObject::deserialize (footer follows the chunks in the stream; ident + version were read by the caller)
//@ extract cas_object/src/cas_object_format.rs in `impl CasObject` fn deserialize_async
//@ ret r
//@ rules R15
//@ contract
        requires old(reader).bytes().len() + 8 <= u32::MAX,
        ensures
            /*@AUX*/ final(reader).bytes() == old(reader).bytes(),
            // the same facts about `info` as the synchronous CasObject::deserialize
            /*@C08*/ r matches Ok(cas) ==> footer_tables_ok(cas) && info_wire_ok(cas.info),
            /*@C07*/ r matches Ok(cas) ==> info_offsets_filled(cas.info),
//@ end
}

impl CasObject {
// ---- locating and parsing the footer: the seek arithmetic over an arbitrary stream (any length, any trailing info_length) ---------
//@ extract cas_object/src/cas_object_format.rs in `impl CasObject` fn get_info_length
//@ ret r
//@ contract
        ensures
            /*@AUX*/ final(reader).bytes() == old(reader).bytes(),
            // Ok only if the stream has the 4 trailing bytes; the reader is then at the end
            /*@C08*/ r is Ok ==> old(reader).bytes().len() >= 4 && final(reader).pos() == old(reader).bytes().len(),
//@ end

//@ extract cas_object/src/cas_object_format.rs in `impl CasObject` fn deserialize
//@ ret r
//@ rules R15
//@ contract
        requires
            // (input below 4 GiB: precondition of CasObjectInfoV1::deserialize, see there)
            old(reader).bytes().len() <= u32::MAX,
        ensures
            /*@AUX*/ final(reader).bytes() == old(reader).bytes(),
            // Err, or a footer that was parsed from inside the object: the info block [len - 4 - info_length, len - 4) lies within the stream
            // -- for EVERY stream length and EVERY value of the untrusted trailing info_length (no overflow / underflow in the seek arithmetic)
            /*@C08*/ r matches Ok(cas) ==> cas.info_length + 4 <= old(reader).bytes().len() && cas.info_length >= 8,
            // `info` is what CasObjectInfoV1::deserialize returned (contract below), passed through unchanged
            /*@C08*/ r matches Ok(cas) ==> footer_tables_ok(cas) && info_wire_ok(cas.info),
            /*@C07*/ r matches Ok(cas) ==> info_offsets_filled(cas.info),
//@ end
}

impl CasObject {
//@ extract cas_object/src/cas_object_format.rs in `impl CasObject` fn validate_cas_object
//@ ret r
//@ contract
        requires
            // (P1) the physical offsets are accumulated in u32: a header must start at most 2^32 - 2^24 - 8 bytes in
            old(reader).bytes().len() + MAX_3BYTE <= u32::MAX,
            // (no precondition on the unpacked total: since commit dce91f9 the u32 accumulation of `unpacked_chunk_offset` is a
            //  `checked_add` that rejects; on the pre-fix code the `+=` overflow obligation fails -- DESIGN 7-d)
        ensures
            /*@AUX*/ final(reader).bytes() == old(reader).bytes(),
            r matches Ok(Some(cas)) ==> ({
                let b = old(reader).bytes();
                let n = cas.info.num_chunks as int;
                &&& /*@C08*/ footer_tables_ok(cas)
                &&& /*@C08*/ forall|idx: int| 0 <= idx < n ==> cas.chunk_consistent(b, idx)
                // the footer relied on is a well-formed wire footer; unless it is the v0 conversion (which has no unpacked table), its
                // unpacked offsets agree with the decoded chunk lengths -- unconditionally, not "if the footer says version 1"
                &&& /*@C08*/ info_wire_ok(cas.info)
                &&& /*@C08*/ !info_is_v0_converted(cas.info) ==> cas.info.unpacked_chunk_offsets@.len() == n
                        && forall|idx: int| 0 <= idx < n ==> cas.info.unpacked_chunk_offsets@[idx] == cas.unpacked_sum(b, idx + 1)
                // the footer begins right after the last chunk, and is followed only by its 4-byte length
                &&& /*@C08*/ cas.chunk_start(n) + cas.info_length + 4 == b.len()
                // decoding the last chunk stopped exactly where the footer begins
                &&& /*@C08*/ n > 0 ==> spec_chunk_end(b, cas.chunk_start(n - 1)) == cas.chunk_start(n)
                &&& /*@C06*/ xorb_root(cas.decoded_list(b, n)) == *hash
                &&& /*@C06*/ xorb_root(cas.decoded_list(b, n)) == cas.info.cashash
            }),
//@ before `let mut hash_chunks`
        let ghost b = reader.bytes();
//@ loop 1
            invariant
                /*@AUX*/ reader.bytes() == b, b == old(reader).bytes(),
                /*@AUX*/ b.len() + MAX_3BYTE <= u32::MAX,
                /*@AUX*/ footer_tables_ok(cas), info_wire_ok(cas.info), cas.info_length + 4 <= b.len(),
                /*@C08*/ idx > 0 ==> reader.pos() <= b.len() && reader.pos() == spec_chunk_end(b, cas.chunk_start(idx as int - 1)),
                /*@C06,C08*/ hash_chunks@.len() == idx,
                /*@C08*/ cumulative_compressed_length == start_offset, start_offset == cas.chunk_start(idx as int),
                /*@C08*/ unpacked_chunk_offset == cas.unpacked_sum(b, idx as int),
                /*@C08*/ forall|j: int| 0 <= j < idx ==> cas.chunk_consistent(b, j),
                /*@C08*/ cas.info.boundaries_version == CAS_OBJECT_FORMAT_BOUNDARIES_VERSION ==> forall|j: int| 0 <= j < idx ==> cas.info.unpacked_chunk_offsets@[j] == cas.unpacked_sum(b, j + 1),
                /*@C06*/ chunk_pairs(hash_chunks@) =~= cas.decoded_list(b, idx as int),
//@ before `let chunk_hash`
            let ghost hc0 = hash_chunks@;
//@ after `length: chunk_uncompressed_length as usize, });`
            proof {
                assert(hash_chunks@ =~= hc0.push(hash_chunks@[idx as int]));
                // (not a proof convenience: this ties the Chunk just pushed -- its hash and length fields -- to the decoded chunk of the spec list)
                /*@C06*/ assert forall|i: int| 0 <= i < idx + 1 implies chunk_pairs(hash_chunks@)[i] == cas.decoded_list(b, idx as int + 1)[i] by {
                    if i < idx { assert(chunk_pairs(hc0)[i] == cas.decoded_list(b, idx as int)[i]); }
                }
                /*@C06*/ assert(chunk_pairs(hash_chunks@) =~= cas.decoded_list(b, idx as int + 1));
            }
//@ end
}

// ==== streaming validator (validate_xorb_stream.rs): the block that compares a parsed footer with what was computed from the chunks ====
fn vx_min(a: usize, b: usize) -> (r: usize) ensures r == (if a <= b { a } else { b }) { if a <= b { a } else { b } }
// R7 outlines (bodies are the original expressions after R15; contracts assumed)
// `Vec<u32> != Vec<u32>`: element-wise comparison
#[verifier::external_body]
fn vx_vec_u32_ne(a: &Vec<u32>, b: &Vec<u32>) -> (r: bool) ensures r == (a@ != b@) { a != b }
// the combinator chain introduced by commit dce91f9: u32::try_from(len) then checked_add, `None` mapped to a FormatError
#[verifier::external_body]
fn vx_checked_prefix(prefixsum: u32, length: usize) -> (r: Result<u32, CasObjectError>)
    ensures match r {
        Ok(v) => v == prefixsum + length && prefixsum + length <= u32::MAX,
        Err(e) => prefixsum + length > u32::MAX && e is FormatError,
    }
{
    u32::try_from(length)
        .ok()
        .and_then(|len| prefixsum.checked_add(len))
        .ok_or_else(|| { CasObjectError::FormatError(vx_anyhow()) })
}
// sum of the computed (uncompressed) lengths of chunks 0..i
spec fn len_sum(s: Seq<Chunk>, i: int) -> nat decreases i {
    if i <= 0 { 0 } else { len_sum(s, i - 1) + s[i - 1].length as nat }
}

//@ extract cas_object/src/validate_xorb_stream.rs region _validate_cas_object_from_async_read
//@ block `if let Some(cas_object) = &maybe_cas_object {`
//@ sig `fn vx_stream_footer_check(cas_object: &CasObject, hash: &MerkleHash, chunk_hash_and_size: Vec<Chunk>, compressed_chunk_boundary_offsets: Vec<u32>) -> (r: Result<(), CasObjectError>)`
//@ epilogue `Ok(())`
//@ rules R15 R4z
//@ optsubst `cas_object_info.chunk_boundary_offsets != compressed_chunk_boundary_offsets` => `vx_vec_u32_ne(&cas_object_info.chunk_boundary_offsets, &compressed_chunk_boundary_offsets)` :: R7 outline: Vec<u32> inequality (no vstd spec), assumed element-wise
//@ optsubst `u32::try_from(computed_chunk.length) .ok() .and_then(|len| prefixsum.checked_add(len)) .ok_or_else(|| { CasObjectError::FormatError(vx_anyhow()) })` => `vx_checked_prefix(prefixsum, computed_chunk.length)` :: R7 outline: Option/Result combinator chain with closures; assumed = checked u32 addition, overflow -> FormatError
//@ contract
    // no precondition: holds for every footer and every computed chunk list (no overflow, no index out of bounds)
    ensures
        /*@C08*/ r is Ok ==> ({
            let info = cas_object.info;
            let n = chunk_hash_and_size@.len();
            &&& info.cashash == *hash
            &&& info.num_chunks == n
            &&& info.chunk_boundary_offsets@ == compressed_chunk_boundary_offsets@
            // footer hashes equal the computed hashes pointwise
            &&& info.chunk_hashes@.len() == n && forall|i: int| 0 <= i < n ==> info.chunk_hashes@[i] == chunk_hash_and_size@[i].hash
            // footer unpacked offsets are the prefix sums of the computed lengths (as far as the footer table goes: `zip` stops at the
            // shorter side and the table length is not compared here; the footer parser guarantees num_chunks entries)
            &&& forall|i: int| 0 <= i < n && i < info.unpacked_chunk_offsets@.len() ==> info.unpacked_chunk_offsets@[i] == len_sum(chunk_hash_and_size@, i + 1)
        }),
        // every rejection is a format error (mapped to Ok(None) by ok_for_format_error in the public wrapper)
        /*@C08*/ r matches Err(e) ==> e is FormatError,
//@ loop 1
        invariant
            /*@AUX*/ cas_object_info == &cas_object.info,
            /*@C08*/ cas_object_info.chunk_hashes@.len() == chunk_hash_and_size@.len(),
            /*@C08*/ forall|i: int| 0 <= i < vx_z ==> cas_object_info.chunk_hashes@[i] == chunk_hash_and_size@[i].hash,
//@ loop 2
        invariant
            /*@AUX*/ cas_object_info == &cas_object.info,
            /*@C08*/ prefixsum == len_sum(chunk_hash_and_size@, vx_z as int),
            /*@C08*/ forall|i: int| 0 <= i < vx_z ==> cas_object_info.unpacked_chunk_offsets@[i] == len_sum(chunk_hash_and_size@, i + 1),
//@ end

} // verus!
fn main() {}
