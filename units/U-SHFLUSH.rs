//@ unit U-SHFLUSH
//@ props C11 C09 C16
//@ verus-args --rlimit 100 --triggers-mode silent
//@ rules-from shflush
#![feature(allocator_api)]
#![allow(non_snake_case, unused, dropping_references)]
use vstd::prelude::*;
use std::sync::Arc;
verus! {
global size_of usize == 8;

// =====================================================================================================================
// The lock model.  `tokio::sync::RwLock<T>` (R11 stub): a write guard is modelled as `&mut T`, a read guard as `&T`.
//   * ACQUIRE: the value found under the guard is ARBITRARY - whatever the other tasks left there.  The only thing the stub
//     says is the ghost marker `vx_acquired(v)`: "v is a value this activation found at an acquisition".
//   * RELEASE: rule R19 (vxlib/rules_extra/shflush.py, guard-lifetime elaboration) writes down where Rust drops the guard
//     (explicit `drop(g)`, `return`, `?`, closing brace of the enclosing block, end of statement for a temporary) and calls
//     `vx_release_write(value found at the acquisition, value left)` there.  Its PRECONDITION is the lock invariant in step
//     form, `old.vx_lock_step(new)`.
// A proof therefore holds for every interleaving: all accesses to the protected value are serialised by the lock, so an
// execution is a sequence of critical sections; each section is verified from an arbitrary start value and shown to make a
// step allowed by `vx_lock_step`; by induction every reachable history is a chain of allowed steps (notes: "Why this covers
// every interleaving").
// =====================================================================================================================
pub trait VxLockInv: Sized {
    /// the two-state lock invariant: what one critical section may do to the protected value
    spec fn vx_lock_step(&self, new: &Self) -> bool;
    /// ghost marker obtained for the value a write guard was released with
    spec fn vx_published(&self) -> bool;
}
#[verifier::external_body]
#[verifier::accept_recursive_types(T)]
pub struct RwLock<T> { _p: std::marker::PhantomData<T> }
impl<T> RwLock<T> {
    /// "v was found under a guard of this lock by the current activation" (uninterpreted; only `read`/`write` establish it)
    pub uninterp spec fn vx_acquired(&self, v: T) -> bool;
    #[verifier::external_body]
    pub fn write(&self) -> (r: &mut T)
        ensures self.vx_acquired(*r)
    { unimplemented!() }
    #[verifier::external_body]
    pub fn read(&self) -> (r: &T)
        ensures self.vx_acquired(*r)
    { unimplemented!() }
}
/// R19 calls this wherever a write guard is dropped.  The precondition is the obligation; the marker it hands back is
/// conservative (reading `vx_published` as `true` satisfies it).
#[verifier::external_body]
pub proof fn vx_release_write<T: VxLockInv>(old: T, new: T)
    requires /*@C11,C16,C01,C19*/ old.vx_lock_step(&new),
    ensures new.vx_published(),
{}
/// R19: does this value make `?` leave the function
pub trait VxTry { spec fn vx_try_exits(&self) -> bool; }
impl<T, E> VxTry for std::result::Result<T, E> { open spec fn vx_try_exits(&self) -> bool { self is Err } }
impl<T> VxTry for Option<T> { open spec fn vx_try_exits(&self) -> bool { self is None } }
pub open spec fn vx_exits<T: VxTry>(x: T) -> bool { x.vx_try_exits() }

pub assume_specification<T> [std::mem::drop] (_0: T);
// not needed by the unchanged code; they keep "take the state out, write it later" restructurings decidable (exit 1, not 2)
pub assume_specification<T: std::default::Default> [std::mem::take] (x: &mut T) -> (r: T)
    ensures r == *old(x), call_ensures(T::default, (), *final(x));
pub assume_specification<T> [std::mem::replace] (x: &mut T, v: T) -> (r: T)
    ensures r == *old(x), *final(x) == v;

// ---- vocabulary of C11 at this layer ---------------------------------------------------------------------------------
/// key of a record held by the in-memory shard: the xorb hash of a CAS block / the file hash of a file record
/// (`cas_content` and `file_content` are BTreeMaps keyed by exactly these)
#[verifier::external_body]
pub struct VxRecId { _p: () }
/// CAPABILITY: the record with this key is contained in a shard file that was completely written to the session's shard
/// directory.  Uninterpreted; the ONLY contract that establishes it is a successful `MDBInMemoryShard::write_to_directory`.
pub uninterp spec fn vx_flushed(r: VxRecId) -> bool;
/// the shard file at `p` holds exactly the records `s` (established only by `write_to_directory`)
pub uninterp spec fn vx_shard_file(p: PathBuf, s: Set<VxRecId>) -> bool;
/// MARKER: the record was in the protected state when a write guard was released (only `vx_release_write` establishes it)
pub uninterp spec fn vx_recorded(r: VxRecId) -> bool;

pub open spec fn all_flushed(s: Set<VxRecId>) -> bool { forall|x: VxRecId| s.contains(x) ==> #[trigger] vx_flushed(x) }
/// NO RECORD IS LOST: whatever leaves the in-memory state has been written to a shard file
pub open spec fn no_loss(old: Set<VxRecId>, new: Set<VxRecId>) -> bool {
    forall|x: VxRecId| old.contains(x) ==> new.contains(x) || #[trigger] vx_flushed(x)
}

// ---- dependency stubs (R11) ------------------------------------------------------------------------------------------
pub struct PathBuf { _p: () }
pub struct AtomicBool { _p: () }
pub struct ShardBookkeeper { _p: () }
#[verifier::external_body]
pub struct MDBShardError { _p: () }
pub type Result<T> = std::result::Result<T, MDBShardError>;
#[verifier::external_body]
pub struct MDBCASInfo { _p: () }
#[verifier::external_body]
pub struct MDBFileInfo { _p: () }
/// `cas_block_contents.metadata.cas_hash` / `file_info.metadata.file_hash` as record keys
pub uninterp spec fn vx_cas_id(c: MDBCASInfo) -> VxRecId;
pub uninterp spec fn vx_file_id(f: MDBFileInfo) -> VxRecId;

/// mdb_shard::shard_in_memory::MDBInMemoryShard, abstracted to the set of record keys it holds
#[verifier::external_body]
pub struct MDBInMemoryShard { _p: () }
impl MDBInMemoryShard {
    pub uninterp spec fn view(&self) -> Set<VxRecId>;
    /// `self.cas_content.is_empty() && self.file_content.is_empty()`
    #[verifier::external_body]
    pub fn is_empty(&self) -> (b: bool)
        ensures b == (self.view() == Set::<VxRecId>::empty())
    { unimplemented!() }
    #[verifier::external_body]
    pub fn shard_file_size(&self) -> u64 { unimplemented!() }
    /// serialises the whole state into `<directory>/<hash>.mdb` (temp file + rename)
    #[verifier::external_body]
    pub fn write_to_directory(&self, directory: &PathBuf) -> (r: Result<PathBuf>)
        ensures r matches Ok(p) ==> all_flushed(self.view()) && vx_shard_file(p, self.view())
    { unimplemented!() }
    /// `cas_content.insert(cas_hash, ..)` + chunk lookup entries (content proved in U-IMS)
    #[verifier::external_body]
    pub fn add_cas_block(&mut self, cas_block_contents: MDBCASInfo) -> (r: Result<()>)
        ensures
            old(self).view().subset_of(final(self).view()),
            r is Ok ==> final(self).view() == old(self).view().insert(vx_cas_id(cas_block_contents)),
    { unimplemented!() }
    /// `file_content.insert(file_hash, file_info)`
    #[verifier::external_body]
    pub fn add_file_reconstruction_info(&mut self, file_info: MDBFileInfo) -> (r: Result<()>)
        ensures
            old(self).view().subset_of(final(self).view()),
            r is Ok ==> final(self).view() == old(self).view().insert(vx_file_id(file_info)),
    { unimplemented!() }
}
impl Default for MDBInMemoryShard {
    #[verifier::external_body]
    fn default() -> (r: Self)
        ensures r.view() == Set::<VxRecId>::empty()
    { unimplemented!() }
}
// THE LOCK INVARIANT of `ShardFileManager::current_state` (C11)
impl VxLockInv for MDBInMemoryShard {
    open spec fn vx_lock_step(&self, new: &Self) -> bool { no_loss(self.view(), new.view()) }
    open spec fn vx_published(&self) -> bool { forall|x: VxRecId| self.view().contains(x) ==> #[trigger] vx_recorded(x) }
}

pub struct MDBShardFile { _p: () }
impl MDBShardFile {
    #[verifier::external_body]
    pub fn load_from_file(path: &PathBuf) -> Result<Arc<MDBShardFile>> { unimplemented!() }
}

//@ extract mdb_shard/src/shard_file_manager.rs struct ShardFileManager
//@ end

impl ShardFileManager {
    /// adds the shard files to the lookup tables of this manager (not part of this unit)
    #[verifier::external_body]
    pub fn register_shards(&self, new_shards: &[Arc<MDBShardFile>]) -> Result<()> { unimplemented!() }

//@ extract mdb_shard/src/shard_file_manager.rs in `impl ShardFileManager` fn flush
//@ ret ret
//@ rules R19
//@ contract
        ensures
            // Ok: everything that was in the in-memory state when this call took the lock is in a shard file ...
            /*@C11,C16,C01,C19*/ ret is Ok ==> exists|s: MDBInMemoryShard| #[trigger] self.current_state.vx_acquired(s) && all_flushed(s.view()),
            // ... "None if no file was written" is answered only for an empty state
            /*@C11,C16,C01,C19*/ ret matches Ok(None) ==> exists|s: MDBInMemoryShard| #[trigger] self.current_state.vx_acquired(s) && s.view() == Set::<VxRecId>::empty(),
            // ... and the path handed back names the file that holds exactly that state
            /*@C11,C09,C16,C01,C19*/ ret matches Ok(Some(p)) ==> exists|s: MDBInMemoryShard| #[trigger] self.current_state.vx_acquired(s) && vx_shard_file(p, s.view()),
//@ end

//@ extract mdb_shard/src/shard_file_manager.rs in `impl ShardFileManager` fn add_cas_block
//@ ret ret
//@ rules R19
//@ contract
        ensures
            // Ok: the record was in the shared state when the write guard was released (release obligations: nothing else left it)
            /*@C11,C16,C01,C19*/ ret is Ok ==> vx_recorded(vx_cas_id(cas_block_contents)),
//@ end

//@ extract mdb_shard/src/shard_file_manager.rs in `impl ShardFileManager` fn add_file_reconstruction_info
//@ ret ret
//@ rules R19
//@ contract
        ensures
            /*@C11,C16,C01,C19*/ ret is Ok ==> vx_recorded(vx_file_id(file_info)),
//@ end
}

} // verus!
fn main() {}
