//@ unit U-GETFILE
//@ props C17
//@ verus-args --rlimit 100
//@ config RECONSTRUCT_WRITE_SEQUENTIALLY
#![allow(non_snake_case, unused)]
use vstd::prelude::*;
use std::sync::Arc;
verus! {
global size_of usize == 8;

// U-RECONPLAN's shared preludes: plan arithmetic (`pieces`, `plan_ok`, `range_in_plan`, `cat`, `write_at`, ..) and the error type /
// output model.  These are THE definitions U-RECONPLAN proves its writer contracts about (included, not copied).
//@ include prelude/reconplan_math.rs
//@ include prelude/recon_io.rs
// U-CHUNKDEC's shared preludes: the codec and the specification of a run of serialized chunks (`total_len`, `concat_data`, `walk_pos`)
//@ include prelude/xorbidx_codec.rs
//@ include prelude/xorbidx_chunkspec.rs

#[derive(Clone, Copy)]
pub struct MerkleHash(pub [u64; 4]);
#[derive(Clone, Copy)]
pub struct HexMerkleHash(pub MerkleHash);

//@ extract cas_types/src/lib.rs struct Range
//@ end
// `#[derive(Clone)]` on `Range` is dropped by R10 and `impl<Idx: Copy> Copy for Range<Idx> {}` (cas_types/src/lib.rs:37) needs it
impl<Idx: Copy> Clone for Range<Idx> { fn clone(&self) -> (r: Self) ensures r == *self { *self } }
impl<Idx: Copy> Copy for Range<Idx> {}
//@ extract cas_types/src/lib.rs type ChunkRange
//@ end
//@ extract cas_types/src/lib.rs type FileRange
//@ end
//@ extract cas_types/src/lib.rs type HttpRange
//@ end
//@ extract cas_types/src/lib.rs struct CASReconstructionTerm
//@ end
//@ extract cas_types/src/lib.rs struct CASReconstructionFetchInfo
//@ end
// the reconstruction manifest as the server returns it; `fetch_info` (a HashMap) is opaque here
//@ extract cas_types/src/lib.rs struct QueryReconstructionResponse
//@ subst `HashMap<HexMerkleHash, Vec<CASReconstructionFetchInfo>>` => `FetchMap` :: R11 stub type for the fetch-info map (only moved into an Arc and handed on)
//@ end
#[verifier::external_body] struct FetchMap { _p: () }
impl FetchMap {
    // = U-RECONPLAN `FetchInfoStub::all_ok()`: every entry listed under xorb h is `entry_ok(h, e)` (the store serves the xorb's chunk
    // range for (e.url, e.url_range) with well-formed chunk byte indices, a url holds no space).  Nothing here unfolds it.
    uninterp spec fn truthful(&self) -> bool;
}
#[verifier::external_body] struct ProgressStub { _p: () }     // Option<Arc<dyn ProgressUpdater>>

// ======================================================================================================================
// Restated from U-RECONPLAN.rs (they are inline there, not in a prelude; keep in step): ground truth of a term, requested total,
// "OUT is the requested slice"
uninterp spec fn xorb_chunk_bytes(h: HexMerkleHash, s: int, e: int) -> Seq<u8>;
spec fn term_payload(term: CASReconstructionTerm) -> Seq<u8> { xorb_chunk_bytes(term.hash, term.range.start as int, term.range.end as int) }
spec fn sum_unpacked(terms: Seq<CASReconstructionTerm>, n: int) -> int decreases n {
    if n <= 0 { 0 } else { sum_unpacked(terms, n - 1) + terms[n - 1].unpacked_length }
}
spec fn req_total(byte_range: Option<FileRange>, terms: Seq<CASReconstructionTerm>) -> int {
    match byte_range { Some(rg) => rg.end - rg.start, None => sum_unpacked(terms, terms.len() as int) }
}
spec fn seq_out_is_slice(data: Seq<Seq<u8>>, off: int, total: int, out: Seq<u8>) -> bool {
    let n = data.len() as int;
    let w = plan_written(data, off, total, n);
    0 <= w && off + w <= cat(data, n).len() && out == cat(data, n).subrange(off, off + w)
}
// U-RECONPLAN `RemoteClient::plan_data`: the ground-truth payloads of the terms
spec fn plan_data(terms: Seq<CASReconstructionTerm>) -> Seq<Seq<u8>> {
    Seq::new(terms.len(), |i: int| term_payload(terms[i]))
}

// ---- the data a writer works with: what is FETCHED for a term according to the fetch map it was given ---------------------------
// `fetched_payload(fetch, term)` = what `get_one_term(.., term, fetch, ..)` returns on Ok (cold: the trim, by chunk byte indices, of what
// the store serves for the entry of `fetch` that covers the term; warm: the cache entry).  Uninterpreted: the writers' arithmetic in
// U-RECONPLAN is parametric in the term data (`data: Seq<Seq<u8>>`); it is a function of the fetch map, so a writer that is handed
// ANOTHER manifest's map is specified to write THAT map's data.
uninterp spec fn fetched_payload(fetch: FetchMap, term: CASReconstructionTerm) -> Seq<u8>;
spec fn plan_data_of(fetch: FetchMap, terms: Seq<CASReconstructionTerm>) -> Seq<Seq<u8>> {
    Seq::new(terms.len(), |i: int| fetched_payload(fetch, terms[i]))
}
// ASSUMED, = U-RECONPLAN `get_one_term`, clause `/*@C17*/ r matches Ok(d) ==> d@ == term_payload(term)` under its precondition
// `fetch_info.all_ok()`: with a truthful fetch map the fetched bytes are the term's chunks
#[verifier::external_body]
proof fn axiom_fetched_truthful(fetch: FetchMap, term: CASReconstructionTerm)
    requires fetch.truthful(),
    ensures fetched_payload(fetch, term) == term_payload(term),
{}

// ---- the output as the entry point sees it ---------------------------------------------------------------------------------------
// `OutputProvider` (recon_io.rs) is a handle on a file / shared buffer: the bytes live outside the handle (file system, Arc<Mutex<..>>).
// At this level the image is modelled as ghost state OF the handle, and the functions that write through it take it `&mut`:
//     image()   the bytes of the output now
// A writer's `content == write_at(pre, 0, OUT)` (U-RECONPLAN) reads here `final(out).image() == write_at(old(out).image(), 0, OUT)`.
impl OutputProvider {
    uninterp spec fn image(&self) -> Seq<u8>;
}

// THE writer specification: what U-RECONPLAN proves of `reconstruct_file_to_writer` (clause for clause, its five /*@C17*/ postconditions
// of `reconstruct_file_to_writer_body`) and, composed from par_plan_term / write_term_body / par_join by lemma_par_run,
// lemma_par_reported and lemma_c17_writers_agree, of `reconstruct_file_to_writer_parallel`, for a call with the arguments
// (terms, fetch, off, byte_range) on an output whose image was img0, leaving img1 and returning r - with `data` the term data:
//   OUT = pieces(data, off, req_total(byte_range, terms), |terms|)
spec fn writer_post_data(data: Seq<Seq<u8>>, terms: Seq<CASReconstructionTerm>, off: u64, byte_range: Option<FileRange>,
                         img0: Seq<u8>, img1: Seq<u8>, r: Result<u64>) -> bool {
    let total = req_total(byte_range, terms);
    let n = terms.len() as int;
    let out = pieces(data, off as int, total, n);
    r matches Ok(len) ==> {
        // [U-RECONPLAN: "the output image == the previous image with OUT written at offset 0"]
        &&& img1 == write_at(img0, 0, out)
        // ["OUT == concat(term data)[off .. off + w],  w == min(total_len, sum(unpacked) - off)"]
        &&& (n > 0 ==> seq_out_is_slice(data, off as int, total, out))
        &&& (n == 0 ==> out.len() == 0)
        // ["reported length == bytes written, when the byte range lies within the plan"]
        &&& (n > 0 && range_in_plan(data, off as int, total) ==> len == out.len())
        // ["whole file (no byte range, offset 0): everything is written"]
        &&& (byte_range is None && off == 0 && n > 0 ==> out == cat(data, n) && len == out.len())
    }
}
// ... with the data fetched according to `fetch`
spec fn writer_post(terms: Seq<CASReconstructionTerm>, fetch: FetchMap, off: u64, byte_range: Option<FileRange>,
                    img0: Seq<u8>, img1: Seq<u8>, r: Result<u64>) -> bool {
    writer_post_data(plan_data_of(fetch, terms), terms, off, byte_range, img0, img1, r)
}
// the writers' preconditions in U-RECONPLAN (plan-validity domain + machine arithmetic), as one predicate
spec fn writer_pre(terms: Seq<CASReconstructionTerm>, fetch: FetchMap, off: u64, byte_range: Option<FileRange>) -> bool {
    &&& (byte_range matches Some(rg) ==> rg.start <= rg.end)
    &&& sum_unpacked(terms, terms.len() as int) <= u64::MAX
    &&& plan_ok(plan_data_of(fetch, terms), off as int, req_total(byte_range, terms))
    &&& off + req_total(byte_range, terms) <= u64::MAX
}
// With a truthful fetch map the statement is U-RECONPLAN's, word for word (ground-truth payloads `plan_data(terms)`)
proof fn lemma_truthful_is_ground_truth(terms: Seq<CASReconstructionTerm>, fetch: FetchMap, off: u64, byte_range: Option<FileRange>,
                                        img0: Seq<u8>, img1: Seq<u8>, r: Result<u64>)
    requires fetch.truthful(), writer_post(terms, fetch, off, byte_range, img0, img1, r),
    ensures
        plan_data_of(fetch, terms) == plan_data(terms),
        /*@C17*/ writer_post_data(plan_data(terms), terms, off, byte_range, img0, img1, r),
{
    assert forall|i: int| 0 <= i < terms.len() implies #[trigger] plan_data_of(fetch, terms)[i] == plan_data(terms)[i] by {
        axiom_fetched_truthful(fetch, terms[i]);
    }
    assert(plan_data_of(fetch, terms) =~= plan_data(terms));
}

uninterp spec fn spec_RECONSTRUCT_WRITE_SEQUENTIALLY() -> bool;
#[verifier::external_body] fn RECONSTRUCT_WRITE_SEQUENTIALLY() -> (r: bool) ensures r == spec_RECONSTRUCT_WRITE_SEQUENTIALLY() { unimplemented!() }

#[verifier::external_body] struct RemoteClient { _p: () }
impl RemoteClient {
    // "the reconstruction endpoint answered the query (hash, byte_range) of this client with manifest m": a RELATION, two queries may be
    // answered differently.  Established only by a successful `get_reconstruction`.
    uninterp spec fn served(&self, hash: MerkleHash, byte_range: Option<FileRange>, m: QueryReconstructionResponse) -> bool;
    // "error value e was returned to this client by get_reconstruction or by a writer"
    uninterp spec fn raised(&self, e: CasClientError) -> bool;

    // STUB with ghost result (HTTP GET + JSON; cas_client/src/remote_client.rs:233-255).  ASSUMED: an Ok answer lies in the writers'
    // plan-validity domain for the range asked (first-term offset inside the first term's data, sums fit u64: U-RECONPLAN notes
    // "Plan-validity domain" 1 and 3) - outside it the writers panic (slice order / underflow), see U-RECONPLAN.
    #[verifier::external_body]
    fn get_reconstruction(&self, file_id: &MerkleHash, bytes_range: Option<FileRange>) -> (r: Result<QueryReconstructionResponse>)
        ensures
            r matches Ok(m) ==> self.served(*file_id, bytes_range, m),
            r matches Ok(m) ==> (bytes_range matches Some(rg) ==> rg.start <= rg.end) ==> writer_pre(m.terms@, m.fetch_info, m.offset_into_first_range, bytes_range),
            r matches Err(e) ==> self.raised(e),
    { unimplemented!() }

    // STUBS for the two writers: contracts = U-RECONPLAN's (see writer_post / writer_pre above); the SAME predicate for both modes
    #[verifier::external_body]
    fn reconstruct_file_to_writer(&self, terms: Vec<CASReconstructionTerm>, fetch_info: Arc<FetchMap>, offset_into_first_range: u64,
            byte_range: Option<FileRange>, writer: &mut OutputProvider, progress_updater: ProgressStub) -> (r: Result<u64>)
        requires writer_pre(terms@, *fetch_info, offset_into_first_range, byte_range),
        ensures
            writer_post(terms@, *fetch_info, offset_into_first_range, byte_range, old(writer).image(), final(writer).image(), r),
            r matches Err(e) ==> self.raised(e),
    { unimplemented!() }
    #[verifier::external_body]
    fn reconstruct_file_to_writer_parallel(&self, terms: Vec<CASReconstructionTerm>, fetch_info: Arc<FetchMap>, offset_into_first_range: u64,
            byte_range: Option<FileRange>, writer: &mut OutputProvider, progress_updater: ProgressStub) -> (r: Result<u64>)
        requires writer_pre(terms@, *fetch_info, offset_into_first_range, byte_range),
        ensures
            writer_post(terms@, *fetch_info, offset_into_first_range, byte_range, old(writer).image(), final(writer).image(), r),
            r matches Err(e) ==> self.raised(e),
    { unimplemented!() }

// ======================================================================================================================
// (A) the public entry: the WHOLE fn `<RemoteClient as ReconstructionClient>::get_file`
//@ extract cas_client/src/remote_client.rs in `impl ReconstructionClient for RemoteClient` fn get_file
//@ ret r
//@ rules R7o
//@ subst `output_provider: &OutputProvider` => `output_provider: &mut OutputProvider` :: R11 model of external state: the provider is a handle on a file / shared buffer; its image is ghost state of the handle, so the functions that write through it take it `&mut` (the argument text at the call sites is unchanged)
//@ subst `Option<Arc<dyn ProgressUpdater>>` => `ProgressStub` :: R11 stub type (trait object; progress reporting has no effect on the output)
//@ contract
    requires
        // caller's domain: a byte range is not reversed (else `range.end - range.start` underflows in both writers)
        byte_range matches Some(rg) ==> rg.start <= rg.end,
    ensures
        // on Ok: the output image and the reported length are the writer specification applied to EXACTLY the manifest that
        // get_reconstruction(hash, byte_range) returned: (m.terms, m.fetch_info, m.offset_into_first_range) and the caller's byte_range -
        // in both modes (sequential flag set or not)
        /*@C17*/ r is Ok ==> exists|m: QueryReconstructionResponse| #[trigger] self.served(*hash, byte_range, m)
            && writer_post(m.terms@, m.fetch_info, m.offset_into_first_range, byte_range, old(output_provider).image(), final(output_provider).image(), r),
        // an error is one that get_reconstruction or the writer returned (propagated unchanged, none invented)
        /*@C17*/ r matches Err(e) ==> self.raised(e),
//@ end
}

// ======================================================================================================================
// (B) the cold fetch: `range_header` and the WHOLE fn `download_range`
//
// The Range header text.  `dec(n)` = decimal rendering of n (what `{}` prints for a u32), uninterpreted.
uninterp spec fn dec(n: u32) -> Seq<char>;
spec fn range_header_spec(start: u32, end: u32) -> Seq<char> {
    seq!['b', 'y', 't', 'e', 's', '='] + dec(start) + seq!['-'] + dec(end)
}
// R7 outline of the macro `format!("bytes={}-{}", A, B)` (Verus cannot parse format!): only the macro name, its opening parenthesis and the
// literal are replaced by this function's name and parenthesis; the ARGUMENT expressions stay as written in the source.
// ASSUMED: the literal "bytes={}-{}" renders "bytes=", its first argument in decimal, "-", its second argument in decimal - in that order.
#[verifier::external_body]
fn vx_fmt_bytes_range(a: u32, b: u32) -> (r: String)
    ensures r@ == range_header_spec(a, b),
{ format!("bytes={}-{}", a, b) }

//@ extract cas_client/src/remote_client.rs fn range_header
//@ ret r
//@ subst `format!("bytes={}-{}",` => `vx_fmt_bytes_range(` :: R7 outline of format! with this literal (see vx_fmt_bytes_range): contract assumed; the arguments are the source's
//@ contract
    ensures
        // start first, then end (HTTP Range: both inclusive)
        /*@C17*/ r@ == range_header_spec(range.start, range.end),
//@ end

// ---- the HTTP exchange as ghost data -------------------------------------------------------------------------------------------
enum HeaderName { Range, Other }
const RANGE: HeaderName = HeaderName::Range;       // http::header::RANGE
// one request/response pair: what was asked (url, headers in the order they were set) and what came back
struct HttpExchange {
    pub url: Seq<char>,
    pub headers: Seq<(HeaderName, Seq<char>)>,
    pub status_ok: bool,                    // `error_for_status()` lets it pass (not 4xx/5xx)
    pub content_length: Option<u64>,        // the Content-Length header, if any
    pub body: Seq<u8>,                      // all bytes of the body stream, back to back
}
#[verifier::external_body] struct Url { _p: () }
impl Url {
    uninterp spec fn text(&self) -> Seq<char>;
    // `?` converts url::ParseError into the crate error (conversion elided: the stub returns the crate error type)
    #[verifier::external_body]
    fn parse(s: &str) -> (r: Result<Url>) ensures r matches Ok(u) ==> u.text() == s@, { unimplemented!() }
}
#[verifier::external_body] struct HttpClient { _p: () }         // Arc<ClientWithMiddleware>
#[verifier::external_body] struct RequestBuilder { _p: () }     // reqwest_middleware::RequestBuilder
#[verifier::external_body] struct Response { _p: () }           // reqwest::Response
#[verifier::external_body] struct BodyStream { _p: () }         // impl Stream<Item = Result<Bytes, E>>
struct IoErrorOther;                                            // the function value `std::io::Error::other` (error adaptor of the stream)
impl HttpClient {
    // "this exchange took place through this client"
    uninterp spec fn exchanged(&self, x: HttpExchange) -> bool;
    #[verifier::external_body]
    fn get(&self, url: Url) -> (r: RequestBuilder)
        ensures r.client() == *self, r.url() == url.text(), r.headers() == Seq::<(HeaderName, Seq<char>)>::empty(),
    { unimplemented!() }
}
impl RequestBuilder {
    uninterp spec fn client(&self) -> HttpClient;
    uninterp spec fn url(&self) -> Seq<char>;
    uninterp spec fn headers(&self) -> Seq<(HeaderName, Seq<char>)>;
    #[verifier::external_body]
    fn header(self, name: HeaderName, value: String) -> (r: RequestBuilder)
        ensures r.client() == self.client(), r.url() == self.url(), r.headers() == self.headers().push((name, value@)),
    { unimplemented!() }
    // the exchange: the response belongs to exactly the request that was built.
    // ASSUMED (domain of the chunk decoder, U-CHUNKDEC `multi_domain`): the body lies in the decoder's domain - see notes.
    #[verifier::external_body]
    fn send(self) -> (r: Result<Response>)
        ensures r matches Ok(resp) ==> self.client().exchanged(resp.exchange())
            && resp.exchange().url == self.url() && resp.exchange().headers == self.headers()
            && multi_domain(resp.exchange().body, 0),
    { unimplemented!() }
}
impl Response {
    uninterp spec fn exchange(&self) -> HttpExchange;
    #[verifier::external_body]
    fn error_for_status(self) -> (r: Result<Response>)
        ensures r matches Ok(resp) ==> resp.exchange() == self.exchange() && self.exchange().status_ok,
    { unimplemented!() }
    #[verifier::external_body]
    fn content_length(&self) -> (r: Option<u64>) ensures r == self.exchange().content_length, { unimplemented!() }
    #[verifier::external_body]
    fn bytes_stream(self) -> (r: BodyStream) ensures r.content() == self.exchange().body, { unimplemented!() }
}
impl BodyStream {
    uninterp spec fn content(&self) -> Seq<u8>;
    // TryStreamExt::map_err: converts the item ERROR type only
    #[verifier::external_body]
    fn map_err(self, f: IoErrorOther) -> (r: BodyStream) ensures r.content() == self.content(), { unimplemented!() }
}
// Restated from U-CHUNKDEC.rs (inline there): what every multi-chunk decoder delivers on Ok, and the decoders' domain
spec fn multi_data_ok(bytes: Seq<u8>, p0: nat, w0: Seq<u8>, w1: Seq<u8>, idx: Seq<u32>) -> bool {
    &&& idx.len() >= 1
    &&& forall|i: int| 0 <= i < idx.len() ==> idx[i] == total_len(bytes, p0, i as nat)
    &&& (w0 + concat_data(bytes, p0, (idx.len() - 1) as nat)).is_prefix_of(w1)
}
spec fn multi_domain(bytes: Seq<u8>, p0: nat) -> bool {
    &&& bytes.len() <= 0x100_0000_0000
    &&& forall|k: nat| walk_pos(bytes, p0, k) <= bytes.len() ==> #[trigger] total_len(bytes, p0, k) <= u32::MAX
}
// STUB for `cas_object::deserialize_async::deserialize_chunks_from_stream` with EXACTLY the contract U-CHUNKDEC proves for it
// (U-CHUNKDEC.rs, last item: requires multi_domain(stream.content(), 0); ensures Ok((buf, idx)) ==> multi_data_ok(stream.content(), 0, empty, buf, idx));
// `?` converts CasObjectError into the crate error (conversion elided)
#[verifier::external_body]
fn deserialize_chunks_from_stream(stream: BodyStream) -> (r: Result<(Vec<u8>, Vec<u32>)>)
    requires multi_domain(stream.content(), 0),
    ensures r matches Ok((buf, idx)) ==> multi_data_ok(stream.content(), 0, Seq::empty(), buf@, idx@),
{ unimplemented!() }

// what download_range(http_client, fetch_term, _) == Ok(p) says about the exchange x it made
spec fn download_ok(x: HttpExchange, fetch_term: CASReconstructionFetchInfo, p: (Vec<u8>, Vec<u32>)) -> bool {
    // the request: GET fetch_term.url with the single header `Range: bytes=<url_range.start>-<url_range.end>`
    &&& x.url == fetch_term.url@
    &&& x.headers == seq![(RANGE, range_header_spec(fetch_term.url_range.start, fetch_term.url_range.end))]
    &&& x.status_ok
    // a stated Content-Length is exactly the length of the inclusive byte range asked for
    &&& (x.content_length matches Some(c) ==> c == fetch_term.url_range.end - fetch_term.url_range.start + 1)
    // (data, chunk byte indices) are the deserialization of exactly the body bytes
    &&& multi_data_ok(x.body, 0, Seq::empty(), p.0@, p.1@)
}

//@ extract cas_client/src/remote_client.rs fn download_range
//@ ret r
//@ subst `Arc<ClientWithMiddleware>` => `HttpClient` :: R11 stub type for the HTTP client
//@ subst `cas_object::deserialize_async::deserialize_chunks_from_stream` => `deserialize_chunks_from_stream` :: R11 callee path of the cas_object dependency -> stub carrying the contract U-CHUNKDEC proves
//@ subst `std::io::Error::other` => `IoErrorOther` :: R11 stub for the function value handed to map_err (error-type adaptor of the body stream)
//@ contract
    requires
        // DOMAIN (u32 arithmetic of `expected_len`): the byte range is not reversed and does not span 2^32 bytes - see notes, "Observations"
        fetch_term.url_range.start <= fetch_term.url_range.end,
        fetch_term.url_range.end - fetch_term.url_range.start < u32::MAX,
    ensures
        /*@C17*/ r matches Ok(p) ==> exists|x: HttpExchange| #[trigger] http_client.exchanged(x) && download_ok(x, fetch_term, p),
//@ end

} // verus!
fn main() {}
