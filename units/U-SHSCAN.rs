//@ unit U-SHSCAN
//@ props C09 C18 C05
//@ verus-args --rlimit 100
//@ rules-from isearch
#![allow(non_snake_case, unused)]
use vstd::prelude::*;
use vstd::std_specs::cmp::*;
use std::cmp::Ordering;
use std::mem::size_of;
verus! {
global size_of usize == 8;

//@ include prelude/setops_merklehash.rs
type HMACKey = MerkleHash;

//@ extract mdb_shard/src/file_structs.rs struct FileDataSequenceHeader
//@ end
//@ extract mdb_shard/src/file_structs.rs struct FileDataSequenceEntry
//@ end
//@ extract mdb_shard/src/file_structs.rs struct FileVerificationEntry
//@ end
//@ extract mdb_shard/src/file_structs.rs struct FileMetadataExt
//@ end
//@ extract mdb_shard/src/file_structs.rs struct MDBFileInfo
//@ end
//@ extract mdb_shard/src/cas_structs.rs struct CASChunkSequenceHeader
//@ end
//@ extract mdb_shard/src/cas_structs.rs struct CASChunkSequenceEntry
//@ end
//@ extract mdb_shard/src/cas_structs.rs struct MDBCASInfo
//@ end
//@ extract mdb_shard/src/shard_format.rs struct MDBShardFileHeader
//@ end
//@ extract mdb_shard/src/shard_format.rs struct MDBShardFileFooter
//@ end
//@ extract mdb_shard/src/shard_format.rs struct MDBShardInfo
//@ end
//@ extract mdb_shard/src/file_structs.rs const MDB_FILE_FLAG_VERIFICATION_MASK
//@ end
//@ extract mdb_shard/src/file_structs.rs const MDB_FILE_FLAG_METADATA_EXT_MASK
//@ end
global size_of FileDataSequenceEntry == 48;
global size_of FileVerificationEntry == 48;
global size_of CASChunkSequenceEntry == 48;

//@ include prelude/shscan_io.rs

// ================= the CAS section as a record list, defined from the BYTES only (no footer count field) ============
// position of block k of a section that starts at `off` and whose block headers are `sec`
spec fn cas_pos(off: int, sec: Seq<CASChunkSequenceHeader>, k: int) -> int decreases k {
    if k <= 0 { off } else { cas_pos(off, sec, k - 1) + 48 + 48 * sec[k - 1].num_entries }
}
// `sec` is the list of block headers found at `off`: each at its position, none a bookend, and a bookend right after the last
spec fn cas_section(data: Seq<u8>, off: int, sec: Seq<CASChunkSequenceHeader>) -> bool {
    &&& forall|k: int| 0 <= k < sec.len() ==> cas_hdr_at(data, #[trigger] cas_pos(off, sec, k)) == sec[k] && sec[k].cas_hash != bookend_hash()
    &&& cas_hdr_at(data, cas_pos(off, sec, sec.len() as int)).cas_hash == bookend_hash()
}
spec fn has_cas_section(data: Seq<u8>, off: int) -> bool { exists|sec: Seq<CASChunkSequenceHeader>| cas_section(data, off, sec) }
spec fn the_cas_section(data: Seq<u8>, off: int) -> Seq<CASChunkSequenceHeader> { choose|sec: Seq<CASChunkSequenceHeader>| cas_section(data, off, sec) }
proof fn lemma_cas_pos_step(off: int, sec: Seq<CASChunkSequenceHeader>, k: int)
    requires 0 <= k < sec.len(),
    ensures cas_pos(off, sec, k + 1) == cas_pos(off, sec, k) + 48 + 48 * sec[k].num_entries,
{}


// the full block k of the section: header and its chunk entries
spec fn cas_block_ok(data: Seq<u8>, p: int, b: MDBCASInfo) -> bool {
    &&& b.metadata == cas_hdr_at(data, p) && b.chunks@.len() == b.metadata.num_entries
    &&& forall|j: int| 0 <= j < b.chunks@.len() ==> #[trigger] b.chunks@[j] == cas_entry_at(data, p + 48 + 48 * j)
}
spec fn cv(v: Vec<MDBCASInfo>) -> Seq<MDBCASInfo> { v@ }   // fixes the element type where inference has not yet
impl MDBCASInfo {
//@ extract mdb_shard/src/cas_structs.rs in `impl MDBCASInfo` fn deserialize
//@ ret res
//@ rules R4u
//@ subst `<R: Read>` => `` :: R11 reader stub instead of the generic parameter
//@ subst `reader: &mut R` => `reader: &mut VxSR` :: R11 seekable reader stub with ghost bytes and position
//@ subst `Result<Option<Self>, std::io::Error>` => `Result<Option<Self>>` :: R11 one error type for all stubs (no From conversion)
//@ contract
        ensures
            final(reader).data@ == old(reader).data@,
            res matches Ok(Some(b)) ==> cas_block_ok(old(reader).data@, old(reader).pos@, b) && b.metadata.cas_hash != bookend_hash()
                && final(reader).pos@ == old(reader).pos@ + 48 + 48 * b.metadata.num_entries,
            res matches Ok(None) ==> cas_hdr_at(old(reader).data@, old(reader).pos@).cas_hash == bookend_hash() && final(reader).pos@ == old(reader).pos@ + 48,
//@ body-start
        let ghost data0 = reader.data@; let ghost p0 = reader.pos@;
//@ loop 1
            invariant
                reader.data@ == data0, data0 == old(reader).data@, reader.pos@ == p0 + 48 + 48 * vx_it1, chunks@.len() == vx_it1, metadata == cas_hdr_at(data0, p0),
                /*@C09*/ forall|j: int| 0 <= j < chunks@.len() ==> #[trigger] chunks@[j] == cas_entry_at(data0, p0 + 48 + 48 * j),
//@ end
}


// ================= the file-info section, again from the bytes only ==================================================
spec fn has_verif(h: FileDataSequenceHeader) -> bool { h.file_flags & MDB_FILE_FLAG_VERIFICATION_MASK != 0 }
spec fn has_ext(h: FileDataSequenceHeader) -> bool { h.file_flags & MDB_FILE_FLAG_METADATA_EXT_MASK != 0 }
// number of 48-byte records after the header of a file block: entries, verification entries, metadata-ext
spec fn following(h: FileDataSequenceHeader) -> int {
    (if has_verif(h) { 2 * h.num_entries } else { h.num_entries as int }) + (if has_ext(h) { 1int } else { 0 })
}
spec fn file_pos(off: int, sec: Seq<FileDataSequenceHeader>, k: int) -> int decreases k {
    if k <= 0 { off } else { file_pos(off, sec, k - 1) + 48 + 48 * following(sec[k - 1]) }
}
spec fn file_section(data: Seq<u8>, off: int, sec: Seq<FileDataSequenceHeader>) -> bool {
    &&& forall|k: int| 0 <= k < sec.len() ==> file_hdr_at(data, #[trigger] file_pos(off, sec, k)) == sec[k] && sec[k].file_hash != bookend_hash()
    &&& file_hdr_at(data, file_pos(off, sec, sec.len() as int)).file_hash == bookend_hash()
}
spec fn has_file_section(data: Seq<u8>, off: int) -> bool { exists|sec: Seq<FileDataSequenceHeader>| file_section(data, off, sec) }
spec fn the_file_section(data: Seq<u8>, off: int) -> Seq<FileDataSequenceHeader> { choose|sec: Seq<FileDataSequenceHeader>| file_section(data, off, sec) }
proof fn lemma_file_pos_step(off: int, sec: Seq<FileDataSequenceHeader>, k: int)
    requires 0 <= k < sec.len(),
    ensures file_pos(off, sec, k + 1) == file_pos(off, sec, k) + 48 + 48 * following(sec[k]),
{}
// the full file block at p: header, data entries, verification entries (iff flagged), metadata-ext (iff flagged)
spec fn file_block_ok(data: Seq<u8>, p: int, f: MDBFileInfo) -> bool {
    let n = f.metadata.num_entries as int;
    &&& f.metadata == file_hdr_at(data, p)
    &&& f.segments@.len() == n && forall|j: int| 0 <= j < n ==> #[trigger] f.segments@[j] == file_entry_at(data, p + 48 + 48 * j)
    &&& f.verification@.len() == (if has_verif(f.metadata) { n } else { 0 })
    &&& forall|j: int| 0 <= j < f.verification@.len() ==> #[trigger] f.verification@[j] == verif_at(data, p + 48 + 48 * n + 48 * j)
    &&& f.metadata_ext == (if has_ext(f.metadata) { Some(ext_at(data, p + 48 + 48 * (following(f.metadata) - 1))) } else { None::<FileMetadataExt> })
}
// R7 outline of `metadata.contains_metadata_ext().then(|| FileMetadataExt::deserialize(reader)).transpose()?` (bool::then with a
// closure + Option<Result>::transpose): reads the metadata-ext record iff the flag is set.  Contract ASSUMED from the std definitions.
#[verifier::external_body]
fn vx_then_read_ext(flag: bool, reader: &mut VxSR) -> (r: Result<Option<FileMetadataExt>>)
    ensures final(reader).data@ == old(reader).data@,
        r is Ok && !flag ==> r == Ok::<Option<FileMetadataExt>, MDBShardError>(None) && final(reader).pos@ == old(reader).pos@,
        r is Ok && flag ==> r == Ok::<Option<FileMetadataExt>, MDBShardError>(Some(ext_at(old(reader).data@, old(reader).pos@))) && final(reader).pos@ == old(reader).pos@ + 48,
{ unimplemented!() }
spec fn fv(v: Vec<MDBFileInfo>) -> Seq<MDBFileInfo> { v@ }
spec fn rv(v: Vec<(MerkleHash, (u64, u64), Option<(u64, u64)>, Option<MerkleHash>)>) -> Seq<(MerkleHash, (u64, u64), Option<(u64, u64)>, Option<MerkleHash>)> { v@ }

impl FileDataSequenceHeader {
//@ extract mdb_shard/src/file_structs.rs in `impl FileDataSequenceHeader` fn contains_metadata_ext
//@ ret r
//@ contract
    ensures r == has_ext(*self),
//@ end
//@ extract mdb_shard/src/file_structs.rs in `impl FileDataSequenceHeader` fn contains_verification
//@ ret r
//@ contract
    ensures r == has_verif(*self),
//@ end
}
impl MDBFileInfo {
//@ extract mdb_shard/src/file_structs.rs in `impl MDBFileInfo` fn deserialize
//@ ret res
//@ rules R4u
//@ subst `<R: Read>` => `` :: R11 reader stub instead of the generic parameter
//@ subst `reader: &mut R` => `reader: &mut VxSR` :: R11 seekable reader stub with ghost bytes and position
//@ subst `Result<Option<Self>, std::io::Error>` => `Result<Option<Self>>` :: R11 one error type for all stubs (no From conversion)
//@ subst `metadata .contains_metadata_ext() .then(|| FileMetadataExt::deserialize(reader)) .transpose()?` => `vx_then_read_ext(metadata.contains_metadata_ext(), reader)?` :: R7 outline (closure + transpose), contract assumed
//@ contract
        ensures
            final(reader).data@ == old(reader).data@,
            res matches Ok(Some(f)) ==> file_block_ok(old(reader).data@, old(reader).pos@, f) && f.metadata.file_hash != bookend_hash()
                && final(reader).pos@ == old(reader).pos@ + 48 + 48 * following(f.metadata),
            res matches Ok(None) ==> file_hdr_at(old(reader).data@, old(reader).pos@).file_hash == bookend_hash() && final(reader).pos@ == old(reader).pos@ + 48,
//@ body-start
        let ghost data0 = reader.data@; let ghost p0 = reader.pos@;
//@ loop 1
            invariant
                reader.data@ == data0, data0 == old(reader).data@, reader.pos@ == p0 + 48 + 48 * vx_it1, segments@.len() == vx_it1,
                metadata == file_hdr_at(data0, p0), num_entries == metadata.num_entries,
                /*@C09*/ forall|j: int| 0 <= j < segments@.len() ==> #[trigger] segments@[j] == file_entry_at(data0, p0 + 48 + 48 * j),
//@ loop 2
                invariant
                    reader.data@ == data0, data0 == old(reader).data@, reader.pos@ == p0 + 48 + 48 * num_entries + 48 * vx_it2, verification@.len() == vx_it2,
                    metadata == file_hdr_at(data0, p0), num_entries == metadata.num_entries,
                    /*@C09*/ forall|j: int| 0 <= j < verification@.len() ==> #[trigger] verification@[j] == verif_at(data0, p0 + 48 + 48 * num_entries + 48 * j),
//@ end
}

// ---- read_all_truncated_hashes ------------------------------------------------------------------------------------------
#[verifier::external_body]
fn truncate_hash(hash: &MerkleHash) -> (r: u64) ensures r == hash.0[0] { unimplemented!() }
// little-endian scalars at a byte offset (the same reading as `isx::spec_u64_at` / `u32_at` of the writer's token model in prelude/shwrite_io.rs)
uninterp spec fn u64_le_at(data: Seq<u8>, p: int) -> u64;
uninterp spec fn u32_le_at(data: Seq<u8>, p: int) -> u32;
// utils::serialization_utils readers: on Ok the scalar at the position was read and the position advanced by its size
#[verifier::external_body]
fn read_u64(reader: &mut VxSR) -> (r: Result<u64>)
    ensures final(reader).data@ == old(reader).data@, r matches Ok(v) ==> v == u64_le_at(old(reader).data@, old(reader).pos@) && final(reader).pos@ == old(reader).pos@ + 8
{ unimplemented!() }
#[verifier::external_body]
fn read_u32(reader: &mut VxSR) -> (r: Result<u32>)
    ensures final(reader).data@ == old(reader).data@, r matches Ok(v) ==> v == u32_le_at(old(reader).data@, old(reader).pos@) && final(reader).pos@ == old(reader).pos@ + 4
{ unimplemented!() }
// number of chunk entries in the first k blocks
spec fn chunks_before(sec: Seq<CASChunkSequenceHeader>, k: int) -> int decreases k {
    if k <= 0 { 0 } else { chunks_before(sec, k - 1) + sec[k - 1].num_entries }
}
// element `t` of the result is chunk j of block k: truncated (stored) chunk hash -> (record index of the block header, chunk index)
spec fn trunc_ok(t: (u64, (u32, u32)), data: Seq<u8>, off: int, sec: Seq<CASChunkSequenceHeader>, k: int, j: int) -> bool {
    t.0 == cas_entry_at(data, cas_pos(off, sec, k) + 48 + 48 * j).chunk_hash.0[0] && 48 * t.1.0 == cas_pos(off, sec, k) - off && t.1.1 == j
}
spec fn trunc_upto(v: Seq<(u64, (u32, u32))>, data: Seq<u8>, off: int, sec: Seq<CASChunkSequenceHeader>, k: int) -> bool {
    forall|b: int, j: int| 0 <= b < k && 0 <= j < sec[b].num_entries ==> trunc_ok(#[trigger] v[chunks_before(sec, b) + j], data, off, sec, b, j)
}
spec fn tv(v: Vec<(u64, (u32, u32))>) -> Seq<(u64, (u32, u32))> { v@ }
// ---- what the listing is, whichever tables the shard carries -------------------------------------------------------------------------
// row `t` names a chunk of the section / chunk (b, j) of the section is listed in `v`
spec fn row_named(t: (u64, (u32, u32)), data: Seq<u8>, off: int, sec: Seq<CASChunkSequenceHeader>) -> bool {
    exists|b: int, j: int| 0 <= b < sec.len() && 0 <= j < sec[b].num_entries && #[trigger] trunc_ok(t, data, off, sec, b, j)
}
spec fn chunk_listed(v: Seq<(u64, (u32, u32))>, data: Seq<u8>, off: int, sec: Seq<CASChunkSequenceHeader>, b: int, j: int) -> bool {
    exists|t: int| 0 <= t < v.len() && trunc_ok(#[trigger] v[t], data, off, sec, b, j)
}
// exactly one row per chunk of every xorb record: as many rows as chunks, every row names a real chunk, every chunk is listed
// (the shape of U-SHWRITE's `chunk_pairs`: "the chunk table has exactly Σ|chunks| rows naming real chunks")
spec fn rows_cover(v: Seq<(u64, (u32, u32))>, data: Seq<u8>, off: int, sec: Seq<CASChunkSequenceHeader>) -> bool {
    &&& v.len() == chunks_before(sec, sec.len() as int)
    &&& forall|t: int| 0 <= t < v.len() ==> row_named(#[trigger] v[t], data, off, sec)
    &&& forall|b: int, j: int| 0 <= b < sec.len() && 0 <= j < sec[b].num_entries ==> #[trigger] chunk_listed(v, data, off, sec, b, j)
}
// the on-disk chunk lookup table: n rows of (u64 key, u32 block ordinal, u32 chunk index), 16 bytes each, at byte p
spec fn table_row(data: Seq<u8>, p: int, i: int) -> (u64, (u32, u32)) {
    (u64_le_at(data, p + 16 * i), (u32_le_at(data, p + 16 * i + 8), u32_le_at(data, p + 16 * i + 12)))
}
spec fn table_rows(data: Seq<u8>, p: int, n: int) -> Seq<(u64, (u32, u32))> { Seq::new(n as nat, |i: int| table_row(data, p, i)) }
// index of chunk (b, j) in the section-ordered listing
spec fn row_at(sec: Seq<CASChunkSequenceHeader>, b: int, j: int) -> int { chunks_before(sec, b) + j }
// the block a row index of the section-ordered listing falls into
proof fn lemma_row_block(sec: Seq<CASChunkSequenceHeader>, k: int, t: int)
    requires 0 <= k <= sec.len(), 0 <= t < chunks_before(sec, k),
    ensures exists|b: int, j: int| 0 <= b < k && 0 <= j < sec[b].num_entries && t == #[trigger] row_at(sec, b, j),
    decreases k,
{
    lemma_chunks_mono(sec, 0, k - 1);
    if t < chunks_before(sec, k - 1) { lemma_row_block(sec, k - 1, t); }
    else { let b = k - 1; let j = t - chunks_before(sec, k - 1); assert(0 <= b < k && 0 <= j < sec[b].num_entries && t == row_at(sec, b, j)); }
}
// the section-ordered listing covers the section
proof fn lemma_scan_covers(v: Seq<(u64, (u32, u32))>, data: Seq<u8>, off: int, sec: Seq<CASChunkSequenceHeader>)
    requires v.len() == chunks_before(sec, sec.len() as int), trunc_upto(v, data, off, sec, sec.len() as int),
    ensures rows_cover(v, data, off, sec),
{
    let cnt = sec.len() as int;
    assert forall|t: int| 0 <= t < v.len() implies row_named(#[trigger] v[t], data, off, sec) by {
        lemma_row_block(sec, cnt, t);
        let (b, j) = choose|b: int, j: int| 0 <= b < cnt && 0 <= j < sec[b].num_entries && t == #[trigger] row_at(sec, b, j);
        assert(trunc_ok(v[chunks_before(sec, b) + j], data, off, sec, b, j));
    }
    assert forall|b: int, j: int| 0 <= b < cnt && 0 <= j < sec[b].num_entries implies #[trigger] chunk_listed(v, data, off, sec, b, j) by {
        lemma_chunks_mono(sec, b + 1, cnt); lemma_chunks_mono(sec, 0, b);
        assert(chunks_before(sec, b + 1) == chunks_before(sec, b) + sec[b].num_entries);
        let t = chunks_before(sec, b) + j;
        assert(0 <= t < v.len() && trunc_ok(v[t], data, off, sec, b, j));
    }
}
proof fn lemma_cas_pos_lower(off: int, sec: Seq<CASChunkSequenceHeader>, k: int)
    requires 0 <= k <= sec.len(),
    ensures cas_pos(off, sec, k) >= off + 48 * k + 48 * chunks_before(sec, k), chunks_before(sec, k) >= 0,
    decreases k
{ if k > 0 { lemma_cas_pos_lower(off, sec, k - 1); } }
proof fn lemma_cas_pos_mono2(off: int, sec: Seq<CASChunkSequenceHeader>, i: int, j: int)
    requires 0 <= i <= j,
    ensures cas_pos(off, sec, i) <= cas_pos(off, sec, j)
    decreases j - i
{ if i < j { lemma_cas_pos_mono2(off, sec, i, j - 1); } }

proof fn lemma_cas_pos_push(off: int, s0: Seq<CASChunkSequenceHeader>, x: CASChunkSequenceHeader, i: int)
    requires 0 <= i <= s0.len(),
    ensures cas_pos(off, s0.push(x), i) == cas_pos(off, s0, i), chunks_before(s0.push(x), i) == chunks_before(s0, i),
    decreases i
{ if i > 0 { lemma_cas_pos_push(off, s0, x, i - 1); assert(s0.push(x)[i - 1] == s0[i - 1]); } }
proof fn lemma_chunks_mono(sec: Seq<CASChunkSequenceHeader>, i: int, j: int)
    requires 0 <= i <= j <= sec.len(),
    ensures chunks_before(sec, i) <= chunks_before(sec, j), chunks_before(sec, i) >= 0,
    decreases j - i
{ lemma_cas_pos_lower(0, sec, i); if i < j { lemma_chunks_mono(sec, i, j - 1); } }
// appending result entries does not disturb the ones already there
proof fn lemma_trunc_push(v: Seq<(u64, (u32, u32))>, t: (u64, (u32, u32)), data: Seq<u8>, off: int, sec: Seq<CASChunkSequenceHeader>, k: int)
    requires trunc_upto(v, data, off, sec, k), 0 <= k <= sec.len(), v.len() >= chunks_before(sec, k),
    ensures trunc_upto(v.push(t), data, off, sec, k),
{
    assert forall|b: int, j: int| 0 <= b < k && 0 <= j < sec[b].num_entries implies trunc_ok(#[trigger] v.push(t)[chunks_before(sec, b) + j], data, off, sec, b, j) by {
        lemma_chunks_mono(sec, b + 1, k); lemma_chunks_mono(sec, 0, b);
        assert(v.push(t)[chunks_before(sec, b) + j] == v[chunks_before(sec, b) + j]);
    }
}

impl MDBShardInfo {
// the footer count accessors say only what they are: sizes of the OPTIONAL lookup tables
//@ extract mdb_shard/src/shard_format.rs in `impl MDBShardInfo` fn num_cas_entries
//@ ret r
//@ contract
        ensures r == self.metadata.cas_lookup_num_entry as usize,
//@ end
//@ extract mdb_shard/src/shard_format.rs in `impl MDBShardInfo` fn num_file_entries
//@ ret r
//@ contract
        ensures r == self.metadata.file_lookup_num_entry as usize,
//@ end
//@ extract mdb_shard/src/shard_format.rs in `impl MDBShardInfo` fn cas_info_byte_range
//@ ret r
//@ contract
        ensures r == (self.metadata.cas_info_offset, self.metadata.file_lookup_offset),
//@ end

//@ extract mdb_shard/src/shard_format.rs in `impl MDBShardInfo` fn read_all_cas_blocks
//@ ret res
//@ rules R4u
//@ subst `<R: Read + Seek>` => `` :: R11 reader stub instead of the generic parameter
//@ subst `reader: &mut R` => `reader: &mut VxSR` :: R11 seekable reader stub with ghost bytes and position
//@ contract
        requires has_cas_section(old(reader).data@, self.metadata.cas_info_offset as int),
        ensures
            // lists ALL xorb records of the section, up to the bookend, each with its byte position — whatever the footer's
            // lookup-table counts are
            res matches Ok(v) ==> /*@C09*/ ({
                let off = self.metadata.cas_info_offset as int; let sec = the_cas_section(old(reader).data@, off);
                &&& v@.len() == sec.len()
                &&& forall|k: int| 0 <= k < sec.len() ==> (#[trigger] v@[k]).0 == sec[k] && v@[k].1 == cas_pos(off, sec, k)
            }),
//@ body-start
        let ghost data0 = reader.data@; let ghost off = self.metadata.cas_info_offset as int; let ghost sec = the_cas_section(data0, off);
        proof { assert(cas_section(data0, off, sec)); }
//@ after `loop`
            invariant_except_break
                /*@C09*/ reader.pos@ == cas_pos(off, sec, cas_blocks@.len() as int),
            invariant
                reader.data@ == data0, cas_section(data0, off, sec), off == self.metadata.cas_info_offset,
                cas_blocks@.len() <= sec.len(),
                /*@C09*/ forall|k: int| 0 <= k < cas_blocks@.len() ==> (#[trigger] cas_blocks@[k]).0 == sec[k] && cas_blocks@[k].1 == cas_pos(off, sec, k),
            ensures
                cas_blocks@.len() == sec.len(),
                /*@C09*/ forall|k: int| 0 <= k < cas_blocks@.len() ==> (#[trigger] cas_blocks@[k]).0 == sec[k] && cas_blocks@[k].1 == cas_pos(off, sec, k),
            decreases sec.len() - cas_blocks@.len(),
//@ before `let n = cas_block.num_entries;`
            proof { lemma_cas_pos_step(off, sec, cas_blocks@.len() as int); }
//@ before `break;`
                proof { let k = cas_blocks@.len() as int; if k < sec.len() { assert(cas_hdr_at(data0, cas_pos(off, sec, k)) == sec[k]); } }
//@ end

//@ extract mdb_shard/src/shard_format.rs in `impl MDBShardInfo` fn read_all_cas_blocks_full
//@ ret res
//@ subst `<R: Read + Seek>` => `` :: R11 reader stub instead of the generic parameter
//@ subst `reader: &mut R` => `reader: &mut VxSR` :: R11 seekable reader stub with ghost bytes and position
//@ optsubst `assert(reader.stream_position()? < _cas_info_end);` => `` :: debug-only check that calls the reader (exec call with `?`, not expressible as a ghost assertion); dropped, see notes
//@ optsubst `assert((reader.stream_position()?) == (_cas_info_end));` => `` :: debug-only check that calls the reader; dropped, see notes
//@ contract
        requires has_cas_section(old(reader).data@, self.metadata.cas_info_offset as int),
        ensures
            res matches Ok(v) ==> /*@C09*/ ({
                let off = self.metadata.cas_info_offset as int; let sec = the_cas_section(old(reader).data@, off);
                &&& v@.len() == sec.len()
                &&& forall|k: int| 0 <= k < sec.len() ==> (#[trigger] v@[k]).metadata == sec[k] && cas_block_ok(old(reader).data@, cas_pos(off, sec, k), v@[k])
            }),
//@ body-start
        let ghost data0 = reader.data@; let ghost off = self.metadata.cas_info_offset as int; let ghost sec = the_cas_section(data0, off);
        proof { assert(cas_section(data0, off, sec)); }
//@ loop 1
            invariant_except_break
                /*@C09*/ reader.pos@ == cas_pos(off, sec, cv(ret).len() as int),
            invariant
                reader.data@ == data0, cas_section(data0, off, sec), off == self.metadata.cas_info_offset,
                cv(ret).len() <= sec.len(),
                /*@C09*/ forall|k: int| 0 <= k < cv(ret).len() ==> (#[trigger] cv(ret)[k]).metadata == sec[k] && cas_block_ok(data0, cas_pos(off, sec, k), cv(ret)[k]),
            ensures
                cv(ret).len() == sec.len(),
            decreases sec.len() - cv(ret).len(),
//@ before `ret.push(cas_info);`
            proof {
                let k = cv(ret).len() as int;
                if k >= sec.len() { /*@C09*/ assert(false); } /* tagged: a non-bookend header is a record of the section (the scan cannot pass the bookend) */
                lemma_cas_pos_step(off, sec, k);
            }
//@ end

//@ extract mdb_shard/src/shard_format.rs in `impl MDBShardInfo` fn read_all_file_info_sections
//@ ret res
//@ subst `<R: Read + Seek>` => `` :: R11 reader stub instead of the generic parameter
//@ subst `reader: &mut R` => `reader: &mut VxSR` :: R11 seekable reader stub with ghost bytes and position
//@ contract
        requires has_file_section(old(reader).data@, self.metadata.file_info_offset as int),
        ensures
            // lists ALL file records of the section, in full, up to the bookend — whatever file_lookup_num_entry says
            res matches Ok(v) ==> /*@C09*/ ({
                let off = self.metadata.file_info_offset as int; let sec = the_file_section(old(reader).data@, off);
                &&& v@.len() == sec.len()
                &&& forall|k: int| 0 <= k < sec.len() ==> (#[trigger] v@[k]).metadata == sec[k] && file_block_ok(old(reader).data@, file_pos(off, sec, k), v@[k])
            }),
//@ body-start
        let ghost data0 = reader.data@; let ghost off = self.metadata.file_info_offset as int; let ghost sec = the_file_section(data0, off);
        proof { assert(file_section(data0, off, sec)); }
//@ loop 1
            invariant_except_break
                /*@C09*/ reader.pos@ == file_pos(off, sec, fv(ret).len() as int),
            invariant
                reader.data@ == data0, file_section(data0, off, sec), off == self.metadata.file_info_offset,
                fv(ret).len() <= sec.len(),
                /*@C09*/ forall|k: int| 0 <= k < fv(ret).len() ==> (#[trigger] fv(ret)[k]).metadata == sec[k] && file_block_ok(data0, file_pos(off, sec, k), fv(ret)[k]),
            ensures
                fv(ret).len() == sec.len(),
            decreases sec.len() - fv(ret).len(),
//@ before `ret.push(mdb_file);`
            proof {
                let k = fv(ret).len() as int;
                if k >= sec.len() { /*@C09*/ assert(false); } /* tagged: a non-bookend header is a record of the section (the scan cannot pass the bookend) */
                lemma_file_pos_step(off, sec, k);
            }
//@ end

//@ extract mdb_shard/src/shard_format.rs in `impl MDBShardInfo` fn read_file_info_ranges
//@ ret res
//@ subst `<R: Read + Seek>` => `` :: R11 reader stub instead of the generic parameter
//@ subst `reader: &mut R` => `reader: &mut VxSR` :: R11 seekable reader stub with ghost bytes and position
//@ contract
        requires has_file_section(old(reader).data@, old(reader).pos@ + 48), old(reader).pos@ >= 0,
        ensures
            // header-only scan from the start of the shard: one tuple per file record up to the bookend, with the byte ranges of
            // its entry lists and the sha of its metadata-ext
            res matches Ok(v) ==> /*@C09*/ ({
                let data = old(reader).data@; let off = old(reader).pos@ + 48; let sec = the_file_section(data, off);
                &&& v@.len() == sec.len()
                &&& forall|k: int| 0 <= k < sec.len() ==> {
                        let t = #[trigger] v@[k]; let p = file_pos(off, sec, k); let n = sec[k].num_entries as int;
                        &&& t.0 == sec[k].file_hash
                        &&& t.1.0 == p + 48 && t.1.1 == p + 48 + 48 * n
                        &&& t.2 == (if has_verif(sec[k]) { Some(((p + 48 + 48 * n) as u64, (p + 48 + 96 * n) as u64)) } else { None::<(u64, u64)> })
                        &&& t.3 == (if has_ext(sec[k]) { Some(ext_at(data, p + 48 + 48 * (following(sec[k]) - 1)).sha256) } else { None::<MerkleHash> })
                    }
            }),
//@ body-start
        let ghost data0 = reader.data@; let ghost off = reader.pos@ + 48; let ghost sec = the_file_section(data0, off);
        proof { assert(file_section(data0, off, sec)); }
//@ after `loop`
            invariant_except_break
                /*@C09*/ reader.pos@ == file_pos(off, sec, rv(ret).len() as int),
            invariant
                reader.data@ == data0, file_section(data0, off, sec), rv(ret).len() <= sec.len(), off >= 48,
                /*@C09*/ forall|k: int| 0 <= k < rv(ret).len() ==> {
                    let t = #[trigger] rv(ret)[k]; let p = file_pos(off, sec, k); let n = sec[k].num_entries as int;
                    &&& t.0 == sec[k].file_hash
                    &&& t.1.0 == p + 48 && t.1.1 == p + 48 + 48 * n
                    &&& t.2 == (if has_verif(sec[k]) { Some(((p + 48 + 48 * n) as u64, (p + 48 + 96 * n) as u64)) } else { None::<(u64, u64)> })
                    &&& t.3 == (if has_ext(sec[k]) { Some(ext_at(data0, p + 48 + 48 * (following(sec[k]) - 1)).sha256) } else { None::<MerkleHash> })
                },
            ensures
                rv(ret).len() == sec.len(),
            decreases sec.len() - rv(ret).len(),
//@ before `break;`
                proof { let k = rv(ret).len() as int; if k < sec.len() { assert(file_hdr_at(data0, file_pos(off, sec, k)) == sec[k]); } }
//@ before `let byte_start = reader.stream_position()?;`
            proof { let k = rv(ret).len() as int; if k >= sec.len() { /*@C09*/ assert(false); } /* tagged: a non-bookend header is a record of the section (the scan cannot pass the bookend) */ lemma_file_pos_step(off, sec, k); }
//@ end

//@ extract mdb_shard/src/shard_format.rs in `impl MDBShardInfo` fn read_all_truncated_hashes
//@ ret res
//@ rules R4u
//@ subst `<R: Read + Seek>` => `` :: R11 reader stub instead of the generic parameter
//@ subst `reader: &mut R` => `reader: &mut VxSR` :: R11 seekable reader stub with ghost bytes and position
//@ contract
        requires
            has_cas_section(old(reader).data@, self.metadata.cas_info_offset as int),
            // the scan branch never tests is_bookend: it needs the CAS section to end exactly at file_lookup_offset and the bookend
            // record to carry num_entries == 0 (true for every writer of this crate, with or without lookup tables: bookend() = all-ones
            // hash + Default; the file lookup table, possibly empty, starts right after the CAS bookend)
            ({
                let off = self.metadata.cas_info_offset as int; let sec = the_cas_section(old(reader).data@, off);
                &&& self.metadata.file_lookup_offset == cas_pos(off, sec, sec.len() as int) + 48
                &&& cas_hdr_at(old(reader).data@, cas_pos(off, sec, sec.len() as int)).num_entries == 0
                &&& self.metadata.file_lookup_offset - off <= 48 * 0xFFFF_FFFF      // record indices fit u32
            }),
            // the chunk lookup table is OPTIONAL; it is present exactly when its footer count is non-zero, and then it is what the
            // writers put there (U-SHWRITE `chunk_table_post`, U-KEYEXPORTSEC `tables_post` + `export_cas_post`): one row per chunk of every
            // xorb record.  (A zero count with a non-empty CAS section therefore means "no table", never "an empty table".)
            self.metadata.chunk_lookup_num_entry != 0 ==> ({
                let data = old(reader).data@; let off = self.metadata.cas_info_offset as int;
                rows_cover(table_rows(data, self.metadata.chunk_lookup_offset as int, self.metadata.chunk_lookup_num_entry as int), data, off, the_cas_section(data, off))
            }),
        ensures
            // C09/C18/C05 - the same listing with or without the optional table: exactly one (truncated stored chunk hash, (ordinal of the
            // xorb header, chunk index)) row per chunk of every xorb record of the CAS section
            /*@C09,C18,C05*/ res matches Ok(v) ==> ({
                let data = old(reader).data@; let off = self.metadata.cas_info_offset as int;
                rows_cover(v@, data, off, the_cas_section(data, off))
            }),
            // order: the rows come in section order (always the case when there is no table) or they are the rows of the table, in table (key) order
            /*@C09,C18,C05*/ res matches Ok(v) ==> ({
                let data = old(reader).data@; let off = self.metadata.cas_info_offset as int; let sec = the_cas_section(data, off);
                ||| (v@.len() == chunks_before(sec, sec.len() as int) && trunc_upto(v@, data, off, sec, sec.len() as int))
                ||| (self.metadata.chunk_lookup_num_entry != 0 && v@ == table_rows(data, self.metadata.chunk_lookup_offset as int, self.metadata.chunk_lookup_num_entry as int))
            }),
//@ body-start
        let ghost data0 = reader.data@; let ghost off = self.metadata.cas_info_offset as int; let ghost sec0 = the_cas_section(data0, off);
        // the section with its bookend appended as a block without entries
        let ghost sec = sec0.push(cas_hdr_at(data0, cas_pos(off, sec0, sec0.len() as int)));
        let ghost mut vx_scan = false;   /* which branch ran */
        let ghost mut kk: int = 0; let ghost n0 = sec0.len() as int; let ghost bk = cas_hdr_at(data0, cas_pos(off, sec0, sec0.len() as int));
        proof {
            assert(cas_section(data0, off, sec0));
            assert forall|i: int| 0 <= i <= n0 implies cas_pos(off, sec, i) == cas_pos(off, sec0, i) by { lemma_cas_pos_push(off, sec0, bk, i); }
            lemma_cas_pos_lower(off, sec0, n0);
        }
//@ before `Ok(ret)`
        proof {
            if vx_scan {
                lemma_cas_pos_push(off, sec0, bk, n0);
                assert(cas_pos(off, sec, n0 + 1) == cas_pos(off, sec, n0) + 48 + 48 * sec[n0].num_entries);
                if kk <= n0 { lemma_cas_pos_mono2(off, sec, kk, n0); /*@C09,C18,C05*/ assert(false); } /* tagged: at exit every block has been visited */
                assert(kk == n0 + 1);
                assert(chunks_before(sec, n0 + 1) == chunks_before(sec, n0) + sec[n0].num_entries);
                assert forall|b: int, j: int| 0 <= b < n0 && 0 <= j < sec0[b].num_entries implies trunc_ok(#[trigger] tv(ret)[chunks_before(sec0, b) + j], data0, off, sec0, b, j) by {
                    lemma_cas_pos_push(off, sec0, bk, b); assert(sec[b] == sec0[b]);
                    assert(trunc_ok(tv(ret)[chunks_before(sec, b) + j], data0, off, sec, b, j));
                }
                assert(chunks_before(sec0, n0) == chunks_before(sec, n0)) by { lemma_cas_pos_push(off, sec0, bk, n0); }
                lemma_scan_covers(tv(ret), data0, off, sec0);
            } else {
                /*@C09,C18,C05*/ assert(tv(ret) =~= table_rows(data0, self.metadata.chunk_lookup_offset as int, self.metadata.chunk_lookup_num_entry as int));   /* tagged: the table branch returns the table's rows, all of them */
            }
        }
//@ before `reader.seek(SeekFrom::Start(self.metadata.chunk_lookup_offset))?;`
            proof {
                /*@C09,C18,C05*/ assert(self.metadata.chunk_lookup_num_entry != 0);   /* tagged: the table is read only when it is present - a zero count means "no table", and then the CAS section must be scanned */
            }
//@ before `let (cas_info_start, cas_info_end) = self.cas_info_byte_range();`
            proof { vx_scan = true; }
//@ loop 1
                invariant
                    reader.data@ == data0,
                    /*@C09,C18,C05*/ tv(ret).len() == vx_it1, reader.pos@ == self.metadata.chunk_lookup_offset + 16 * vx_it1,
                    /*@C09,C18,C05*/ forall|i: int| 0 <= i < vx_it1 ==> #[trigger] tv(ret)[i] == table_row(data0, self.metadata.chunk_lookup_offset as int, i),
//@ loop 2
                invariant
                    reader.data@ == data0, cas_section(data0, off, sec0), off == self.metadata.cas_info_offset,
                    sec == sec0.push(bk), bk == cas_hdr_at(data0, cas_pos(off, sec0, sec0.len() as int)), n0 == sec0.len(), bk.num_entries == 0,
                    cas_info_start == off, cas_info_end == cas_pos(off, sec0, sec0.len() as int) + 48, cas_info_end - off <= 48 * 0xFFFF_FFFF,
                    /*@C09,C18,C05*/ 0 <= kk <= sec.len(), reader.pos@ == cas_pos(off, sec, kk), 48 * cas_index == reader.pos@ - off,
                    /*@C09,C18,C05*/ tv(ret).len() == chunks_before(sec, kk), trunc_upto(tv(ret), data0, off, sec, kk),
                    forall|i: int| 0 <= i <= sec0.len() ==> cas_pos(off, sec, i) == cas_pos(off, sec0, i),
                decreases sec.len() - kk,
//@ after `let cas_header = CASChunkSequenceHeader::deserialize(reader)?;`
                proof {
                    // the loop condition held: the position is before the end, so this is block kk of the extended list
                    lemma_cas_pos_mono2(off, sec, kk, sec.len() as int); lemma_cas_pos_push(off, sec0, bk, n0);
                    assert(cas_pos(off, sec, n0 + 1) == cas_pos(off, sec, n0) + 48 + 48 * sec[n0].num_entries);
                    if kk == sec.len() { /*@C09,C18,C05*/ assert(false); } /* tagged: the loop condition bounds the scan by the section end */
                    if kk < n0 { lemma_cas_pos_push(off, sec0, bk, kk); assert(cas_hdr_at(data0, cas_pos(off, sec0, kk)) == sec0[kk]); assert(sec[kk] == sec0[kk]); }
                    lemma_chunks_mono(sec, kk, kk);
                }
//@ before `ret.push((truncate_hash(&chunk.chunk_hash), (cas_index, chunk_index)));`
                    let ghost rv0 = tv(ret);
//@ after `ret.push((truncate_hash(&chunk.chunk_hash), (cas_index, chunk_index)));`
                    proof {
                        let old_v = rv0;
                        assert(tv(ret) == old_v.push(tv(ret).last()));
                        lemma_trunc_push(old_v, tv(ret).last(), data0, off, sec, kk);
                        // (tagged: the element just pushed is the table row of this chunk)
                        /*@C09,C18,C05*/ assert forall|j: int| 0 <= j < chunk_index + 1 implies trunc_ok(#[trigger] tv(ret)[chunks_before(sec, kk) + j], data0, off, sec, kk, j) by {
                            if j < chunk_index { assert(tv(ret)[chunks_before(sec, kk) + j] == old_v[chunks_before(sec, kk) + j]); }
                        }
                    }
//@ before `cas_index += 1 + cas_header.num_entries;`
                proof {
                    lemma_cas_pos_mono2(off, sec, kk + 1, sec.len() as int);
                    assert(cas_pos(off, sec, kk + 1) == cas_pos(off, sec, kk) + 48 + 48 * sec[kk].num_entries);
                    assert(cas_pos(off, sec, sec.len() as int) == cas_info_end) by { lemma_cas_pos_push(off, sec0, bk, n0); assert(cas_pos(off, sec, n0 + 1) == cas_pos(off, sec, n0) + 48 + 48 * sec[n0].num_entries); }
                    assert(trunc_upto(tv(ret), data0, off, sec, kk + 1)) by {
                        assert forall|b: int, j: int| 0 <= b < kk + 1 && 0 <= j < sec[b].num_entries implies trunc_ok(#[trigger] tv(ret)[chunks_before(sec, b) + j], data0, off, sec, b, j) by { }
                    }
                    kk = kk + 1;
                }
//@ loop 3
                    invariant
                        reader.data@ == data0, 0 <= kk < sec.len(), cas_header == sec[kk], off == self.metadata.cas_info_offset, tv(ret).len() >= chunks_before(sec, kk),
                        sec == sec0.push(bk), n0 == sec0.len(),
                        /*@C09,C18,C05*/ reader.pos@ == cas_pos(off, sec, kk) + 48 + 48 * chunk_index, 48 * cas_index == cas_pos(off, sec, kk) - off,
                        /*@C09,C18,C05*/ tv(ret).len() == chunks_before(sec, kk) + chunk_index, trunc_upto(tv(ret), data0, off, sec, kk),
                        /*@C09,C18,C05*/ forall|j: int| 0 <= j < chunk_index ==> trunc_ok(#[trigger] tv(ret)[chunks_before(sec, kk) + j], data0, off, sec, kk, j),
//@ end
}

} // verus!
fn main() {}
