//@ unit U-XORBPUT
//@ props C02 C07 C14 C15 C16
//@ verus-args --rlimit 100
//@ gsubst `anyhow::Error` => `AnyhowError` :: R11 stub type for the anyhow dependency (opaque error value)
//@ gsubst `std::io::Error` => `IoError` :: R11 stub type (opaque error value)
//@ gsubst `lz4_flex::frame::Error` => `Lz4Error` :: R11 stub type (opaque error value)
//@ gsubst `Infallible` => `VxInfallible` :: R11 stub type (opaque error value)
//@ gsubst `to_le_bytes` => `vx_to_le_bytes` :: R11 stub for std `{u8,u32}::to_le_bytes` (result length is in the type; byte values unspecified) -- as U-XORBIDX
//@ gsubst `size_of_val` => `vx_size_of_val` :: R11 stub for std::mem::size_of_val; contract: the size of each argument type used (u8, u32, [u8;7], [u8;16]) -- as U-XORBIDX
//@ gsubst `dyn ChunkCache` => `VxChunkCache` :: R11 stub type for the chunk-cache trait object (field of RemoteClient, never used by the functions under proof)
//@ gsubst `PathBuf` => `VxPathBuf` :: R11 stub type (field of RemoteClient, never used by the functions under proof)
#![feature(allocator_api)]
#![allow(non_snake_case, unused)]
use vstd::prelude::*;
use std::sync::Arc;
use std::mem::size_of;
verus! {
global size_of usize == 8;

//@ include prelude/xorbidx_types.rs
//@ include prelude/xorbidx_codec.rs
//@ include prelude/xorbput_http.rs
use reqwest::{Method, Url, Request, RespData, Exchange, VxNet, Response, RequestBuilder, VxJson, is_error_status};
use reqwest_middleware::ClientWithMiddleware;

//@ extract cas_object/src/error.rs enum CasObjectError
//@ end

// =====================================================================================================================
// (1) MDBCASInfo::chunks_and_boundaries: chunk entries -> the (hash, cumulative end offset) list that `CasObject::serialize` takes
// =====================================================================================================================
//@ extract mdb_shard/src/cas_structs.rs struct CASChunkSequenceHeader
//@ end
//@ extract mdb_shard/src/cas_structs.rs struct CASChunkSequenceEntry
//@ end
//@ extract mdb_shard/src/cas_structs.rs struct MDBCASInfo
//@ end

/// end offset of one chunk entry, exact (no wrap)
spec fn entry_end(e: CASChunkSequenceEntry) -> int { e.chunk_byte_range_start + e.unpacked_segment_bytes }
/// the u32 addition `chunk_byte_range_start + unpacked_segment_bytes` does not wrap for any entry
spec fn entries_fit(es: Seq<CASChunkSequenceEntry>) -> bool { forall|i: int| 0 <= i < es.len() ==> entry_end(#[trigger] es[i]) <= u32::MAX }
/// the entries tile the xorb: each chunk starts where its predecessor ends, the first at 0.
/// This is what U-AGG / U-DEDUP prove about every xorb built by `RawXorbData::from_chunks` (prelude/dedup_model.rs, `xorb_wf`):
///   `x.cas_info.chunks@[i].unpacked_segment_bytes == cs[i].data@.len() && x.cas_info.chunks@[i].chunk_byte_range_start == sum_len(hashes(cs).subrange(0, i))`
spec fn entries_contig(es: Seq<CASChunkSequenceEntry>) -> bool {
    forall|i: int| 0 <= i < es.len() ==> (#[trigger] es[i]).chunk_byte_range_start == (if i == 0 { 0 } else { entry_end(es[i - 1]) })
}
/// sum of the lengths of entries 0..i
spec fn cum_len(es: Seq<CASChunkSequenceEntry>, i: int) -> int decreases i {
    if i <= 0 { 0 } else { cum_len(es, i - 1) + es[i - 1].unpacked_segment_bytes }
}
/// the xorb-size precondition: entries tile the xorb and the total is a u32.  Established for every xorb handed over by U-AGG /
/// U-SESSCUT: `xorb_wf` (above, and `x.cas_info.metadata.num_bytes_in_cas == sum_len(hashes(cs))`, a u32 field) together with the C15
/// clause `xorb_le_limits(r.0)`: `x.cas_info.metadata.num_bytes_in_cas <= spec_MAX_XORB_BYTES()` and `xorb_config_ok`:
/// `MAX_XORB_BYTES <= u32::MAX` (prelude/agg_model.rs, prelude/c_agg_finalize.rs `/*@C15*/ xorb_le_limits(r.0)`).
spec fn xorb_sized(es: Seq<CASChunkSequenceEntry>) -> bool { entries_contig(es) && cum_len(es, es.len() as int) <= u32::MAX }

proof fn lemma_cum_mono(es: Seq<CASChunkSequenceEntry>, i: int, j: int)
    requires 0 <= i <= j,
    ensures cum_len(es, i) <= cum_len(es, j),
    decreases j - i,
{
    if i < j { lemma_cum_mono(es, i, j - 1); }
}
/// for tiling entries the end offset of entry i is the sum of the first i+1 lengths
proof fn lemma_contig_end(es: Seq<CASChunkSequenceEntry>, i: int)
    requires entries_contig(es), 0 <= i < es.len(),
    ensures entry_end(es[i]) == cum_len(es, i + 1),
    decreases i,
{
    if i > 0 { lemma_contig_end(es, i - 1); }
    assert(cum_len(es, i + 1) == cum_len(es, i) + es[i].unpacked_segment_bytes);
    if i == 0 { assert(cum_len(es, 0) == 0); }
}
/// C15 -> no wrap: a xorb whose total size is a u32 has no entry whose end offset wraps
proof fn lemma_xorb_sized_fits(es: Seq<CASChunkSequenceEntry>)
    requires xorb_sized(es),
    ensures entries_fit(es),
{
    assert forall|i: int| 0 <= i < es.len() implies entry_end(#[trigger] es[i]) <= u32::MAX by {
        lemma_contig_end(es, i);
        lemma_cum_mono(es, i + 1, es.len() as int);
    }
}
proof fn lemma_contig_all(es: Seq<CASChunkSequenceEntry>)
    requires entries_contig(es),
    ensures forall|i: int| 0 <= i < es.len() ==> entry_end(#[trigger] es[i]) == cum_len(es, i + 1),
{
    assert forall|i: int| 0 <= i < es.len() implies entry_end(#[trigger] es[i]) == cum_len(es, i + 1) by { lemma_contig_end(es, i); }
}

impl MDBCASInfo {
//@ extract mdb_shard/src/cas_structs.rs in `impl MDBCASInfo` fn chunks_and_boundaries
//@ ret r
//@ rules xorbput.R4q
//@ optsubst `let mut vx_c = Vec::new();` => `let mut vx_c: Vec<(MerkleHash, u32)> = Vec::new();` :: type annotation only, on the accumulator R4q introduces (the spliced invariant mentions it before inference fixes its type; rustc checks it against the return type)
//@ contract
        requires
            // general domain (no wrap) or the built-xorb domain (C15 size bound; then no-wrap is PROVED, lemma_xorb_sized_fits)
            /*@C15*/ entries_fit(self.chunks@) || xorb_sized(self.chunks@),
        ensures
            // one pair per chunk entry, in order
            /*@C02,C07,C15*/ r@.len() == self.chunks@.len(),
            // pair i = (hash of entry i, start_i + len_i), the sum exact
            /*@C02,C07*/ forall|i: int| 0 <= i < r@.len() ==> (#[trigger] r@[i]).0 == self.chunks@[i].chunk_hash,
            /*@C02,C07,C15*/ forall|i: int| 0 <= i < r@.len() ==> (#[trigger] r@[i]).1 == entry_end(self.chunks@[i]),
            // for a built xorb the boundaries are exactly the cumulative chunk lengths: the `chunk_boundaries` argument of
            // `CasObject::serialize` (U-XORBIDX `bounds_ok`: non-decreasing end offsets; chunk i is data[b(i-1)..b(i)))
            /*@C02,C07*/ entries_contig(self.chunks@) ==> forall|i: int| 0 <= i < r@.len() ==> (#[trigger] r@[i]).1 == cum_len(self.chunks@, i + 1),
//@ body-start
        proof {
            if xorb_sized(self.chunks@) { lemma_xorb_sized_fits(self.chunks@); }
            if entries_contig(self.chunks@) { lemma_contig_all(self.chunks@); }
        }
//@ loop 1
            invariant
                /*@AUX*/ entries_fit(self.chunks@),
                /*@C02,C07,C15*/ vx_c@.len() == vx_j,
                /*@C02,C07,C15*/ vx_hi == self.chunks@.len(),
                /*@C02,C07*/ forall|i: int| 0 <= i < vx_j ==> (#[trigger] vx_c@[i]).0 == self.chunks@[i].chunk_hash,
                /*@C02,C07,C15*/ forall|i: int| 0 <= i < vx_j ==> (#[trigger] vx_c@[i]).1 == entry_end(self.chunks@[i]),
//@ end
}

// =====================================================================================================================
// (2) the client: RemoteClient::{put, upload, upload_shard}, ResponseErrorLogger::process_error
// =====================================================================================================================
// ---- what `Display` prints, as uninterpreted functions (R7u: format! is a function of the literal and the displayed arguments) ----
pub trait VxDisplay { spec fn vx_disp(&self) -> Seq<char>; }
impl VxDisplay for String { open spec fn vx_disp(&self) -> Seq<char> { self@ } }
impl VxDisplay for str { open spec fn vx_disp(&self) -> Seq<char> { self@ } }
impl<T: VxDisplay + ?Sized> VxDisplay for &T { open spec fn vx_disp(&self) -> Seq<char> { (**self).vx_disp() } }
/// `impl Display for Key`: "{prefix}/{hash:x}" -- a function of the two fields
pub uninterp spec fn key_disp(prefix: Seq<char>, hash: MerkleHash) -> Seq<char>;
pub uninterp spec fn spec_fmt2(fmt: Seq<char>, a: Seq<char>, b: Seq<char>) -> Seq<char>;
/// R7u outline of a two-placeholder `format!` (body: the macro; ASSUMED: the text is a function of literal and displayed arguments)
#[verifier::external_body]
pub fn vx_format2<A: VxDisplay, B: VxDisplay>(fmt: &str, a: &A, b: &B) -> (r: String)
    ensures r@ == spec_fmt2(fmt@, a.vx_disp(), b.vx_disp())
{ unimplemented!() }
/// the URL a xorb / a shard with this key is uploaded to (the literals are those of remote_client.rs)
pub open spec fn xorb_url(endpoint: Seq<char>, prefix: Seq<char>, hash: MerkleHash) -> Seq<char> { spec_fmt2("{}/xorb/{key}"@, endpoint, key_disp(prefix, hash)) }
pub open spec fn shard_url(endpoint: Seq<char>, prefix: Seq<char>, hash: MerkleHash) -> Seq<char> { spec_fmt2("{}/shard/{key}"@, endpoint, key_disp(prefix, hash)) }

#[verifier::external_body] pub struct UrlParseError { _p: () }
impl Url {
    /// url::Url::parse: Ok only for the text given (normalisation is not modelled: the Url stands for that text)
    #[verifier::external_body]
    pub fn parse(input: &str) -> (r: std::result::Result<Url, UrlParseError>)
        ensures r matches Ok(u) ==> u.text() == input@
    { unimplemented!() }
}

// ---- error type: only Err-ness matters; the conversions used by `?` are what thiserror's #[from] generates -------------
#[verifier::external_body] pub struct CasClientError { _p: () }
impl From<CasObjectError> for CasClientError { #[verifier::external_body] fn from(e: CasObjectError) -> CasClientError { unimplemented!() } }
impl From<UrlParseError> for CasClientError { #[verifier::external_body] fn from(e: UrlParseError) -> CasClientError { unimplemented!() } }
impl From<reqwest_middleware::Error> for CasClientError { #[verifier::external_body] fn from(e: reqwest_middleware::Error) -> CasClientError { unimplemented!() } }
impl From<reqwest::Error> for CasClientError { #[verifier::external_body] fn from(e: reqwest::Error) -> CasClientError { unimplemented!() } }
pub type Result<T> = std::result::Result<T, CasClientError>;
pub mod error { pub type Result<T> = super::Result<T>; }

// ---- std stubs ---------------------------------------------------------------------------------------------------------
pub assume_specification<T: Clone> [<[T]>::to_vec] (s: &[T]) -> (r: Vec<T>) ensures r@ == s@;
pub assume_specification<'a, 'b> [<String as From<&'a str>>::from] (s: &'b str) -> (r: String) ensures r@ == s@;
pub assume_specification<T> [std::mem::drop] (_0: T);
// std specs that the unchanged code does not need; they only keep "swallowing" edits of the source decidable (exit 1, not 2)
pub assume_specification<T, E> [std::result::Result::<T, E>::unwrap_or] (r: std::result::Result<T, E>, default: T) -> (o: T)
    ensures o == (match r { Ok(v) => v, Err(_) => default });
pub assume_specification<T: std::default::Default, E> [std::result::Result::<T, E>::unwrap_or_default] (r: std::result::Result<T, E>) -> (o: T)
    ensures match r { Ok(v) => o == v, Err(_) => call_ensures(T::default, (), o) };
/// std::io::Cursor (model: the wrapped value and the position)
pub struct Cursor<T> { pub inner: T, pub pos: u64 }
impl<T> Cursor<T> {
    pub fn new(inner: T) -> (r: Self) ensures r.inner == inner, r.pos == 0 { Cursor { inner, pos: 0 } }
    pub fn set_position(&mut self, pos: u64) ensures final(self).inner == old(self).inner, final(self).pos == pos { self.pos = pos; }
    pub fn into_inner(self) -> (r: T) ensures r == self.inner { self.inner }
}
/// writer model: the bytes written so far; `appending`: a write adds at the end (for a Cursor: position == length);
/// `origin`: ghost constants of the writer object, preserved by every write (trivial except for the byte counter of section (3):
/// the length of the wrapped writer when the counter was created, and the prophesied final state of the wrapped writer -- i.e. the
/// counter keeps wrapping the same writer)
pub trait Write {
    spec fn written(&self) -> Seq<u8>;
    spec fn appending(&self) -> bool;
    #[verifier::prophetic]
    spec fn origin(&self) -> (nat, Seq<u8>, bool);
    fn write_all(&mut self, buf: &[u8]) -> (r: std::result::Result<(), IoError>)
        ensures
            final(self).origin() == old(self).origin(),
            // (on Err a prefix of buf may have been written: unspecified)
            r is Ok && old(self).appending() ==> final(self).written() == old(self).written() + buf@ && final(self).appending();
}
/// std::io::Seek for the writers `CasObject::serialize` is generic over (`W: Write + Seek`; the stub names `Write` as supertrait so that its contracts
/// can speak about the stream).  An appending writer stands at the end of what has been written, so `stream_position()` reports
/// `written().len()` = the length the stream had when the function was entered (ARBITRARY, never assumed 0: the stream may already hold an earlier
/// xorb) + the bytes written since; it moves nothing.  `seek` is an uninterpreted move (afterwards the writer may or may not be appending).
pub enum SeekFrom { Start(u64), End(i64), Current(i64) }
pub trait Seek: Write {
    fn stream_position(&mut self) -> (r: std::result::Result<u64, IoError>)
        ensures final(self).written() == old(self).written(), final(self).appending() == old(self).appending(), final(self).origin() == old(self).origin(),
            r matches Ok(p) ==> (old(self).appending() ==> p == old(self).written().len());
    fn seek(&mut self, pos: SeekFrom) -> (r: std::result::Result<u64, IoError>)
        ensures final(self).written() == old(self).written(), final(self).origin() == old(self).origin();
}
impl Write for Cursor<Vec<u8>> {
    open spec fn written(&self) -> Seq<u8> { self.inner@ }
    open spec fn appending(&self) -> bool { self.pos == self.inner@.len() }
    #[verifier::prophetic]
    open spec fn origin(&self) -> (nat, Seq<u8>, bool) { (0, Seq::empty(), true) }
    #[verifier::external_body]
    fn write_all(&mut self, buf: &[u8]) -> (r: std::result::Result<(), IoError>) { unimplemented!() }
}
impl Seek for Cursor<Vec<u8>> {
    #[verifier::external_body]
    fn stream_position(&mut self) -> (r: std::result::Result<u64, IoError>) { unimplemented!() }
    #[verifier::external_body]
    fn seek(&mut self, pos: SeekFrom) -> (r: std::result::Result<u64, IoError>) { unimplemented!() }
}

// ---- CasObject::serialize: stub whose contract is the one PROVED in U-XORBIDX (text copied) + the name of the bytes written ----
//@ extract cas_object/src/cas_object_format.rs type CasObjectIdent
//@ end
//@ extract cas_object/src/cas_object_format.rs const CAS_OBJECT_FORMAT_IDENT
//@ end
//@ extract cas_object/src/cas_object_format.rs const CAS_OBJECT_FORMAT_IDENT_HASHES
//@ end
//@ extract cas_object/src/cas_object_format.rs const CAS_OBJECT_FORMAT_IDENT_BOUNDARIES
//@ end
//@ extract cas_object/src/cas_object_format.rs const CAS_OBJECT_FORMAT_VERSION
//@ end
//@ extract cas_object/src/cas_object_format.rs const CAS_OBJECT_FORMAT_HASHES_VERSION
//@ end
//@ extract cas_object/src/cas_object_format.rs const CAS_OBJECT_FORMAT_BOUNDARIES_VERSION
//@ end
//@ extract cas_object/src/cas_object_format.rs const CAS_OBJECT_INFO_DEFAULT_LENGTH
//@ end
//@ extract cas_object/src/cas_object_format.rs struct CasObjectInfoV1
//@ end
//@ extract cas_object/src/cas_object_format.rs struct CasObject
//@ end
// (verbatim from U-XORBIDX.rs: the vocabulary of `CasObject::serialize`'s contract)
pub open spec fn nondecreasing(t: Seq<u32>) -> bool { forall|i: int, j: int| 0 <= i <= j < t.len() ==> t[i] <= t[j] }
pub uninterp spec fn spec_chunk_ser_len(chunk: Seq<u8>, scheme: Option<CompressionScheme>) -> nat;
pub open spec fn first_section_len() -> nat { 7 + 1 + 32 }
pub open spec fn hash_section_len(nh: nat) -> nat { 7 + 1 + 4 + 32 * nh }
pub open spec fn boundary_section_len(nb: nat, nu: nat) -> nat { 7 + 1 + 4 + 4 * nb + 4 * nu + 4 + 4 + 4 + 16 }
pub open spec fn info_len(k: nat) -> nat { first_section_len() + hash_section_len(k) + boundary_section_len(k, k) }
pub open spec fn bound_before(c: Seq<(MerkleHash, u32)>, i: int) -> int { if i <= 0 { 0 } else { c[i - 1].1 as int } }
pub open spec fn bounds_ok(c: Seq<(MerkleHash, u32)>, data_len: int) -> bool {
    forall|i: int| 0 <= i < c.len() ==> bound_before(c, i) <= (#[trigger] c[i]).1 <= data_len
}
pub open spec fn chunks_small(c: Seq<(MerkleHash, u32)>) -> bool {
    forall|i: int| 0 <= i < c.len() ==> (#[trigger] c[i]).1 - bound_before(c, i) < 16_777_216
}
pub open spec fn written_j(data: Seq<u8>, c: Seq<(MerkleHash, u32)>, scheme: Option<CompressionScheme>, j: int) -> nat {
    spec_chunk_ser_len(data.subrange(bound_before(c, j), c[j].1 as int), scheme)
}
pub open spec fn written_sum(data: Seq<u8>, c: Seq<(MerkleHash, u32)>, scheme: Option<CompressionScheme>, i: int) -> nat decreases i {
    if i <= 0 { 0 } else { written_sum(data, c, scheme, i - 1) + written_j(data, c, scheme, i - 1) }
}
impl CasObjectInfoV1 {
    spec fn offsets_filled(&self) -> bool {
        &&& self.boundary_section_offset_from_end == boundary_section_len(self.chunk_boundary_offsets@.len(), self.unpacked_chunk_offsets@.len())
        &&& self.hashes_section_offset_from_end == hash_section_len(self.chunk_hashes@.len())
                + boundary_section_len(self.chunk_boundary_offsets@.len(), self.unpacked_chunk_offsets@.len())
    }
}
/// the precondition of `CasObject::serialize` (U-XORBIDX, the four `requires` lines)
pub open spec fn serialize_pre(data: Seq<u8>, c: Seq<(MerkleHash, u32)>, scheme: Option<CompressionScheme>) -> bool {
    &&& bounds_ok(c, data.len() as int)
    &&& chunks_small(c)
    &&& written_sum(data, c, scheme, c.len() as int) <= u32::MAX
    &&& info_len(c.len()) <= u32::MAX
}
/// THE bytes `CasObject::serialize` appends to its writer for these arguments.  Serialization is deterministic (no clock, no
/// randomness: chunk headers + payloads by `serialize_chunk`, footer fields from the arguments), so the bytes are a function of the
/// arguments; the function itself is uninterpreted here.  What it satisfies is stated by the other xorb units: per chunk the
/// header/payload facts of U-CHUNKSER (`decode_spec(scheme, payload) == chunk`), the offset tables of U-XORBIDX, and from both
/// U-XORBRANGE `lemma_roundtrip_chunk_range` (reading any chunk range back returns the original bytes).
pub uninterp spec fn spec_xorb_bytes(hash: MerkleHash, data: Seq<u8>, c: Seq<(MerkleHash, u32)>, scheme: Option<CompressionScheme>) -> Seq<u8>;
impl CasObject {
    #[verifier::external_body]
    fn serialize<W: Write + Seek>(writer: &mut W, hash: &MerkleHash, data: &[u8], chunk_and_boundaries: &[(MerkleHash, u32)], compression_scheme: Option<CompressionScheme>) -> (r: std::result::Result<(Self, usize), CasObjectError>)
        requires
            // (U-XORBIDX)
            bounds_ok(chunk_and_boundaries@, data@.len() as int),
            chunks_small(chunk_and_boundaries@),
            written_sum(data@, chunk_and_boundaries@, compression_scheme, chunk_and_boundaries@.len() as int) <= u32::MAX,
            info_len(chunk_and_boundaries@.len()) <= u32::MAX,
            // (here) the writer appends: for the Cursor of `upload`, position == length
            old(writer).appending(),
        ensures
            r matches Ok((cas, total)) ==> ({
                let c = chunk_and_boundaries@;
                let k = c.len();
                // (U-XORBIDX, proved there for the real body)
                &&& cas.info.num_chunks == k
                &&& cas.info.chunk_hashes@.len() == k && cas.info.unpacked_chunk_offsets@.len() == k && cas.info.chunk_boundary_offsets@.len() == k
                &&& forall|i: int| 0 <= i < k ==> cas.info.chunk_hashes@[i] == c[i].0
                &&& forall|i: int| 0 <= i < k ==> cas.info.unpacked_chunk_offsets@[i] == c[i].1
                &&& forall|i: int| 0 <= i < k ==> cas.info.chunk_boundary_offsets@[i] == written_sum(data@, c, compression_scheme, i + 1)
                &&& nondecreasing(cas.info.chunk_boundary_offsets@)
                &&& nondecreasing(cas.info.unpacked_chunk_offsets@)
                &&& cas.info.cashash == *hash
                &&& cas.info.boundaries_version == CAS_OBJECT_FORMAT_BOUNDARIES_VERSION
                &&& cas.info.offsets_filled()
                &&& cas.info_length == info_len(k)
                &&& total == written_sum(data@, c, compression_scheme, k as int) + info_len(k) + 4
                // (here, ASSUMED) the bytes appended are the function of the arguments named above ...
                &&& final(writer).written() == old(writer).written() + spec_xorb_bytes(*hash, data@, c, compression_scheme)
                &&& final(writer).appending()
                // ... and their number is the returned total: every byte goes through a counted write (chunk: U-CHUNKSER "the writer grew
                // by exactly n"; footer: `countio::Counter` forwards what it counts; 4-byte length trailer) -- U-XORBIDX's writer model
                // does not forward through the Counter, so this composition is an assumption here (checked on the real crate, see notes)
                &&& spec_xorb_bytes(*hash, data@, c, compression_scheme).len() == total
            }),
    { unimplemented!() }
}


// =====================================================================================================================
// (3) C14 support: the byte count `CasObject::serialize` returns IS the number of bytes it appended to its writer.
// U-XORBIDX proves `total == sum of written chunk sizes + footer length + 4` with a byte counter that does not forward to the wrapped
// writer, so it cannot speak about the writer's length.  Here the same two bodies (`CasObjectInfoV1::serialize`, `CasObject::serialize`,
// extracted again; the latter under the name `serialize_len`, the stub above keeps the name the client calls) are verified with a
// counter that DOES forward: `final(writer).written().len() == old(writer).written().len() + total`.  Contracts, invariants and lemmas
// are U-XORBIDX's, plus the writer-length clauses.  This is what justifies the stub clause `spec_xorb_bytes(..).len() == total`.
// =====================================================================================================================
/// countio::Counter: wraps `&mut W`, forwards every write, and reports the number of bytes forwarded since its creation
pub struct Counter<'a, W: Write> { pub inner: &'a mut W, pub ghost base: nat }
impl<'a, W: Write> Counter<'a, W> {
    #[verifier::external_body]
    pub fn new(w: &'a mut W) -> (r: Counter<'a, W>)
        ensures r.base == old(w).written().len(), *r.inner == *old(w), *final(r.inner) == *final(w),
    { unimplemented!() }
    /// bytes forwarded to the wrapped writer since the counter was created
    pub open spec fn counted(&self) -> int { self.inner.written().len() - self.base }
    #[verifier::external_body]
    pub fn writer_bytes(&self) -> (r: usize)
        requires self.counted() <= usize::MAX
        ensures r == self.counted()
    { unimplemented!() }
}
impl<'a, W: Write> Write for Counter<'a, W> {
    open spec fn written(&self) -> Seq<u8> { self.inner.written() }
    open spec fn appending(&self) -> bool { self.inner.appending() }
    #[verifier::prophetic]
    open spec fn origin(&self) -> (nat, Seq<u8>, bool) { (self.base, final(self.inner).written(), final(self.inner).appending()) }
    #[verifier::external_body]
    fn write_all(&mut self, buf: &[u8]) -> (r: std::result::Result<(), IoError>) { unimplemented!() }
}
pub trait VxToLe { type B; fn vx_to_le_bytes(self) -> Self::B; }
impl VxToLe for u32 { type B = [u8; 4]; #[verifier::external_body] fn vx_to_le_bytes(self) -> [u8; 4] { self.to_le_bytes() } }
impl VxToLe for u8 { type B = [u8; 1]; #[verifier::external_body] fn vx_to_le_bytes(self) -> [u8; 1] { self.to_le_bytes() } }
impl MerkleHash {
    #[verifier::external_body]
    pub fn as_bytes(&self) -> (r: &[u8]) ensures r@.len() == 32 { unimplemented!() }
}
global layout MerkleHash is size == 32, align == 8;
pub trait VxSized { spec fn vx_size() -> nat; }
impl VxSized for u8 { open spec fn vx_size() -> nat { 1 } }
impl VxSized for u32 { open spec fn vx_size() -> nat { 4 } }
impl VxSized for [u8; 7] { open spec fn vx_size() -> nat { 7 } }
impl VxSized for [u8; 16] { open spec fn vx_size() -> nat { 16 } }
#[verifier::external_body]
pub fn vx_size_of_val<T: VxSized>(x: &T) -> (r: usize) ensures r == T::vx_size() { std::mem::size_of_val(x) }
/// serialize_chunk: the contract PROVED in U-CHUNKSER ("the writer grew by exactly `out` with |out| = n = 8 + |payload| <= 8 + |chunk|"),
/// in the form U-XORBIDX uses (n a function of chunk and scheme), with the writer's length
#[verifier::external_body]
fn serialize_chunk<W: Write>(chunk: &[u8], w: &mut W, compression_scheme: Option<CompressionScheme>) -> (r: std::result::Result<usize, CasObjectError>)
    requires chunk@.len() < 16_777_216, old(w).appending(),
    ensures final(w).origin() == old(w).origin(),
        r matches Ok(n) ==> n == spec_chunk_ser_len(chunk@, compression_scheme) && 8 <= n <= 8 + chunk@.len()
            && final(w).written().len() == old(w).written().len() + n && final(w).appending(),
{ unimplemented!() }
#[verifier::external_body]
fn vx_collect_hashes(chunk_and_boundaries: &[(MerkleHash, u32)]) -> (r: Vec<MerkleHash>)
    ensures r@.len() == chunk_and_boundaries@.len(), forall|i: int| 0 <= i < r@.len() ==> r@[i] == chunk_and_boundaries@[i].0,
{ chunk_and_boundaries.iter().map(|(hash, _)| *hash).collect() }
#[verifier::external_body]
fn vx_collect_bounds(chunk_and_boundaries: &[(MerkleHash, u32)]) -> (r: Vec<u32>)
    ensures r@.len() == chunk_and_boundaries@.len(), forall|i: int| 0 <= i < r@.len() ==> r@[i] == chunk_and_boundaries@[i].1,
{ chunk_and_boundaries.iter().map(|(_, unpacked_chunk_boundary)| *unpacked_chunk_boundary).collect() }
pub proof fn lemma_written_sum_mono(data: Seq<u8>, c: Seq<(MerkleHash, u32)>, scheme: Option<CompressionScheme>, i: int, j: int)
    requires i <= j,
    ensures written_sum(data, c, scheme, i) <= written_sum(data, c, scheme, j),
    decreases j - i,
{
    if i < j { lemma_written_sum_mono(data, c, scheme, i, j - 1); }
}
pub proof fn lemma_bounds_nondecreasing(c: Seq<(MerkleHash, u32)>, data_len: int, us: Seq<u32>)
    requires bounds_ok(c, data_len), us.len() == c.len(), forall|i: int| 0 <= i < us.len() ==> us[i] == c[i].1,
    ensures nondecreasing(us),
{
    assert forall|i: int, j: int| 0 <= i <= j < us.len() implies us[i] <= us[j] by { lemma_bounds_step(c, data_len, i, j); }
}
pub proof fn lemma_bounds_step(c: Seq<(MerkleHash, u32)>, data_len: int, i: int, j: int)
    requires bounds_ok(c, data_len), 0 <= i <= j < c.len(),
    ensures c[i].1 <= c[j].1,
    decreases j - i,
{
    if i < j { lemma_bounds_step(c, data_len, i, j - 1); assert(bound_before(c, j) <= c[j].1); }
}
/// the writer-length part of every util contract: `k` bytes appended, still appending
spec fn grew<W: Write>(w0: W, w1: W, k: nat) -> bool { w1.written().len() == w0.written().len() + k && w1.appending() }

//@ extract utils/src/serialization_utils.rs fn write_hash
//@ ret r
//@ subst `-> Result<(), IoError>` => `-> std::result::Result<(), IoError>` :: type path only: cas_object / utils use the two-parameter std `Result`, which the client's one-parameter alias `Result<T>` (needed by the client items) shadows in this file
//@ contract
    requires old(writer).appending(),
    ensures /*@AUX*/ final(writer).origin() == old(writer).origin(), /*@C07,C14*/ r is Ok ==> grew(*old(writer), *final(writer), 32),
//@ end
//@ extract utils/src/serialization_utils.rs fn write_u8
//@ ret r
//@ subst `-> Result<(), IoError>` => `-> std::result::Result<(), IoError>` :: type path only: cas_object / utils use the two-parameter std `Result`, which the client's one-parameter alias `Result<T>` (needed by the client items) shadows in this file
//@ contract
    requires old(writer).appending(),
    ensures /*@AUX*/ final(writer).origin() == old(writer).origin(), /*@C07,C14*/ r is Ok ==> grew(*old(writer), *final(writer), 1),
//@ end
//@ extract utils/src/serialization_utils.rs fn write_u32
//@ ret r
//@ subst `-> Result<(), IoError>` => `-> std::result::Result<(), IoError>` :: type path only: cas_object / utils use the two-parameter std `Result`, which the client's one-parameter alias `Result<T>` (needed by the client items) shadows in this file
//@ contract
    requires old(writer).appending(),
    ensures /*@AUX*/ final(writer).origin() == old(writer).origin(), /*@C07,C14*/ r is Ok ==> grew(*old(writer), *final(writer), 4),
//@ end
//@ extract utils/src/serialization_utils.rs fn write_bytes
//@ ret r
//@ subst `-> Result<(), IoError>` => `-> std::result::Result<(), IoError>` :: type path only: cas_object / utils use the two-parameter std `Result`, which the client's one-parameter alias `Result<T>` (needed by the client items) shadows in this file
//@ contract
    requires old(writer).appending(),
    ensures /*@AUX*/ final(writer).origin() == old(writer).origin(), /*@C07,C14*/ r is Ok ==> grew(*old(writer), *final(writer), vs@.len()),
//@ end
//@ extract utils/src/serialization_utils.rs fn write_u32s
//@ ret r
//@ subst `-> Result<(), IoError>` => `-> std::result::Result<(), IoError>` :: type path only: cas_object / utils use the two-parameter std `Result`, which the client's one-parameter alias `Result<T>` (needed by the client items) shadows in this file
//@ rules xorbidx.R4s
//@ contract
    requires old(writer).appending(),
    ensures /*@AUX*/ final(writer).origin() == old(writer).origin(), /*@C07,C14*/ r is Ok ==> grew(*old(writer), *final(writer), 4 * vs@.len()),
//@ loop 1
        invariant /*@C07,C14*/ grew(*old(writer), *writer, (4 * vx_i_e) as nat), /*@AUX*/ writer.origin() == old(writer).origin(),
//@ end

pub closed spec fn info_is_default(r: CasObjectInfoV1) -> bool {
    &&& r.num_chunks == 0 && r.chunk_hashes@.len() == 0 && r.chunk_boundary_offsets@.len() == 0 && r.unpacked_chunk_offsets@.len() == 0
    &&& r.boundaries_version == CAS_OBJECT_FORMAT_BOUNDARIES_VERSION && r.cashash == zero_hash()
    &&& r.offsets_filled()
}
pub closed spec fn cas_is_default(r: CasObject) -> bool { info_is_default(r.info) && r.info_length == info_len(0) }
impl Default for CasObjectInfoV1 {
//@ extract cas_object/src/cas_object_format.rs in `impl Default for CasObjectInfoV1` fn default
//@ ret r
//@ contract
        ensures info_is_default(r),
//@ end
}
impl Default for CasObject {
//@ extract cas_object/src/cas_object_format.rs in `impl Default for CasObject` fn default
//@ ret r
//@ contract
        ensures cas_is_default(r),
//@ end
}
impl CasObjectInfoV1 {
//@ extract cas_object/src/cas_object_format.rs in `impl CasObjectInfoV1` fn fill_in_boundary_offsets
//@ contract
        requires
            hash_section_len(old(self).chunk_hashes@.len()) + boundary_section_len(old(self).chunk_boundary_offsets@.len(), old(self).unpacked_chunk_offsets@.len()) <= u32::MAX,
        ensures
            final(self).offsets_filled(),
            *final(self) == (CasObjectInfoV1 {
                boundary_section_offset_from_end: final(self).boundary_section_offset_from_end,
                hashes_section_offset_from_end: final(self).hashes_section_offset_from_end,
                ..*old(self) }),
//@ body-start
        broadcast use vstd::layout::layout_of_primitives;
        proof {
            assert(self.chunk_hashes@.len() * vstd::layout::size_of::<MerkleHash>() == 32 * self.chunk_hashes@.len()) by (nonlinear_arith)
                requires vstd::layout::size_of::<MerkleHash>() == 32;
            assert(self.chunk_boundary_offsets@.len() * vstd::layout::size_of::<u32>() == 4 * self.chunk_boundary_offsets@.len()) by (nonlinear_arith)
                requires vstd::layout::size_of::<u32>() == 4;
            assert(self.unpacked_chunk_offsets@.len() * vstd::layout::size_of::<u32>() == 4 * self.unpacked_chunk_offsets@.len()) by (nonlinear_arith)
                requires vstd::layout::size_of::<u32>() == 4;
        }
//@ end

//@ extract cas_object/src/cas_object_format.rs in `impl CasObjectInfoV1` fn serialize
//@ ret r
//@ rules xorbidx.R15 xorbidx.R4s
//@ subst `countio::Counter::new(writer)` => `Counter::new(writer)` :: R11 stub type for the countio dependency
//@ subst `-> Result<usize, CasObjectError>` => `-> std::result::Result<usize, CasObjectError>` :: type path only: cas_object / utils use the two-parameter std `Result`, which the client's one-parameter alias `Result<T>` (needed by the client items) shadows in this file
//@ contract
        requires
            // R2: the three `debug_assert_eq!` on the table lengths are obligations
            self.num_chunks == self.chunk_hashes@.len(),
            self.num_chunks == self.chunk_boundary_offsets@.len(),
            self.num_chunks == self.unpacked_chunk_offsets@.len(),
            old(writer).appending(),
        ensures
            // the returned count is the footer length AND the number of bytes the writer grew by
            /*@C14*/ r matches Ok(n) ==> n == info_len(self.num_chunks as nat) && grew(*old(writer), *final(writer), n as nat),
//@ body-start
        let ghost l0 = writer.written().len(); let ghost fw = *final(writer); let ghost og = writer.origin();
//@ loop 1
            invariant
                /*@AUX*/ self.num_chunks == self.chunk_hashes@.len(),
                /*@C14*/ w.inner.written().len() == l0 + first_section_len() + 12 + 32 * vx_i_hash,
                /*@C14*/ w.inner.appending() && w.origin() == (l0, fw.written(), fw.appending()),
//@ before `Ok(w.writer_bytes())`
        /*@C14*/ assert(w.counted() == info_len(self.num_chunks as nat));
//@ end
}
impl CasObject {
//@ extract cas_object/src/cas_object_format.rs in `impl CasObject` fn serialize
//@ ret r
//@ rules xorbidx.R4s
//@ subst `-> Result<(Self, usize), CasObjectError>` => `-> std::result::Result<(Self, usize), CasObjectError>` :: type path only: cas_object / utils use the two-parameter std `Result`, which the client's one-parameter alias `Result<T>` (needed by the client items) shadows in this file
//@ subst `fn serialize<W: Write + Seek>(` => `fn serialize_len<W: Write + Seek>(` :: the item is verified under another NAME (the name `serialize` is taken by the stub the client's callers are verified against); body unchanged
//@ subst `chunk_and_boundaries.iter().map(|(hash, _)| *hash).collect()` => `vx_collect_hashes(chunk_and_boundaries)` :: R7 outline (iterator chain), contract assumed: pointwise first components (as U-XORBIDX)
//@ subst `chunk_and_boundaries .iter() .map(|(_, unpacked_chunk_boundary)| *unpacked_chunk_boundary) .collect()` => `vx_collect_bounds(chunk_and_boundaries)` :: R7 outline (iterator chain), contract assumed: pointwise second components (as U-XORBIDX)
//@ contract
        requires
            bounds_ok(chunk_and_boundaries@, data@.len() as int),
            chunks_small(chunk_and_boundaries@),
            written_sum(data@, chunk_and_boundaries@, compression_scheme, chunk_and_boundaries@.len() as int) <= u32::MAX,
            info_len(chunk_and_boundaries@.len()) <= u32::MAX,
            old(writer).appending(),
        ensures
            /*@C02,C07*/ r matches Ok((cas, total)) ==> cas.info.cashash == *hash && cas.info.num_chunks == chunk_and_boundaries@.len(),
            // boundary i = number of bytes of THIS xorb written up to the end of chunk i: an offset from the xorb's first byte, whatever the length of
            // the stream was when serialization began (it is what get_byte_offset / get_bytes_by_chunk_range consume, U-XORBRANGE)
            /*@C07*/ r matches Ok((cas, total)) ==> cas.info.chunk_boundary_offsets@.len() == chunk_and_boundaries@.len()
                && forall|i: int| 0 <= i < chunk_and_boundaries@.len() ==> cas.info.chunk_boundary_offsets@[i] == written_sum(data@, chunk_and_boundaries@, compression_scheme, i + 1),
            /*@C07,C14*/ r matches Ok((cas, total)) ==> total == written_sum(data@, chunk_and_boundaries@, compression_scheme, chunk_and_boundaries@.len() as int) + info_len(chunk_and_boundaries@.len()) + 4,
            // C14: the returned total is the number of bytes appended to the writer
            /*@C14*/ r matches Ok((cas, total)) ==> grew(*old(writer), *final(writer), total as nat),
//@ before `let mut total_written_bytes`
        let ghost c = chunk_and_boundaries@; let ghost k = c.len(); let ghost hs = cas.info.chunk_hashes@; let ghost us = cas.info.unpacked_chunk_offsets@;
        let ghost l0 = writer.written().len();
//@ loop 1
            invariant
                c == chunk_and_boundaries@, k == c.len(),
                /*@AUX*/ bounds_ok(c, data@.len() as int),
                /*@AUX*/ chunks_small(c),
                /*@AUX*/ written_sum(data@, c, compression_scheme, k as int) <= u32::MAX,
                /*@AUX*/ info_len(k) <= u32::MAX,
                /*@C07*/ cas.info.chunk_hashes@ == hs,
                /*@C07*/ cas.info.unpacked_chunk_offsets@ == us,
                /*@C02,C07*/ cas.info.num_chunks == k,
                /*@C02,C07*/ cas.info.cashash == *hash,
                /*@C07*/ cas.info.boundaries_version == CAS_OBJECT_FORMAT_BOUNDARIES_VERSION,
                /*@C07*/ cas.info.chunk_boundary_offsets@.len() == vx_i_boundary,
                /*@C07,C14*/ total_written_bytes == written_sum(data@, c, compression_scheme, vx_i_boundary as int),
                /*@C07*/ raw_start_idx == bound_before(c, vx_i_boundary as int),
                /*@C07*/ forall|i: int| 0 <= i < vx_i_boundary ==> cas.info.chunk_boundary_offsets@[i] == written_sum(data@, c, compression_scheme, i + 1),
                /*@C14*/ writer.written().len() == l0 + total_written_bytes && writer.appending(),
//@ after `let chunk_raw_bytes = &data[raw_start_idx as usize..chunk_boundary as usize];`
            proof { lemma_written_sum_mono(data@, c, compression_scheme, vx_i_boundary + 1, k as int); }
//@ end
}

// ---- response bodies ------------------------------------------------------------------------------------------------------
//@ extract cas_types/src/lib.rs struct UploadXorbResponse
//@ end
//@ extract cas_types/src/lib.rs enum UploadShardResponseType
//@ end
//@ extract cas_types/src/lib.rs struct UploadShardResponse
//@ end
uninterp spec fn json_xorb_response(body: Seq<u8>, v: UploadXorbResponse) -> bool;
uninterp spec fn json_shard_response(body: Seq<u8>, v: UploadShardResponse) -> bool;
impl VxJson for UploadXorbResponse { closed spec fn vx_json_of(&self, body: Seq<u8>) -> bool { json_xorb_response(body, *self) } }
impl VxJson for UploadShardResponse { closed spec fn vx_json_of(&self, body: Seq<u8>) -> bool { json_shard_response(body, *self) } }

// ---- the client -----------------------------------------------------------------------------------------------------------
pub struct VxChunkCache { _p: () }
pub struct VxPathBuf { _p: () }
pub struct ThreadPool { _p: () }
pub struct RangeDownloadSingleFlight { _p: () }
//@ extract cas_types/src/key.rs struct Key
//@ end
impl VxDisplay for Key { closed spec fn vx_disp(&self) -> Seq<char> { key_disp(self.prefix@, self.hash) } }
//@ extract cas_client/src/remote_client.rs const FORCE_SYNC_METHOD
//@ end
//@ extract cas_client/src/remote_client.rs const NON_FORCE_SYNC_METHOD
//@ end
//@ extract cas_client/src/remote_client.rs struct RemoteClient
//@ end

/// the one request `upload` may send for (key, contents, boundaries): POST of the serialized xorb to the xorb url of that key, through
/// the authenticated client
spec fn xorb_request(cl: RemoteClient, prefix: Seq<char>, hash: MerkleHash, contents: Seq<u8>, cab: Seq<(MerkleHash, u32)>) -> Request {
    Request { method: Method::POST, url: xorb_url(cl.endpoint@, prefix, hash), body: Some(spec_xorb_bytes(hash, contents, cab, cl.compression)), client: cl.authenticated_http_client.id() }
}
/// the one request `upload_shard` may send: the shard bytes, unchanged, to the shard url of (prefix, hash); PUT iff force_sync
spec fn shard_request(cl: RemoteClient, prefix: Seq<char>, hash: MerkleHash, force_sync: bool, shard_data: Seq<u8>) -> Request {
    Request { method: if force_sync { Method::PUT } else { Method::POST }, url: shard_url(cl.endpoint@, prefix, hash), body: Some(shard_data), client: cl.authenticated_http_client.id() }
}
/// the network log grew by at most one exchange, and if it grew, by a request `q`
pub open spec fn at_most_sent(n0: VxNet, n1: VxNet, q: Request) -> bool {
    n1.log == n0.log || (n1.log == n0.log.push(n1.log.last()) && n1.log.last().req == q)
}
/// the network log grew by exactly one exchange: request `q`, answered with a non-error status
pub open spec fn sent_and_accepted(n0: VxNet, n1: VxNet, q: Request) -> bool {
    &&& n1.log == n0.log.push(n1.log.last())
    &&& n1.log.last().req == q
    &&& n1.log.last().resp matches Some(d) && !is_error_status(d.status)
}

#[verifier::external_body]
pub fn request_id_from_response(res: &Response) -> (r: &str) { unimplemented!() }

//@ extract cas_client/src/http_client.rs trait ResponseErrorLogger
//@ end
impl ResponseErrorLogger<error::Result<Response>> for reqwest_middleware::Result<Response> {
//@ extract cas_client/src/http_client.rs in `impl ResponseErrorLogger<error::Result<Response>> for reqwest_middleware::Result<Response>` fn process_error
//@ ret r
//@ rules xorbput.R7u
//@ contract
        ensures
            // Ok exactly for a response that arrived and whose status is not an error status; the response is handed on unchanged
            /*@C16*/ match r {
                Ok(x) => self matches Ok(y) && x == y && !is_error_status(y.status()),
                Err(_) => self is Err || (self matches Ok(y) && is_error_status(y.status())),
            },
//@ end
}

impl RemoteClient {
//@ extract cas_client/src/remote_client.rs in `impl RemoteClient` region upload
//@ block `-> Result<(bool, usize)> {`
//@ sig `fn upload(&self, vx_net: &mut VxNet, key: &Key, contents: Vec<u8>, chunk_and_boundaries: Vec<(MerkleHash, u32)>) -> (r: Result<(bool, usize)>)`
//@ rules xorbput.R7u xorbput.R21
//@ contract
        requires
            /*@AUX*/ serialize_pre(contents@, chunk_and_boundaries@, self.compression),
        ensures
            // dry run: nothing is sent
            /*@C14,C16*/ self.dry_run ==> final(vx_net).log == old(vx_net).log,
            // whatever the outcome: at most one request, and it is the POST of the serialized xorb under the url of this key
            /*@C02,C07,C14,C16*/ at_most_sent(*old(vx_net), *final(vx_net), xorb_request(*self, key.prefix@, key.hash, contents@, chunk_and_boundaries@)),
            // C14: the reported byte count is the value serialize returned == the length of the body handed to the store
            /*@C14*/ r matches Ok((ins, n)) ==> n == spec_xorb_bytes(key.hash, contents@, chunk_and_boundaries@, self.compression).len() && n >= 96,
            // frame for callers' byte sums (U-JOIN's assumed `n <= counter_bound()`): n = sum of written chunk bytes + footer + 4, both terms fit u32
            /*@AUX*/ r matches Ok((ins, n)) ==> n <= 0x2_0000_0003,
            /*@C14*/ r matches Ok((ins, n)) ==> (!self.dry_run ==> (final(vx_net).log.last().req.body matches Some(b) && b.len() == n)),
            /*@C16*/ r matches Ok((ins, n)) ==> (self.dry_run ==> ins),
            // C02/C07: the store received exactly the bytes `CasObject::serialize` wrote for (key.hash, contents, boundaries, compression)
            /*@C02,C07,C14*/ r matches Ok((ins, n)) ==> (!self.dry_run ==> final(vx_net).log == old(vx_net).log.push(final(vx_net).log.last())
                    && final(vx_net).log.last().req == xorb_request(*self, key.prefix@, key.hash, contents@, chunk_and_boundaries@)),
            // C16: Ok only if a response arrived, its status is not an error status, and its body parsed as UploadXorbResponse
            /*@C16*/ r matches Ok((ins, n)) ==> (!self.dry_run ==> (final(vx_net).log.last().resp matches Some(d) && !is_error_status(d.status)
                    && json_xorb_response(d.body, UploadXorbResponse { was_inserted: ins }))),
//@ end

//@ extract cas_client/src/remote_client.rs in `impl UploadClient for RemoteClient` region put
//@ block `-> Result<usize> {`
//@ sig `fn put(&self, vx_net: &mut VxNet, prefix: &str, hash: &MerkleHash, data: Vec<u8>, chunk_and_boundaries: Vec<(MerkleHash, u32)>) -> (r: Result<usize>)`
//@ rules xorbput.R21
//@ contract
        requires
            /*@AUX*/ serialize_pre(data@, chunk_and_boundaries@, self.compression),
        ensures
            /*@C14,C16*/ self.dry_run ==> final(vx_net).log == old(vx_net).log,
            // prefix / hash / data / boundaries are passed through unchanged: the only request is the xorb POST for exactly them
            /*@C02,C07,C14,C16*/ at_most_sent(*old(vx_net), *final(vx_net), xorb_request(*self, prefix@, *hash, data@, chunk_and_boundaries@)),
            // upload's byte count is returned
            /*@C14*/ r matches Ok(n) ==> n == spec_xorb_bytes(*hash, data@, chunk_and_boundaries@, self.compression).len() && n >= 96,
            /*@AUX*/ r matches Ok(n) ==> n <= 0x2_0000_0003,
            /*@C14*/ r matches Ok(n) ==> (!self.dry_run ==> (final(vx_net).log.last().req.body matches Some(b) && b.len() == n)),
            // C16: Err of upload is propagated -- Ok only with the request sent and accepted
            /*@C02,C07,C16*/ r matches Ok(n) ==> (!self.dry_run ==> sent_and_accepted(*old(vx_net), *final(vx_net), xorb_request(*self, prefix@, *hash, data@, chunk_and_boundaries@))),
//@ end

//@ extract cas_client/src/remote_client.rs in `impl RegistrationClient for RemoteClient` region upload_shard
//@ block `-> Result<bool> {`
//@ sig `fn upload_shard(&self, vx_net: &mut VxNet, prefix: &str, hash: &MerkleHash, force_sync: bool, shard_data: &[u8], _salt: &[u8; 32]) -> (r: Result<bool>)`
//@ rules xorbput.R7u xorbput.R21
//@ contract
        ensures
            // dry run: Ok(true), nothing sent (a dry-run client is outside C16: see notes)
            /*@C14,C16*/ self.dry_run ==> final(vx_net).log == old(vx_net).log && (r matches Ok(b) && b),
            // whatever the outcome: at most one request -- the shard bytes, unchanged, under the shard url of (prefix, hash), PUT iff force_sync
            /*@C02,C14,C16*/ at_most_sent(*old(vx_net), *final(vx_net), shard_request(*self, prefix@, *hash, force_sync, shard_data@)),
            // C16: Ok(b) only if that request was sent, the status is not an error status and the body parsed; b tells whether the store synced
            /*@C02,C14,C16*/ r matches Ok(b) ==> (!self.dry_run ==> sent_and_accepted(*old(vx_net), *final(vx_net), shard_request(*self, prefix@, *hash, force_sync, shard_data@))),
            // ... and the answer is the parsed one: true iff the store reports `SyncPerformed`
            /*@C16*/ r matches Ok(b) ==> (!self.dry_run ==> json_shard_response(final(vx_net).log.last().resp->Some_0.body,
                        UploadShardResponse { result: if b { UploadShardResponseType::SyncPerformed } else { UploadShardResponseType::Exists } })),
//@ end
}

} // verus!
fn main() {}
