//@ unit U-CODEC
//@ props C07
//@ verus-args --rlimit 100
//@ rules-from xorbidx
//@ gsubst `anyhow::Error` => `AnyhowError` :: R11 stub type for the anyhow dependency (opaque error value)
//@ gsubst `std::io::Error` => `IoError` :: R11 stub type (opaque error value)
//@ gsubst `lz4_flex::frame::Error` => `Lz4Error` :: R11 stub type (opaque error value)
//@ gsubst `Infallible` => `VxInfallible` :: R11 stub type (opaque error value)
//@ gsubst `Cow<'a, [u8]>` => `CowBytes<'a>` :: R11 stub type for std::borrow::Cow<'a, [u8]> (an enum with the same two variants Borrowed(&[u8]) / Owned(Vec<u8>); Verus has no model of Cow over an unsized type)
//@ gsubst `Cow::from` => `CowBytes::from` :: R11 stub type for std::borrow::Cow<'a, [u8]> (callee path of the same stub: From<Vec<u8>> for Cow<[u8]> = Owned)
//@ gsubst `unsafe { BG4_SPLIT_RUNTIME += s.elapsed().as_secs_f64(); }` => `vx_runtime_stat(&s);` :: R7 outline: profiling counter (`static mut f64`, float arithmetic, unsafe); never read by the functions under contract
//@ gsubst `unsafe { BG4_REGROUP_RUNTIME += s.elapsed().as_secs_f64(); }` => `vx_runtime_stat(&s);` :: R7 outline: profiling counter (see above)
//@ gsubst `unsafe { BG4_LZ4_COMPRESS_RUNTIME += s.elapsed().as_secs_f64(); }` => `vx_runtime_stat(&s);` :: R7 outline: profiling counter (see above)
//@ gsubst `unsafe { BG4_LZ4_DECOMPRESS_RUNTIME += s.elapsed().as_secs_f64(); }` => `vx_runtime_stat(&s);` :: R7 outline: profiling counter (see above)
#![allow(non_snake_case, unused, private_interfaces)]
use vstd::prelude::*;
verus! {
global size_of usize == 8;

//@ include prelude/xorbidx_types.rs
//@ include prelude/codec_io.rs

//@ extract cas_object/src/error.rs enum CasObjectError
//@ end
//@ extract cas_object/src/error.rs type Result
//@ end
// thiserror's `#[from] lz4_flex::frame::Error` on `CasObjectError::CompressionError` generates this impl (used by `?` on `enc.finish()`)
impl From<Lz4Error> for CasObjectError {
    #[verifier::external_body]
    fn from(e: Lz4Error) -> (r: CasObjectError) { CasObjectError::CompressionError(e) }
}

// the REAL enum (compression_scheme.rs:18-25; `#[repr(u8)]` and the derives are dropped by R10; `Clone, Copy` of the real derive list re-stated here)
#[derive(Clone, Copy)]
//@ extract cas_object/src/compression_scheme.rs enum CompressionScheme
//@ end

// ==== the codec as spec functions =========================================================================================================
// Same NAMES and, for `scheme_byte` / `scheme_of_byte` / `decode_spec`, same TEXT as prelude/xorbidx_codec.rs (shared by U-CHUNKSER / U-CHUNKDEC /
// U-XORBRANGE).  There `compress_spec` and `decode_compressed` are uninterpreted and the inverse law is ASSUMED in the stub of
// `compress_from_slice`; here they are DEFINED one level down, over the dependencies' functions, and the law is proved (lemma_codec_inverse).
spec fn scheme_byte(s: CompressionScheme) -> u8 { match s { CompressionScheme::None => 0, CompressionScheme::LZ4 => 1, CompressionScheme::ByteGrouping4LZ4 => 2 } }
pub closed spec fn scheme_of_byte(b: u8) -> Option<CompressionScheme> {
    if b == 0 { Some(CompressionScheme::None) } else if b == 1 { Some(CompressionScheme::LZ4) } else if b == 2 { Some(CompressionScheme::ByteGrouping4LZ4) } else { None }
}
// ---- dependencies (ASSUMED) ----
// lz4_flex 0.11.3 frame format.  lz4_frame(x): the bytes `FrameEncoder` (default FrameInfo) has emitted after write_all(x) + finish().
// lz4_unframe(b): the bytes `FrameDecoder` yields when reading b from its start, up to its end-of-stream (or error).  lz4_consumed(b): how many
// bytes of b it has read from its source when it reports end-of-stream (it stops after the frame's end mark: decompress.rs read_block/EndMark
// -> Ok(0); it does NOT read its source to EOF).
pub uninterp spec fn lz4_frame(x: Seq<u8>) -> Seq<u8>;
pub uninterp spec fn lz4_unframe(b: Seq<u8>) -> Seq<u8>;
pub uninterp spec fn lz4_consumed(b: Seq<u8>) -> nat;
// ASSUMED: the frame decoder inverts the frame encoder and consumes exactly the frame
#[verifier::external_body]
proof fn axiom_lz4_inverse(x: Seq<u8>)
    ensures lz4_unframe(lz4_frame(x)) == x, lz4_consumed(lz4_frame(x)) == lz4_frame(x).len(),
{}
// cas_object/src/byte_grouping/bg4.rs (unsafe pointer code; Kani unit K-BG4, bounded): the byte permutation and its inverse
pub uninterp spec fn bg4_split_spec(x: Seq<u8>) -> Seq<u8>;
pub uninterp spec fn bg4_regroup_spec(g: Seq<u8>) -> Seq<u8>;
// ASSUMED (K-BG4 harnesses bg4_roundtrip_len_*: `regroup(split(x)) = x`, `|split(x)| = |x|`; bg4_regroup_any_len_*: `|regroup(g)| = |g|`)
#[verifier::external_body]
proof fn axiom_bg4_inverse(x: Seq<u8>)
    ensures bg4_regroup_spec(bg4_split_spec(x)) == x,
{}
#[verifier::external_body]
pub fn bg4_split(data: &[u8]) -> (r: Vec<u8>)
    ensures r@ == bg4_split_spec(data@), r@.len() == data@.len(),
{ unimplemented!() }
#[verifier::external_body]
pub fn bg4_regroup(g: &[u8]) -> (r: Vec<u8>)
    ensures r@ == bg4_regroup_spec(g@), r@.len() == g@.len(),
{ unimplemented!() }

// ---- definitions ----
spec fn compress_spec(s: CompressionScheme, c: Seq<u8>) -> Seq<u8> {
    match s {
        CompressionScheme::None => c,
        CompressionScheme::LZ4 => lz4_frame(c),
        CompressionScheme::ByteGrouping4LZ4 => lz4_frame(bg4_split_spec(c)),
    }
}
spec fn decode_compressed(s: CompressionScheme, x: Seq<u8>) -> Seq<u8> {
    match s {
        CompressionScheme::None => x,
        CompressionScheme::LZ4 => lz4_unframe(x),
        CompressionScheme::ByteGrouping4LZ4 => bg4_regroup_spec(lz4_unframe(x)),
    }
}
// what a decoder returns for payload x under scheme s: scheme `None` is the identity (compression_scheme.rs:72)   [text of xorbidx_codec.rs]
spec fn decode_spec(s: CompressionScheme, x: Seq<u8>) -> Seq<u8> { if s is None { x } else { decode_compressed(s, x) } }
// how much of the available input x a reader-based decoder has consumed when it returns Ok: `None` copies to EOF, the lz4 paths stop at the
// end of the frame.  (`consumed_spec`, `frame_exact`: text of xorbidx_codec.rs, where `consumed_compressed` is uninterpreted)
spec fn consumed_compressed(s: CompressionScheme, x: Seq<u8>) -> nat { if s is None { x.len() } else { lz4_consumed(x) } }
spec fn consumed_spec(s: CompressionScheme, x: Seq<u8>) -> nat { if s is None { x.len() } else { consumed_compressed(s, x) } }
spec fn frame_exact(s: CompressionScheme, x: Seq<u8>) -> bool { consumed_spec(s, x) == x.len() }

// ---- proved from the two assumed inverse laws: every scheme's decoder inverts its compressor (C07 "under every compression scheme") ----
proof fn lemma_codec_inverse(s: CompressionScheme, x: Seq<u8>)
    ensures
        /*@C07*/ decode_spec(s, compress_spec(s, x)) == x,
        /*@C07*/ consumed_spec(s, compress_spec(s, x)) == compress_spec(s, x).len(),
        /*@C07*/ s is None ==> compress_spec(s, x) == x && decode_spec(s, x) == x,
{
    axiom_lz4_inverse(x);
    axiom_lz4_inverse(bg4_split_spec(x));
    axiom_bg4_inverse(x);
}
// the wire tag (byte 4 of the chunk header): `scheme_of_byte` inverts the discriminant cast `s as u8` that `set_compression_scheme` stores
proof fn lemma_tag_roundtrip(s: CompressionScheme)
    ensures
        /*@C07*/ s as u8 == scheme_byte(s),
        /*@C07*/ scheme_of_byte(s as u8) == Some(s),
        /*@C07*/ forall|b: u8| scheme_of_byte(b) == Some(s) ==> b == s as u8,
{}

// ==== bridge: the clauses U-CHUNKSER / U-CHUNKDEC ASSUME about the three methods, restated literally and derived from what is proved below ====
// U-CHUNKSER stub:  fn compress_from_slice(&self, data) -> Result<Vec<u8>, _>
//                       ensures r matches Ok(c) ==> c@ == compress_spec(*self, data@) && decode_spec(*self, c@) == data@
proof fn lemma_bridge_chunkser_compress(s: CompressionScheme, data: Seq<u8>, c: Seq<u8>)
    requires c == compress_spec(s, data),      // = postcondition of compress_from_slice below
    ensures /*@C07*/ c == compress_spec(s, data) && decode_spec(s, c) == data,
{ lemma_codec_inverse(s, data); }
// U-CHUNKDEC stub:  fn decompress_from_slice(&self, data) -> Result<Vec<u8>, _>   ensures r matches Ok(d) ==> d@ == decode_spec(*self, data@)
//                   -- literally the postcondition of decompress_from_slice below.
// U-CHUNKDEC stub:  fn vx_decompress_from_take(&self, reader, take, writer)  (= decompress_from_reader over `reader.take(limit)`)
//   the Take is a reader whose content is `avail` = min(limit, rest) bytes of the underlying reader and which advances it by what it yields.
//   `payload` = those bytes; p1 = underlying position afterwards; w0/w1 = writer content; n = returned count
proof fn lemma_bridge_chunkdec_take(s: CompressionScheme, payload: Seq<u8>, p: nat, p1: nat, w0: Seq<u8>, w1: Seq<u8>, n: u64)
    requires   // = postcondition of decompress_from_reader below, for a reader holding `payload` at position 0, underlying reader at p
        w1 == w0 + decode_spec(s, payload), n == decode_spec(s, payload).len(), p1 == p + consumed_spec(s, payload),
    ensures
        /*@C07*/ w1 == w0 + decode_spec(s, payload),                                   // stub clause 3
        /*@C07*/ n == decode_spec(s, payload).len(),                                   // stub clause 4
        // position clause of the stub as corrected 2026-10-04: `final(reader).pos() == p + consumed_spec(s, payload)` -- literally the hypothesis;
        // it equals `p + avail` (the clause the stub used to assume, false in general) for scheme None and for a payload that is exactly what the
        // compressor emits (frame_exact); NOT for an lz4 / bg4 payload with bytes after the frame's end mark
        /*@C07*/ p1 == p + consumed_spec(s, payload),
        /*@C07*/ (s is None || exists|x: Seq<u8>| payload == compress_spec(s, x)) ==> frame_exact(s, payload) && p1 == p + payload.len(),
{
    if !(s is None) && exists|x: Seq<u8>| payload == compress_spec(s, x) {
        let x = choose|x: Seq<u8>| payload == compress_spec(s, x);
        lemma_codec_inverse(s, x);
    }
}

// ==== stubs of the lz4_flex frame API (R11) ==================================================================================================
// FrameEncoder<W>: buffers / writes blocks into `w`; `finish()` writes the end mark and hands `w` back.  Model: `base` = what the inner writer
// held at creation, `content` = everything written into the encoder so far.  After finish() == Ok(w): w holds base ++ lz4_frame(content).
pub struct FrameEncoder<W> { pub w: W, pub ghost base: Seq<u8>, pub ghost content: Seq<u8> }
impl<W: Write> FrameEncoder<W> {
    #[verifier::external_body]
    pub fn new(w: W) -> (r: Self) ensures r.w == w, r.base == w.written(), r.content == Seq::<u8>::empty() { unimplemented!() }
    #[verifier::external_body]
    pub fn finish(self) -> (r: std::result::Result<W, Lz4Error>)
        ensures r matches Ok(w) ==> w.written() == self.base + lz4_frame(self.content) && w.same_sink(&self.w)
    { unimplemented!() }
}
impl<W: Write> Write for FrameEncoder<W> {
    open spec fn written(&self) -> Seq<u8> { self.content }
    #[verifier::prophetic] open spec fn same_sink(&self, before: &Self) -> bool { self.w.same_sink(&before.w) && self.base == before.base }
    #[verifier::external_body]
    fn write_all(&mut self, buf: &[u8]) -> (r: std::result::Result<(), IoError>) { unimplemented!() }
}
// FrameDecoder<R>: a reader over the decoded content of the frame that starts at the current position of `r`.
// Model: `start` = position of `r` at creation, `yielded` = decoded bytes handed out so far; `bytes()` = lz4_unframe(everything r holds from
// `start` on).  A drain-to-end that returned Ok has consumed exactly lz4_consumed(..) bytes of `r` (ASSUMED, lz4_flex decompress.rs).
pub struct FrameDecoder<R> { pub r: R, pub ghost start: nat, pub ghost yielded: nat }
impl<R: Read> FrameDecoder<R> {
    pub open spec fn src(&self) -> Seq<u8> { self.r.bytes().subrange(self.start as int, self.r.bytes().len() as int) }
    #[verifier::external_body]
    pub fn new(r: R) -> (d: Self) ensures d.r == r, d.start == r.pos(), d.yielded == 0 { unimplemented!() }
}
impl<R: Read> Read for FrameDecoder<R> {
    open spec fn bytes(&self) -> Seq<u8> { lz4_unframe(self.src()) }
    open spec fn pos(&self) -> nat { self.yielded }
    #[verifier::prophetic] open spec fn same_src(&self, before: &Self) -> bool {
        self.r.same_src(&before.r) && self.r.bytes() == before.r.bytes() && self.start == before.start
    }
    open spec fn drained(&self) -> bool {
        self.start + lz4_consumed(self.src()) <= self.r.bytes().len() && self.r.pos() == self.start + lz4_consumed(self.src())
    }
    #[verifier::external_body]
    fn read_exact(&mut self, buf: &mut [u8]) -> (r: std::result::Result<(), IoError>) { unimplemented!() }
    #[verifier::external_body]
    fn read_to_end(&mut self, buf: &mut Vec<u8>) -> (r: std::result::Result<usize, IoError>) { unimplemented!() }
}

// ---- std::borrow::Cow<'a, [u8]> (R11 stub, see gsubst): verified, not assumed ----
pub enum CowBytes<'a> { Borrowed(&'a [u8]), Owned(Vec<u8>) }
impl<'a> CowBytes<'a> {
    pub open spec fn view(&self) -> Seq<u8> { match self { CowBytes::Borrowed(s) => s@, CowBytes::Owned(v) => v@ } }
}
impl<'a> vstd::std_specs::convert::FromSpecImpl<&'a [u8]> for CowBytes<'a> {
    open spec fn obeys_from_spec() -> bool { true }
    open spec fn from_spec(s: &'a [u8]) -> Self { CowBytes::Borrowed(s) }
}
impl<'a> From<&'a [u8]> for CowBytes<'a> {
    fn from(s: &'a [u8]) -> (r: Self) ensures r == CowBytes::Borrowed(s) { CowBytes::Borrowed(s) }
}
impl<'a> vstd::std_specs::convert::FromSpecImpl<Vec<u8>> for CowBytes<'a> {
    open spec fn obeys_from_spec() -> bool { true }
    open spec fn from_spec(v: Vec<u8>) -> Self { CowBytes::Owned(v) }
}
impl<'a> From<Vec<u8>> for CowBytes<'a> {
    fn from(v: Vec<u8>) -> (r: Self) ensures r == CowBytes::<'a>::Owned(v) { CowBytes::Owned(v) }
}

// ---- profiling (R7 outline, see gsubst) ----
pub struct Instant { _p: u8 }
impl Instant {
    #[verifier::external_body]
    pub fn now() -> Instant { unimplemented!() }
}
// `unsafe { BG4_*_RUNTIME += s.elapsed().as_secs_f64(); }`
#[verifier::external_body]
pub fn vx_runtime_stat(s: &Instant) { unimplemented!() }

// ---- BG4Predictor (compression_scheme.rs:161-253): `add_data` is raw-pointer code, `bg4_recommended` is f64 arithmetic (KL divergence); stubs.
// ASSUMED: both return for every input (no panic) and the recommendation is a function of the data fed (offset, bytes).
pub struct BG4Predictor { pub ghost fed: Seq<(nat, Seq<u8>)> }
pub uninterp spec fn spec_bg4_recommended(fed: Seq<(nat, Seq<u8>)>) -> bool;
impl BG4Predictor {
    #[verifier::external_body]
    pub fn new() -> (r: Self) ensures r.fed == Seq::<(nat, Seq<u8>)>::empty() { unimplemented!() }
    #[verifier::external_body]
    pub fn add_data(&mut self, offset: usize, data: &[u8]) ensures final(self).fed == old(self).fed.push((offset as nat, data@)) { unimplemented!() }
    #[verifier::external_body]
    pub fn bg4_recommended(&self) -> (r: bool) ensures r == spec_bg4_recommended(self.fed) { unimplemented!() }
}
// the automatic choice as a function of the chunk (U-CHUNKSER: `uninterp spec fn spec_choose`)
spec fn spec_choose(c: Seq<u8>) -> CompressionScheme {
    if spec_bg4_recommended(Seq::<(nat, Seq<u8>)>::empty().push((0nat, c))) { CompressionScheme::ByteGrouping4LZ4 } else { CompressionScheme::LZ4 }
}

// ==== the wire tag ===========================================================================================================================
impl vstd::std_specs::convert::TryFromSpecImpl<u8> for CompressionScheme {
    open spec fn obeys_try_from_spec() -> bool { false }     // (the Err payload is an opaque anyhow value; the contract below is the specification)
    uninterp spec fn try_from_spec(v: u8) -> std::result::Result<Self, CasObjectError>;
}
impl TryFrom<u8> for CompressionScheme {
    type Error = CasObjectError;
//@ extract cas_object/src/compression_scheme.rs in `impl TryFrom<u8> for CompressionScheme` fn try_from
//@ ret r
//@ rules R15
//@ contract
        ensures
            // Ok exactly for 0, 1, 2 and then the scheme with that discriminant; every other byte is a FormatError
            /*@C07*/ match r { Ok(s) => scheme_of_byte(value) == Some(s), Err(e) => scheme_of_byte(value) is None && e is FormatError },
//@ end
}

pub closed spec fn scheme_name(s: CompressionScheme) -> Seq<char> {
    match s { CompressionScheme::None => "none"@, CompressionScheme::LZ4 => "lz4"@, CompressionScheme::ByteGrouping4LZ4 => "bg4-lz4"@ }
}
impl<'a> vstd::std_specs::convert::FromSpecImpl<&'a CompressionScheme> for &'static str {
    open spec fn obeys_from_spec() -> bool { false }
    uninterp spec fn from_spec(v: &'a CompressionScheme) -> Self;
}
impl From<&CompressionScheme> for &'static str {
//@ extract cas_object/src/compression_scheme.rs in `impl From<&CompressionScheme> for &'static str` fn from
//@ ret r
//@ contract
        ensures /*@AUX*/ r@ == scheme_name(*value),
//@ end
}

impl vstd::std_specs::convert::FromSpecImpl<CompressionScheme> for &'static str {
    open spec fn obeys_from_spec() -> bool { false }
    uninterp spec fn from_spec(v: CompressionScheme) -> Self;
}
impl From<CompressionScheme> for &'static str {
//@ extract cas_object/src/compression_scheme.rs in `impl From<CompressionScheme> for &'static str` fn from
//@ ret r
//@ contract
        ensures /*@AUX*/ r@ == scheme_name(value),
//@ end
}

// ==== the codec functions (compression_scheme.rs) ============================================================================================
//@ extract cas_object/src/compression_scheme.rs fn lz4_compress_from_slice
//@ ret r
//@ contract
    ensures /*@C07*/ r matches Ok(c) ==> c@ == lz4_frame(data@),
//@ end

//@ extract cas_object/src/compression_scheme.rs fn lz4_decompress_from_reader
//@ ret r
//@ contract
    ensures
        /*@AUX*/ (*final(reader)).bytes() == (*old(reader)).bytes(),   // frame: reading never changes the input
        /*@AUX*/ (*old(writer)).written().is_prefix_of((*final(writer)).written()),
        /*@AUX*/ r is Ok ==> (*old(reader)).pos() <= (*old(reader)).bytes().len(),
        /*@AUX*/ r is Ok ==> lz4_consumed(rest_of(&*old(reader))) <= rest_of(&*old(reader)).len(),   // the decoder cannot consume more than there is
        /*@C07*/ r matches Ok(n) ==> ({
            let rem = rest_of(&*old(reader));
            &&& /*@C07*/ (*final(writer)).written() == (*old(writer)).written() + lz4_unframe(rem)
            &&& /*@C07*/ n == lz4_unframe(rem).len()
            &&& /*@C07*/ (*final(reader)).pos() == (*old(reader)).pos() + lz4_consumed(rem)
        }),
//@ end

//@ extract cas_object/src/compression_scheme.rs fn lz4_decompress_from_slice
//@ ret r
//@ contract
    ensures /*@C07*/ r matches Ok(d) ==> d@ == lz4_unframe(data@),
//@ before `Ok(dest)`
    proof { assert(data@.subrange(0, data@.len() as int) =~= data@); assert(Seq::<u8>::empty() + lz4_unframe(data@) =~= lz4_unframe(data@)); }
//@ end

//@ extract cas_object/src/compression_scheme.rs fn bg4_lz4_compress_from_slice
//@ ret r
//@ contract
    ensures /*@C07*/ r matches Ok(c) ==> c@ == lz4_frame(bg4_split_spec(data@)),
//@ end

//@ extract cas_object/src/compression_scheme.rs fn bg4_lz4_decompress_from_reader
//@ ret r
//@ contract
    ensures
        /*@AUX*/ (*final(reader)).bytes() == (*old(reader)).bytes(),   // frame: reading never changes the input
        /*@AUX*/ (*old(writer)).written().is_prefix_of((*final(writer)).written()),
        /*@AUX*/ r is Ok ==> (*old(reader)).pos() <= (*old(reader)).bytes().len(),
        /*@AUX*/ r is Ok ==> lz4_consumed(rest_of(&*old(reader))) <= rest_of(&*old(reader)).len(),   // the decoder cannot consume more than there is
        /*@C07*/ r matches Ok(n) ==> ({
            let rem = rest_of(&*old(reader));
            &&& /*@C07*/ (*final(writer)).written() == (*old(writer)).written() + bg4_regroup_spec(lz4_unframe(rem))
            &&& /*@C07*/ n == bg4_regroup_spec(lz4_unframe(rem)).len()
            &&& /*@C07*/ (*final(reader)).pos() == (*old(reader)).pos() + lz4_consumed(rem)
        }),
//@ before `writer.write_all(`
    proof {   // pure sequence identities (g starts empty; the decoder is read from its position 0)
        let u = lz4_unframe(rest_of(&*old(reader)));
        assert(u.subrange(0, u.len() as int) =~= u);
        assert(Seq::<u8>::empty() + u =~= u);
    }
//@ end

//@ extract cas_object/src/compression_scheme.rs fn bg4_lz4_decompress_from_slice
//@ ret r
//@ contract
    ensures /*@C07*/ r matches Ok(d) ==> d@ == bg4_regroup_spec(lz4_unframe(data@)),
//@ before `Ok(dest)`
    proof { assert(data@.subrange(0, data@.len() as int) =~= data@); assert(Seq::<u8>::empty() + bg4_regroup_spec(lz4_unframe(data@)) =~= bg4_regroup_spec(lz4_unframe(data@))); }
//@ end

impl CompressionScheme {
//@ extract cas_object/src/compression_scheme.rs in `impl CompressionScheme` fn compress_from_slice
//@ ret r
//@ contract
        ensures
            // each scheme goes through its own compressor ...
            /*@C07*/ r matches Ok(c) ==> c@ == compress_spec(*self, data@),
            // ... which this scheme's decoder inverts (round trip under every scheme); `None` is the identity
            /*@C07*/ r matches Ok(c) ==> decode_spec(*self, c@) == data@ && consumed_spec(*self, c@) == c@.len() && frame_exact(*self, c@),
            /*@C07*/ r matches Ok(c) ==> (*self is None ==> c@ == data@),
//@ before `Ok(match self`
        proof { lemma_codec_inverse(*self, data@); }
//@ end

//@ extract cas_object/src/compression_scheme.rs in `impl CompressionScheme` fn decompress_from_slice
//@ ret r
//@ contract
        ensures
            /*@C07*/ r matches Ok(d) ==> d@ == decode_spec(*self, data@),
            /*@C07*/ r matches Ok(d) ==> (*self is None ==> d@ == data@),
//@ end

//@ extract cas_object/src/compression_scheme.rs in `impl CompressionScheme` fn decompress_from_reader
//@ ret r
//@ contract
        ensures
            /*@AUX*/ (*final(reader)).bytes() == (*old(reader)).bytes(),   // frame: reading never changes the input
                    /*@AUX*/ (*old(writer)).written().is_prefix_of((*final(writer)).written()),
            /*@AUX*/ r is Ok ==> (*old(reader)).pos() <= (*old(reader)).bytes().len(),
            /*@AUX*/ r is Ok ==> consumed_spec(*self, rest_of(&*old(reader))) <= rest_of(&*old(reader)).len(),   // (U-CHUNKDEC stub: `<= avail`)
            /*@C07*/ r matches Ok(n) ==> ({
                let rem = rest_of(&*old(reader));
                // the decoded data of THIS scheme is appended to the writer, and its length (not the compressed one) is returned
                &&& /*@C07*/ (*final(writer)).written() == (*old(writer)).written() + decode_spec(*self, rem)
                &&& /*@C07*/ n == decode_spec(*self, rem).len()
                &&& /*@C07*/ (*final(reader)).pos() == (*old(reader)).pos() + consumed_spec(*self, rem)
            }),
//@ end

//@ extract cas_object/src/compression_scheme.rs in `impl CompressionScheme` fn choose_from_data
//@ ret r
//@ contract
        ensures
            // C07 needs only that the function is total (proved: the body verifies against total stubs) and returns SOME scheme (by type);
            // which one is the heuristic's business, so these two clauses are AUX: a function of the chunk (U-CHUNKSER's `spec_choose`), and
            // one of the two compressing schemes (`None` only ever comes from the caller or from serialize_chunk's incompressible fallback)
            /*@AUX*/ r == spec_choose(data@),
            /*@AUX*/ r is LZ4 || r is ByteGrouping4LZ4,
//@ end
}

// ==== round trip through the real entry points (composition of the contracts above; the bodies are specification-level, not extracted) ====
// decompress_from_slice(compress_from_slice(x, s), s) == x
proof fn lemma_roundtrip_slice(s: CompressionScheme, x: Seq<u8>, c: Seq<u8>, d: Seq<u8>)
    requires c == compress_spec(s, x), d == decode_spec(s, c),      // = the two postconditions
    ensures /*@C07*/ d == x,
{ lemma_codec_inverse(s, x); }
// ... and through decompress_from_reader over a reader holding exactly the compressed bytes: appends x, returns |x|, consumes all of it
proof fn lemma_roundtrip_reader(s: CompressionScheme, x: Seq<u8>, c: Seq<u8>, w0: Seq<u8>, w1: Seq<u8>, n: u64, p1: nat)
    requires c == compress_spec(s, x), w1 == w0 + decode_spec(s, c), n == decode_spec(s, c).len(), p1 == 0 + consumed_spec(s, c),
    ensures /*@C07*/ w1 == w0 + x, /*@C07*/ n == x.len(), /*@C07*/ p1 == c.len(),
{ lemma_codec_inverse(s, x); }

} // verus!
fn main() {}
