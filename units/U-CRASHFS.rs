//@ unit U-CRASHFS
//@ props C19
//@ verus-args --rlimit 100
//@ gsubst `BufWriter<File>` => `FileWriter` :: R11 stub: a buffered file handle (path it writes to, stream accepted so far)
#![feature(allocator_api)]
#![allow(non_snake_case, unused)]
use vstd::prelude::*;
verus! {
global size_of usize == 8;

// =====================================================================================================================
// The file system as an explicit object (Verus has no global ghost state): path -> contents of the files that exist.
// Crash model: a crash happens between two file-system operations; every completed operation persists.  The property
// "at every crash point every file under a final name is complete and consistent with its name" is therefore the
// invariant `inv` holding after EVERY operation.  Every primitive below requires `inv` before and ensures `inv` after;
// what it needs for that is its op-specific precondition, which every call site in the code under proof must discharge.
// =====================================================================================================================
pub struct PathBuf { pub id: u64 }
pub type Path = PathBuf;
// `protected`: an ARBITRARY set of final names that exist when the operation under proof starts (ghost, never assigned): the
// records "retrievable before the interrupted operation".  `inv` demands that they still exist after every single file-system
// effect; since it is arbitrary, this holds for the set of all final names present at the start.
pub struct FileSystem { pub files: Ghost<Map<PathBuf, Seq<u8>>>, pub protected: Ghost<Set<PathBuf>> }

// name schemes (uninterpreted): which paths are FINAL names (a shard `<hash>.mdb`, a cache item `<b64(range,len,crc)>`, a
// xorb `default.<hash>`), and when a content is complete and consistent with such a name
pub uninterp spec fn is_final(p: PathBuf) -> bool;
pub uninterp spec fn consistent(p: PathBuf, content: Seq<u8>) -> bool;
// the file name component starts with '.'
pub uninterp spec fn dot_name(p: PathBuf) -> bool;
pub open spec fn dotted(name: Seq<char>) -> bool { name.len() > 0 && name[0] == '.' }
pub open spec fn starts_with(s: Seq<char>, lead: Seq<char>) -> bool { s.len() >= lead.len() && s.subrange(0, lead.len() as int) == lead }
pub open spec fn ends_with(s: Seq<char>, trail: Seq<char>) -> bool { s.len() >= trail.len() && s.subrange(s.len() - trail.len(), s.len() as int) == trail }
// R7f outline of `format!`: whatever the arguments print, the result starts with the literal before the first placeholder and
// ends with the literal after the last one
#[verifier::external_body]
pub fn vx_format(lead: &str, trail: &str) -> (r: String) ensures starts_with(r@, lead@), ends_with(r@, trail@) { unimplemented!() }
pub broadcast proof fn lemma_dot_lead(s: Seq<char>)
    ensures #[trigger] starts_with(s, "."@) ==> dotted(s)
{
    reveal_strlit(".");
    if starts_with(s, "."@) { assert(s.subrange(0, 1)[0] == s[0]); }
}
// assumption about the three name schemes: a final name never starts with '.' (hex digit / base64 character / "default.")
pub broadcast proof fn axiom_final_names_not_dotted(p: PathBuf)
    ensures #[trigger] is_final(p) ==> !dot_name(p)
{ admit(); }

pub open spec fn inv(fs: FileSystem) -> bool {
    // every file under a final name is complete and consistent with its name ...
    &&& forall|p: PathBuf| #[trigger] fs.files@.contains_key(p) && is_final(p) ==> consistent(p, fs.files@[p])
    // ... and every record that was retrievable before the operation still is (C19, second half)
    &&& forall|p: PathBuf| #[trigger] fs.protected@.contains(p) ==> is_final(p) && fs.files@.contains_key(p)
}
// one file-system effect, or a whole operation: the invariant holds afterwards for the SAME protected set
pub open spec fn inv_step(old_fs: FileSystem, fs: FileSystem) -> bool { inv(fs) && fs.protected@ == old_fs.protected@ }
pub open spec fn is_prefix(a: Seq<u8>, b: Seq<u8>) -> bool { a.len() <= b.len() && b.subrange(0, a.len() as int) == a }

// ---- semantic effect of each primitive + proof that its precondition is what keeps `inv` (the stubs are not vacuous) ----
pub open spec fn eff_put(fs: Map<PathBuf, Seq<u8>>, p: PathBuf, c: Seq<u8>) -> Map<PathBuf, Seq<u8>> { fs.insert(p, c) }
pub open spec fn eff_rename(fs: Map<PathBuf, Seq<u8>>, from: PathBuf, to: PathBuf) -> Map<PathBuf, Seq<u8>> {
    if from == to { fs } else { fs.remove(from).insert(to, fs[from]) }
}
pub proof fn lemma_put_keeps_inv(fs: FileSystem, fs2: FileSystem, p: PathBuf, c: Seq<u8>)
    requires inv(fs), is_final(p) ==> consistent(p, c), fs2.files@ == eff_put(fs.files@, p, c), fs2.protected@ == fs.protected@
    ensures inv(fs2)
{}
pub proof fn lemma_rename_keeps_inv(fs: FileSystem, fs2: FileSystem, from: PathBuf, to: PathBuf)
    requires inv(fs), fs.files@.contains_key(from), is_final(to) ==> consistent(to, fs.files@[from]),
        fs2.files@ == eff_rename(fs.files@, from, to), fs2.protected@ == fs.protected@,
        // the source name disappears: it must not be one of the records to keep
        from != to ==> !fs.protected@.contains(from),
    ensures inv(fs2)
{}
pub proof fn lemma_remove_keeps_inv(fs: FileSystem, fs2: FileSystem, p: PathBuf)
    requires inv(fs), fs2.files@ == fs.files@.remove(p), fs2.protected@ == fs.protected@, !fs.protected@.contains(p)
    ensures inv(fs2)
{}

pub mod io {
    use super::*;
    pub struct Error { pub code: u64 }
    pub type Result<T> = core::result::Result<T, Error>;
    #[derive(PartialEq, Eq)]
    pub enum ErrorKind { InvalidInput, BrokenPipe, NotFound, AlreadyExists, PermissionDenied, Interrupted, UnexpectedEof, WriteZero, Other }
    impl Error {
        #[verifier::external_body]
        pub fn new(kind: ErrorKind, msg: &str) -> Error { unimplemented!() }
        // any kind: the model never says why an operation failed
        #[verifier::external_body]
        pub fn kind(&self) -> ErrorKind { unimplemented!() }
    }
}

// a file opened for writing (std::fs::File behind a BufWriter, or bare): `path` is where its bytes go, `written` is the
// stream accepted so far; after a successful flush the file's content is exactly `written`
pub struct FileWriter { pub path: Ghost<PathBuf>, pub written: Ghost<Seq<u8>> }
impl FileWriter {
    // write(2) through a handle: the file's content becomes some prefix-extension of what it was (bytes may sit in the
    // user-space buffer).  Needs: the file is not under a final name — a non-atomic writer under a final name could not
    // show consistency of the intermediate contents.
    #[verifier::external_body]
    pub fn write(&mut self, fs: &mut FileSystem, buf: &[u8]) -> (r: io::Result<usize>)
        requires inv(*old(fs)), !is_final(old(self).path@),
        ensures
            inv_step(*old(fs), *final(fs)),
            final(self).path@ == old(self).path@,
            // only the file behind the handle changes
            final(fs).files@ == old(fs).files@.insert(old(self).path@, final(fs).files@[old(self).path@]),
            match r {
                Ok(n) => n <= buf@.len() && final(self).written@ == old(self).written@ + buf@.subrange(0, n as int),
                Err(_) => final(self).written@ == old(self).written@,
            },
    { unimplemented!() }
    #[verifier::external_body]
    pub fn flush(&mut self, fs: &mut FileSystem) -> (r: io::Result<()>)
        requires inv(*old(fs)), !is_final(old(self).path@),
        ensures
            inv_step(*old(fs), *final(fs)),
            final(self).path@ == old(self).path@, final(self).written@ == old(self).written@,
            // only the file behind the handle changes
            final(fs).files@ == old(fs).files@.insert(old(self).path@, final(fs).files@[old(self).path@]),
            r is Ok ==> final(fs).files@.contains_key(old(self).path@) && final(fs).files@[old(self).path@] == old(self).written@,
    { unimplemented!() }
}
// dropping a BufWriter flushes what it can and ignores errors: same frame as `write`; closing the descriptor has no effect
#[verifier::external_body]
pub fn drop(w: FileWriter) { unimplemented!() }

pub type File = FileWriter;
pub struct BufWriter { pub x: u8 }
impl BufWriter {
    pub fn new(file: File) -> (r: FileWriter) ensures r == file { file }
}
pub struct Metadata { pub x: u64 }
pub struct Permissions { pub x: u64 }
impl Metadata {
    #[verifier::external_body]
    pub fn permissions(&self) -> Permissions { unimplemented!() }
}
impl Clone for Permissions {
    #[verifier::external_body]
    fn clone(&self) -> (r: Self) { unimplemented!() }
}
pub struct OsStr { pub x: u64 }
impl OsStr {
    #[verifier::external_body]
    pub fn to_str(&self) -> Option<&str> { unimplemented!() }
}
impl PathBuf {
    pub fn as_ref(&self) -> (r: &PathBuf) ensures *r == *self { self }
    #[verifier::external_body]
    pub fn to_path_buf(&self) -> (r: PathBuf) ensures r == *self { unimplemented!() }
    #[verifier::external_body]
    pub fn parent(&self) -> Option<&PathBuf> { unimplemented!() }
    #[verifier::external_body]
    pub fn file_name(&self) -> Option<&OsStr> { unimplemented!() }
    // answers anything: other processes may create and delete files at any time
    #[verifier::external_body]
    pub fn exists(&self) -> bool { unimplemented!() }
}
pub mod fs {
    use super::*;
    // rename(2): atomic replacement of `to` by the file at `from` (the one operation assumed atomic).  Needs: what is about to
    // appear under `to` is consistent with that name.
    #[verifier::external_body]
    pub fn rename(fs: &mut FileSystem, from: &PathBuf, to: &PathBuf) -> (r: io::Result<()>)
        requires inv(*old(fs)),
            old(fs).files@.contains_key(*from) && is_final(*to) ==> consistent(*to, old(fs).files@[*from]),
            // the name `from` disappears
            *from != *to ==> !old(fs).protected@.contains(*from),
        ensures inv_step(*old(fs), *final(fs)),
            r is Ok ==> old(fs).files@.contains_key(*from) && final(fs).files@ == eff_rename(old(fs).files@, *from, *to),
            r is Err ==> final(fs).files@ == old(fs).files@,
    { unimplemented!() }
    #[verifier::external_body]
    pub fn remove_file(fs: &mut FileSystem, p: &PathBuf) -> (r: io::Result<()>)
        // unlinking a name: it must not be one of the records that were retrievable before the operation
        requires inv(*old(fs)), !old(fs).protected@.contains(*p),
        ensures inv_step(*old(fs), *final(fs)),
            r is Ok ==> final(fs).files@ == old(fs).files@.remove(*p),
            r is Err ==> final(fs).files@ == old(fs).files@,
    { unimplemented!() }
    // metadata operations do not touch contents
    #[verifier::external_body]
    pub fn set_permissions(fs: &mut FileSystem, p: &PathBuf, perm: Permissions) -> (r: io::Result<()>)
        requires inv(*old(fs)),
        ensures inv_step(*old(fs), *final(fs)), final(fs).files@ == old(fs).files@,
    { unimplemented!() }
    #[verifier::external_body]
    pub fn metadata(p: &PathBuf) -> io::Result<Metadata> { unimplemented!() }
}
#[verifier::external_body]
pub fn set_file_metadata(fs: &mut FileSystem, p: &PathBuf, metadata: &Metadata, match_owner: bool) -> (r: io::Result<()>)
    requires inv(*old(fs)),
    ensures inv_step(*old(fs), *final(fs)), final(fs).files@ == old(fs).files@,
{ unimplemented!() }
// file_utils::create_file: create_dir_all(parent) + OpenOptions::new().create(true).truncate(false).write(true).open(path)
// (+ chown).  An existing file keeps its content; a new one is empty.  A *new* file under a final name would be an empty
// file under that name, so that needs `consistent(path, empty)`.
#[verifier::external_body]
pub fn create_file(fs: &mut FileSystem, path: &PathBuf) -> (r: io::Result<File>)
    requires inv(*old(fs)),
        is_final(*path) && !old(fs).files@.contains_key(*path) ==> consistent(*path, Seq::<u8>::empty()),
    ensures inv_step(*old(fs), *final(fs)),
        r matches Ok(f) ==> f.path@ == *path && f.written@ == Seq::<u8>::empty()
            && final(fs).files@ == (if old(fs).files@.contains_key(*path) { old(fs).files@ } else { old(fs).files@.insert(*path, Seq::<u8>::empty()) }),
        r is Err ==> final(fs).files@ == old(fs).files@,
{ unimplemented!() }
#[verifier::external_body]
pub fn vx_msg() -> &'static str { unimplemented!() }
pub struct ThreadRng { pub x: u64 }
#[verifier::external_body]
pub fn vx_thread_rng() -> ThreadRng { unimplemented!() }
#[verifier::external_body]
pub fn vx_random_alnum(rng: &mut ThreadRng) -> String { unimplemented!() }
pub struct Uuid { pub x: u64 }
impl Uuid {
    #[verifier::external_body]
    pub fn new_v4() -> Uuid { unimplemented!() }
}
#[verifier::external_body]
pub fn vx_log() { unimplemented!() }

//@ extract file_utils/src/safe_file_creator.rs struct SafeFileCreator
//@ end

impl SafeFileCreator {
    // well-formedness: an open writer writes to the temp path, and the temp path is a dotted (hence non-final) name
    spec fn wf(&self) -> bool {
        &&& dot_name(self.temp_path)
        &&& self.writer matches Some(w) ==> w.path@ == self.temp_path
    }
    spec fn written(&self) -> Seq<u8> { self.writer.unwrap().written@ }
    spec fn dest(&self) -> PathBuf { self.dest_path.unwrap() }
    // what a caller must know before the creator may commit: the bytes handed to it so far are consistent with the destination
    spec fn committable(&self) -> bool {
        (self.writer is Some && self.dest_path is Some && is_final(self.dest())) ==> consistent(self.dest(), self.written())
    }

//@ extract file_utils/src/safe_file_creator.rs in `impl SafeFileCreator` region temp_file_path
//@ block `fn temp_file_path(dest_dir: impl AsRef<Path>, file: Option<&str>) -> PathBuf {`
//@ sig `fn temp_file_path(dest_dir: &PathBuf, file: Option<&str>) -> (r: PathBuf)`
//@ rules crashfs.R7f
//@ optsubst `thread_rng()` => `vx_thread_rng()` :: R11 stub of rand::thread_rng
//@ optsubst `(0..10).map(|_| rng.sample(Alphanumeric)).map(char::from).collect()` => `vx_random_alnum(&mut rng)` :: R7 outline: ten random alphanumeric characters (an arbitrary string)
//@ contract
        ensures /*@C19*/ dot_name(r),      // a temp name is never a final name (axiom_final_names_not_dotted)
//@ before `dest_dir.as_ref().join(temp_file_name)`
        proof { broadcast use axiom_join_dotted, lemma_dot_lead; }
//@ end

//@ extract file_utils/src/safe_file_creator.rs in `impl SafeFileCreator` fn writer
//@ ret r
//@ subst `format!("Writing to {:?} already completed.", &self.dest_path)` => `vx_msg()` :: R7 outline: error message text
//@ contract
        ensures
            final(self).dest_path == old(self).dest_path, final(self).temp_path == old(self).temp_path,
            final(self).original_metadata == old(self).original_metadata,
            match r {
                Ok(w) => old(self).writer == Some(*w) && final(self).writer == Some(*final(w)),
                Err(_) => old(self).writer is None && final(self).writer is None,
            },
//@ end

//@ extract file_utils/src/safe_file_creator.rs in `impl SafeFileCreator` region close
//@ block `pub fn close(&mut self) -> io::Result<()> {`
//@ sig `fn close(&mut self, vx_fs: &mut FileSystem) -> (r: io::Result<()>)`
//@ rules crashfs.R20
//@ optsubst `writer.flush()` => `writer.flush(vx_fs)` :: explicit file system
//@ optsubst `fs::rename(&self.temp_path, dest_path)` => `fs::rename(vx_fs, &self.temp_path, dest_path)` :: explicit file system
//@ optsubst `set_file_metadata(dest_path, metadata, false)` => `set_file_metadata(vx_fs, dest_path, metadata, false)` :: explicit file system
//@ optsubst `fs::set_permissions(dest_path, permissions.clone())` => `fs::set_permissions(vx_fs, dest_path, permissions.clone())` :: explicit file system
//@ contract
        requires inv(*old(vx_fs)), old(self).wf(),
            /*@C19*/ old(self).committable(),
        ensures
            /*@C19*/ inv_step(*old(vx_fs), *final(vx_fs)),
            final(self).wf(), final(self).dest_path == old(self).dest_path, final(self).temp_path == old(self).temp_path,
            // double close / already closed: no file-system effect at all
            /*@C19*/ old(self).writer is None && old(self).dest_path is Some ==> r is Ok && final(vx_fs).files@ == old(vx_fs).files@,
            old(self).dest_path is Some ==> final(self).writer is None,
            // a successful first close leaves exactly the written bytes under the destination, and no temp file
            /*@C19*/ (r is Ok && old(self).writer is Some && old(self).dest_path is Some) ==>
                final(vx_fs).files@ == eff_rename(old(vx_fs).files@.insert(old(self).temp_path, old(self).written()), old(self).temp_path, old(self).dest()),
            // a failed close never touches the destination
            /*@C19*/ (r is Err && old(self).dest_path is Some && old(self).dest() != old(self).temp_path) ==> ({
                let d = old(self).dest();
                (final(vx_fs).files@.contains_key(d) == old(vx_fs).files@.contains_key(d) && final(vx_fs).files@[d] == old(vx_fs).files@[d])
                || (final(vx_fs).files@.contains_key(d) && final(vx_fs).files@[d] == old(self).written()) }),
//@ body-start
        proof { broadcast use axiom_final_names_not_dotted; }
        let ghost fs0 = vx_fs.files@; let ghost w0 = self.writer;
//@ before `drop(writer);`
        // property-carrying: after the flush the temp file holds exactly the stream written (what the rename is about to publish)
        proof { /*@C19*/ assert(vx_fs.files@ =~= fs0.insert(self.temp_path, w0.unwrap().written@)); }
//@ end

//@ extract file_utils/src/safe_file_creator.rs in `impl Write for SafeFileCreator` region write
//@ block `fn write(&mut self, buf: &[u8]) -> io::Result<usize> {`
//@ sig `fn write(&mut self, vx_fs: &mut FileSystem, buf: &[u8]) -> (r: io::Result<usize>)`
//@ rules crashfs.R20
//@ optsubst `self.writer()?.write(buf)` => `self.writer()?.write(vx_fs, buf)` :: explicit file system
//@ contract
        requires inv(*old(vx_fs)), old(self).wf(),
        ensures
            /*@C19*/ inv_step(*old(vx_fs), *final(vx_fs)),
            final(self).wf(), final(self).dest_path == old(self).dest_path, final(self).temp_path == old(self).temp_path,
            final(self).writer is Some == old(self).writer is Some,
            // every byte goes to the temp file; nothing under any other name changes
            /*@C19*/ final(vx_fs).files@ == old(vx_fs).files@
                || final(vx_fs).files@ == old(vx_fs).files@.insert(old(self).temp_path, final(vx_fs).files@[old(self).temp_path]),
            match r {
                Ok(n) => old(self).writer is Some && n <= buf@.len() && final(self).written() == old(self).written() + buf@.subrange(0, n as int),
                Err(_) => old(self).writer is Some ==> final(self).written() == old(self).written(),
            },
//@ body-start
        proof { broadcast use axiom_final_names_not_dotted; }
//@ end

//@ extract file_utils/src/safe_file_creator.rs in `impl Write for SafeFileCreator` region flush
//@ block `fn flush(&mut self) -> io::Result<()> {`
//@ sig `fn flush(&mut self, vx_fs: &mut FileSystem) -> (r: io::Result<()>)`
//@ rules crashfs.R20
//@ optsubst `self.writer()?.flush()` => `self.writer()?.flush(vx_fs)` :: explicit file system
//@ contract
        requires inv(*old(vx_fs)), old(self).wf(),
        ensures
            /*@C19*/ inv_step(*old(vx_fs), *final(vx_fs)),
            final(self).wf(), final(self).dest_path == old(self).dest_path, final(self).temp_path == old(self).temp_path,
            final(self).writer is Some == old(self).writer is Some,
            old(self).writer is Some ==> final(self).written() == old(self).written(),
            /*@C19*/ final(vx_fs).files@ == old(vx_fs).files@
                || final(vx_fs).files@ == old(vx_fs).files@.insert(old(self).temp_path, final(vx_fs).files@[old(self).temp_path]),
//@ body-start
        proof { broadcast use axiom_final_names_not_dotted; }
//@ end

//@ extract file_utils/src/safe_file_creator.rs in `impl SafeFileCreator` region new
//@ block `pub fn new<P: AsRef<Path>>(dest_path: P) -> io::Result<Self> {`
//@ sig `fn new(vx_fs: &mut FileSystem, dest_path: &PathBuf) -> (r: io::Result<SafeFileCreator>)`
//@ rules crashfs.R20
//@ optsubst `create_file(&temp_path)` => `create_file(vx_fs, &temp_path)` :: explicit file system
//@ contract
        requires inv(*old(vx_fs)),
        ensures
            /*@C19*/ inv_step(*old(vx_fs), *final(vx_fs)),
            match r {
                Ok(c) => c.wf() && c.dest_path == Some(*dest_path) && c.writer is Some && c.written() == Seq::<u8>::empty()
                    // the only file-system effect: an empty file under the (dotted, non-final) temp name
                    && (final(vx_fs).files@ == old(vx_fs).files@ || final(vx_fs).files@ == old(vx_fs).files@.insert(c.temp_path, Seq::<u8>::empty())),
                Err(_) => final(vx_fs).files@ == old(vx_fs).files@,
            },
//@ body-start
        proof { broadcast use axiom_final_names_not_dotted; }
//@ end

//@ extract file_utils/src/safe_file_creator.rs in `impl SafeFileCreator` region new_unnamed
//@ block `pub fn new_unnamed(temp_root: impl AsRef<Path>) -> io::Result<Self> {`
//@ sig `fn new_unnamed(vx_fs: &mut FileSystem, temp_root: &PathBuf) -> (r: io::Result<SafeFileCreator>)`
//@ rules crashfs.R20
//@ optsubst `create_file(&temp_path)` => `create_file(vx_fs, &temp_path)` :: explicit file system
//@ contract
        requires inv(*old(vx_fs)),
        ensures
            /*@C19*/ inv_step(*old(vx_fs), *final(vx_fs)),
            match r {
                Ok(c) => c.wf() && c.dest_path is None && c.writer is Some && c.written() == Seq::<u8>::empty()
                    && (final(vx_fs).files@ == old(vx_fs).files@ || final(vx_fs).files@ == old(vx_fs).files@.insert(c.temp_path, Seq::<u8>::empty())),
                Err(_) => final(vx_fs).files@ == old(vx_fs).files@,
            },
//@ body-start
        proof { broadcast use axiom_final_names_not_dotted; }
//@ end

// C19 obligation on the destructor: dropping a creator (explicitly, at the end of a scope, on an early `?` return or while
// unwinding from a panic) is a sequence of file-system operations like any other and must keep `inv` — WITHOUT any assumption
// about how much has been written, because a drop can happen at any point.
//@ extract file_utils/src/safe_file_creator.rs in `impl Drop for SafeFileCreator` region drop
//@ block `fn drop(&mut self) {`
//@ sig `fn drop(&mut self, vx_fs: &mut FileSystem)`
//@ rules crashfs.R20
//@ optsubst `self.close()` => `self.close(vx_fs)` :: explicit file system
//@ optsubst `fs::remove_file(&self.temp_path)` => `fs::remove_file(vx_fs, &self.temp_path)` :: explicit file system
//@ optsubst `eprintln!("Error: Failed to close writer for {:?}: {}", &self.dest_path, e);` => `vx_log();` :: R3-like: message to stderr
//@ contract
        requires inv(*old(vx_fs)), old(self).wf(),
        ensures /*@C19*/ inv_step(*old(vx_fs), *final(vx_fs)),
//@ end
}


// =====================================================================================================================
// Users of the primitives / of SafeFileCreator's contract
// =====================================================================================================================
impl SafeFileCreator {
    // std's provided `Write::write_all` (a loop over `write`), stated through `write`'s contract
    #[verifier::external_body]
    fn write_all(&mut self, vx_fs: &mut FileSystem, buf: &[u8]) -> (r: io::Result<()>)
        requires inv(*old(vx_fs)), old(self).wf(),
        ensures
            inv_step(*old(vx_fs), *final(vx_fs)),
            final(self).wf(), final(self).dest_path == old(self).dest_path, final(self).temp_path == old(self).temp_path,
            final(self).writer is Some == old(self).writer is Some,
            final(vx_fs).files@ == old(vx_fs).files@
                || final(vx_fs).files@ == old(vx_fs).files@.insert(old(self).temp_path, final(vx_fs).files@[old(self).temp_path]),
            r is Ok ==> old(self).writer is Some && final(self).written() == old(self).written() + buf@,
    { unimplemented!() }
}
pub struct MerkleHash(pub [u64; 4]);
impl Copy for MerkleHash {}
impl Clone for MerkleHash {
    #[verifier::external_body]
    fn clone(&self) -> (r: Self) ensures r == *self { unimplemented!() }
}
impl MerkleHash {
    #[verifier::external_body]
    pub fn default() -> MerkleHash { unimplemented!() }
}
pub uninterp spec fn data_hash(b: Seq<u8>) -> MerkleHash;        // merklehash: keyed blake3 of the bytes
pub uninterp spec fn spec_join(dir: PathBuf, name: Seq<char>) -> PathBuf;
pub uninterp spec fn is_shard_name(name: Seq<char>, h: MerkleHash) -> bool;   // name == "<hex(h)>.mdb"
// what "consistent with its name" means for a shard file: the content hashes to the hash in the name
pub broadcast proof fn axiom_shard_consistent(dir: PathBuf, name: Seq<char>, h: MerkleHash, c: Seq<u8>)
    ensures #![trigger is_shard_name(name, h), consistent(spec_join(dir, name), c)]
        is_shard_name(name, h) ==> (consistent(spec_join(dir, name), c) <==> data_hash(c) == h)
{ admit(); }
pub broadcast proof fn axiom_join_dotted(dir: PathBuf, name: Seq<char>)
    ensures #[trigger] dot_name(spec_join(dir, name)) == dotted(name)
{ admit(); }
impl PathBuf {
    #[verifier::external_body]
    pub fn join(&self, name: String) -> (r: PathBuf) ensures r == spec_join(*self, name@) { unimplemented!() }
}
// mdb_shard::utils (stubs): `format!("{}.mdb", hash.hex())` and `format!(".{uuid}.mdb_temp")`
#[verifier::external_body]
pub fn shard_file_name(hash: &MerkleHash) -> (r: String) ensures is_shard_name(r@, *hash) { unimplemented!() }
//@ extract mdb_shard/src/utils.rs fn temp_shard_file_name
//@ ret r
//@ rules crashfs.R7f
//@ contract
    ensures /*@C19*/ dotted(r@),
//@ before `vx_format(`
    proof { broadcast use lemma_dot_lead; }
//@ end

// R7 outline of `std::fs::OpenOptions::new().write(true).create(true).truncate(true).open(p)`: the file exists and is empty
#[verifier::external_body]
pub fn vx_open_create_truncate(fs: &mut FileSystem, path: &PathBuf) -> (r: io::Result<File>)
    requires inv(*old(fs)), is_final(*path) ==> consistent(*path, Seq::<u8>::empty()),
    ensures inv_step(*old(fs), *final(fs)),
        r matches Ok(f) ==> f.path@ == *path && f.written@ == Seq::<u8>::empty() && final(fs).files@ == old(fs).files@.insert(*path, Seq::<u8>::empty()),
        r is Err ==> final(fs).files@ == old(fs).files@,
{ unimplemented!() }

pub struct Blake3Hasher { pub fed: Ghost<Seq<u8>> }
impl Blake3Hasher {
    #[verifier::external_body]
    pub fn update(&mut self, buf: &[u8]) ensures final(self).fed@ == old(self).fed@ + buf@ { unimplemented!() }
}
// merklehash::HashedWrite<File>
pub struct HashedWrite { pub hasher: Blake3Hasher, pub writer: FileWriter }
// the name derived from the hasher is the hash of what was written iff the two streams agree
pub open spec fn hw_ok(hw: HashedWrite) -> bool { hw.hasher.fed@ == hw.writer.written@ }
impl HashedWrite {
    #[verifier::external_body]
    pub fn new(writer: File) -> (r: HashedWrite) ensures r.writer == writer, r.hasher.fed@ == Seq::<u8>::empty() { unimplemented!() }
    #[verifier::external_body]
    pub fn hash(&self) -> (r: MerkleHash) ensures r == data_hash(self.hasher.fed@) { unimplemented!() }

//@ extract merklehash/src/data_hash.rs in `impl<W: Write> Write for HashedWrite<W>` region write
//@ block `fn write(&mut self, buf: &[u8]) -> std::io::Result<usize> {`
//@ sig `fn write(&mut self, vx_fs: &mut FileSystem, buf: &[u8]) -> (r: io::Result<usize>)`
//@ rules crashfs.R20
//@ optsubst `self.writer.write(buf)` => `self.writer.write(vx_fs, buf)` :: explicit file system
//@ contract
        requires inv(*old(vx_fs)), !is_final(old(self).writer.path@), hw_ok(*old(self)),
        ensures
            inv_step(*old(vx_fs), *final(vx_fs)), final(self).writer.path@ == old(self).writer.path@,
            // C19 (hash-named files): the hasher has seen exactly the bytes that went to the file
            /*@C19*/ hw_ok(*final(self)),
//@ end

//@ extract merklehash/src/data_hash.rs in `impl<W: Write> Write for HashedWrite<W>` region flush
//@ block `fn flush(&mut self) -> std::io::Result<()> {`
//@ sig `fn flush(&mut self, vx_fs: &mut FileSystem) -> (r: io::Result<()>)`
//@ rules crashfs.R20
//@ optsubst `self.writer.flush()` => `self.writer.flush(vx_fs)` :: explicit file system
//@ contract
        requires inv(*old(vx_fs)), !is_final(old(self).writer.path@),
        ensures
            inv_step(*old(vx_fs), *final(vx_fs)), final(self).writer.path@ == old(self).writer.path@,
            final(self).hasher == old(self).hasher, final(self).writer.written@ == old(self).writer.written@,
            final(vx_fs).files@ == old(vx_fs).files@.insert(old(self).writer.path@, final(vx_fs).files@[old(self).writer.path@]),
            r is Ok ==> final(vx_fs).files@[old(self).writer.path@] == old(self).writer.written@,
//@ end
}
pub trait Read { }
// std::io::copy(reader, &mut hashed_write): read + write_all until EOF.  Stated through HashedWrite::write's contract.
#[verifier::external_body]
pub fn vx_io_copy<R: Read>(fs: &mut FileSystem, reader: &mut R, w: &mut HashedWrite) -> (r: io::Result<u64>)
    requires inv(*old(fs)), !is_final(old(w).writer.path@), hw_ok(*old(w)),
    ensures inv_step(*old(fs), *final(fs)), final(w).writer.path@ == old(w).writer.path@, hw_ok(*final(w)),
        final(fs).files@ == old(fs).files@.insert(old(w).writer.path@, final(fs).files@[old(w).writer.path@]),
{ unimplemented!() }

// ---- shard writer 1: MDBShardFile::write_out_from_reader ------------------------------------------------------------------
//@ extract mdb_shard/src/shard_file_handle.rs in `impl MDBShardFile` region write_out_from_reader
//@ from `let mut hashed_write;`
//@ to `std::fs::rename(&temp_file_name, &full_file_name)?;`
//@ sig `fn shard_write_out_from_reader<R: Read>(vx_fs: &mut FileSystem, target_directory: &PathBuf, reader: &mut R) -> (r: io::Result<(MerkleHash, PathBuf)>)`
//@ rules crashfs.R20
//@ epilogue `Ok((shard_hash, full_file_name))`
//@ optsubst `std::fs::OpenOptions::new() .write(true) .create(true) .truncate(true) .open(&temp_file_name)` => `vx_open_create_truncate(vx_fs, &temp_file_name)` :: R7 outline of the OpenOptions builder chain + explicit file system
//@ optsubst `std::io::copy(reader, &mut hashed_write)` => `vx_io_copy(vx_fs, reader, &mut hashed_write)` :: explicit file system
//@ optsubst `hashed_write.flush()` => `hashed_write.flush(vx_fs)` :: explicit file system
//@ optsubst `std::fs::rename(&temp_file_name, &full_file_name)` => `fs::rename(vx_fs, &temp_file_name, &full_file_name)` :: explicit file system
//@ contract
    requires inv(*old(vx_fs)),
    ensures
        /*@C19*/ inv_step(*old(vx_fs), *final(vx_fs)),       // and, by the primitives' contracts, after every single operation on the way
        r matches Ok(hp) ==> final(vx_fs).files@.contains_key(hp.1) && data_hash(final(vx_fs).files@[hp.1]) == hp.0,
//@ body-start
    proof { broadcast use axiom_final_names_not_dotted, axiom_join_dotted, axiom_shard_consistent; }
//@ end

// ---- shard writer 2: MDBInMemoryShard::write_to_directory -------------------------------------------------------------------
pub struct MDBInMemoryShard { pub x: u64 }
impl MDBInMemoryShard {
    // contract of the callee (its body: open+truncate the temp file, HashedWrite + BufWriter, serialize, flush, hash)
    #[verifier::external_body]
    fn write_to_temp_shard_file(&self, vx_fs: &mut FileSystem, temp_file_name: &PathBuf) -> (r: io::Result<MerkleHash>)
        requires inv(*old(vx_fs)), !is_final(*temp_file_name),
        ensures inv_step(*old(vx_fs), *final(vx_fs)),
            final(vx_fs).files@ == old(vx_fs).files@ || final(vx_fs).files@ == old(vx_fs).files@.insert(*temp_file_name, final(vx_fs).files@[*temp_file_name]),
            r matches Ok(h) ==> final(vx_fs).files@.contains_key(*temp_file_name) && h == data_hash(final(vx_fs).files@[*temp_file_name]),
    { unimplemented!() }

//@ extract mdb_shard/src/shard_in_memory.rs in `impl MDBInMemoryShard` region write_to_directory
//@ from `let temp_file_name =`
//@ to `std::fs::rename(&temp_file_name, &full_file_name)?;`
//@ sig `fn write_to_directory(&self, vx_fs: &mut FileSystem, directory: &PathBuf) -> (r: io::Result<PathBuf>)`
//@ rules crashfs.R20
//@ epilogue `Ok(full_file_name)`
//@ optsubst `self.write_to_temp_shard_file(&temp_file_name)` => `self.write_to_temp_shard_file(vx_fs, &temp_file_name)` :: explicit file system
//@ optsubst `std::fs::rename(&temp_file_name, &full_file_name)` => `fs::rename(vx_fs, &temp_file_name, &full_file_name)` :: explicit file system
//@ contract
        requires inv(*old(vx_fs)),
        ensures /*@C19*/ inv_step(*old(vx_fs), *final(vx_fs)),
//@ body-start
        proof { broadcast use axiom_final_names_not_dotted, axiom_join_dotted, axiom_shard_consistent; }
//@ end
}

// ---- chunk cache: the file write of DiskCache::put_impl ---------------------------------------------------------------------
//@ extract chunk_cache/src/disk.rs in `impl DiskCache` region put_impl
//@ from `let mut fw = SafeFileCreator::new(path)?;`
//@ to `fw.close()?;`
//@ sig `fn cache_put_write_file(vx_fs: &mut FileSystem, path: PathBuf, header_buf: Vec<u8>, data: &[u8]) -> (r: io::Result<()>)`
//@ rules crashfs.R20
//@ epilogue `Ok(())`
//@ optsubst `SafeFileCreator::new(path)` => `SafeFileCreator::new(vx_fs, &path)` :: explicit file system
//@ optsubst `fw.write_all(&header_buf)` => `fw.write_all(vx_fs, &header_buf)` :: explicit file system
//@ optsubst `fw.write_all(data)` => `fw.write_all(vx_fs, data)` :: explicit file system
//@ optsubst `fw.close()` => `fw.close(vx_fs)` :: explicit file system
//@ contract
    requires inv(*old(vx_fs)),
        // the item name encodes length and crc of exactly header ++ data (U-CACHEPUT proves that for put_impl's cache_item)
        is_final(path) ==> consistent(path, header_buf@ + data@),
    ensures
        /*@C19*/ inv_step(*old(vx_fs), *final(vx_fs)),
        r is Ok ==> final(vx_fs).files@.contains_key(path) && final(vx_fs).files@[path] == header_buf@ + data@,
//@ before `fw.close(vx_fs)`
    proof { assert((Seq::<u8>::empty() + header_buf@) + data@ =~= header_buf@ + data@); }
//@ end


// ---- local CAS client: LocalClient::put (xorb file `default.<hash>`) --------------------------------------------------------
pub enum CompressionScheme { None, LZ4 }
pub struct CasObject { pub x: u64 }
pub uninterp spec fn xorb_bytes(hash: MerkleHash, data: Seq<u8>, cb: Seq<(MerkleHash, u32)>) -> Seq<u8>;
impl CasObject {
    // stub: writes chunks, footer and footer length through the writer (generic `W: Write + Seek`; it only appends)
    #[verifier::external_body]
    fn serialize(vx_fs: &mut FileSystem, writer: &mut SafeFileCreator, hash: &MerkleHash, data: &Vec<u8>, chunk_and_boundaries: &Vec<(MerkleHash, u32)>,
                 compression_scheme: Option<CompressionScheme>) -> (r: io::Result<(CasObject, usize)>)
        requires inv(*old(vx_fs)), old(writer).wf(),
        ensures
            inv_step(*old(vx_fs), *final(vx_fs)),
            final(writer).wf(), final(writer).dest_path == old(writer).dest_path, final(writer).temp_path == old(writer).temp_path,
            final(writer).writer is Some == old(writer).writer is Some,
            final(vx_fs).files@ == old(vx_fs).files@
                || final(vx_fs).files@ == old(vx_fs).files@.insert(old(writer).temp_path, final(vx_fs).files@[old(writer).temp_path]),
            r is Ok ==> old(writer).writer is Some && final(writer).written() == old(writer).written() + xorb_bytes(*hash, data@, chunk_and_boundaries@),
    { unimplemented!() }
}
impl Permissions {
    #[verifier::external_body]
    pub fn set_readonly(&mut self, ro: bool) { unimplemented!() }
}
//@ extract cas_client/src/local_client.rs in `impl UploadClient for LocalClient` region put
//@ from `let mut file = SafeFileCreator::new(&file_path)?;`
//@ to `let _ = std::fs::set_permissions(&file_path, permissions); }`
//@ sig `fn local_client_put_write(vx_fs: &mut FileSystem, file_path: PathBuf, hash: &MerkleHash, data: Vec<u8>, chunk_and_boundaries: Vec<(MerkleHash, u32)>) -> (r: io::Result<usize>)`
//@ rules crashfs.R20
//@ epilogue `Ok(bytes_written)`
//@ optsubst `SafeFileCreator::new(&file_path)` => `SafeFileCreator::new(vx_fs, &file_path)` :: explicit file system
//@ optsubst `CasObject::serialize( &mut file,` => `CasObject::serialize(vx_fs, &mut file,` :: explicit file system
//@ optsubst `cas_object::CompressionScheme::None` => `CompressionScheme::None` :: R11 stub type path
//@ optsubst `file.close()` => `file.close(vx_fs)` :: explicit file system
//@ optsubst `= metadata(&file_path)` => `= fs::metadata(&file_path)` :: R11 stub path (std::fs::metadata, read-only)
//@ optsubst `std::fs::set_permissions(&file_path, permissions)` => `fs::set_permissions(vx_fs, &file_path, permissions)` :: explicit file system
//@ contract
    requires inv(*old(vx_fs)),
        // the caller passes the xorb's own hash (nothing in put or CasObject::serialize checks it)
        is_final(file_path) ==> consistent(file_path, xorb_bytes(*hash, data@, chunk_and_boundaries@)),
    ensures /*@C19*/ inv_step(*old(vx_fs), *final(vx_fs)),
//@ before `file.close(vx_fs)`
    proof { assert(Seq::<u8>::empty() + xorb_bytes(*hash, data@, chunk_and_boundaries@) =~= xorb_bytes(*hash, data@, chunk_and_boundaries@)); }
//@ end

} // verus!
fn main() {}
