//@ unit U-CACHEINIT
//@ props C13 C19 C12
//@ verus-args --rlimit 200
//@ rules-from cacheinit cacheacct crashfs
//@ gsubst `VerificationCell<CacheItem>` => `CacheItem` :: R11 stub (as U-CACHEACCT): the wrapper derefs to its payload; the flag a new cell starts with is carried by the two constructor stubs below (`new_verified` needs the checksum fact, `new_unverified` nothing)
//@ gsubst `impl AsRef<Path>` => `impl VxAsPath` :: R11 stub trait: a path is used only to name a node of the ghost directory tree
//@ gsubst `std::fs::ReadDir` => `ReadDir` :: R11 stub type path
//@ gsubst `std::fs::read_dir(path)` => `vx_fs_read_dir(path)` :: R11 stub of the std call: lists the ghost directory tree
#![feature(allocator_api)]
#![allow(non_snake_case, unused)]
use vstd::prelude::*;
use vstd::std_specs::hash::*;
use std::collections::{HashMap, HashSet};
use std::hash::{Hash, BuildHasher};
verus! {
global size_of usize == 8;

// ---- stub types of dependencies (R11; same shapes as U-CACHEACCT) -----------------------------------------------------
#[derive(Eq, Hash)]
pub struct Key { pub prefix: String, pub hash: [u64; 4] }
impl PartialEq for Key {
    #[verifier::external_body]
    fn eq(&self, other: &Self) -> (r: bool) { unimplemented!() }
}
impl Clone for Key {
    #[verifier::external_body]
    fn clone(&self) -> (r: Key) ensures r == *self { unimplemented!() }
}
broadcast proof fn axiom_key_model()
    ensures #[trigger] obeys_key_model::<Key>()
{ admit(); }
pub enum ChunkCacheError { General, IO, Parse, BadRange, CacheEmpty, Infallible, LockPoison, InvalidArguments }

//@ extract cas_types/src/lib.rs struct Range
//@ end
//@ extract cas_types/src/lib.rs type ChunkRange
//@ end
//@ extract chunk_cache/src/disk/cache_item.rs struct CacheItem
//@ end
// C12: the flag a cell is created with.  `new_verified` may only be used for an item whose file is known to have the checksum in
// its name (U-CACHEGET `new_verified requires cell_inv(inner)`, U-CACHEPUT proves it for the file it wrote); nothing of the kind is
// known for a file found by the scan, so the scan can only create unverified cells (checksum re-checked on first read, U-CACHEGET).
uninterp spec fn cell_inv(inner: CacheItem) -> bool;
pub struct VerificationCell { pub x: u8 }
impl VerificationCell {
    fn new_verified(inner: CacheItem) -> (r: CacheItem) requires /*@C12*/ cell_inv(inner) ensures r == inner { inner }
    fn new_unverified(inner: CacheItem) -> (r: CacheItem) ensures r == inner { inner }
}
//@ extract chunk_cache/src/disk.rs struct CacheState
//@ end
//@ extract chunk_cache/src/disk.rs const DEFAULT_CHUNK_CACHE_CAPACITY
//@ end
//@ extract chunk_cache/src/disk.rs const PREFIX_DIR_NAME_LEN
//@ end
type OptionResult<T, E> = Result<Option<T>, E>;
pub struct StateHandle { pub id: u64 }

//@ include prelude/cacheinit_acct.rs

// configuration predicate and the lock invariant, as in U-CACHEACCT
spec fn cap_ok(capacity: u64) -> bool { 0 < capacity <= 0x1000_0000_0000_0000 }
spec fn acct_ok(st: CacheState) -> bool {
    &&& st.num_items as int == msum(st.inner@, false)
    &&& st.total_bytes as int == msum(st.inner@, true)
}
spec fn inv(st: CacheState, capacity: u64) -> bool { acct_ok(st) && st.total_bytes <= 3 * capacity }

// =====================================================================================================================
// THE GHOST DIRECTORY TREE.  A directory entry as the scan sees it: its name and what `stat` will say about it when asked
// (`stat_ok` false: gone / unreadable); `node` names the directory it denotes, `ls(node)` is what listing that directory yields —
// `None`: it does not exist (any more) — each element being what `ReadDir::next` hands out (an entry or an I/O error).
// Every directory is listed at most once by the scan, so "the listing" is well defined even though the scan deletes junk files.
// =====================================================================================================================
#[derive(PartialEq, Eq, Structural)]
pub enum ErrorKind { NotFound, PermissionDenied, Other }
pub struct IoError { pub kind: ErrorKind }
impl IoError {
    #[verifier::external_body]
    fn kind(&self) -> (r: ErrorKind) ensures r == self.kind { unimplemented!() }
}
impl From<IoError> for ChunkCacheError {
    #[verifier::external_body]
    fn from(e: IoError) -> (r: ChunkCacheError) ensures r is IO { ChunkCacheError::IO }
}
pub mod io { pub type Error = super::IoError; pub type Result<T> = core::result::Result<T, super::IoError>; }
pub struct DirEntry {
    pub name: Ghost<Seq<u8>>, pub stat_ok: Ghost<bool>, pub is_file: Ghost<bool>, pub is_dir: Ghost<bool>, pub len: Ghost<u64>,
    pub node: Ghost<int>,
}
type Ent = Result<DirEntry, IoError>;
uninterp spec fn ls(node: int) -> Option<Seq<Ent>>;
pub struct PathBuf { pub node: Ghost<int>, pub of: Ghost<Option<DirEntry>> }
pub trait VxAsPath { spec fn node(&self) -> int; }
impl VxAsPath for PathBuf { open spec fn node(&self) -> int { self.node@ } }
impl VxAsPath for &PathBuf { open spec fn node(&self) -> int { self.node@ } }
pub struct Metadata { pub is_file: bool, pub is_dir: bool, pub len: u64 }
pub struct OsString { pub bytes: Ghost<Seq<u8>> }
impl OsString {
    #[verifier::external_body]
    fn as_encoded_bytes(&self) -> (r: &[u8]) ensures r@ == self.bytes@ { unimplemented!() }
}
impl Metadata {
    fn is_file(&self) -> (r: bool) ensures r == self.is_file { self.is_file }
    fn is_dir(&self) -> (r: bool) ensures r == self.is_dir { self.is_dir }
    fn len(&self) -> (r: u64) ensures r == self.len { self.len }
}
impl DirEntry {
    #[verifier::external_body]
    fn metadata(&self) -> (r: io::Result<Metadata>)
        ensures r is Ok <==> self.stat_ok@, r matches Ok(md) ==> md.is_file == self.is_file@ && md.is_dir == self.is_dir@ && md.len == self.len@
    { unimplemented!() }
    #[verifier::external_body]
    fn file_name(&self) -> (r: OsString) ensures r.bytes@ == self.name@ { unimplemented!() }
    #[verifier::external_body]
    fn path(&self) -> (r: PathBuf) ensures r.node@ == self.node@, r.of@ == Some(*self) { unimplemented!() }
}
// `std::fs::ReadDir`: the listing and a cursor.  `next` yields the listing in order and `None` exactly at its end.
pub struct ReadDir { pub ents: Ghost<Seq<Ent>>, pub pos: Ghost<int> }
impl ReadDir {
    #[verifier::external_body]
    fn into_iter(self) -> (r: ReadDir) ensures r == self { unimplemented!() }
    #[verifier::external_body]
    fn next(&mut self) -> (r: Option<io::Result<DirEntry>>)
        requires 0 <= old(self).pos@ <= old(self).ents@.len()
        ensures
            final(self).ents@ == old(self).ents@,
            match r {
                Some(x) => old(self).pos@ < old(self).ents@.len() && x == old(self).ents@[old(self).pos@] && final(self).pos@ == old(self).pos@ + 1,
                None => old(self).pos@ == old(self).ents@.len() && final(self).pos@ == old(self).pos@,
            },
    { unimplemented!() }
}
// `std::fs::read_dir`: Ok = the directory's listing from its start; a NotFound error means there is no such directory
#[verifier::external_body]
fn vx_fs_read_dir(p: impl VxAsPath) -> (r: io::Result<ReadDir>)
    ensures match r {
        Ok(rd) => ls(p.node()) == Some(rd.ents@) && rd.pos@ == 0,
        Err(e) => e.kind == ErrorKind::NotFound ==> ls(p.node()) is None,
    }
{ unimplemented!() }

// ---- names ------------------------------------------------------------------------------------------------------------
// what an item file name / a key directory name decodes to (pure byte codecs around base64: decided by Kani unit K-CACHENAME
// on the real functions `CacheItem::parse` / `try_parse_key`; here they are uninterpreted functions of the name)
uninterp spec fn parse_name(name: Seq<u8>) -> Option<CacheItem>;
uninterp spec fn parse_key(name: Seq<u8>) -> Option<Key>;
uninterp spec fn eq_ignore_ascii_case(a: Seq<u8>, b: Seq<u8>) -> bool;
spec fn has_prefix(name: Seq<u8>, pname: Seq<u8>) -> bool {
    name.len() >= PREFIX_DIR_NAME_LEN && eq_ignore_ascii_case(name.subrange(0, PREFIX_DIR_NAME_LEN as int), pname)
}
// R7 outline of the iterator/closure expression `key_dir_name.as_encoded_bytes().get(..PREFIX_DIR_NAME_LEN).is_some_and(|p|
// p.eq_ignore_ascii_case(key_prefix_dir_name.as_encoded_bytes()))` (the body is that expression); assumed: it computes has_prefix
#[verifier::external_body]
fn vx_has_prefix(key_dir_name: &OsString, key_prefix_dir_name: &OsString) -> (r: bool)
    ensures r == has_prefix(key_dir_name.bytes@, key_prefix_dir_name.bytes@)
{
    key_dir_name.as_encoded_bytes().get(..PREFIX_DIR_NAME_LEN).is_some_and(|p| p.eq_ignore_ascii_case(key_prefix_dir_name.as_encoded_bytes()))
}
// stub of `try_parse_key` (disk.rs:795-804; K-CACHENAME: total, no panic, inverse of `key_dir`): a function of the name
#[verifier::external_body]
fn try_parse_key(file_name: &[u8]) -> (r: Result<Key, ChunkCacheError>)
    ensures match r { Ok(k) => parse_key(file_name@) == Some(k), Err(_) => parse_key(file_name@) is None }
{ unimplemented!() }

// ---- try_parse_cache_file -----------------------------------------------------------------------------------------------
// The first two clauses are the ones PROVED in U-CACHEACCT for the extracted body (quoted verbatim; `DirEntry` there has the same
// ghost fields name/stat_ok/is_file/len).  The body is extracted here once more only for what U-CACHEACCT does not state: which
// entries the scan may DELETE (its `remove_file` stub has no contract) and that an accepted item is never above the 10 GiB limit.
spec fn is_item_file(e: DirEntry, ci: CacheItem) -> bool {
    e.stat_ok@ && e.is_file@ && parse_name(e.name@) == Some(ci) && ci.len == e.len@
}
// a regular file that is not a complete cache item: its name does not decode to an item, or claims another length (the temp file
// of an interrupted put, a truncated / extended / foreign file)
spec fn junk_file(e: DirEntry) -> bool {
    e.stat_ok@ && e.is_file@ && (parse_name(e.name@) is None || parse_name(e.name@)->Some_0.len != e.len@)
}
impl ChunkCacheError {
    #[verifier::external_body]
    fn general(value: String) -> (r: ChunkCacheError) ensures r is General { unimplemented!() }
}
// R7f outline of `format!` (vxlib/rules_extra/crashfs.py): the message text is irrelevant here
#[verifier::external_body]
fn vx_format(lead: &str, trail: &str) -> String { unimplemented!() }
impl CacheItem {
    // stub of `CacheItem::parse` (cache_item.rs:143-162; decided by K-CACHENAME): a function of the name
    #[verifier::external_body]
    fn parse(file_name: &[u8]) -> (r: Result<CacheItem, ChunkCacheError>)
        ensures match r { Ok(ci) => parse_name(file_name@) == Some(ci), Err(_) => parse_name(file_name@) is None }
    { unimplemented!() }
}
// stub of `remove_file` (disk.rs:746-753, `std::fs::remove_file` ignoring NotFound).  C19 "every record that was retrievable before …
// is still retrievable", C12 "junk files and directories at every level": the scan deletes nothing but regular files that are not
// complete items — never an item file, never a directory, never something it could not stat.
#[verifier::external_body]
fn remove_file(path: PathBuf) -> (r: Result<(), ChunkCacheError>)
    requires /*@C19,C12*/ path.of@ is Some && junk_file(path.of@->Some_0),
{ unimplemented!() }

//@ extract chunk_cache/src/disk.rs fn try_parse_cache_file
//@ ret r
//@ rules crashfs.R7f
//@ contract
    ensures
        // U-CACHEACCT soundness clause
        /*@C13,C12*/ r matches Ok(Some(ci)) ==> file_result is Ok && is_item_file(file_result->Ok_0, ci) && ci.len <= capacity,
        // U-CACHEACCT completeness clause
        /*@C13,C19*/ ({ let e = file_result->Ok_0; let ci = parse_name(e.name@).unwrap();
            (file_result is Ok && parse_name(e.name@) is Some && is_item_file(e, ci) && ci.len <= capacity && ci.len <= DEFAULT_CHUNK_CACHE_CAPACITY)
                ==> r == Ok::<Option<CacheItem>, ChunkCacheError>(Some(ci)) }),
        // added here: a regular file above the 10 GiB limit aborts the scan, so nothing above it is ever accepted or skipped
        /*@AUX*/ (r is Ok && file_result is Ok && file_result->Ok_0.stat_ok@ && file_result->Ok_0.is_file@) ==> file_result->Ok_0.len@ <= DEFAULT_CHUNK_CACHE_CAPACITY,
//@ end

// std `Result<Option<T>, E>::transpose` (definition from the std docs).  Not used by the code at HEAD; present so that a scan loop
// restructured with iterator adaptors (`map_while(.. .transpose())`, rule cacheinit.R4m) can still be decided instead of "undecided".
pub assume_specification<T, E>[Result::<Option<T>, E>::transpose](r: Result<Option<T>, E>) -> (o: Option<Result<T, E>>)
    ensures o == (match r { Ok(Some(x)) => Some(Ok::<T, E>(x)), Ok(None) => None::<Result<T, E>>, Err(e) => Some(Err::<T, E>(e)) }),
;

// =====================================================================================================================
// WHAT THE SCAN MUST LOAD (C13 "every cache file on disk belongs to a tracked entry … across re-opening", C19 "every record that
// was retrievable before the interrupted operation is still retrievable; leftover temporary files are ignored", C12 "junk files
// and directories at every level").  Three levels, each a plain left-to-right pass over a listing:
//   level 3  key_items(l, n)        the items among the first n entries of a key directory: every entry that is a complete item
//                                   file no longer than the capacity, each exactly once, in listing order; nothing else
//   level 2  scan_keys(l, n, ..)    the first n entries of a prefix directory: an entry that is a directory, carries the prefix
//                                   and whose name decodes to a key contributes  key -> key_items(its whole listing)  (if non-empty)
//   level 1  scan_prefixes(l, n, ..) the first n entries of the cache root: a directory with a 2-byte name contributes its keys
// Junk (non-directories, wrong name length, foreign names, vanished directories, files that are not complete items such as the
// temp file of an interrupted put) contributes nothing and does not stop the pass.
// =====================================================================================================================
type SMap = Map<Key, Seq<CacheItem>>;
spec fn ok_dir(e: Ent) -> bool { e matches Ok(d) && d.stat_ok@ && d.is_dir@ }
spec fn sel(e: Ent, cap: u64) -> Option<CacheItem> {
    match e {
        Ok(d) => match parse_name(d.name@) {
            Some(ci) => if is_item_file(d, ci) && ci.len <= cap && ci.len <= DEFAULT_CHUNK_CACHE_CAPACITY { Some(ci) } else { None },
            None => None,
        },
        Err(_) => None,
    }
}
spec fn key_items(l: Seq<Ent>, n: int, cap: u64) -> Seq<CacheItem> decreases n {
    if n <= 0 { Seq::empty() } else {
        let s = key_items(l, n - 1, cap);
        match sel(l[n - 1], cap) { Some(ci) => s.push(ci), None => s }
    }
}
spec fn key_of(e: Ent, pname: Seq<u8>) -> Option<Key> {
    if ok_dir(e) && has_prefix(e->Ok_0.name@, pname) { parse_key(e->Ok_0.name@) } else { None }
}
// the items a key directory entry contributes (empty: nothing is registered for it)
spec fn dir_items(e: Ent, cap: u64) -> Seq<CacheItem> {
    match ls(e->Ok_0.node@) { Some(il) => key_items(il, il.len() as int, cap), None => Seq::empty() }
}
spec fn step_key(e: Ent, pname: Seq<u8>, cap: u64, m: SMap) -> SMap {
    match key_of(e, pname) {
        Some(k) => if dir_items(e, cap).len() > 0 { m.insert(k, dir_items(e, cap)) } else { m },
        None => m,
    }
}
spec fn scan_keys(l: Seq<Ent>, n: int, pname: Seq<u8>, cap: u64, m: SMap) -> SMap decreases n {
    if n <= 0 { m } else { step_key(l[n - 1], pname, cap, scan_keys(l, n - 1, pname, cap, m)) }
}
spec fn prefix_ok(e: Ent) -> bool { ok_dir(e) && e->Ok_0.name@.len() == PREFIX_DIR_NAME_LEN }
spec fn step_prefix(e: Ent, cap: u64, m: SMap) -> SMap {
    if prefix_ok(e) {
        match ls(e->Ok_0.node@) { Some(kl) => scan_keys(kl, kl.len() as int, e->Ok_0.name@, cap, m), None => m }
    } else { m }
}
spec fn scan_prefixes(l: Seq<Ent>, n: int, cap: u64, m: SMap) -> SMap decreases n {
    if n <= 0 { m } else { step_prefix(l[n - 1], cap, scan_prefixes(l, n - 1, cap, m)) }
}
spec fn scan_root(root: int, cap: u64) -> SMap {
    match ls(root) { Some(l0) => scan_prefixes(l0, l0.len() as int, cap, Map::empty()), None => Map::empty() }
}
// the in-memory map IS the abstract map (a key bound to an empty list tracks nothing: harmless, as in U-CACHEACCT's `maybe_evict`)
spec fn rep(h: Map<Key, Vec<CacheItem>>, m: SMap) -> bool {
    &&& forall|k: Key| #[trigger] m.contains_key(k) ==> h.contains_key(k) && h[k]@ == m[k]
    &&& forall|k: Key| #[trigger] h.contains_key(k) && !m.contains_key(k) ==> h[k]@.len() == 0
}

// ---- environment assumption (FRESH): no key directory that contributes items decodes to a key that an EARLIER directory of the
// scan already contributed.  True for every tree the cache itself wrote on a case-sensitive file system (`key_dir` is a function
// of the key, the prefix directory is the first two characters of the key directory's name, names in one directory are distinct
// and `try_parse_key` is injective on accepted names — K-CACHENAME); see the notes for what a planted duplicate does.
spec fn key_step_fresh(e: Ent, pname: Seq<u8>, cap: u64, m: SMap) -> bool {
    (key_of(e, pname) matches Some(k) && dir_items(e, cap).len() > 0) ==> !m.contains_key(key_of(e, pname)->Some_0)
}
spec fn keys_fresh(l: Seq<Ent>, n: int, pname: Seq<u8>, cap: u64, m: SMap) -> bool decreases n {
    n <= 0 || (keys_fresh(l, n - 1, pname, cap, m) && key_step_fresh(l[n - 1], pname, cap, scan_keys(l, n - 1, pname, cap, m)))
}
spec fn prefix_step_fresh(e: Ent, cap: u64, m: SMap) -> bool {
    (prefix_ok(e) && ls(e->Ok_0.node@) is Some) ==> keys_fresh(ls(e->Ok_0.node@)->Some_0, ls(e->Ok_0.node@)->Some_0.len() as int, e->Ok_0.name@, cap, m)
}
spec fn prefixes_fresh(l: Seq<Ent>, n: int, cap: u64, m: SMap) -> bool decreases n {
    n <= 0 || (prefixes_fresh(l, n - 1, cap, m) && prefix_step_fresh(l[n - 1], cap, scan_prefixes(l, n - 1, cap, m)))
}
spec fn root_fresh(root: int, cap: u64) -> bool {
    ls(root) matches Some(l0) ==> prefixes_fresh(l0, l0.len() as int, cap, Map::empty())
}
proof fn lemma_keys_fresh_upto(l: Seq<Ent>, n: int, j: int, pname: Seq<u8>, cap: u64, m: SMap)
    requires keys_fresh(l, n, pname, cap, m), 0 <= j <= n
    ensures keys_fresh(l, j, pname, cap, m)
    decreases n - j
{ if j < n { lemma_keys_fresh_upto(l, n - 1, j, pname, cap, m); } }
proof fn lemma_prefixes_fresh_upto(l: Seq<Ent>, n: int, j: int, cap: u64, m: SMap)
    requires prefixes_fresh(l, n, cap, m), 0 <= j <= n
    ensures prefixes_fresh(l, j, cap, m)
    decreases n - j
{ if j < n { lemma_prefixes_fresh_upto(l, n - 1, j, cap, m); } }
proof fn lemma_key_items_mono(l: Seq<Ent>, a: int, b: int, cap: u64)
    requires 0 <= a <= b
    ensures key_items(l, a, cap).len() <= key_items(l, b, cap).len()
    decreases b - a
{ if a < b { lemma_key_items_mono(l, a, b - 1, cap); } }
// ---- property-level reading of the two definitions above --------------------------------------------------------------
// key_at(l0, i, j): the key that the j-th entry of the i-th prefix directory of the root listing l0 decodes to, if the scan gets there
spec fn key_at(l0: Seq<Ent>, i: int, j: int) -> Option<Key> {
    if 0 <= i < l0.len() && prefix_ok(l0[i]) && ls(l0[i]->Ok_0.node@) is Some && 0 <= j < ls(l0[i]->Ok_0.node@)->Some_0.len() {
        key_of(ls(l0[i]->Ok_0.node@)->Some_0[j], l0[i]->Ok_0.name@)
    } else { None }
}
// (DISTINCT) no two key directories of the tree decode to the same key
spec fn keys_distinct(l0: Seq<Ent>) -> bool {
    forall|i: int, j: int, i2: int, j2: int| (#[trigger] key_at(l0, i, j)) is Some && key_at(l0, i, j) == #[trigger] key_at(l0, i2, j2) ==> i == i2 && j == j2
}
// every key of a pass over n key entries was there before or is the key of one of these entries
proof fn lemma_scan_keys_dom(l: Seq<Ent>, n: int, pname: Seq<u8>, cap: u64, m: SMap, k: Key)
    requires 0 <= n <= l.len(), scan_keys(l, n, pname, cap, m).contains_key(k)
    ensures m.contains_key(k) || exists|j: int| 0 <= j < n && key_of(l[j], pname) == Some(k)
    decreases n
{
    if n > 0 {
        if scan_keys(l, n - 1, pname, cap, m).contains_key(k) { lemma_scan_keys_dom(l, n - 1, pname, cap, m, k); }
        else { assert(key_of(l[n - 1], pname) == Some(k)); }
    }
}
proof fn lemma_scan_prefixes_dom(l0: Seq<Ent>, n: int, cap: u64, k: Key)
    requires 0 <= n <= l0.len(), scan_prefixes(l0, n, cap, Map::empty()).contains_key(k)
    ensures exists|i: int, j: int| 0 <= i < n && key_at(l0, i, j) == Some(k)
    decreases n
{
    if n > 0 {
        let m1 = scan_prefixes(l0, n - 1, cap, Map::empty());
        if m1.contains_key(k) { lemma_scan_prefixes_dom(l0, n - 1, cap, k); }
        else {
            let e = l0[n - 1];
            let kl = ls(e->Ok_0.node@)->Some_0;
            lemma_scan_keys_dom(kl, kl.len() as int, e->Ok_0.name@, cap, m1, k);
            let j = choose|j: int| 0 <= j < kl.len() && key_of(kl[j], e->Ok_0.name@) == Some(k);
            assert(key_at(l0, n - 1, j) == Some(k));
        }
    }
}
// DISTINCT implies the assumption FRESH the scan is verified under
proof fn lemma_distinct_keys_fresh(l0: Seq<Ent>, i: int, n: int, cap: u64)
    requires keys_distinct(l0), 0 <= i < l0.len(), prefix_ok(l0[i]), ls(l0[i]->Ok_0.node@) is Some, 0 <= n <= ls(l0[i]->Ok_0.node@)->Some_0.len()
    ensures keys_fresh(ls(l0[i]->Ok_0.node@)->Some_0, n, l0[i]->Ok_0.name@, cap, scan_prefixes(l0, i, cap, Map::empty()))
    decreases n
{
    if n > 0 {
        lemma_distinct_keys_fresh(l0, i, n - 1, cap);
        let kl = ls(l0[i]->Ok_0.node@)->Some_0; let pname = l0[i]->Ok_0.name@; let m = scan_prefixes(l0, i, cap, Map::empty());
        let m1 = scan_keys(kl, n - 1, pname, cap, m);
        if key_of(kl[n - 1], pname) is Some {
            let k = key_of(kl[n - 1], pname)->Some_0;
            assert(key_at(l0, i, n - 1) == Some(k));
            if m1.contains_key(k) {
                lemma_scan_keys_dom(kl, n - 1, pname, cap, m, k);
                if m.contains_key(k) {
                    lemma_scan_prefixes_dom(l0, i, cap, k);
                    let (i2, j2) = choose|i2: int, j2: int| 0 <= i2 < i && key_at(l0, i2, j2) == Some(k);
                    assert(key_at(l0, i, n - 1) == key_at(l0, i2, j2));
                    assert(false);
                } else {
                    let j2 = choose|j2: int| 0 <= j2 < n - 1 && key_of(kl[j2], pname) == Some(k);
                    assert(key_at(l0, i, j2) == Some(k));
                    assert(key_at(l0, i, n - 1) == key_at(l0, i, j2));
                    assert(false);
                }
            }
        }
    }
}
proof fn lemma_distinct_fresh(l0: Seq<Ent>, n: int, cap: u64)
    requires keys_distinct(l0), 0 <= n <= l0.len()
    ensures prefixes_fresh(l0, n, cap, Map::empty())
    decreases n
{
    if n > 0 {
        lemma_distinct_fresh(l0, n - 1, cap);
        if prefix_ok(l0[n - 1]) && ls(l0[n - 1]->Ok_0.node@) is Some {
            lemma_distinct_keys_fresh(l0, n - 1, ls(l0[n - 1]->Ok_0.node@)->Some_0.len() as int, cap);
        }
    }
}
// a later pass leaves a binding alone unless one of its entries decodes to that key
proof fn lemma_scan_keys_keeps(l: Seq<Ent>, n: int, pname: Seq<u8>, cap: u64, m: SMap, k: Key)
    requires 0 <= n <= l.len(), m.contains_key(k), forall|j: int| 0 <= j < n ==> key_of(l[j], pname) != Some(k)
    ensures scan_keys(l, n, pname, cap, m).contains_key(k) && scan_keys(l, n, pname, cap, m)[k] == m[k]
    decreases n
{ if n > 0 { lemma_scan_keys_keeps(l, n - 1, pname, cap, m, k); } }
proof fn lemma_scan_prefixes_keeps(l0: Seq<Ent>, a: int, n: int, cap: u64, k: Key)
    requires 0 <= a <= n <= l0.len(), scan_prefixes(l0, a, cap, Map::empty()).contains_key(k),
        forall|i: int, j: int| a <= i < n ==> key_at(l0, i, j) != Some(k)
    ensures scan_prefixes(l0, n, cap, Map::empty()).contains_key(k) && scan_prefixes(l0, n, cap, Map::empty())[k] == scan_prefixes(l0, a, cap, Map::empty())[k]
    decreases n - a
{
    if a < n {
        lemma_scan_prefixes_keeps(l0, a, n - 1, cap, k);
        let e = l0[n - 1]; let m1 = scan_prefixes(l0, n - 1, cap, Map::empty());
        if prefix_ok(e) && ls(e->Ok_0.node@) is Some {
            let kl = ls(e->Ok_0.node@)->Some_0;
            assert forall|j: int| 0 <= j < kl.len() implies key_of(kl[j], e->Ok_0.name@) != Some(k) by { assert(key_at(l0, n - 1, j) != Some(k)); }
            lemma_scan_keys_keeps(kl, kl.len() as int, e->Ok_0.name@, cap, m1, k);
        }
    }
}
// COMPLETENESS, in the words of C13 / C19: under DISTINCT, every key directory (i, j) the tree holds whose listing contains a complete
// item file is bound, in what the scan must load, to exactly the items of that listing — so every such file belongs to a tracked
// entry (key_items keeps each `sel`-accepted entry) and nothing else does (lemma_key_items_sound)
proof fn lemma_scan_root_complete(root: int, cap: u64, i: int, j: int)
    requires
        ls(root) is Some, keys_distinct(ls(root)->Some_0),
        key_at(ls(root)->Some_0, i, j) is Some,
        dir_items(ls(ls(root)->Some_0[i]->Ok_0.node@)->Some_0[j], cap).len() > 0,
    ensures
        scan_root(root, cap).contains_key(key_at(ls(root)->Some_0, i, j)->Some_0),
        scan_root(root, cap)[key_at(ls(root)->Some_0, i, j)->Some_0] == dir_items(ls(ls(root)->Some_0[i]->Ok_0.node@)->Some_0[j], cap),
{
    let l0 = ls(root)->Some_0; let e = l0[i]; let kl = ls(e->Ok_0.node@)->Some_0; let pname = e->Ok_0.name@;
    let k = key_at(l0, i, j)->Some_0; let m = scan_prefixes(l0, i, cap, Map::empty());
    // after entry j of prefix directory i the binding is there …
    let mj = scan_keys(kl, j + 1, pname, cap, m);
    assert(mj == step_key(kl[j], pname, cap, scan_keys(kl, j, pname, cap, m)));
    assert(mj.contains_key(k) && mj[k] == dir_items(kl[j], cap));
    // … the rest of that directory keeps it …
    assert forall|j2: int| j + 1 <= j2 < kl.len() implies key_of(kl[j2], pname) != Some(k) by {
        if key_of(kl[j2], pname) == Some(k) { assert(key_at(l0, i, j2) == key_at(l0, i, j)); }
    }
    lemma_scan_keys_suffix_keeps(kl, j + 1, kl.len() as int, pname, cap, m, k);
    assert(scan_prefixes(l0, i + 1, cap, Map::empty()) == step_prefix(e, cap, m));
    // … and so do the later prefix directories
    assert forall|i2: int, j2: int| i + 1 <= i2 < l0.len() implies key_at(l0, i2, j2) != Some(k) by {
        if key_at(l0, i2, j2) == Some(k) { assert(key_at(l0, i, j) == key_at(l0, i2, j2)); }
    }
    lemma_scan_prefixes_keeps(l0, i + 1, l0.len() as int, cap, k);
}
proof fn lemma_scan_keys_suffix_keeps(l: Seq<Ent>, a: int, n: int, pname: Seq<u8>, cap: u64, m: SMap, k: Key)
    requires 0 <= a <= n <= l.len(), scan_keys(l, a, pname, cap, m).contains_key(k), forall|j: int| a <= j < n ==> key_of(l[j], pname) != Some(k)
    ensures scan_keys(l, n, pname, cap, m).contains_key(k) && scan_keys(l, n, pname, cap, m)[k] == scan_keys(l, a, pname, cap, m)[k]
    decreases n - a
{ if a < n { lemma_scan_keys_suffix_keeps(l, a, n - 1, pname, cap, m, k); } }
// SOUNDNESS of one list: every element of key_items(l, n) is the decoded name of a complete item file among the first n entries,
// no longer than the capacity; COMPLETENESS: every such entry is in the list
proof fn lemma_key_items_sound(l: Seq<Ent>, n: int, cap: u64, x: int)
    requires 0 <= n <= l.len(), 0 <= x < key_items(l, n, cap).len()
    ensures exists|t: int| 0 <= t < n && sel(l[t], cap) == Some(key_items(l, n, cap)[x])
    decreases n
{
    if n > 0 {
        let s = key_items(l, n - 1, cap);
        if x < s.len() { lemma_key_items_sound(l, n - 1, cap, x); assert(key_items(l, n, cap)[x] == s[x]); }
        else { assert(sel(l[n - 1], cap) == Some(key_items(l, n, cap)[x])); }
    }
}
proof fn lemma_key_items_complete(l: Seq<Ent>, n: int, cap: u64, t: int)
    requires 0 <= t < n <= l.len(), sel(l[t], cap) is Some
    ensures key_items(l, n, cap).contains(sel(l[t], cap)->Some_0)
    decreases n
{
    let s = key_items(l, n - 1, cap);
    if t == n - 1 { assert(key_items(l, n, cap) == s.push(sel(l[t], cap)->Some_0)); assert(s.push(sel(l[t], cap)->Some_0)[s.len() as int] == sel(l[t], cap)->Some_0); }
    else {
        lemma_key_items_complete(l, n - 1, cap, t);
        let w = choose|w: int| 0 <= w < s.len() && s[w] == sel(l[t], cap)->Some_0;
        assert(key_items(l, n, cap)[w] == s[w]);
    }
}

// directories are finite (address space: every tracked item occupies memory): no listing has more than 2^20 entries
spec fn fs_small() -> bool { forall|n: int| (#[trigger] ls(n)) matches Some(l) ==> l.len() <= 0x10_0000 }

proof fn lemma_rep_insert(h: Map<Key, Vec<CacheItem>>, m: SMap, k: Key, v: Vec<CacheItem>)
    requires rep(h, m)
    ensures rep(h.insert(k, v), m.insert(k, v@)), v@.len() == 0 && !m.contains_key(k) ==> rep(h.insert(k, v), m)
{
}

impl CacheState {
//@ extract chunk_cache/src/disk.rs in `impl CacheState` fn new
//@ ret r
//@ contract
        ensures r.inner == state, r.num_items == num_items, r.total_bytes == total_bytes,
//@ end
}

// ---- the two small wrappers the scan uses (real bodies) ---------------------------------------------------------------
//@ extract chunk_cache/src/disk.rs fn read_dir
//@ ret r
//@ contract
    ensures
        /*@C12,C13,C19*/ match r {
            Ok(Some(rd)) => ls(path.node()) == Some(rd.ents@) && rd.pos@ == 0,
            Ok(None) => ls(path.node()) is None,
            Err(_) => true,
        },
//@ end

//@ extract chunk_cache/src/disk.rs fn is_ok_dir
//@ ret r
//@ contract
    ensures
        // soundness: only an existing directory is descended into
        /*@C12*/ r matches Ok(Some(d)) ==> ok_dir(dir_result) && dir_result->Ok_0 == d,
        // completeness: an existing directory is never skipped
        /*@C13,C19*/ ok_dir(dir_result) ==> (r matches Ok(Some(d)) && d == dir_result->Ok_0),
//@ end

//@ extract chunk_cache/src/disk.rs struct DiskCache
//@ subst `Arc<Mutex<CacheState>>` => `StateHandle` :: R11 stub: the mutex handle does not exist yet while the state is being built
//@ end
impl DiskCache {
//@ extract chunk_cache/src/disk.rs in `impl DiskCache` fn initialize_state
//@ ret r
//@ rules cacheinit.R4m cacheacct.R4i
//@ optsubst `key_dir_name .as_encoded_bytes() .get(..PREFIX_DIR_NAME_LEN) .is_some_and(|p| p.eq_ignore_ascii_case(key_prefix_dir_name.as_encoded_bytes()))` => `vx_has_prefix(&key_dir_name, &key_prefix_dir_name)` :: R7 outline: slice `get(..n)` + closure; the outlined fn's body is this expression, its contract (computes has_prefix of the two names) is assumed
//@ prefix
    #[verifier::exec_allows_no_decreases_clause]
//@ contract
        requires
            cap_ok(capacity),
            fs_small(),
            // environment (DISTINCT): no two key directories of the tree decode to the same key (see notes: true for every tree the cache
            // wrote itself; a planted duplicate makes the later list replace the earlier one while both are counted)
            ls(cache_root.node@) is Some ==> keys_distinct(ls(cache_root.node@)->Some_0),
        ensures
            // (b) the counters equal the count and the summed lengths of the tracked entries; arithmetic frame of U-CACHEACCT
            /*@C13,C12*/ r matches Ok(st) ==> inv(st, capacity),
            // (a),(d) unless the scan stopped at 2*capacity, the state tracks exactly what the tree holds: one entry per complete item
            // file, nothing for anything else
            /*@C13,C19,C12*/ r matches Ok(st) ==> st.total_bytes >= 2 * capacity || rep(st.inner@, scan_root(cache_root.node@, capacity)),
//@ body-start
        let ghost e0: SMap = Map::empty();
        proof { broadcast use axiom_key_model; }
//@ after `let max_num_bytes = 2 * capacity;`
        proof { assert(msum(state@, false) == 0 && msum(state@, true) == 0) by { assert(state@.dom() =~= Set::<Key>::empty()); } assert(rep(state@, e0)); }
//@ before `{ let mut vx_it1 =`
        let ghost l0 = cache_root_readdir.ents@;
        proof { lemma_distinct_fresh(l0, l0.len() as int, capacity); }
//@ loop 1
            invariant
                cap_ok(capacity), fs_small(), max_num_bytes == 2 * capacity, e0 == Map::<Key, Seq<CacheItem>>::empty(),
                prefixes_fresh(l0, l0.len() as int, capacity, e0), l0.len() <= 0x10_0000,
                vx_it1.ents@ == l0, 0 <= vx_it1.pos@ <= l0.len(),
                /*@C13,C19,C12*/ rep(state@, scan_prefixes(l0, vx_it1.pos@, capacity, e0)),
                /*@C13,C12*/ num_items as int == msum(state@, false),
                /*@C13,C12*/ total_bytes as int == msum(state@, true),
                /*@AUX*/ total_bytes < max_num_bytes,
                /*@AUX*/ num_items <= vx_it1.pos@ * 0x100_0000_0000,
            ensures /*@C13,C19,C12*/ vx_it1.pos@ == l0.len(),    // the whole listing was visited
//@ before `let Some(key_prefix_dir) = is_ok_dir(key_prefix_dir)?`
            let ghost i = vx_it1.pos@ - 1; let ghost ep: Ent = key_prefix_dir;
            let ghost m_i = scan_prefixes(l0, i, capacity, e0);
            proof {
                broadcast use axiom_key_model;
                lemma_prefixes_fresh_upto(l0, l0.len() as int, i + 1, capacity, e0);
                assert(scan_prefixes(l0, i + 1, capacity, e0) == step_prefix(ep, capacity, m_i));
            }
//@ before `{ let mut vx_it2 =`
            let ghost l1 = key_prefix_readdir.ents@; let ghost pname = key_prefix_dir_name.bytes@;
//@ loop 2
                invariant
                    cap_ok(capacity), fs_small(), max_num_bytes == 2 * capacity,
                    keys_fresh(l1, l1.len() as int, pname, capacity, m_i), l1.len() <= 0x10_0000, 0 <= i < 0x10_0000, pname == key_prefix_dir_name.bytes@,
                    vx_it2.ents@ == l1, 0 <= vx_it2.pos@ <= l1.len(),
                    /*@C13,C19,C12*/ rep(state@, scan_keys(l1, vx_it2.pos@, pname, capacity, m_i)),
                    /*@C13,C12*/ num_items as int == msum(state@, false),
                    /*@C13,C12*/ total_bytes as int == msum(state@, true),
                    /*@AUX*/ total_bytes < max_num_bytes,
                    /*@AUX*/ num_items <= i * 0x100_0000_0000 + vx_it2.pos@ * 0x10_0000,
                ensures /*@C13,C19,C12*/ vx_it2.pos@ == l1.len(),
//@ before `let key_dir = match is_ok_dir(key_dir)`
                let ghost j = vx_it2.pos@ - 1; let ghost ek: Ent = key_dir;
                let ghost m_j = scan_keys(l1, j, pname, capacity, m_i);
                let ghost h_j = state@;
                proof {
                    broadcast use axiom_key_model;
                    lemma_keys_fresh_upto(l1, l1.len() as int, j + 1, pname, capacity, m_i);
                    assert(scan_keys(l1, j + 1, pname, capacity, m_i) == step_key(ek, pname, capacity, m_j));
                }
//@ before `{ let mut vx_it3 =`
                let ghost l2 = key_readdir.ents@;
                proof {
                    assert(items_bytes(items@) == 0);
                    // property-carrying (not a proof convenience): the key the list will be registered under is the one this directory's
                    // name decodes to, and the directory passed every check the specification asks for
                    /*@C12,C13,C19*/ assert(key_of(ek, pname) == Some(key));
                    /*@C12,C13,C19*/ assert(dir_items(ek, capacity) == key_items(l2, l2.len() as int, capacity));   // the listing scanned below is this directory's
                }
//@ loop 3
                    invariant
                        cap_ok(capacity), max_num_bytes == 2 * capacity,
                        l2.len() <= 0x10_0000, 0 <= i < 0x10_0000, 0 <= j < 0x10_0000,
                        key_items(l2, l2.len() as int, capacity).len() > 0 ==> (!h_j.contains_key(key) || h_j[key]@ =~= Seq::<CacheItem>::empty()),
                        vx_it3.ents@ == l2, 0 <= vx_it3.pos@ <= l2.len(), state@ == h_j,
                        /*@C13,C19,C12*/ items@ == key_items(l2, vx_it3.pos@, capacity),
                        /*@C13,C12*/ num_items as int == msum(h_j, false) + items@.len(),
                        /*@C13,C12*/ total_bytes as int == msum(h_j, true) + items_bytes(items@),
                        /*@AUX*/ total_bytes < max_num_bytes,
                        /*@AUX*/ num_items <= i * 0x100_0000_0000 + j * 0x10_0000 + vx_it3.pos@,
                    ensures /*@C13,C19,C12*/ vx_it3.pos@ == l2.len(),
//@ before `let cache_item = match try_parse_cache_file(item, capacity)`
                    proof { broadcast use axiom_key_model; }
//@ before `items.push(VerificationCell::new_unverified(cache_item));`
                    proof { lemma_bytes_push(items@, cache_item); }
//@ before `state.insert(key, items); return`
                        let ghost it0 = items;
                        proof {
                            lemma_key_items_mono(l2, vx_it3.pos@, l2.len() as int, capacity);
                            lemma_msum_insert(h_j, key, items, true); lemma_msum_insert(h_j, key, items, false);
                        }
//@ before `if !items.is_empty() {`
                let ghost it0 = items;
                proof {
                    lemma_msum_insert(h_j, key, items, true); lemma_msum_insert(h_j, key, items, false);
                    lemma_rep_insert(h_j, m_j, key, items);
                }
//@ end
}

} // verus!
fn main() {}
