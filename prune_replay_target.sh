#!/bin/bash
# prune_replay_target.sh — drop the build products of the workspace crates (one copy per scratch tree ever checked) from the witness
# crate's target directory; registry dependencies are kept, cargo rebuilds the rest on the next run. Run only when no check is running.
T=${VX_REPLAY_TARGET:-/verif/build/replay_target}/debug
[ -d $T ] || exit 0
rm -rf $T/incremental
for n in data mdb_shard merklehash merkledb chunk_cache cas_types cas_object cas_client utils deduplication xet_threadpool file_utils error_printer parutils progress_tracking xet_replay hub_client; do
  rm -f $T/deps/lib$n-* $T/deps/$n-* 2>/dev/null
  rm -rf $T/.fingerprint/$n-* 2>/dev/null
done
rm -f $T/deps/c[0-9][0-9]_* $T/c[0-9][0-9]_* 2>/dev/null
rm -rf $T/.fingerprint/xet_replay-* 2>/dev/null
find ${VX_REPLAY_TARGET:-/verif/build/replay_target} -maxdepth 1 -name "manifest-*" -mmin +120 -exec rm -rf {} + 2>/dev/null
du -sh ${VX_REPLAY_TARGET:-/verif/build/replay_target} | tail -1
