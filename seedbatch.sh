#!/bin/bash
# seedbatch.sh <ID>...   — run seedcheck for seeds under /tmp/seed/<ID>-out, inferring crate/test from the demo path; one summary per seed
for ID in "$@"; do
  SRC=/tmp/seed/$ID-out
  [ -f $SRC/meta.json ] || { echo "$ID: no meta.json"; continue; }
  T=$(cd $SRC/demo && find . -path "*/tests/*.rs" | head -1)
  CRATE=$(echo $T | cut -d/ -f2); NAME=$(basename $T .rs)
  PROP=$(python3 -c "import json;print(json.load(open('$SRC/meta.json'))['property'])")
  OUT=$(/verif/seedcheck.sh $ID $CRATE --test $NAME 2>&1)
  echo "$OUT" > /tmp/seed/$ID-check.log
  # validity of the seed
  A=$(echo "$OUT" | sed -n '/demo without patch/,/existing tests/p' | grep -c "test result: ok")
  B=$(echo "$OUT" | sed -n '/existing tests of/,/demo with patch/p' | grep -c "test result: ok")
  C=$(echo "$OUT" | sed -n '/demo with patch/,/our checks/p' | grep -c "test result: FAILED\|\.\.\. FAILED")
  RC=$(echo "$OUT" | grep "^rc=" | tail -1)
  W=$(echo "$OUT" | grep -c "^VIOLATION.*replay=[^ ]*$")
  FIRST=$(echo "$OUT" | grep "^failed obligation" | head -1 | cut -c1-220)
  echo "$ID prop=$PROP crate=$CRATE test=$NAME valid(demo-ok=$A existing-ok=$B demo-fails=$C) check:$RC with-witness-lines=$W :: $FIRST"
done
