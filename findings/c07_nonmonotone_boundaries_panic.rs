// Finding (C07 / range reader on unvalidated input): `CasObject::get_bytes_by_chunk_range` panics ("attempt to subtract with overflow",
// cas_object_format.rs, `vec![0u8; (end - byte_start) as usize]` in `get_range`) on a xorb whose footer has a NON-MONOTONE chunk boundary table.
// `CasObject::deserialize` (the footer parser) accepts such a footer: it checks idents, versions, table lengths and section offsets, not the
// order of the table entries.  Both VALIDATORS reject the same file (`validate_cas_object` -> Ok(None), `validate_cas_object_from_async_read`
// -> Ok(None)), so the panic is outside C08's "validators and footer parser"; it concerns the range reader when it is given an object that was
// parsed but not validated -- which is what `cas_client::LocalClient::get_object_range` / `get` / `get_length` do with the file on local disk
// (`CasObject::deserialize(&mut reader)?` followed by `get_bytes_by_chunk_range` / `get_all_bytes`).
//
// Copy to cas_object/tests/ and run `cargo test -p cas_object --test c07_nonmonotone_boundaries_panic`.
// Expected after a repair: all assertions hold.  Today (HEAD f189f65) the last one fails: the call panics (debug) / asks for ~4 GiB (release).
use std::io::Cursor;

use cas_object::*;
use merkledb::prelude::MerkleDBHighLevelMethodsV1;
use merkledb::{Chunk, MerkleMemDB};
use merklehash::compute_data_hash;

/// A complete xorb file: three real chunks (payload is valid), footer built like `CasObject::serialize` does, except that the chunk boundary
/// table is `boundaries`.  Returns (file bytes, xorb hash, true boundaries).
fn build_xorb(boundaries: Option<[u32; 3]>) -> (Vec<u8>, merklehash::MerkleHash, [u32; 3]) {
    let chunks_data: [Vec<u8>; 3] = [vec![1u8; 100], vec![2u8; 200], vec![3u8; 50]];
    let mut file = Vec::new();
    let mut info = CasObjectInfoV1::default();
    let mut chunks = Vec::new();
    let mut true_boundaries = [0u32; 3];
    let mut unpacked = 0u32;
    for (i, d) in chunks_data.iter().enumerate() {
        serialize_chunk(d, &mut file, Some(CompressionScheme::None)).unwrap();
        true_boundaries[i] = file.len() as u32;
        unpacked += d.len() as u32;
        info.unpacked_chunk_offsets.push(unpacked);
        let h = compute_data_hash(d);
        info.chunk_hashes.push(h);
        chunks.push(Chunk { hash: h, length: d.len() });
    }
    info.chunk_boundary_offsets = boundaries.unwrap_or(true_boundaries).to_vec();
    info.num_chunks = 3;
    let mut db = MerkleMemDB::default();
    let mut staging = db.start_insertion_staging();
    db.add_file(&mut staging, &chunks);
    let root = *db.finalize(staging).hash();
    info.cashash = root;
    info.fill_in_boundary_offsets();
    let mut c = Cursor::new(&mut file);
    c.set_position(c.get_ref().len() as u64);
    CasObject::serialize_given_info(&mut c, info).unwrap();
    (file, root, true_boundaries)
}

#[test]
fn sanity_valid_xorb_reads_back() {
    let (file, root, _) = build_xorb(None);
    assert!(CasObject::validate_cas_object(&mut Cursor::new(&file), &root).unwrap().is_some());
    let cas = CasObject::deserialize(&mut Cursor::new(&file)).unwrap();
    assert_eq!(cas.get_bytes_by_chunk_range(&mut Cursor::new(&file), 1, 2).unwrap(), vec![2u8; 200]);
}

#[test]
fn nonmonotone_boundary_table_must_not_panic() {
    // true boundaries are [108, 316, 374]; the footer says [200, 300, 100]: entry 2 is smaller than entries 0 and 1
    let (file, root, true_boundaries) = build_xorb(Some([200, 300, 100]));
    assert_eq!(true_boundaries, [108, 316, 374]);
    eprintln!("file: {} bytes", file.len());

    // 1. both validators reject the file (rejection, not an error, not a panic)
    assert!(CasObject::validate_cas_object(&mut Cursor::new(&file), &root).unwrap().is_none(), "seekable validator rejects");
    let streamed = futures::executor::block_on(validate_cas_object_from_async_read(&mut futures::io::Cursor::new(file.clone()), &root));
    assert!(streamed.unwrap().is_none(), "streaming validator rejects");

    // 2. the footer parser accepts it
    let cas = CasObject::deserialize(&mut Cursor::new(&file)).expect("footer parser accepts a non-monotone boundary table");
    assert_eq!(cas.info.chunk_boundary_offsets, vec![200, 300, 100]);

    // 3. the range reader on that parsed-but-unvalidated object: chunk range [1, 2) -> byte range [200, 300), clamped to the last boundary 100,
    //    then `100 - 200`.  Must be an error, must not panic.
    let r = std::panic::catch_unwind(|| cas.get_bytes_by_chunk_range(&mut Cursor::new(&file), 1, 2));
    assert!(r.is_ok(), "get_bytes_by_chunk_range PANICKED on a footer that CasObject::deserialize accepted");
    assert!(r.unwrap().is_err(), "a range that lies behind the last chunk boundary is an error");
}
