// C19 replay: a SafeFileCreator that is dropped before everything was written (early `?` return, or unwinding from a
// panic) renames its partially written temp file onto the FINAL name: `Drop::drop` calls `close`, and `close` renames.
use std::io::{self, Write};

use file_utils::SafeFileCreator;
use tempfile::tempdir;

fn list(dir: &std::path::Path) -> Vec<String> {
    let mut v: Vec<String> = std::fs::read_dir(dir)
        .unwrap()
        .map(|e| {
            let e = e.unwrap();
            format!("{} ({} bytes)", e.file_name().to_string_lossy(), e.metadata().unwrap().len())
        })
        .collect();
    v.sort();
    v
}

// the shape of chunk_cache::DiskCache::put_impl / LocalClient::put: create, write header, write data, close
fn writer_with_failure_between_the_two_writes(dest: &std::path::Path) -> io::Result<()> {
    let mut fw = SafeFileCreator::new(dest)?;
    fw.write_all(b"HEADER-")?;
    // the second write fails (ENOSPC, EIO, a serializer returning an error ...): the `?` returns, `fw` is dropped
    Err(io::Error::new(io::ErrorKind::Other, "simulated failure of the second write"))?;
    fw.write_all(b"PAYLOAD")?;
    fw.close()
}

#[test]
fn c19_early_return_leaves_partial_file_under_final_name() {
    let dir = tempdir().unwrap();
    let dest = dir.path().join("FINAL-NAME");
    let r = writer_with_failure_between_the_two_writes(&dest);
    assert!(r.is_err());
    println!("directory after the failed operation: {:?}", list(dir.path()));
    assert!(
        !dest.exists(),
        "a partial file is visible under the final name: {:?}",
        String::from_utf8_lossy(&std::fs::read(&dest).unwrap())
    );
}

#[test]
fn c19_panic_between_writes_leaves_partial_file_under_final_name() {
    let dir = tempdir().unwrap();
    let dest = dir.path().join("FINAL-NAME");
    let d2 = dest.clone();
    let r = std::panic::catch_unwind(move || {
        let mut fw = SafeFileCreator::new(&d2).unwrap();
        fw.write_all(b"HEADER-").unwrap();
        panic!("the process stops here (unwinding)");
        #[allow(unreachable_code)]
        {
            fw.write_all(b"PAYLOAD").unwrap();
            fw.close().unwrap();
        }
    });
    assert!(r.is_err());
    println!("directory after the panic: {:?}", list(dir.path()));
    assert!(
        !dest.exists(),
        "a partial file is visible under the final name: {:?}",
        String::from_utf8_lossy(&std::fs::read(&dest).unwrap())
    );
}
